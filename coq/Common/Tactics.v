(* Tactics.v — the header every proof file imports. *)
From Coq Require Export ZArith List Bool Lia ZifyBool.
Export ListNotations.
Ltac Zify.zify_post_hook ::= Z.to_euclidean_division_equations.

(* one destruct per [if] / [match] scrutinee, keeping the equation *)
Ltac destr_if :=
  match goal with
  | |- context [if ?b then _ else _] => destruct b eqn:?
  | H : context [if ?b then _ else _] |- _ => destruct b eqn:?
  end.
Ltac destr_match :=
  match goal with
  | |- context [match ?x with _ => _ end] => destruct x eqn:?
  | H : context [match ?x with _ => _ end] |- _ => destruct x eqn:?
  end.
Ltac inv H := inversion H; subst; clear H.

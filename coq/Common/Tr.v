(* Tr.v — the wire format shared by every model, the OCaml runner and the Python harness.
   A case and a result are both trees of integers.  Every model M exports
     M.run : tr -> tr      (decode the case, run the model, encode the outcome)
   so that the generic runner (ocaml/main.ml) and the vm_compute path (cases.v) need no
   per-model glue.  Strings are lists of code points; constructors are small integer tags. *)
From Coq Require Import ZArith List Bool.
Import ListNotations.
Local Open Scope Z_scope.

Inductive tr : Type := I (z : Z) | L (l : list tr).

Fixpoint tr_eqb (a b : tr) {struct a} : bool :=
  match a, b with
  | I x, I y => Z.eqb x y
  | L xs, L ys =>
      (fix go (xs ys : list tr) {struct xs} : bool :=
         match xs, ys with
         | [], [] => true
         | x :: xs', y :: ys' => tr_eqb x y && go xs' ys'
         | _, _ => false
         end) xs ys
  | _, _ => false
  end.

(* --- encoders ------------------------------------------------------------------------- *)
Definition eZ (z : Z) : tr := I z.
Definition eN (n : N) : tr := I (Z.of_N n).
Definition enat (n : nat) : tr := I (Z.of_nat n).
Definition ebool (b : bool) : tr := I (if b then 1 else 0).
Definition elist {A} (f : A -> tr) (l : list A) : tr := L (map f l).
Definition estr (s : list N) : tr := L (map eN s).
Definition eopt {A} (f : A -> tr) (o : option A) : tr :=
  match o with None => L [] | Some a => L [f a] end.
Definition epair {A B} (f : A -> tr) (g : B -> tr) (p : A * B) : tr := L [f (fst p); g (snd p)].
(* a tagged node: (tag child1 child2 ...) *)
Definition etag (t : Z) (kids : list tr) : tr := L (I t :: kids).
(* the error outcome every model uses for an undecodable case: (-1) *)
Definition ebad : tr := L [I (-1)].

(* --- decoders (option monad) ---------------------------------------------------------- *)
Definition dZ (t : tr) : option Z := match t with I z => Some z | _ => None end.
Definition dN (t : tr) : option N :=
  match t with I z => if Z.ltb z 0 then None else Some (Z.to_N z) | _ => None end.
Definition dnat (t : tr) : option nat :=
  match t with I z => if Z.ltb z 0 then None else Some (Z.to_nat z) | _ => None end.
Definition dbool (t : tr) : option bool :=
  match t with I 0 => Some false | I 1 => Some true | _ => None end.
Fixpoint dall {A} (f : tr -> option A) (l : list tr) : option (list A) :=
  match l with
  | [] => Some []
  | x :: r => match f x, dall f r with Some a, Some as_ => Some (a :: as_) | _, _ => None end
  end.
Definition dlist {A} (f : tr -> option A) (t : tr) : option (list A) :=
  match t with L l => dall f l | _ => None end.
Definition dstr (t : tr) : option (list N) := dlist dN t.
Definition dopt {A} (f : tr -> option A) (t : tr) : option (option A) :=
  match t with
  | L [] => Some None
  | L [x] => match f x with Some a => Some (Some a) | None => None end
  | _ => None
  end.
Definition dpair {A B} (f : tr -> option A) (g : tr -> option B) (t : tr) : option (A * B) :=
  match t with
  | L [x; y] => match f x, g y with Some a, Some b => Some (a, b) | _, _ => None end
  | _ => None
  end.
(* split a tagged node *)
Definition dtag (t : tr) : option (Z * list tr) :=
  match t with L (I z :: kids) => Some (z, kids) | _ => None end.

Notation "'do' x <- e ; k" := (match e with Some x => k | None => None end)
  (at level 200, x pattern, e at level 100, k at level 200, only parsing).

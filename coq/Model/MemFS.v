(* MemFS.v — model of pyglove's in-memory file system (io/file_system.py: MemoryFileSystem,
   MemoryFile, the file API readfile / writefile / rm / mkdirs / path_exists / listdir / isdir), of
   pg.save / pg.load on it (symbolic/base.py default_save_handler / default_load_handler) and of
   line-based record sequences on it (io/sequence.py LineSequence).  Definitions only.

   Paths are the raw strings the API receives (lists of code points); [internal_path], [components]
   and [rsplit] follow the string code of the implementation (_internal_path, _locate,
   _parent_and_name).  Every operation of the model is one complete API call (open .. close), so a
   MemoryFile's position is 0 between operations and is not part of the state. *)
From Coq Require Import ZArith NArith List Bool.
Import ListNotations.
From PG Require Import Common.Tr Model.Json.
Local Open Scope N_scope.

Inductive node : Type :=
| NFile (content : str)
| NDir (entries : list (str * node)).        (* a Python dict: insertion order *)

Inductive ferr : Type :=
| FNotFound | FIsDir | FNotDir | FExists | FTypeError | FAttrError | FAssertion | FUnrouted | FNotEmpty.
Inductive fres (A : Type) : Type := FOk (a : A) | FErr (e : ferr).
Arguments FOk {A} a.
Arguments FErr {A} e.

(* --- path strings -------------------------------------------------------------------------- *)
Definition c_slash : N := 47.
Definition s_mem : str := [47; 109; 101; 109].          (* "/mem" = prefix.rstrip('/') *)
Definition s_mem_slash : str := [47; 109; 101; 109; 47]. (* "/mem/" the registered prefix *)

(* the file-system registry routes a path to the memory file system iff it starts with "/mem/" *)
Definition routed (p : str) : bool :=
  match strip_prefix s_mem_slash p with Some _ => true | None => false end.

(* _internal_path without the leading-slash normalisation (components skip empty parts anyway) *)
Definition internal_path (p : str) : str :=
  if str_eqb p s_mem then []
  else match strip_prefix s_mem_slash p with
       | Some r => c_slash :: r
       | None => p
       end.

(* s.split('/') *)
Fixpoint split_slash (s : str) : list str :=
  match s with
  | [] => [[]]
  | c :: r =>
      if N.eqb c c_slash then [] :: split_slash r
      else match split_slash r with
           | [] => [[c]]
           | h :: t => (c :: h) :: t
           end
  end.
Definition nonempty (s : str) : bool := match s with [] => false | _ => true end.
(* the path components _locate / mkdirs walk over *)
Definition components (p : str) : list str := filter nonempty (split_slash (internal_path p)).

(* rpos = s.rfind('/') : Some (s[:rpos], s[rpos+1:]) *)
Fixpoint rsplit (s : str) : option (str * str) :=
  match s with
  | [] => None
  | c :: r =>
      match rsplit r with
      | Some (h, t) => Some (c :: h, t)
      | None => if N.eqb c c_slash then Some ([], r) else None
      end
  end.

(* os.path.dirname: head up to and including the last slash, trailing slashes removed unless the head
   consists of slashes only *)
Fixpoint rstrip_slash (s : str) : str :=
  match s with
  | [] => []
  | c :: r => match rstrip_slash r with
              | [] => if N.eqb c c_slash then [] else [c]
              | r' => c :: r'
              end
  end.
Definition dirname (p : str) : str :=
  match rsplit p with
  | None => []
  | Some (h, _) =>
      let head := h ++ [c_slash] in
      match rstrip_slash head with
      | [] => head
      | h' => h'
      end
  end.

(* --- dict operations on directory entries ---------------------------------------------------- *)
Fixpoint alookup (k : str) (es : list (str * node)) : option node :=
  match es with
  | [] => None
  | (k', n) :: r => if str_eqb k k' then Some n else alookup k r
  end.
Fixpoint aset (k : str) (n : node) (es : list (str * node)) : list (str * node) :=
  match es with
  | [] => [(k, n)]
  | (k', n') :: r => if str_eqb k k' then (k', n) :: r else (k', n') :: aset k n r
  end.
Fixpoint aremove (k : str) (es : list (str * node)) : list (str * node) :=
  match es with
  | [] => []
  | (k', n') :: r => if str_eqb k k' then r else (k', n') :: aremove k r
  end.

(* --- _locate -------------------------------------------------------------------------------- *)
Inductive lres : Type := LFound (n : node) | LNone | LCrash.   (* LCrash: `x not in <MemoryFile>` raises TypeError *)
Fixpoint locate (n : node) (cs : list str) : lres :=
  match cs with
  | [] => LFound n
  | c :: r =>
      match n with
      | NDir es => match alookup c es with Some ch => locate ch r | None => LNone end
      | NFile _ => LCrash
      end
  end.

(* replace the entries of the directory reached by cs *)
Fixpoint upd_dir (f : list (str * node) -> list (str * node)) (n : node) (cs : list str) : node :=
  match cs with
  | [] => match n with NDir es => NDir (f es) | NFile _ => n end
  | c :: r =>
      match n with
      | NDir es => match alookup c es with
                   | Some ch => NDir (aset c (upd_dir f ch r) es)
                   | None => n
                   end
      | NFile _ => n
      end
  end.
(* replace the content of the file reached by cs *)
Fixpoint upd_file (f : str -> str) (n : node) (cs : list str) : node :=
  match cs with
  | [] => match n with NFile c => NFile (f c) | NDir _ => n end
  | c :: r =>
      match n with
      | NDir es => match alookup c es with
                   | Some ch => NDir (aset c (upd_file f ch r) es)
                   | None => n
                   end
      | NFile _ => n
      end
  end.

(* _parent_and_name: Ok (components of path[:rpos], name) after checking that the parent exists *)
Definition parent_and_name (root : node) (p : str) : fres (list str * node * str) :=
  match rsplit p with
  | None => FErr FAssertion                          (* assert rpos >= 0 *)
  | Some (h, name) =>
      match locate root (components h) with
      | LCrash => FErr FTypeError
      | LNone => FErr FNotFound
      | LFound par => FOk (components h, par, name)
      end
  end.

(* StringIO.write at position 0 without truncation *)
Fixpoint overwrite (old new : str) : str :=
  match new with
  | [] => old
  | c :: r => c :: overwrite (tl old) r
  end.

(* --- the API ---------------------------------------------------------------------------------- *)
Record mode : Type := { m_r : bool; m_w : bool; m_a : bool }.   (* 'r' in mode, 'w' in mode, 'a' in mode *)

(* open(path, mode); write(content); close()  — also what writefile does (chmod is a no-op) *)
Definition write_file (root : node) (p : str) (m : mode) (content : str) : fres node :=
  let cs := components p in
  match locate root cs with
  | LCrash => FErr FTypeError
  | LFound (NDir _) => FErr FIsDir
  | (LFound (NFile _) | LNone) as found =>
      let existing := match found with LFound _ => true | _ => false end in
      let plain :=                      (* no new buffer: the existing file is written from position 0 / its end *)
        if existing then FOk (upd_file (fun old => if m_a m then old ++ content else overwrite old content) root cs)
        else FErr FNotFound in
      if m_w m || (m_a m && negb existing) then
        match parent_and_name root p with
        | FErr e => FErr e
        | FOk (pcs, NDir _, name) =>
            FOk (upd_dir (aset name (NFile content)) root pcs)
        | FOk (_, NFile _, _) => plain
        end
      else plain
  end.

Definition read_file (root : node) (p : str) : fres str :=
  match locate root (components p) with
  | LCrash => FErr FTypeError
  | LFound (NDir _) => FErr FIsDir
  | LNone => FErr FNotFound
  | LFound (NFile c) => FOk c
  end.

Definition rm (root : node) (p : str) : fres node :=
  match parent_and_name root p with
  | FErr e => FErr e
  | FOk (_, NFile _, _) => FErr FAttrError             (* MemoryFile has no .get *)
  | FOk (pcs, NDir es, name) =>
      match alookup name es with
      | None => FErr FNotFound
      | Some (NDir _) => FErr FIsDir
      | Some (NFile _) => FOk (upd_dir (aremove name) root pcs)
      end
  end.

Fixpoint mkchain (cs : list str) : node :=
  match cs with
  | [] => NDir []
  | c :: r => NDir [(c, mkchain r)]
  end.
(* mkdirs(path, exist_ok=True) *)
Fixpoint mkdirs_at (n : node) (cs : list str) : fres node :=
  match cs with
  | [] => FOk n
  | c :: r =>
      match n with
      | NFile _ => FErr FNotDir
      | NDir es =>
          match alookup c es with
          | None => FOk (NDir (es ++ [(c, mkchain r)]))
          | Some (NFile _) => FErr FNotDir
          | Some ch => match mkdirs_at ch r with
                       | FOk ch' => FOk (NDir (aset c ch' es))
                       | FErr e => FErr e
                       end
          end
      end
  end.
Definition mkdirs (root : node) (p : str) : fres node := mkdirs_at root (components p).

(* mkdir(path): one new directory under an existing parent; a trailing slash names the same directory
   (stripped = path.rstrip('/'); used unless it is empty or the prefix itself) *)
Definition mkdir_path (p : str) : str :=
  let s := rstrip_slash p in
  if nonempty s && negb (str_eqb s s_mem) then s else p.
Definition mkdir (root : node) (p0 : str) : fres node :=
  let p := mkdir_path p0 in
  match parent_and_name root p with
  | FErr e => FErr e
  | FOk (_, NFile _, _) => FErr FTypeError                (* `name in <MemoryFile>` *)
  | FOk (pcs, NDir es, name) =>
      match alookup name es with
      | Some _ => FErr FExists
      | None => FOk (upd_dir (aset name (NDir [])) root pcs)
      end
  end.
(* rmdir(path): an empty directory *)
Definition rmdir (root : node) (p0 : str) : fres node :=
  let p := mkdir_path p0 in
  match parent_and_name root p with
  | FErr e => FErr e
  | FOk (_, NFile _, _) => FErr FAttrError
  | FOk (pcs, NDir es, name) =>
      match alookup name es with
      | None => FErr FNotFound
      | Some (NFile _) => FErr FNotDir
      | Some (NDir []) => FOk (upd_dir (aremove name) root pcs)
      | Some (NDir _) => FErr FNotEmpty                 (* OSError: Directory not empty *)
      end
  end.
(* rmdirs(path): the empty directory and then every parent that became empty; (new node, is it empty now) *)
Definition is_empty_dir (n : node) : bool := match n with NDir [] => true | _ => false end.
Fixpoint rmdirs_at (n : node) (cs : list str) : fres (node * bool) :=
  match cs with
  | [] => if is_empty_dir n then FOk (n, true) else FErr FNotEmpty
  | c :: r =>
      match n with
      | NFile _ => FErr FNotDir
      | NDir es =>
          match alookup c es with
          | None => FErr FNotFound
          | Some (NFile _) => FErr FNotDir
          | Some ch =>
              match rmdirs_at ch r with
              | FErr e => FErr e
              | FOk (ch', true) => let es' := aremove c es in FOk (NDir es', is_empty_dir (NDir es'))
              | FOk (ch', false) => FOk (NDir (aset c ch' es), false)
              end
          end
      end
  end.
Definition rmdirs (root : node) (p : str) : fres node :=
  match rmdirs_at root (components p) with FOk (r, _) => FOk r | FErr e => FErr e end.

Definition exists_ (root : node) (p : str) : fres bool :=
  match locate root (components p) with
  | LCrash => FErr FTypeError
  | LNone => FOk false
  | LFound _ => FOk true
  end.
Definition isdir (root : node) (p : str) : fres bool :=
  match locate root (components p) with
  | LCrash => FErr FTypeError
  | LFound (NDir _) => FOk true
  | _ => FOk false
  end.
Definition listdir (root : node) (p : str) : fres (list str) :=
  match locate root (components p) with
  | LCrash => FErr FTypeError
  | LFound (NDir es) => FOk (map fst es)
  | _ => FErr FNotFound
  end.

(* default_save_handler: mkdirs(os.path.dirname(path)) when that is not empty, then writefile.
   A parent that the registry does not route to the memory file system ("/mem" itself) goes to the
   standard file system and leaves this state alone. *)
Definition mk_parent (root : node) (p : str) : fres node :=
  let d := dirname p in
  match d with
  | [] => FOk root
  | _ => if routed d then mkdirs root d else FOk root
  end.
Definition w_mode : mode := {| m_r := false; m_w := true; m_a := false |}.
Definition a_mode : mode := {| m_r := false; m_w := false; m_a := true |}.
(* a failing write leaves the directories mkdirs has just created *)
Definition save_text (root : node) (p : str) (content : str) : node * fres unit :=
  match mk_parent root p with
  | FErr e => (root, FErr e)
  | FOk root' => match write_file root' p w_mode content with
                 | FOk root'' => (root'', FOk tt)
                 | FErr e => (root', FErr e)
                 end
  end.

(* --- line sequences (LineSequence over this file system) ------------------------------------- *)
Definition c_nl : N := 10.
Fixpoint rstrip_nl (s : str) : str :=
  match s with
  | [] => []
  | c :: r => match rstrip_nl r with
              | [] => if N.eqb c c_nl then [] else [c]
              | r' => c :: r'
              end
  end.
Definition line_bytes (records : list str) : str :=
  concat (map (fun r => rstrip_nl r ++ [c_nl]) records).
(* readline() until '' ; each line.rstrip('\n') *)
Fixpoint lines (s : str) : list str :=
  match s with
  | [] => []
  | c :: r =>
      if N.eqb c c_nl then [] :: lines r
      else match lines r with
           | [] => [[c]]
           | h :: t => (c :: h) :: t
           end
  end.
(* open_sequence(path, 'w' | 'a'); add each record; close *)
Definition seq_write (root : node) (p : str) (m : mode) (records : list str) : node * fres unit :=
  match mk_parent root p with
  | FErr e => (root, FErr e)
  | FOk root' => match write_file root' p m (line_bytes records) with
                 | FOk root'' => (root'', FOk tt)
                 | FErr e => (root', FErr e)
                 end
  end.
Definition seq_read (root : node) (p : str) : fres (list str) :=
  match read_file root p with
  | FErr e => FErr e
  | FOk c => FOk (lines c)
  end.

(* --- histories ---------------------------------------------------------------------------------- *)
Inductive op : Type :=
| OSave (p content : str)                 (* pg.save with the text to_json_str produced *)
| ORead (p : str)                         (* readfile / the text pg.load parses *)
| ORm (p : str)
| OMkdirs (p : str)
| OExists (p : str)
| OListdir (p : str)
| OIsdir (p : str)
| OWrite (p : str) (m : mode) (content : str)          (* writefile(path, content, mode=...) *)
| OSeqWrite (p : str) (m : mode) (records : list str)  (* open_sequence(path, mode) + add* + close *)
| OSeqRead (p : str)                                   (* list(iter(open_sequence(path))) *)
| OMkdir (p : str)
| ORmdir (p : str)
| ORmdirs (p : str).

Inductive outcome : Type :=
| RUnit | RText (s : str) | RBool (b : bool) | RNames (l : list str) | RErr (e : ferr).

Definition op_path (o : op) : str :=
  match o with
  | OSave p _ | ORead p | ORm p | OMkdirs p | OExists p | OListdir p | OIsdir p | OWrite p _ _
  | OSeqWrite p _ _ | OSeqRead p | OMkdir p | ORmdir p | ORmdirs p => p
  end.

Definition upd (root : node) (r : fres node) : node * outcome :=
  match r with FOk root' => (root', RUnit) | FErr e => (root, RErr e) end.
Definition upd2 (r : node * fres unit) : node * outcome :=
  match r with (root', FOk _) => (root', RUnit) | (root', FErr e) => (root', RErr e) end.
Definition obs {A} (root : node) (f : A -> outcome) (r : fres A) : node * outcome :=
  match r with FOk a => (root, f a) | FErr e => (root, RErr e) end.

Definition step (root : node) (o : op) : node * outcome :=
  if negb (routed (op_path o)) then (root, RErr FUnrouted) else
  match o with
  | OSave p c => upd2 (save_text root p c)
  | ORead p => obs root RText (read_file root p)
  | ORm p => upd root (rm root p)
  | OMkdirs p => upd root (mkdirs root p)
  | OExists p => obs root RBool (exists_ root p)
  | OListdir p => obs root RNames (listdir root p)
  | OIsdir p => obs root RBool (isdir root p)
  | OWrite p m c => upd root (write_file root p m c)
  | OSeqWrite p m rs => upd2 (seq_write root p m rs)
  | OSeqRead p => obs root RNames (seq_read root p)
  | OMkdir p => upd root (mkdir root p)
  | ORmdir p => upd root (rmdir root p)
  | ORmdirs p => upd root (rmdirs root p)
  end.

Fixpoint run_trace (root : node) (h : list op) : node * list outcome :=
  match h with
  | [] => (root, [])
  | o :: r => let (root', out) := step root o in
              let (root'', outs) := run_trace root' r in
              (root'', out :: outs)
  end.
Definition run_fs (root : node) (h : list op) : node := fst (run_trace root h).
Definition empty_fs : node := NDir [].

(* --- wire format ------------------------------------------------------------------------------
   op      ::= (0 path text) | (1 path) | (2 path) | (3 path) | (4 path) | (5 path) | (6 path)
             | (7 path modebits text) | (8 path modebits (text ...)) | (9 path) | (10 path) mkdir | (11 path) rmdir | (12 path) rmdirs      modebits: r=1 w=2 a=4
   outcome ::= (0) | (1 text) | (2 b) | (3 (name ...)) | (9 errcode)
   node    ::= (0 text) | (1 ((name node) ...))
   case    ::= (op ...)           ->  ((outcome ...) node)  from the empty file system *)
Definition d_mode (t : tr) : option mode :=
  match t with
  | I z => Some {| m_r := Z.testbit z 0; m_w := Z.testbit z 1; m_a := Z.testbit z 2 |}
  | _ => None
  end.
Definition d_op (t : tr) : option op :=
  match t with
  | L [I 0%Z; p; c] => do p' <- dstr p; do c' <- dstr c; Some (OSave p' c')
  | L [I 1%Z; p] => option_map ORead (dstr p)
  | L [I 2%Z; p] => option_map ORm (dstr p)
  | L [I 3%Z; p] => option_map OMkdirs (dstr p)
  | L [I 4%Z; p] => option_map OExists (dstr p)
  | L [I 5%Z; p] => option_map OListdir (dstr p)
  | L [I 6%Z; p] => option_map OIsdir (dstr p)
  | L [I 7%Z; p; m; c] => do p' <- dstr p; do m' <- d_mode m; do c' <- dstr c; Some (OWrite p' m' c')
  | L [I 8%Z; p; m; rs] => do p' <- dstr p; do m' <- d_mode m; do rs' <- dlist dstr rs; Some (OSeqWrite p' m' rs')
  | L [I 9%Z; p] => option_map OSeqRead (dstr p)
  | L [I 10%Z; p] => option_map OMkdir (dstr p)
  | L [I 11%Z; p] => option_map ORmdir (dstr p)
  | L [I 12%Z; p] => option_map ORmdirs (dstr p)
  | _ => None
  end.
Definition e_ferr (e : ferr) : tr :=
  match e with
  | FNotFound => I 1%Z | FIsDir => I 2%Z | FNotDir => I 3%Z | FExists => I 4%Z | FTypeError => I 5%Z
  | FAttrError => I 6%Z | FAssertion => I 7%Z | FUnrouted => I 8%Z | FNotEmpty => I 10%Z
  end.
Definition e_outcome (o : outcome) : tr :=
  match o with
  | RUnit => L [I 0%Z]
  | RText s => L [I 1%Z; estr s]
  | RBool b => L [I 2%Z; ebool b]
  | RNames l => L [I 3%Z; elist estr l]
  | RErr e => L [I 9%Z; e_ferr e]
  end.
Fixpoint e_node (n : node) : tr :=
  match n with
  | NFile c => L [I 0%Z; estr c]
  | NDir es => L [I 1%Z; L (map (fun kn => L [estr (fst kn); e_node (snd kn)]) es)]
  end.
Definition run_memfs (c : tr) : tr :=
  match dlist d_op c with
  | Some h => let (root, outs) := run_trace empty_fs h in L [elist e_outcome outs; e_node root]
  | None => ebad
  end.

(* --- specification vocabulary (used by the theorems of Properties/C05.v) ------------------------- *)
(* the text stored at a component path, if a file is there *)
Definition file_at (root : node) (cs : list str) : option str :=
  match locate root cs with LFound (NFile c) => Some c | _ => None end.

(* Python dicts have distinct keys *)
Fixpoint names_nodup (es : list (str * node)) : bool :=
  match es with
  | [] => true
  | (k, _) :: r => match alookup k r with None => true | Some _ => false end && names_nodup r
  end.
Fixpoint wf_node (n : node) : bool :=
  match n with
  | NFile _ => true
  | NDir es => names_nodup es && forallb (fun kn => wf_node (snd kn)) es
  end.

(* the abstract file system: component path -> text, updated by the operations that reported success *)
Definition amap := list str -> option str.
Definition aupd (a : amap) (cs : list str) (v : option str) : amap :=
  fun cs' => if strs_eqb cs' cs then v else a cs'.
Definition slashed (p : str) : bool := match rsplit p with Some (_, []) => true | _ => false end.
(* what a successful write leaves in the file *)
Definition new_content (p : str) (m : mode) (c : str) (old : option str) : str :=
  match old with
  | None => c
  | Some o => if m_w m && negb (slashed p) then c else if m_a m then o ++ c else overwrite o c
  end.
(* rm removes the entry path[rpos+1:] of the directory path[:rpos] *)
Definition rm_target (p : str) : list str :=
  match rsplit p with Some (h, name) => components h ++ [name] | None => [] end.
Definition astep (a : amap) (o : op) (out : outcome) : amap :=
  match out with
  | RUnit =>
      match o with
      | OSave p c => aupd a (components p) (Some (new_content p w_mode c (a (components p))))
      | OWrite p m c => aupd a (components p) (Some (new_content p m c (a (components p))))
      | OSeqWrite p m rs => aupd a (components p) (Some (new_content p m (line_bytes rs) (a (components p))))
      | ORm p => aupd a (rm_target p) None
      | _ => a
      end
  | _ => a
  end.
Fixpoint arun (a : amap) (h : list op) (outs : list outcome) : amap :=
  match h, outs with
  | o :: h', out :: outs' => arun (astep a o out) h' outs'
  | _, _ => a
  end.

(* the trace of a history: every operation with the outcome it reported *)
Definition trace_of (root : node) (h : list op) : list (op * outcome) := combine h (snd (run_trace root h)).
Definition afold (a : amap) (t : list (op * outcome)) : amap :=
  fold_left (fun a x => astep a (fst x) (snd x)) t a.

(* the operations that can change the text at component path cs *)
Definition touches (o : op) (cs : list str) : Prop :=
  match o with
  | OSave p _ | OWrite p _ _ | OSeqWrite p _ _ => components p = cs
  | ORm p => rm_target p = cs
  | _ => False
  end.

(* the records a line sequence at cs holds, read off the trace *)
Inductive tracked : Type := TAbsent | TRecords (rs : list str) | TOther.
Definition track_step (cs : list str) (t : tracked) (x : op * outcome) : tracked :=
  match snd x with
  | RUnit =>
      match fst x with
      | OSeqWrite p m rs =>
          if strs_eqb (components p) cs then
            match t with
            | TAbsent => TRecords rs
            | TRecords r0 => if m_w m && negb (slashed p) then TRecords rs
                             else if m_a m then TRecords (r0 ++ rs) else TOther
            | TOther => if m_w m && negb (slashed p) then TRecords rs else TOther
            end
          else t
      | OSave p _ | OWrite p _ _ => if strs_eqb (components p) cs then TOther else t
      | ORm p => if strs_eqb (rm_target p) cs then TAbsent else t
      | _ => t
      end
  | _ => t
  end.
Definition track (cs : list str) (t : list (op * outcome)) : tracked := fold_left (track_step cs) t TAbsent.
Definition no_nl (r : str) : bool := negb (existsb (N.eqb c_nl) r).

(* pg.save / pg.load of values: the serializer (to_json_str) and deserializer (from_json_str) are parameters *)
Section SaveLoad.
  Variable V : Type.
  Variable ser : V -> str.
  Variable deser : str -> result V.
  Definition pg_save_op (p : str) (v : V) : op := OSave p (ser v).
  Definition pg_load (root : node) (p : str) : fres (result V) :=
    match read_file root p with
    | FOk t => FOk (deser t)
    | FErr e => FErr e
    end.
End SaveLoad.

(* --- the pure form: histories over a prefix-free family of paths ---------------------------------------
   When no path of the family runs through another one, every save succeeds and what is read is a function
   of the history alone. *)
Definition is_dir_at (root : node) (cs : list str) : bool :=
  match locate root cs with LFound (NDir _) => true | _ => false end.
Definition family_ok (F : list str) : Prop :=
  (forall p, In p F -> routed p = true /\ slashed p = false /\ rsplit p <> None) /\
  (forall p p' suf, In p F -> In p' F -> components p' = components p ++ suf -> suf = []).
Definition family_op (F : list str) (o : op) : Prop :=
  match o with
  | OSave p _ | ORm p => In p F
  | ORead _ | OExists _ | OListdir _ | OIsdir _ | OSeqRead _ => True
  | OMkdirs _ | OWrite _ _ _ | OSeqWrite _ _ _ | OMkdir _ | ORmdir _ | ORmdirs _ => False
  end.
Definition pure_step (a : amap) (o : op) : amap :=
  match o with
  | OSave p c => aupd a (components p) (Some c)
  | ORm p => aupd a (components p) None
  | _ => a
  end.
Definition last_saved (h : list op) : amap := fold_left pure_step h (fun _ => None).

(* KeyPathDigits.v — the code points for which Python str.isdigit() is true (Unicode 15.0.0, CPython 3.12):
   [dec_starts]: first code point of every run of ten decimal digits 0..9 (category Nd; int() accepts them),
   [digit_only]: inclusive ranges that are digits but not decimals (superscripts, circled digits ...; int() rejects them).
   The harness re-derives both lists from the running interpreter on every run and compares (harness/props/c10.py). Definitions only. *)
From Coq Require Import NArith List.
Import ListNotations.
Local Open Scope N_scope.

Definition dec_starts : list N :=
  [ 48; 1632; 1776; 1984; 2406; 2534; 2662; 2790; 2918; 3046;
    3174; 3302; 3430; 3558; 3664; 3792; 3872; 4160; 4240; 6112;
    6160; 6470; 6608; 6784; 6800; 6992; 7088; 7232; 7248; 42528;
    43216; 43264; 43472; 43504; 43600; 44016; 65296; 66720; 68912; 69734;
    69872; 69942; 70096; 70384; 70736; 70864; 71248; 71360; 71472; 71904;
    72016; 72784; 73040; 73120; 73552; 92768; 92864; 93008; 120782; 120792;
    120802; 120812; 120822; 123200; 123632; 124144; 125264; 130032 ].

Definition digit_only : list (N * N) :=
  [ (178, 179); (185, 185); (4969, 4977); (6618, 6618); (8304, 8304); (8308, 8313);
    (8320, 8329); (9312, 9320); (9332, 9340); (9352, 9360); (9450, 9450); (9461, 9469);
    (9471, 9471); (10102, 10110); (10112, 10120); (10122, 10130); (68160, 68163); (69216, 69224);
    (69714, 69722); (127232, 127242) ].

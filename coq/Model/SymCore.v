(* SymCore.v — wire format of the SymCore model: run : tr -> tr decodes a case, runs it and prints the
   initial snapshot and, for every step, the outcome and the snapshot of the whole forest.
   The grammar is documented in harness/props/symcore_driver.py (the implementation prints the same).   *)
From Coq Require Import ZArith NArith List Bool.
Import ListNotations.
From PG Require Import Common.Tr.
From PG Require Export Model.SymCoreDefs Model.SymCoreOps.
Local Open Scope Z_scope.

(* --- decoding -------------------------------------------------------------------------------------- *)
Definition d_key (t : tr) : option key :=
  match t with
  | L (I 0 :: cs) => do s <- dall dN cs; Some (KS s)
  | L [I 1; I z] => Some (KI z)
  | _ => None
  end.
Definition d_leaf (t : tr) : option leaf :=
  match t with
  | L [I 0] => Some LNone
  | L [I 1; b] => do b' <- dbool b; Some (LBool b')
  | L [I 2; I z] => Some (LInt z)
  | L (I 3 :: cs) => do s <- dall dN cs; Some (LStr s)
  | L [I 4] => Some LMissing
  | L [I 5; o; g] => do o' <- dN o; do g' <- dN g; Some (LOpq (2 * o') g')   (* identities of copies are odd, see clone_leaf *)
  | L [I 9] => Some LJunk
  | _ => None
  end.
Definition d_flags (t : tr) : option flags :=
  match t with
  | L [a; b; c] => do a' <- dbool a; do b' <- dbool b; do c' <- dbool c; Some (mkFlags a' b' c' 0)
  | L [a; b; c; s] => do a' <- dbool a; do b' <- dbool b; do c' <- dbool c; do s' <- dN s; Some (mkFlags a' b' c' s')
  | _ => None
  end.
Definition d_kind (t : tr) : option kind :=
  match t with
  | I 0 => Some KDict
  | I 1 => Some KList
  | I z => if z <? 2 then None else Some (KObj (Z.to_N (z - 2)))
  | _ => None
  end.
Fixpoint d_lit (fuel : nat) (t : tr) : option lit :=
  match fuel with
  | O => None
  | S f =>
      match t with
      | L [I 0; lf] => do l <- d_leaf lf; Some (LitLeaf l)
      | L [I 1; kd; fl; pl; L its] =>
          do k <- d_kind kd; do fg <- d_flags fl; do p <- dbool pl;
          do its' <- dall (fun kv => match kv with
                                     | L [kk; vv] => do k' <- d_key kk; do v' <- d_lit f vv; Some (k', v')
                                     | _ => None
                                     end) its;
          Some (LitNode k fg p its')
      | _ => None
      end
  end.
Definition d_keys (t : tr) : option (list key) := dlist d_key t.
Definition d_pos (r ks : tr) : option pos := do r' <- dnat r; do ks' <- d_keys ks; Some (r', ks').
Fixpoint d_value (fuel : nat) (t : tr) : option value :=
  match fuel with
  | O => None
  | S f =>
      match t with
      | L [I 0; lt] => do l <- d_lit 64 lt; Some (VLit l)
      | L [I 1; r; ks] => do p <- d_pos r ks; Some (VRef p)
      | L [I 2; v] => do v' <- d_value f v; Some (VIns v')
      | _ => None
      end
  end.
Definition d_val : tr -> option value := d_value 8.
Definition d_ob (t : tr) : option (option bool) := dopt dbool t.
Definition d_scope (t : tr) : option scope :=
  match t with
  | L [a; b; c; d] =>
      do a' <- dlist d_ob a; do b' <- dlist d_ob b; do c' <- dlist dbool c; do d' <- dlist d_ob d;
      Some (mkScope a' b' c' d')
  | _ => None
  end.
Definition d_kv (t : tr) : option (key * value) :=
  match t with L [k; v] => do k' <- d_key k; do v' <- d_val v; Some (k', v') | _ => None end.
Definition d_pv (t : tr) : option (list key * value) :=
  match t with L [p; v] => do p' <- d_keys p; do v' <- d_val v; Some (p', v') | _ => None end.
Definition d_op (tag : Z) (args : list tr) : option (op value) :=
  match tag, args with
  | 1, [I i; v] => do v' <- d_val v; Some (LSet i v')
  | 2, [I i] => Some (LDel i)
  | 3, [v] => do v' <- d_val v; Some (LAppend v')
  | 4, [I i; v] => do v' <- d_val v; Some (LInsert i v')
  | 5, [vs] => do vs' <- dlist d_val vs; Some (LExtend vs')
  | 6, [oi] => do oi' <- dopt dZ oi; Some (LPop oi')
  | 7, [l] => do l' <- d_leaf l; Some (LRemove l')
  | 8, [] => Some LClear
  | 9, [] => Some LReverse
  | 10, [ks; b] => do ks' <- dlist dZ ks; do b' <- dbool b; Some (LSort ks' b')
  | 11, [vs] => do vs' <- dlist d_val vs; Some (LIAdd vs')
  | 12, [I n] => Some (LIMul n)
  | 13, [vs] => do vs' <- dlist d_val vs; Some (LAdd vs')
  | 14, [I n] => Some (LMul n)
  | 15, [] => Some LCopy
  | 20, [a; k; v] => do a' <- dbool a; do k' <- d_key k; do v' <- d_val v; Some (DSet a' k' v')
  | 21, [a; k] => do a' <- dbool a; do k' <- d_key k; Some (DDel a' k')
  | 22, [k; d] => do k' <- d_key k; do d' <- dopt d_leaf d; Some (DPop k' d')
  | 23, [] => Some DPopItem
  | 24, [] => Some DClear
  | 25, [k; v] => do k' <- d_key k; do v' <- d_val v; Some (DSetDefault k' v')
  | 26, [kvs] => do kvs' <- dlist d_kv kvs; Some (DUpdate kvs')
  | 27, [kvs] => do kvs' <- dlist d_kv kvs; Some (DIOr kvs')
  | 28, [] => Some DCopy
  | 30, [k; v] => do k' <- d_key k; do v' <- d_val v; Some (OSet k' v')
  | 40, [pvs] => do pvs' <- dlist d_pv pvs; Some (Rebind pvs')
  | 41, [m] => do m' <- dN m; Some (Clone m')
  | 42, [b] => do b' <- dbool b; Some (Seal b')
  | 43, [b] => do b' <- dbool b; Some (SetAW b')
  | _, _ => None
  end.
Definition d_step (t : tr) : option sop :=
  match t with
  | L [sc; L (I tag :: L [r; ks] :: args)] =>
      do sc' <- d_scope sc; do p <- d_pos r ks; do o <- d_op tag args; Some (mkSop sc' p o)
  | _ => None
  end.

(* --- encoding --------------------------------------------------------------------------------------- *)
Definition e_key (k : key) : tr := match k with KS s => L (I 0 :: map eN s) | KI z => L [I 1; I z] end.
Definition e_keys (p : list key) : tr := L (map e_key p).
Fixpoint index_of (o : N) (l : list N) (i : Z) : option Z :=
  match l with [] => None | x :: r => if N.eqb x o then Some i else index_of o r (i + 1) end.
(* opaque leaves are numbered in order of first occurrence in the snapshot *)
Definition e_leaf (l : leaf) (seen : list N) : tr * list N :=
  match l with
  | LNone => (L [I 0], seen)
  | LBool b => (L [I 1; ebool b], seen)
  | LInt z => (L [I 2; I z], seen)
  | LStr s => (L (I 3 :: map eN s), seen)
  | LMissing => (L [I 4], seen)
  | LOpq o g =>
      match index_of o seen 0 with
      | Some i => (L [I 5; I i; eN g], seen)
      | None => (L [I 5; I (Z.of_nat (length seen)); eN g], seen ++ [o])
      end
  | LJunk => (L [I 9], seen)
  end.
Definition e_leaf0 (l : leaf) : tr :=
  match l with LOpq _ g => L [I 5; I 0; eN g] | _ => fst (e_leaf l []) end.
Definition e_kind (k : kind) : tr := match k with KDict => I 0 | KList => I 1 | KObj c => I (2 + Z.of_N c) end.
Definition e_flags (f : flags) : tr := L [ebool (f_sealed f); ebool (f_aw f); ebool (f_partial f)].
Fixpoint e_node (expected : option N) (n : node) (seen : list N) : tr * list N :=
  match n with
  | Leaf l => let '(t, s) := e_leaf l seen in (L [I 0; t], s)
  | Node i k pa pt fl its =>
      let '(ts, s) :=
        (fix go (l : list (key * node)) (seen : list N) : list tr * list N :=
           match l with
           | [] => ([], seen)
           | (kk, c) :: r =>
               let '(t, s1) := e_node (Some i) c seen in
               let '(ts, s2) := go r s1 in
               (L [e_key kk; t] :: ts, s2)
           end) its seen in
      (L [I 1; L [e_kind k; e_keys pt; ebool (optN_eqb pa expected); e_flags fl; L ts]], s)
  end.
Definition unwrap (t : tr) : tr := match t with L [I 1; s] => s | _ => t end.
Fixpoint e_roots (rs : list slot) (seen : list N) : list tr :=
  match rs with
  | [] => []
  | Moved _ :: r => L [] :: e_roots r seen
  | Live t :: r => let '(x, s) := e_node None t seen in L [unwrap x] :: e_roots r s
  end.
Definition e_snapshot (st : state) : tr := L (e_roots (roots st) []).
Definition e_err (e : err) : Z :=
  match e with
  | EWrite => 1 | EKey => 2 | EIndex => 3 | EType => 4 | EValue => 5 | EAssert => 6 | EAttr => 7 | EOther => 9 | ENA => 99
  end.
Fixpoint e_ret (r : ret) : tr :=
  match r with
  | RNone => L [I 0]
  | RLeafV LNone => L [I 0]        (* returning None and returning nothing are the same in Python *)
  | RLeafV l => L [I 1; e_leaf0 l]
  | RPos p => L [I 2; enat (fst p); e_keys (snd p)]
  | RKV k r' => L [I 3; e_key k; e_ret r']
  | RPlain => L [I 4]
  end.
Definition e_outcome (o : outcome) : tr :=
  match o with Ok r => L [I 0; e_ret r] | Err e => L [I 1; I (e_err e)] end.

Fixpoint run_steps (q : quirks) (st : state) (ops : list sop) : list tr :=
  match ops with
  | [] => []
  | o :: r => let '(st', out) := step q st o in L [e_outcome out; e_snapshot st'] :: run_steps q st' r
  end.
Definition d_quirks (t : tr) : option quirks :=
  match t with
  | L [] => Some (mkQuirks false)
  | L (b :: _) => do b' <- dbool b; Some (mkQuirks b')
  | _ => None
  end.

Definition run (c : tr) : tr :=
  match c with
  | L [qs; L lits; L steps] =>
      match d_quirks qs, dall (d_lit 64) lits, dall d_step steps with
      | Some q, Some ls, Some ops =>
          if forallb lit_valid ls then
            let st0 := init_forest ls empty_state in
            L [e_snapshot st0; L (run_steps q st0 ops)]
          else ebad
      | _, _, _ => ebad
      end
  | _ => ebad
  end.

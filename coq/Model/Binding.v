(* Binding.v — model of argument binding for symbolized callables (property C18).
   Three things are modelled, definitions only:
     1. [py_bind]      : the LANGUAGE rule that binds the arguments of a call to the parameters of
                         a signature (positional fill, *args overflow, keyword match, duplicates,
                         unknown keywords, missing arguments, defaults);
     2. [functor_*]    : pyglove.core.symbolic.functor.Functor.__init__ / _on_change /
                         _parse_call_time_overrides / __call__ (bookkeeping of bound, specified,
                         default and non-default arguments, call-time override, ignore_extra_args),
                         clone and the JSON round trip; [cls_*]: Object.__init__ as used by class
                         wrappers plus ClassWrapper._call_init;
     3. [supply]/[effective_call] : the specification side, "the same effective arguments passed
                         directly".
   Python dicts are finite maps keyed by name; their iteration order is not observable through
   dict equality and is not modelled (maps are kept sorted by key). *)
From Coq Require Import NArith ZArith List Bool.
Import ListNotations.
From PG Require Import Common.Tr.
Local Open Scope N_scope.

Definition name := N.
(* values: integers, or a list of integers (needed to bind *args through its name) *)
Inductive val : Type := VInt (z : Z) | VList (l : list Z).

Fixpoint zlist_eqb (a b : list Z) : bool :=
  match a, b with
  | [], [] => true
  | x :: a', y :: b' => Z.eqb x y && zlist_eqb a' b'
  | _, _ => false
  end.
Definition val_eqb (a b : val) : bool :=
  match a, b with
  | VInt x, VInt y => Z.eqb x y
  | VList x, VList y => zlist_eqb x y
  | _, _ => false
  end.
Fixpoint vlist_eqb (a b : list val) : bool :=
  match a, b with
  | [], [] => true
  | x :: a', y :: b' => val_eqb x y && vlist_eqb a' b'
  | _, _ => false
  end.

Inductive ekind : Type := ETypeError | EKeyError | EOther.
Inductive result (A : Type) : Type := Ok (a : A) | Err (e : ekind).
Arguments Ok {A} a.
Arguments Err {A} e.

(* ---- finite maps keyed by N, kept sorted and duplicate free --------------------------------- *)
Definition kmap (A : Type) := list (N * A).
Fixpoint kset {A} (k : N) (v : A) (m : kmap A) : kmap A :=
  match m with
  | [] => [(k, v)]
  | (k', v') :: r =>
      if N.ltb k k' then (k, v) :: m
      else if N.eqb k k' then (k, v) :: r
      else (k', v') :: kset k v r
  end.
Fixpoint kget {A} (k : N) (m : kmap A) : option A :=
  match m with
  | [] => None
  | (k', v') :: r => if N.eqb k k' then Some v' else kget k r
  end.
Fixpoint kdel {A} (k : N) (m : kmap A) : kmap A :=
  match m with
  | [] => []
  | (k', v') :: r => if N.eqb k k' then kdel k r else (k', v') :: kdel k r
  end.
Definition kmem {A} (k : N) (m : kmap A) : bool :=
  match kget k m with Some _ => true | None => false end.
Definition kfilter {A} (f : N -> bool) (m : kmap A) : kmap A := filter (fun kv => f (fst kv)) m.
Definition nset := kmap unit.
Definition sadd (k : N) (s : nset) : nset := kset k tt s.
Definition sdel (k : N) (s : nset) : nset := kdel k s.
Definition smem (k : N) (s : nset) : bool := kmem k s.
Definition keyset {A} (m : kmap A) : nset := map (fun kv => (fst kv, tt)) m.

(* ---- signatures and calls ---------------------------------------------------------------------- *)
Record sig : Type := {
  pos : list (name * option val);      (* positional parameters, with optional default *)
  posonly : nat;                       (* how many of them, from the left, are positional-only (before the slash) *)
  varargs : option name;               (* *args *)
  kwonly : list (name * option val);   (* keyword-only parameters *)
  varkw : option name }.               (* **kwargs *)
Record call : Type := { cpos : list val; ckw : list (name * val) }.
Record bound : Type := {
  bnamed : list (name * val);          (* value of every named parameter, in declaration order *)
  bvar : list val;                     (* the *args tuple *)
  bkw : kmap val }.                    (* the **kwargs dict *)

Definition params (s : sig) : list (name * option val) := pos s ++ kwonly s.
Definition is_param (s : sig) (k : name) : bool := existsb (fun p => N.eqb (fst p) k) (params s).
(* the parameters a keyword can name: not the positional-only ones *)
Definition is_kwparam (s : sig) (k : name) : bool :=
  existsb (fun p => N.eqb (fst p) k) (skipn (posonly s) (pos s) ++ kwonly s).
Definition is_va (s : sig) (k : name) : bool :=
  match varargs s with Some a => N.eqb a k | None => false end.
Definition has_va (s : sig) : bool := match varargs s with Some _ => true | None => false end.
Definition has_kw (s : sig) : bool := match varkw s with Some _ => true | None => false end.
Definition default_of (s : sig) (k : name) : option val :=
  match find (fun p => N.eqb (fst p) k) (params s) with Some (_, d) => d | None => None end.
Definition is_nil {A} (l : list A) : bool := match l with [] => true | _ => false end.

(* ---- 1. the language rule ------------------------------------------------------------------------ *)
(* positional arguments fill the positional parameters from the left; what is left over is returned *)
Fixpoint zip_pos (ps : list (name * option val)) (vs : list val) (acc : kmap val) : kmap val * list val :=
  match ps, vs with
  | (n, _) :: ps', v :: vs' => zip_pos ps' vs' (kset n v acc)
  | _, _ => (acc, vs)
  end.
(* keywords: the name of a parameter that is not positional-only binds that parameter (TypeError when
   it already has a value); any other name - also that of a positional-only parameter - goes to
   **kwargs (TypeError when there is none) *)
Fixpoint bind_kw (s : sig) (kws : list (name * val)) (asg extra : kmap val) : result (kmap val * kmap val) :=
  match kws with
  | [] => Ok (asg, extra)
  | (k, v) :: r =>
      if is_kwparam s k then
        (if kmem k asg then Err ETypeError else bind_kw s r (kset k v asg) extra)
      else if has_kw s then
        (if kmem k extra then Err ETypeError else bind_kw s r asg (kset k v extra))
      else Err ETypeError
  end.
(* every named parameter gets its assigned value, else its default, else TypeError *)
Fixpoint fill (ps : list (name * option val)) (asg : kmap val) : result (list (name * val)) :=
  match ps with
  | [] => Ok []
  | (n, d) :: r =>
      match (match kget n asg with Some v => Some v | None => d end) with
      | None => Err ETypeError
      | Some v => match fill r asg with Ok l => Ok ((n, v) :: l) | Err e => Err e end
      end
  end.
Definition py_bind (s : sig) (c : call) : result bound :=
  let '(asg, over) := zip_pos (pos s) (cpos c) [] in
  if negb (is_nil over) && negb (has_va s) then Err ETypeError else
  match bind_kw s (ckw c) asg [] with
  | Err e => Err e
  | Ok (asg', extra) =>
      match fill (params s) asg' with
      | Err e => Err e
      | Ok named => Ok {| bnamed := named; bvar := over; bkw := extra |}
      end
  end.

(* ---- 2. the Functor ------------------------------------------------------------------------------- *)
(* open findings the model follows (set by the harness from the implementation, see findings/C18.json) *)
Record quirks : Type := {
  q_noop_rebind : bool   (* true: a late rebind to the value the attribute already holds (for instance a
                            filled-in default) is not recorded as a specified argument *)
}.
Definition no_quirks (q : quirks) : Prop := q_noop_rebind q = false.

Record fstate : Type := {
  attrs : kmap val;     (* _sym_attributes, named and **kwargs entries (bound values and filled-in defaults) *)
  vattr : list val;     (* _sym_attributes[<varargs name>] ([] when unbound) *)
  spec : nset;          (* _specified_args *)
  dflt : nset;          (* _default_args *)
  nond : nset;          (* _non_default_args *)
  f_ov : bool;          (* _override_args *)
  f_ie : bool }.        (* _ignore_extra_args *)

Definition va_name (s : sig) : name := match varargs s with Some a => a | None => 0 end.
Definition is_field (s : sig) (k : name) : bool := is_param s k || is_va s k.
Definition accepts_key (s : sig) (k : name) : bool := is_field s k || has_kw s.
Definition vals_of_val (v : val) : option (list val) :=
  match v with VList l => Some (map VInt l) | VInt _ => None end.

(* positional arguments become keyword bindings of the parameters they land on *)
Fixpoint bind_positional (ps : list (name * option val)) (vs : list val) (acc : kmap val) : kmap val :=
  match ps, vs with
  | (n, _) :: ps', v :: vs' => bind_positional ps' vs' (kset n v acc)
  | _, _ => acc
  end.

(* Functor.__init__, the loop over **kwargs: [bk] = bound_kwargs without the varargs entry,
   [vb] = bound_kwargs[<varargs name>] *)
Fixpoint ctor_kwargs (s : sig) (kws : list (name * val)) (bk : kmap val) (vb : option (list val))
  : result (kmap val * option (list val)) :=
  match kws with
  | [] => Ok (bk, vb)
  | (k, v) :: r =>
      if is_va s k then
        match vb with
        | Some _ => Err ETypeError                              (* got multiple values for keyword argument *)
        | None => match vals_of_val v with
                  | Some l => ctor_kwargs s r bk (Some l)
                  | None => Err ETypeError                      (* List value spec rejects a non-list *)
                  end
        end
      else if kmem k bk then Err ETypeError                     (* got multiple values for keyword argument *)
      else if accepts_key s k then ctor_kwargs s r (kset k v bk) vb
      else Err ETypeError                                       (* Object.__init__: unexpected keyword argument *)
  end.

(* default / non-default classification of Functor.__init__ *)
Fixpoint classify (ps : list (name * option val)) (bk : kmap val) (d n : nset) : nset * nset :=
  match ps with
  | [] => (d, n)
  | (k, None) :: r => classify r bk d n
  | (k, Some dv) :: r =>
      match kget k bk with
      | None => classify r bk (sadd k d) n
      | Some v => if val_eqb v dv then classify r bk (sadd k d) (sdel k n) else classify r bk d n
      end
  end.
(* Dict(value_spec=...) fills the default of every field that was not given *)
Fixpoint fill_defaults (ps : list (name * option val)) (m : kmap val) : kmap val :=
  match ps with
  | [] => m
  | (k, Some dv) :: r => if kmem k m then fill_defaults r m else fill_defaults r (kset k dv m)
  | (k, None) :: r => fill_defaults r m
  end.

(* the tail of Functor.__init__ once bound_kwargs is known *)
Definition ctor_finish (s : sig) (bk : kmap val) (vb : option (list val)) (ov ie : bool) : fstate :=
  let specified := match vb with Some _ => sadd (va_name s) (keyset bk) | None => keyset bk end in
  let '(d, nd) := classify (params s) bk [] specified in
  let va_default := has_va s && match vb with Some l => is_nil l | None => true end in
  {| attrs := fill_defaults (params s) bk;
     vattr := match vb with Some l => l | None => [] end;
     spec := specified;
     dflt := if va_default then sadd (va_name s) d else d;
     nond := if va_default then sdel (va_name s) nd else nd;
     f_ov := ov; f_ie := ie |}.

Definition functor_ctor (s : sig) (c : call) (ov ie : bool) : result fstate :=
  let n := length (pos s) in
  let over := skipn n (cpos c) in
  if negb (is_nil over) && negb (has_va s) then Err ETypeError else     (* takes n positional arguments but m were given *)
  let bk0 := bind_positional (pos s) (cpos c) [] in
  let vb0 := if is_nil over then None else Some over in
  match ctor_kwargs s (ckw c) bk0 vb0 with
  | Err e => Err e
  | Ok (bk, vb) => Ok (ctor_finish s bk vb ov ie)
  end.

(* Functor._on_change for one updated top-level key *)
Definition on_change (st : fstate) (k : name) (is_default : bool) : fstate :=
  {| attrs := attrs st; vattr := vattr st;
     spec := sadd k (spec st);
     dflt := if is_default then sadd k (dflt st) else sdel k (dflt st);
     nond := if is_default then sdel k (nond st) else sadd k (nond st);
     f_ov := f_ov st; f_ie := f_ie st |}.
Definition set_attr (st : fstate) (k : name) (v : val) : fstate :=
  {| attrs := kset k v (attrs st); vattr := vattr st; spec := spec st; dflt := dflt st; nond := nond st;
     f_ov := f_ov st; f_ie := f_ie st |}.
Definition set_vattr (st : fstate) (l : list val) : fstate :=
  {| attrs := attrs st; vattr := l; spec := spec st; dflt := dflt st; nond := nond st;
     f_ov := f_ov st; f_ie := f_ie st |}.
Definition mark_specified (st : fstate) (k : name) : fstate :=
  {| attrs := attrs st; vattr := vattr st; spec := sadd k (spec st); dflt := dflt st; nond := nond st;
     f_ov := f_ov st; f_ie := f_ie st |}.

(* rebind(k=v) / setattr after construction.  A rebind that stores an integer equal to the one the
   attribute already holds produces no field update (so _on_change does not run); a list value is
   always a fresh container and always counts as an update. *)
Definition same_scalar (old new : val) : bool :=
  match old, new with VInt x, VInt y => Z.eqb x y | _, _ => false end.
Definition late_one (q : quirks) (s : sig) (st : fstate) (k : name) (v : val) : result fstate :=
  if is_va s k then
    match vals_of_val v with
    | None => Err ETypeError
    | Some l => Ok (on_change (set_vattr st l) k (is_nil l))
    end
  else if accepts_key s k then
    let changed := on_change (set_attr st k v) k
                     (match default_of s k with Some dv => val_eqb dv v | None => false end) in
    match kget k (attrs st) with
    | Some old => if same_scalar old v then Ok (if q_noop_rebind q then st else mark_specified st k)
                  else Ok changed
    | None => Ok changed
    end
  else Err EKeyError.
Fixpoint late_all (q : quirks) (s : sig) (st : fstate) (ups : list (name * val)) : result fstate :=
  match ups with
  | [] => Ok st
  | (k, v) :: r => match late_one q s st k v with Ok st' => late_all q s st' r | Err e => Err e end
  end.

(* A later binding with change notification switched off (rebind(..., skip_notification=True) or
   pg.notify_on_change(False)): the value is stored and the name recorded as specified
   (Functor._sym_rebind / _set_item_without_permission_check / __setattr__), _on_change does not run,
   so the default / non-default classification is not refreshed. *)
Definition late_one_silent (s : sig) (st : fstate) (k : name) (v : val) : result fstate :=
  if is_va s k then
    match vals_of_val v with
    | None => Err ETypeError
    | Some l => Ok (mark_specified (set_vattr st l) k)
    end
  else if accepts_key s k then Ok (mark_specified (set_attr st k v) k)
  else Err EKeyError.
Definition late_one_n (q : quirks) (s : sig) (st : fstate) (kvn : name * val * bool) : result fstate :=
  let '(k, v, notify) := kvn in
  if notify then late_one q s st k v else late_one_silent s st k v.
Fixpoint late_all_n (q : quirks) (s : sig) (st : fstate) (ups : list (name * val * bool)) : result fstate :=
  match ups with
  | [] => Ok st
  | u :: r => match late_one_n q s st u with Ok st' => late_all_n q s st' r | Err e => Err e end
  end.

(* Un-binding an argument: del f.k ([how_del]) or rebind(k=MISSING_VALUE) / f.k = MISSING_VALUE.
   The attribute shows its default again (or nothing), the name is no longer specified
   (Functor.__delattr__; _note_binding / _on_change for the MISSING_VALUE route).  The default /
   non-default classification is refreshed by __delattr__ itself or by _on_change, i.e. not when the
   MISSING_VALUE route is taken with change notification off.  Deleting a key that is not there is a
   KeyError; rebinding it to MISSING_VALUE is a no-op. *)
Definition unbind_one (s : sig) (st : fstate) (k : name) (how_del notify : bool) : result fstate :=
  let refresh := how_del || notify in
  if is_va s k then
    Ok {| attrs := attrs st; vattr := []; spec := sdel k (spec st);
          dflt := if refresh then sadd k (dflt st) else dflt st;
          nond := if refresh then sdel k (nond st) else nond st; f_ov := f_ov st; f_ie := f_ie st |}
  else if is_param s k then
    let d := default_of s k in
    Ok {| attrs := match d with Some dv => kset k dv (attrs st) | None => kdel k (attrs st) end;
          vattr := vattr st; spec := sdel k (spec st);
          dflt := if refresh then (match d with Some _ => sadd k (dflt st) | None => dflt st end) else dflt st;
          nond := if refresh then sdel k (nond st) else nond st; f_ov := f_ov st; f_ie := f_ie st |}
  else if has_kw s && kmem k (attrs st) then
    Ok {| attrs := kdel k (attrs st); vattr := vattr st; spec := sdel k (spec st); dflt := dflt st;
          nond := if refresh then sdel k (nond st) else nond st; f_ov := f_ov st; f_ie := f_ie st |}
  else if how_del then Err EKeyError else Ok st.

(* a step after construction: bind (with or without notification) or un-bind *)
Inductive lstep : Type :=
| LSet (k : name) (v : val) (notify : bool)
| LUnbind (k : name) (how_del notify : bool).
Definition late_one_u (q : quirks) (s : sig) (st : fstate) (u : lstep) : result fstate :=
  match u with
  | LSet k v notify => late_one_n q s st (k, v, notify)
  | LUnbind k how_del notify => unbind_one s st k how_del notify
  end.
Fixpoint late_all_u (q : quirks) (s : sig) (st : fstate) (ups : list lstep) : result fstate :=
  match ups with
  | [] => Ok st
  | u :: r => match late_one_u q s st u with Ok st' => late_all_u q s st' r | Err e => Err e end
  end.

(* _parse_call_time_overrides: positional arguments become keyword arguments *)
Fixpoint call_positional (ps : list (name * option val)) (vs : list val) (sp : nset) (override : bool) (K : kmap val)
  : result (kmap val) :=
  match ps, vs with
  | (n, _) :: ps', v :: vs' =>
      if smem n sp && negb override then Err ETypeError          (* got new value for argument from position i *)
      else call_positional ps' vs' sp override (kset n v K)
  | _, _ => Ok K
  end.
(* names of the positional parameters that this call fills by position *)
Fixpoint positional_names (ps : list (name * option val)) (vs : list val) : nset :=
  match ps, vs with
  | (n, _) :: ps', _ :: vs' => sadd n (positional_names ps' vs')
  | _, _ => []
  end.
(* the loop over call-time keyword arguments; [Kv] = keyword_args[<varargs name>],
   [given] = parameters already filled by position in this call *)
Fixpoint call_kwargs (s : sig) (kws : list (name * val)) (sp given : nset) (override ie : bool)
    (K : kmap val) (Kv : option (list val)) : result (kmap val * option (list val)) :=
  match kws with
  | [] => Ok (K, Kv)
  | (k, v) :: r =>
      if smem k given then Err ETypeError                        (* got multiple values for argument *)
      else if smem k sp && negb override then Err ETypeError     (* got new value for argument from keyword *)
      else if is_param s k || has_kw s then
        (if is_va s k then
           match vals_of_val v with
           | Some l => call_kwargs s r sp given override ie K (Some l)
           | None => Err ETypeError
           end
         else call_kwargs s r sp given override ie (kset k v K) Kv)
      else if ie then call_kwargs s r sp given override ie K Kv
      else Err ETypeError                                        (* got an unexpected keyword argument *)
  end.
(* list_args: bound value, else default, else missing; bound names are removed from keyword_args *)
Fixpoint list_args (ps : list (name * option val)) (K : kmap val) : option (list val) * kmap val :=
  match ps with
  | [] => (Some [], K)
  | (n, d) :: r =>
      let v := match kget n K with Some v => Some v | None => d end in
      let '(rest, K') := list_args r (kdel n K) in
      (match v, rest with Some v, Some l => Some (v :: l) | _, _ => None end, K')
  end.

Definition functor_call_args (s : sig) (st : fstate) (c : call) (ovo ieo : option bool) : result call :=
  let override := match ovo with Some b => b | None => f_ov st end in
  let ie := match ieo with Some b => b | None => f_ie st end in
  let n := length (pos s) in
  let over := skipn n (cpos c) in
  if negb (is_nil over) && negb (has_va s) && negb ie then Err ETypeError else
  let K0 := kfilter (fun k => smem k (spec st)) (attrs st) in
  let Kv0 := if has_va s && smem (va_name s) (spec st) then Some (vattr st) else None in
  let cvar := if has_va s then over else [] in
  if negb (is_nil cvar) && negb override && smem (va_name s) (spec st) then Err ETypeError else
  match call_positional (pos s) (cpos c) (spec st) override K0 with
  | Err e => Err e
  | Ok K1 =>
      match call_kwargs s (ckw c) (spec st) (positional_names (pos s) (cpos c)) override ie K1 Kv0 with
      | Err e => Err e
      | Ok (K2, Kv) =>
          match list_args (pos s) K2 with
          | (None, _) => Err ETypeError                          (* missing required positional argument *)
          | (Some la, K3) =>
              let va := if is_nil cvar then (match Kv with Some l => l | None => [] end) else cvar in
              Ok {| cpos := la ++ va; ckw := K3 |}
          end
      end
  end.
(* Functor.__call__ = the wrapped function applied to the arguments worked out above *)
Definition functor_call (s : sig) (st : fstate) (c : call) (ovo ieo : option bool) : result bound :=
  match functor_call_args s st c ovo ieo with
  | Err e => Err e
  | Ok c' => py_bind s c'
  end.

(* clone(): a copy with the same bookkeeping (Functor._sym_clone).
   JSON round trip: sym_jsonify writes the specified arguments only; from_json passes them to
   __init__ as keyword arguments, the two flags are not serialised. *)
Definition clone_state (st : fstate) : fstate := st.
Definition json_state (s : sig) (st : fstate) : fstate :=
  ctor_finish s (kfilter (fun k => smem k (spec st)) (attrs st))
              (if has_va s && smem (va_name s) (spec st) then Some (vattr st) else None) false false.

(* ---- 2b. symbolized classes: Object.__init__ + ClassWrapper._call_init --------------------------- *)
Record cstate : Type := { cattrs : kmap val; cvattr : list val }.
Fixpoint cls_kwargs (s : sig) (kws : list (name * val)) (fa : kmap val) (vb : option (list val))
  : result (kmap val * option (list val)) :=
  match kws with
  | [] => Ok (fa, vb)
  | (k, v) :: r =>
      if is_va s k then
        match vb with
        | Some _ => Err ETypeError                               (* got multiple values for argument *)
        | None => match vals_of_val v with
                  | Some l => cls_kwargs s r fa (Some l)
                  | None => Err ETypeError
                  end
        end
      else if kmem k fa then Err ETypeError
      else cls_kwargs s r (kset k v fa) vb
  end.
Definition all_required_present (s : sig) (fa : kmap val) : bool :=
  forallb (fun p => match snd p with Some _ => true | None => kmem (fst p) fa end) (params s).
Definition no_fields (s : sig) : bool := is_nil (params s) && negb (has_va s) && negb (has_kw s).

Definition cls_ctor (s : sig) (c : call) (partial : bool) : result cstate :=
  if negb (forallb (fun kv => accepts_key s (fst kv)) (ckw c)) then Err ETypeError else   (* unexpected keyword argument *)
  let n := length (pos s) in
  let over := skipn n (cpos c) in
  if negb (is_nil (cpos c)) && no_fields s then Err ETypeError else                        (* takes no arguments *)
  if negb (is_nil over) && negb (has_va s) then Err ETypeError else                        (* takes n positional arguments *)
  let fa0 := bind_positional (pos s) (cpos c) [] in
  let vb0 := if negb (is_nil (cpos c)) && has_va s then Some over else None in
  match cls_kwargs s (ckw c) fa0 vb0 with
  | Err e => Err e
  | Ok (fa, vb) =>
      if negb partial && negb (all_required_present s fa) then Err ETypeError               (* missing required argument *)
      else Ok {| cattrs := fill_defaults (params s) fa; cvattr := match vb with Some l => l | None => [] end |}
  end.
Definition cls_late_one (s : sig) (st : cstate) (k : name) (v : val) : result cstate :=
  if is_va s k then
    match vals_of_val v with
    | None => Err ETypeError
    | Some l => Ok {| cattrs := cattrs st; cvattr := l |}
    end
  else if accepts_key s k then Ok {| cattrs := kset k v (cattrs st); cvattr := cvattr st |}
  else Err EKeyError.
Definition cls_unbind_one (s : sig) (st : cstate) (k : name) : result cstate :=
  if is_va s k then Ok {| cattrs := cattrs st; cvattr := [] |}
  else if is_param s k then
    Ok {| cattrs := match default_of s k with Some dv => kset k dv (cattrs st) | None => kdel k (cattrs st) end; cvattr := cvattr st |}
  else Ok {| cattrs := kdel k (cattrs st); cvattr := cvattr st |}.
Definition cls_late_one_u (s : sig) (st : cstate) (u : lstep) : result cstate :=
  match u with
  | LSet k v _ => cls_late_one s st k v
  | LUnbind k _ _ => cls_unbind_one s st k
  end.
Fixpoint cls_late_all_u (s : sig) (st : cstate) (ups : list lstep) : result cstate :=
  match ups with
  | [] => Ok st
  | u :: r => match cls_late_one_u s st u with Ok st' => cls_late_all_u s st' r | Err e => Err e end
  end.
Fixpoint cls_late_all (s : sig) (st : cstate) (ups : list (name * val)) : result cstate :=
  match ups with
  | [] => Ok st
  | (k, v) :: r => match cls_late_one s st k v with Ok st' => cls_late_all s st' r | Err e => Err e end
  end.
(* _call_init: the positional parameters by position (so positional-only parameters of the user
   class work), then the *args values, everything else by keyword.
   None: the object is still partial, the user __init__ has not run. *)
Definition cls_init_call (s : sig) (st : cstate) : option call :=
  if negb (all_required_present s (cattrs st)) then None else
  match list_args (pos s) (cattrs st) with
  | (Some la, K) => Some {| cpos := la ++ cvattr st; ckw := K |}
  | (None, _) => None
  end.

(* ---- 2c. the generated __init__ signature ---------------------------------------------------------- *)
(* Signature.to_schema: fields in the order pos, *args, kwonly, **kwargs plus the init_arg_list
   metadata; Signature.from_schema + make_function rebuild a signature from it. *)
Inductive fkey : Type := KConst (n : name) | KStr.
Record schema : Type := {
  fields : list (fkey * option val);     (* key, default *)
  init_arg_list : list name;
  init_vararg : option name;             (* last element of init_arg_list when it starts with a star *)
  varkw_name : option name }.
Definition to_schema (s : sig) : schema :=
  {| fields := map (fun p => (KConst (fst p), snd p)) (pos s)
               ++ (match varargs s with Some a => [(KConst a, Some (VList []))] | None => [] end)
               ++ map (fun p => (KConst (fst p), snd p)) (kwonly s)
               ++ (match varkw s with Some _ => [(KStr, None)] | None => [] end);
     init_arg_list := map fst (pos s);
     init_vararg := varargs s;
     varkw_name := varkw s |}.
Definition field_default (sc : schema) (n : name) : option val :=
  match find (fun f => match fst f with KConst m => N.eqb m n | KStr => false end) (fields sc) with
  | Some (_, d) => d | None => None end.
Definition from_schema (sc : schema) : sig :=
  let existing := init_arg_list sc ++ (match init_vararg sc with Some a => [a] | None => [] end) in
  {| pos := map (fun n => (n, field_default sc n)) (init_arg_list sc);
     posonly := 0;                         (* the schema has no notion of positional-only: make_function writes no slash *)
     varargs := init_vararg sc;
     kwonly := flat_map (fun f => match fst f with
                                  | KConst n => if existsb (N.eqb n) existing then [] else [(n, snd f)]
                                  | KStr => [] end) (fields sc);
     varkw := if existsb (fun f => match fst f with KStr => true | _ => false end) (fields sc)
              then Some (match varkw_name sc with Some k => k | None => 0 end) else None |}.
(* make_function: once a positional parameter has a default every later one is given one
   (MISSING_VALUE, written here as the parameter's own default or VInt 0) *)
Fixpoint force_defaults (ps : list (name * option val)) (seen : bool) : list (name * option val) :=
  match ps with
  | [] => []
  | (n, Some d) :: r => (n, Some d) :: force_defaults r true
  | (n, None) :: r => (n, if seen then Some (VInt 0) else None) :: force_defaults r seen
  end.
Definition generated_init_sig (s : sig) : sig :=
  let s' := from_schema (to_schema s) in
  {| pos := force_defaults (pos s') false; posonly := posonly s'; varargs := varargs s'; kwonly := kwonly s'; varkw := varkw s' |}.

(* ---- 3. specification: the effective arguments ------------------------------------------------------ *)
(* What has been supplied so far: a value per name and, separately, the variadic positional values. *)
Record eff : Type := { enamed : kmap val; evar : option (list val) }.
Definition eff0 : eff := {| enamed := []; evar := None |}.

(* One way of supplying arguments: a call (cpos, ckw) read against the signature.  The i-th positional
   value is the i-th positional parameter, further ones are *args; a keyword is the parameter (or
   **kwargs entry) of that name, the name of *args stands for the variadic values.
   [ovr]: supplying a name again replaces the earlier value (otherwise it is a TypeError);
   [drop]: surplus positional values / unknown keywords are dropped (otherwise TypeError). *)
Fixpoint supply_pos (ps : list (name * option val)) (vs : list val) (ovr : bool) (m : kmap val) : result (kmap val) :=
  match ps, vs with
  | (n, _) :: ps', v :: vs' =>
      if kmem n m && negb ovr then Err ETypeError else supply_pos ps' vs' ovr (kset n v m)
  | _, _ => Ok m
  end.
(* [given]: names this same call has already supplied; supplying one twice in a single call is a
   TypeError whatever [ovr] says *)
Fixpoint supply_kw (s : sig) (kws : list (name * val)) (ovr drop : bool) (given : nset) (e : eff) : result eff :=
  match kws with
  | [] => Ok e
  | (k, v) :: r =>
      if smem k given then Err ETypeError
      else if is_va s k then
        match evar e, ovr with
        | Some _, false => Err ETypeError
        | _, _ => match vals_of_val v with
                  | Some l => supply_kw s r ovr drop (sadd k given) {| enamed := enamed e; evar := Some l |}
                  | None => Err ETypeError
                  end
        end
      else if kmem k (enamed e) && negb ovr then Err ETypeError
      else if is_param s k || has_kw s then
        supply_kw s r ovr drop (sadd k given) {| enamed := kset k v (enamed e); evar := evar e |}
      else if drop then supply_kw s r ovr drop (sadd k given) e
      else Err ETypeError
  end.
Definition supply (s : sig) (e : eff) (c : call) (ovr drop : bool) : result eff :=
  let over := skipn (length (pos s)) (cpos c) in
  match supply_pos (pos s) (cpos c) ovr (enamed e) with
  | Err x => Err x
  | Ok m =>
      let ev :=
        if is_nil over then Ok (evar e)
        else if has_va s then
          (match evar e, ovr with Some _, false => Err ETypeError | _, _ => Ok (Some over) end)
        else if drop then Ok (evar e) else Err ETypeError in
      match ev with
      | Err x => Err x
      | Ok v =>
          let given0 := positional_names (pos s) (cpos c) in
          let given := if negb (is_nil over) && has_va s then sadd (va_name s) given0 else given0 in
          supply_kw s (ckw c) ovr drop given {| enamed := m; evar := v |}
      end
  end.
Fixpoint supply_lates (s : sig) (e : eff) (lates : list (name * val)) : result eff :=
  match lates with
  | [] => Ok e
  | kv :: r => match supply s e {| cpos := []; ckw := [kv] |} true false with
               | Ok e' => supply_lates s e' r | Err x => Err x end
  end.
(* un-supplying: the name (or the variadic values) is no longer supplied *)
Definition unsupply (s : sig) (e : eff) (k : name) : eff :=
  if is_va s k then {| enamed := enamed e; evar := None |} else {| enamed := kdel k (enamed e); evar := evar e |}.
Definition supply_step (s : sig) (e : eff) (u : lstep) : result eff :=
  match u with
  | LSet k v _ => supply s e {| cpos := []; ckw := [(k, v)] |} true false
  | LUnbind k _ _ => Ok (unsupply s e k)
  end.
Fixpoint supply_steps (s : sig) (e : eff) (ups : list lstep) : result eff :=
  match ups with
  | [] => Ok e
  | u :: r => match supply_step s e u with Ok e' => supply_steps s e' r | Err x => Err x end
  end.
Definition effective_u (s : sig) (ctor : call) (steps : list lstep) (c : call) (override ie : bool) : result eff :=
  match supply s eff0 ctor false false with
  | Err x => Err x
  | Ok e1 => match supply_steps s e1 steps with
             | Err x => Err x
             | Ok e2 => supply s e2 c override ie
             end
  end.
(* construction, later bindings, call *)
Definition effective (s : sig) (ctor : call) (lates : list (name * val)) (c : call) (override ie : bool) : result eff :=
  match supply s eff0 ctor false false with
  | Err x => Err x
  | Ok e1 => match supply_lates s e1 lates with
             | Err x => Err x
             | Ok e2 => supply s e2 c override ie
             end
  end.
(* The direct call with those arguments: positional parameters are written positionally (using
   the default of one that was not supplied) followed by the variadic values, everything else by
   keyword.  When a required positional parameter has no value no call can place the variadic
   values; the keyword form is written, which Python rejects (missing argument) like any other. *)
Definition effective_call (s : sig) (e : eff) : call :=
  match list_args (pos s) (enamed e) with
  | (Some la, K) => {| cpos := la ++ (match evar e with Some l => l | None => [] end); ckw := K |}
  | (None, _) => {| cpos := []; ckw := enamed e |}
  end.
Definition spec_outcome (s : sig) (ctor : call) (lates : list (name * val)) (c : call) (override ie : bool) : result bound :=
  match effective s ctor lates c override ie with
  | Err x => Err x
  | Ok e => py_bind s (effective_call s e)
  end.

Definition spec_outcome_u (s : sig) (ctor : call) (steps : list lstep) (c : call) (override ie : bool) : result bound :=
  match effective_u s ctor steps c override ie with
  | Err x => Err x
  | Ok e => py_bind s (effective_call s e)
  end.

(* the whole functor pipeline *)
Definition functor_bind (q : quirks) (s : sig) (ctor : call) (ov ie : bool) (lates : list (name * val))
    (c : call) (ovo ieo : option bool) : result bound :=
  match functor_ctor s ctor ov ie with
  | Err x => Err x
  | Ok st => match late_all q s st lates with
             | Err x => Err x
             | Ok st' => functor_call s st' c ovo ieo
             end
  end.

(* ---- wire format ------------------------------------------------------------------------------------
   val    ::= z | (z ...)                         integer | list of integers
   sig    ::= (((name (dflt)?) ...) (va)? ((name (dflt)?) ...) (kw)? posonly)
   call   ::= ((val ...) ((name val) ...))
   step   ::= (name val notify) | (name () notify del)                          bind | un-bind (del: 1 = del f.k, 0 = MISSING_VALUE)
   case   ::= (0 (q) sig ctor (ov ie) (step ...) call ((ov)? (ie)?) post)   functor; post: 0 none 1 clone 2 json
            | (1 sig ctor partial ((name val) ...))                               symbolized class
            | (2 sig call)                                                        py_bind
            | (3 sig)                                                             generated __init__ signature
            | (4 sig ctor ((name val) ...) call ov ie)                            effective call
   bound  ::= (0 ((name val) ...) (val ...) ((name val) ...))  |  (1 kind)
   state  ::= (attrs vattr spec dflt nond ov ie)
   out    ::= (bind call) with bind ::= (0 state) | (1 stage kind), call ::= () | bound       [case 0]
            | (bind init) with bind ::= (0 attrs vattr) | (1 stage kind), init ::= () | (2) | bound   [case 1; (2) = still partial]
            | bound                                                                [case 2]
            | sig                                                                  [case 3]
            | (0 call) | (1 kind)                                                  [case 4] *)
Local Open Scope Z_scope.
Definition e_val (v : val) : tr := match v with VInt z => I z | VList l => L (map I l) end.
Definition e_kv (kv : name * val) : tr := L [eN (fst kv); e_val (snd kv)].
Definition e_kind (e : ekind) : tr := I (match e with ETypeError => 1 | EKeyError => 2 | EOther => 3 end).
Definition e_bound (r : result bound) : tr :=
  match r with
  | Ok b => L [I 0; L (map e_kv (bnamed b)); L (map e_val (bvar b)); L (map e_kv (bkw b))]
  | Err e => L [I 1; e_kind e]
  end.
Definition e_set (s : nset) : tr := L (map (fun kv => eN (fst kv)) s).
Definition e_state (st : fstate) : tr :=
  L [L (map e_kv (attrs st)); L (map e_val (vattr st)); e_set (spec st); e_set (dflt st); e_set (nond st);
     ebool (f_ov st); ebool (f_ie st)].
Definition e_param (p : name * option val) : tr := L [eN (fst p); eopt e_val (snd p)].
Definition e_sig (s : sig) : tr :=
  L [L (map e_param (pos s)); eopt eN (varargs s); L (map e_param (kwonly s)); eopt eN (varkw s); enat (posonly s)].
Definition e_call (c : call) : tr := L [L (map e_val (cpos c)); L (map e_kv (ckw c))].

Definition d_val (t : tr) : option val :=
  match t with I z => Some (VInt z) | L l => do zs <- dall dZ l; Some (VList zs) end.
Definition d_kv : tr -> option (name * val) := dpair dN d_val.
Definition d_param : tr -> option (name * option val) := dpair dN (dopt d_val).
Definition d_sig (t : tr) : option sig :=
  match t with
  | L [ps; va; ks; vk; po] =>
      do ps' <- dlist d_param ps; do va' <- dopt dN va; do ks' <- dlist d_param ks; do vk' <- dopt dN vk; do po' <- dnat po;
      Some {| pos := ps'; posonly := po'; varargs := va'; kwonly := ks'; varkw := vk' |}
  | _ => None
  end.
Definition d_call (t : tr) : option call :=
  match t with
  | L [ps; ks] => do ps' <- dlist d_val ps; do ks' <- dlist d_kv ks; Some {| cpos := ps'; ckw := ks' |}
  | _ => None
  end.

Definition d_late (t : tr) : option lstep :=
  match t with
  | L [k; v; b] => do k' <- dN k; do v' <- d_val v; do b' <- dbool b; Some (LSet k' v' b')
  | L [k; L []; b; h] => do k' <- dN k; do b' <- dbool b; do h' <- dbool h; Some (LUnbind k' h' b')
  | _ => None
  end.
Definition run_functor (q : quirks) (s : sig) (ctor : call) (ov ie : bool) (lates : list lstep)
    (c : call) (ovo ieo : option bool) (post : Z) : tr :=
  match functor_ctor s ctor ov ie with
  | Err e => L [L [I 1; I 0; e_kind e]; L []]
  | Ok st =>
      match late_all_u q s st lates with
      | Err e => L [L [I 1; I 1; e_kind e]; L []]
      | Ok st1 =>
          let st2 := if Z.eqb post 1 then clone_state st1 else if Z.eqb post 2 then json_state s st1 else st1 in
          L [L [I 0; e_state st2]; e_bound (functor_call s st2 c ovo ieo)]
      end
  end.
Definition run_class (s : sig) (ctor : call) (partial : bool) (lates : list lstep) : tr :=
  match cls_ctor s ctor partial with
  | Err e => L [L [I 1; I 0; e_kind e]; L []]
  | Ok st =>
      match cls_late_all_u s st lates with
      | Err e => L [L [I 1; I 1; e_kind e]; L []]
      | Ok st1 =>
          L [L [I 0; L (map e_kv (cattrs st1)); L (map e_val (cvattr st1))];
             match cls_init_call s st1 with None => L [I 2] | Some c => e_bound (py_bind s c) end]
      end
  end.

Definition run (c : tr) : tr :=
  match c with
  | L [I 0; L [qb]; s; ctor; L [ov; ie]; lates; cl; L [ovo; ieo]; I post] =>
      match dbool qb, d_sig s, d_call ctor, dbool ov, dbool ie, dlist d_late lates, d_call cl, dopt dbool ovo, dopt dbool ieo with
      | Some qb', Some s', Some ctor', Some ov', Some ie', Some lates', Some cl', Some ovo', Some ieo' =>
          run_functor {| q_noop_rebind := qb' |} s' ctor' ov' ie' lates' cl' ovo' ieo' post
      | _, _, _, _, _, _, _, _, _ => ebad
      end
  | L [I 1; s; ctor; partial; lates] =>
      match d_sig s, d_call ctor, dbool partial, dlist d_late lates with
      | Some s', Some ctor', Some p', Some lates' => run_class s' ctor' p' lates'
      | _, _, _, _ => ebad
      end
  | L [I 2; s; cl] =>
      match d_sig s, d_call cl with
      | Some s', Some cl' => e_bound (py_bind s' cl')
      | _, _ => ebad
      end
  | L [I 3; s] =>
      match d_sig s with Some s' => e_sig (generated_init_sig s') | None => ebad end
  | L [I 4; s; ctor; lates; cl; ov; ie] =>
      match d_sig s, d_call ctor, dlist d_late lates, d_call cl, dbool ov, dbool ie with
      | Some s', Some ctor', Some lates', Some cl', Some ov', Some ie' =>
          match effective_u s' ctor' lates' cl' ov' ie' with
          | Ok e => L [I 0; e_call (effective_call s' e)]
          | Err x => L [I 1; e_kind x]
          end
      | _, _, _, _, _, _ => ebad
      end
  | _ => ebad
  end.

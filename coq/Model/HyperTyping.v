(* HyperTyping.v — placeholders bound to value specs (the specs of Model/Typing.v, property C04): the binding-time
   validation of OneOf / ManyOf / Float.custom_apply, read as a predicate on (spec, template).  Definitions only. *)
From Coq Require Import ZArith NArith List Bool.
Import ListNotations.
From PG Require Model.Typing.
From PG Require Import Model.Geno Model.Hyper Model.HyperSpec.

Module T := PG.Model.Typing.

Definition leaf_pv (l : leaf) : T.pv :=
  match l with
  | LfNone => T.PNone | LfBool b => T.PBool b | LfInt z => T.PInt z | LfFlt f => T.PFlt f | LfStr s => T.PStr s end.
Definition opt_map_all {A B} (f : A -> option B) : list A -> option (list B) :=
  fix go l := match l with
              | [] => Some []
              | x :: r => match f x, go r with Some y, Some ys => Some (y :: ys) | _, _ => None end
              end.
(* concrete values as the value specs see them (objects are compared by identity there: not translated) *)
Fixpoint to_pv (t : tmpl) : option T.pv :=
  match t with
  | TLeaf l => Some (leaf_pv l)
  | TList ts => match opt_map_all to_pv ts with Some l => Some (T.PList l) | None => None end
  | TDict kvs => match opt_map_all (fun kv => match to_pv (snd kv) with Some v => Some (fst kv, v) | None => None end) kvs with
                 | Some l => Some (T.PDict l) | None => None end
  | _ => None
  end.

(* [bound sp t]: binding t to a field of spec sp succeeds —
   OneOf.custom_apply:  value_spec.apply(c) for every candidate (a candidate that is itself a placeholder is validated
                        against the same spec by its own custom_apply);
   ManyOf.custom_apply: the spec is a List, its element spec accepts every candidate and its size bounds allow k choices;
   Float.custom_apply:  the spec is a Float whose range contains [lo, hi];
   a constant candidate: value_spec.apply(c) succeeds.
   CustomHyper.custom_apply accepts every spec, so nothing is guaranteed for it; candidates that are containers with
   placeholders inside are validated field by field by the spec's own apply — covered for lists (below), not for dicts / objects. *)
Fixpoint bound (sp : T.spec) (t : tmpl) : Prop :=
  match t with
  | TOneOf cands _ => all_P (bound sp) cands
  | TManyOf k cands _ _ _ =>
      match sp with
      | T.SList e mn mx m => T.frozen m = false /\ T.size_ok mn mx (Z.of_nat k) = true /\ all_P (bound e) cands
      | _ => False end
  | TFloat lo hi _ =>
      match sp with
      | T.SFloat flo fhi m => T.frozen m = false /\ T.in_range flo fhi lo = true /\ T.in_range flo fhi hi = true
      | _ => False end
  | TCustom _ _ => False
  | TList ts =>
      (* a constant list, or a list with placeholders inside in a List field: List.apply validates element by element
         (a placeholder element by its own custom_apply against the element spec) and the length against the bounds *)
      (hypers_of t = [] /\ exists v, to_pv t = Some v /\ T.accepts sp v) \/
      match sp with
      | T.SList e mn mx m => T.frozen m = false /\ T.size_ok mn mx (Z.of_nat (length ts)) = true /\ all_P (bound e) ts
      | _ => False end
  | _ => hypers_of t = [] /\ exists v, to_pv t = Some v /\ T.accepts sp v
  end.

(* HyperSpec.v — the notions the statements of C13 are written in.  Definitions only. *)
From Coq Require Import ZArith NArith List Bool Arith.
Import ListNotations.
From PG Require Import Model.Geno Model.Hyper.

(* every placeholder node of a value, at any depth (also below the candidates of another placeholder) *)
Fixpoint hypers_of (t : tmpl) : list tmpl :=
  match t with
  | TLeaf _ => []
  | TDict kvs => flat_map (fun kv => hypers_of (snd kv)) kvs
  | TObj _ kvs => flat_map (fun kv => hypers_of (snd kv)) kvs
  | TList ts => flat_map hypers_of ts
  | TOneOf cands _ => t :: flat_map hypers_of cands
  | TManyOf _ cands _ _ _ => t :: flat_map hypers_of cands
  | TFloat _ _ _ => [t]
  | TCustom _ _ => [t]
  end.

(* what a `where` filter may look at: the placeholder itself (kind, name, hints, k, flags, range, NUMBER of
   candidates), not what its candidates have meanwhile been replaced by *)
Definition sh (t : tmpl) : tmpl :=
  match t with
  | TOneOf cands a => TOneOf (map (fun _ => TLeaf LfNone) cands) a
  | TManyOf k cands d s a => TManyOf k (map (fun _ => TLeaf LfNone) cands) d s a
  | _ => t
  end.
Definition shallow (w : tmpl -> bool) : Prop := forall a b, sh a = sh b -> w a = w b.

(* equality of values as Python sees it (==, pg.eq): numbers by value, dicts by key *)
Fixpoint veq (a b : tmpl) {struct a} : bool :=
  match a, b with
  | TLeaf x, TLeaf y => leaf_eqb x y
  | TDict xs, TDict ys =>
      (length xs =? length ys) && forallb (fun kv => with_key (fun y => veq (snd kv) y) false ys (fst kv)) xs
  | TList xs, TList ys => forallb2 veq xs ys
  | TObj c xs, TObj c' ys => (c =? c') && forallb2 (fun x y => str_eqb (fst x) (fst y) && veq (snd x) (snd y)) xs ys
  | TOneOf xs a, TOneOf ys a' => attrs_eqb a a' && forallb2 veq xs ys
  | TManyOf k xs d s a, TManyOf k' ys d' s' a' =>
      (k =? k') && Bool.eqb d d' && Bool.eqb s s' && attrs_eqb a a' && forallb2 veq xs ys
  | TFloat lo hi a, TFloat lo' hi' a' => (lo =? lo')%Z && (hi =? hi')%Z && attrs_eqb a a'
  | TCustom ck a, TCustom ck' a' => (ck =? ck') && attrs_eqb a a'
  | _, _ => false
  end.

(* dict keys and object fields are unique (as in any real dict) *)
Definition all_P {A} (P : A -> Prop) : list A -> Prop :=
  fix go l := match l with [] => True | x :: r => P x /\ go r end.
Fixpoint wf_t (t : tmpl) : Prop :=
  match t with
  | TLeaf _ => True
  | TDict kvs => NoDup (map fst kvs) /\ all_P (fun kv => wf_t (snd kv)) kvs
  | TObj _ kvs => NoDup (map fst kvs) /\ all_P (fun kv => wf_t (snd kv)) kvs
  | TList ts => all_P wf_t ts
  | TOneOf cands _ => all_P wf_t cands
  | TManyOf _ cands _ _ _ => all_P wf_t cands
  | TFloat _ _ _ => True
  | TCustom _ _ => True
  end.

(* what the library enforces when it builds the specification (Choices._on_bound, Float._on_bound, geno.Choices) *)
Fixpoint hwf (t : tmpl) : bool :=
  match t with
  | TLeaf _ => true
  | TDict kvs => forallb (fun kv => hwf (snd kv)) kvs
  | TObj _ kvs => forallb (fun kv => hwf (snd kv)) kvs
  | TList ts => forallb hwf ts
  | TOneOf cands _ => (1 <=? length cands) && forallb hwf cands
  | TManyOf k cands d _ _ => (1 <=? k) && (1 <=? length cands) && (negb d || (k <=? length cands)) && forallb hwf cands
  | TFloat lo hi _ => (lo <=? hi)%Z
  | TCustom _ _ => true
  end.

(* the open finding (list template against an empty dict value) cannot be reached on a template without list nodes *)
Fixpoint nolist (t : tmpl) : bool :=
  match t with
  | TList _ => false
  | TDict kvs => forallb (fun kv => nolist (snd kv)) kvs
  | TObj _ kvs => forallb (fun kv => nolist (snd kv)) kvs
  | TOneOf cands _ => forallb nolist cands
  | TManyOf _ cands _ _ _ => forallb nolist cands
  | _ => true
  end.
Definition avoids (q : hquirks) (t : tmpl) : Prop := q_list_dict q = true -> nolist t = true.

Section Spec.
  Variable cdec : nat -> str -> result tmpl.
  Variable w : tmpl -> bool.

  (* v has the shape the template prescribes: every accepted placeholder replaced by a decoded candidate,
     everything else (including the filtered-out placeholders) in place *)
  Inductive shape : tmpl -> tmpl -> Prop :=
  | shape_leaf : forall l, shape (TLeaf l) (TLeaf l)
  | shape_dict : forall kvs kvs', Forall2 (fun a b => fst a = fst b /\ shape (snd a) (snd b)) kvs kvs' -> shape (TDict kvs) (TDict kvs')
  | shape_obj : forall c kvs kvs', Forall2 (fun a b => fst a = fst b /\ shape (snd a) (snd b)) kvs kvs' -> shape (TObj c kvs) (TObj c kvs')
  | shape_list : forall ts ts', Forall2 shape ts ts' -> shape (TList ts) (TList ts')
  | shape_oneof : forall cands a c v, w (TOneOf cands a) = true -> In c cands -> shape c v -> shape (TOneOf cands a) v
  | shape_manyof : forall k cands d s a vs, w (TManyOf k cands d s a) = true -> length vs = k ->
      Forall (fun v => exists c, In c cands /\ shape c v) vs -> shape (TManyOf k cands d s a) (TList vs)
  | shape_float : forall lo hi a f, w (TFloat lo hi a) = true -> (lo <= f <= hi)%Z -> shape (TFloat lo hi a) (TLeaf (LfFlt f))
  | shape_custom : forall ck a s v, w (TCustom ck a) = true -> cdec ck s = Ok v -> shape (TCustom ck a) v
  | shape_oneof_out : forall cands a cands', w (TOneOf cands a) = false -> Forall2 shape cands cands' -> shape (TOneOf cands a) (TOneOf cands' a)
  | shape_manyof_out : forall k cands d s a cands', w (TManyOf k cands d s a) = false -> Forall2 shape cands cands' ->
      shape (TManyOf k cands d s a) (TManyOf k cands' d s a)
  | shape_float_out : forall lo hi a, w (TFloat lo hi a) = false -> shape (TFloat lo hi a) (TFloat lo hi a)
  | shape_custom_out : forall ck a, w (TCustom ck a) = false -> shape (TCustom ck a) (TCustom ck a).

  (* no two candidates of one accepted choice can decode to equal values — at every accepted choice of the template,
     at any depth *)
  Definition cand_distinct (cands : list tmpl) : Prop :=
    forall i j ci cj di dj vi vj, i <> j -> nth_error cands i = Some ci -> nth_error cands j = Some cj ->
      valid (dna_spec w ci) di = true -> valid (dna_spec w cj) dj = true ->
      sdecode cdec w ci di = Ok vi -> sdecode cdec w cj dj = Ok vj -> veq vi vj = false.
  Fixpoint distinguishable (t : tmpl) : Prop :=
    match t with
    | TLeaf _ => True
    | TDict kvs => all_P (fun kv => distinguishable (snd kv)) kvs
    | TObj _ kvs => all_P (fun kv => distinguishable (snd kv)) kvs
    | TList ts => all_P distinguishable ts
    | TOneOf cands _ => (w t = true -> cand_distinct cands) /\ all_P distinguishable cands
    | TManyOf _ cands _ _ _ => (w t = true -> cand_distinct cands) /\ all_P distinguishable cands
    | TFloat _ _ _ => True
    | TCustom _ _ => True
    end.
End Spec.

(* EvoOps.v — populations, selectors and the operator-composition algebra of pyglove.ext.evolution
   (property C14).  Definitions only.

   An individual is a DNA object: an identity [iid] (Python id(); Union / Intersection / Difference /
   SymmetricDifference / Inversion compare identities), its decisions and the fitness metadata if it
   has one (children produced by mutators and recombinators carry no metadata: clone(deep=True) and
   from_dict drop it).  A population may hold lists of DNAs (what ElementWise maps over, Flatten removes). *)
From Coq Require Import ZArith NArith List Bool Arith.
Import ListNotations.
From PG Require Import Model.Geno Model.Evo.

Record indiv := { iid : nat; idna : sdna; ifit : option Z }.
Inductive item := It (i : indiv) | Grp (g : nat) (l : list item).
Definition item_id (x : item) : nat := match x with It i => iid i | Grp g _ => g end.
Definition is_it (x : item) : bool := match x with It _ => true | Grp _ _ => false end.
Definition its (l : list item) : option (list indiv) :=
  opt_list (map (fun x => match x with It i => Some i | Grp _ _ => None end) l).

(* ---- parameters -------------------------------------------------------------------------------- *)
(* the number of outputs of a selector: an int, a proportion num / 2^lg, or None *)
Inductive nspec := NInt (k : nat) | NFrac (num lg : nat) | NNone.
Definition cdiv (a b : nat) : nat := (a + b - 1) / b.
Definition num_out (n : nspec) (len : nat) : nat :=
  match n with NInt k => k | NFrac a l => cdiv (a * len) (2 ^ l) | NNone => len end.
(* weighting functions of the pool: lambda xs: [1.0] * len(xs)   /   lambda xs: [get_fitness(x) + 0.25 for x in xs] *)
Inductive wfn := WConst | WFit | WFitRaw.      (* ... / lambda xs: [get_fitness(x) for x in xs]  (the fitness itself as weight) *)
Definition weights_of (w : wfn) (l : list item) : res (list Z) :=
  match w with
  | WConst => Ok (map (fun _ => 64%Z) l)
  | WFit => match its l with
            | None => Err EType
            | Some is => match opt_list (map ifit is) with
                         | Some fs => Ok (map (fun f => (f + 16)%Z) fs)
                         | None => Err EKey end
            end
  | WFitRaw => match its l with
               | None => Err EType
               | Some is => match opt_list (map ifit is) with
                            | Some fs => Ok fs
                            | None => Err EKey end
               end
  end.

Inductive selector :=
  | SRandom (n : nspec) (repl : bool) | SSample (n : nspec) (w : wfn) | SProport (n : nspec) (w : wfn)
  | STop (n : nspec) (cluster : bool) | SBottom (n : nspec) (cluster : bool) | SFirst (n : nspec) | SLast (n : nspec).
Inductive mutator := MUniform (wh : nwhere) | MSwap (wh : nwhere).
Inductive recomb :=
  | RPoint (kd : pwkind) (w : wheresel) (wf : wfn)
  | RKPoint (k : nat) | RSegmented (cuts : list nat)
  | RPerm (pk : permkind) (w : wheresel).
Inductive prim := PSel (sl : selector) | PMut (m : mutator) | PRec (rc : recomb) | PChunk (m : nat).
(* a probability num / 2^lg *)
Definition prob := (Z * nat)%type.
Inductive opx :=
  | Prim (p : prim) | Ident
  | Pipe (a b : opx) | Union_ (a b : opx) | Inter (a b : opx) | Concat (a b : opx) | Diff (a b : opx) | SymDiff (a b : opx)
  | Repeat (k : Z) (a : opx) | Power (k : Z) (a : opx)
  | SliceI (i : Z) (a : opx) | SliceS (lo hi : option Z) (step : nat) (a : opx)
  | Invert (a : opx)
  | WithProb (p : prob) (a : opx) | Choice2 (a : opx) (p : prob) (b : opx) (q : prob) (limit : option nat)
  | IfLen (thr : nat) (t f : opx)                 (* Conditional(lambda xs: len(xs) > thr, t, f); a missing branch is Ident *)
  | Each (a : opx)                                (* ElementWise(a) *)
  | Flatten (maxl : option nat)
  | Until (maxa : nat) (a : opx)                  (* UntilChange(a, max_attempts) *)
  | Plain (a : opx)                               (* a plain Python callable (not an Operation) doing what [a] does *)
  | GGet (k : nat) (dflt : bool)                  (* GlobalStateGetter(key, default = [] | None) *)
  | GSet (k : nat) (from_input : bool).           (* GlobalStateSetter(key): stores its input (or the constant []), returns [] *)

(* ---- selectors --------------------------------------------------------------------------------- *)
Section Sel.
  Variable R : Type.
  Variable G : rng R.
  Definition nths {A} (l : list A) (idx : list nat) : option (list A) := opt_list (map (nth_error l) idx).

  (* Proportional._partition *)
  Fixpoint skip_zero (cand : list nat) (alloc : list Z) (m fu q : nat) : nat :=
    match fu with
    | O => q
    | S fu' => if (nth (nth q cand O) alloc 0 =? 0)%Z then skip_zero cand alloc m fu' ((q + 1) mod m) else q
    end.
  Fixpoint adjust (fuel : nat) (cand : list nat) (alloc : list Z) (extra : Z) (next : nat) : res (list Z) :=
    match fuel with
    | O => Err EDraw
    | S f =>
        if (extra =? 0)%Z then Ok alloc else
        let m := length cand in
        if m =? 0 then Err EZeroDiv else
        let delta := if (0 <? extra)%Z then 1%Z else (-1)%Z in
        let nx0 := next mod m in
        (* skip the slots that are already 0 when taking away *)
        let nx := if (extra <? 0)%Z then skip_zero cand alloc m (S m) nx0 else nx0 in
        let idx := nth nx cand O in
        (* the inner loop of the code stops at a slot that is not 0; slots are never negative *)
        if (extra <? 0)%Z && (nth idx alloc 0 <=? 0)%Z then Err EDraw else
        adjust f cand (set_nth alloc idx (nth idx alloc 0 + delta)%Z) (extra - delta)%Z (S nx)
    end.
  Definition partition (ws : list Z) (n : nat) : res (list Z) :=
    let den := sumZ ws in
    match ws with
    | [] => if n =? 0 then Ok [] else Err EZeroDiv
    | _ =>
      if (den =? 0)%Z then Err EZeroDiv else
      let alloc := map (fun w => ((2 * Z.of_nat n * w + den) / (2 * den))%Z) ws in
      let extra := (Z.of_nat n - sumZ alloc)%Z in
      let pos := filter (fun i => (0 <? nth i ws 0)%Z) (seq 0 (length ws)) in
      let cand := if (0 <? extra)%Z
                  then sort_by (fun a b => (nth b ws 0 <=? nth a ws 0)%Z) pos
                  else sort_by (fun a b => (nth a ws 0 <=? nth b ws 0)%Z) pos in
      adjust (Z.abs_nat extra + 1) cand alloc extra 0
    end.

  Definition keys_of (l : list item) : res (list Z) :=
    match its l with
    | None => Err EType
    | Some is => match opt_list (map ifit is) with Some fs => Ok fs | None => Err EKey end
    end.
  Fixpoint dedupZ (l : list Z) : list Z :=
    match l with [] => [] | x :: r => x :: filter (fun y => negb (Z.eqb x y)) (dedupZ r) end.
  (* Top / Bottom; [desc] = Top *)
  Definition top_bottom (desc : bool) (n : nat) (cluster : bool) (pop : list item) : res (list item) :=
    match pop with
    | [] => Ok []
    | _ =>
      dor ks <- keys_of pop;
      let le := fun (a b : Z) => if desc then (b <=? a)%Z else (a <=? b)%Z in
      let kx := combine ks pop in
      if cluster then
        let best := firstn n (sort_by le (dedupZ ks)) in
        Ok (map snd (sort_by (fun a b => le (fst a) (fst b)) (filter (fun kv => existsb (Z.eqb (fst kv)) best) kx)))
      else Ok (firstn n (map snd (sort_by (fun a b => le (fst a) (fst b)) kx)))
    end.

  Definition select (sl : selector) (pop : list item) (r : R) : res (list item * R) :=
    let len := length pop in
    match sl with
    | SFirst n => Ok (firstn (num_out n len) pop, r)
    | SLast n => Ok (skipn (len - num_out n len) pop, r)
    | SRandom n true =>
        let k := num_out n len in
        if (len =? 0) && negb (k =? 0) then Err EIndex else
        let (idx, r') := map_st (fun (_ : nat) r0 => pick G len r0) (seq 0 k) r in
        match nths pop idx with Some l => Ok (l, r') | None => Err EDraw end
    | SRandom n false =>
        let (idx, r') := sample G len (Nat.min (num_out n len) len) r in
        match nths pop idx with Some l => Ok (l, r') | None => Err EDraw end
    | SSample n w =>
        dor ws <- weights_of w pop;
        if len =? 0 then Err EIndex else
        if (sumZ ws <=? 0)%Z then Err EValue else
        let (idx, r') := picks G ws (num_out n len) r in
        match nths pop idx with Some l => Ok (l, r') | None => Err EDraw end
    | SProport n w =>
        dor ws <- weights_of w pop;
        dor al <- partition ws (num_out n len);
        Ok (concat (map (fun ax => repeat (snd ax) (Z.to_nat (fst ax))) (combine al pop)), r)
    | STop n cl => dor l <- top_bottom true (num_out n len) cl pop; Ok (l, r)
    | SBottom n cl => dor l <- top_bottom false (num_out n len) cl pop; Ok (l, r)
    end.
  (* the documented number of outputs *)
  Definition documented_count (sl : selector) (pop : list item) : nat :=
    let len := length pop in
    match sl with
    | SRandom n true | SSample n _ | SProport n _ => num_out n len
    | SRandom n false | SFirst n | SLast n | STop n false | SBottom n false => Nat.min (num_out n len) len
    | STop n true | SBottom n true =>
        (* every individual whose key is among the best n distinct keys *)
        let desc := match sl with STop _ _ => true | _ => false end in
        let le := fun (a b : Z) => if desc then (b <=? a)%Z else (a <=? b)%Z in
        match keys_of pop with
        | Ok ks => let best := firstn (num_out n len) (sort_by le (dedupZ ks)) in
                   length (filter (fun k => existsb (Z.eqb k) best) ks)
        | Err _ => 0 end
    end.
End Sel.

(* ---- evaluation of operator expressions ----------------------------------------------------------- *)
Section Eval.
  Variable R : Type.
  Variable G : rng R.
  Variable s : dspec.
  (* the PRNG and the next fresh object identity *)
  Definition est := (R * nat)%type.
  Definition fresh_items (ds : list sdna) (st : est) : list item * est :=
    (map (fun nd => It {| iid := snd st + fst nd; idna := snd nd; ifit := None |}) (combine (seq 0 (length ds)) ds),
     (fst st, snd st + length ds)).

  Definition run_mut (m : mutator) (pop : list item) (st : est) : res (list item * est) :=
    match its pop with
    | None => Err EType
    | Some is =>
        dor o <- foldi (fun (_ : nat) i (acc : list sdna * R) =>
                   dor dr <- match m with
                             | MUniform wh => mutate_uniform R G wh s (idna i) (snd acc)
                             | MSwap wh => mutate_swap R G wh s (idna i) (snd acc) end;
                   Ok (fst acc ++ [fst dr], snd dr)) 0 is ([], fst st);
        Ok (fresh_items (fst o) (snd o, snd st))
    end.
  Definition run_rec (rc : recomb) (pop : list item) (st : est) : res (list item * est) :=
    match its pop with
    | None => Err EType
    | Some is =>
        let ds := map idna is in
        let two := fun (f : sdna -> sdna -> res (list item * est)) =>
          match ds with [x; y] => f x y | _ => Err EValue end in
        match rc with
        | RPoint kd w wf =>
            dor ws <- (match kd with PWSample | PWWeighted => weights_of wf pop | _ => Ok [] end);
            dor o <- pointwise R G kd w ws s ds (fst st);
            Ok (fresh_items (fst o) (snd o, snd st))
        | RKPoint k => two (fun x y => let o := kpoint R G k s x y (fst st) in Ok (fresh_items (fst o) (snd o, snd st)))
        | RSegmented cuts => two (fun x y => Ok (fresh_items (segment cuts s x y) st))
        | RPerm pk w =>
            two (fun x y => dor o <- permutation R G pk w s x y (fst st);
                            match fst o with
                            | None => Ok (pop, (snd o, snd st))
                            | Some cs => Ok (fresh_items cs (snd o, snd st)) end)
        end
    end.
  Fixpoint chunks {A} (fuel m : nat) (l : list A) : list (list A) :=
    match fuel with
    | O => []
    | S f => match l with [] => [] | _ => firstn m l :: chunks f m (skipn m l) end
    end.
  Definition run_prim (p : prim) (pop : list item) (st : est) : res (list item * est) :=
    match p with
    | PSel sl => dor o <- select R G sl pop (fst st); Ok (fst o, (snd o, snd st))
    | PMut m => run_mut m pop st
    | PRec rc => run_rec rc pop st
    | PChunk m =>
        let cs := chunks (length pop) (Nat.max m 1) pop in
        Ok (map (fun ic => Grp (snd st + fst ic) (snd ic)) (combine (seq 0 (length cs)) cs), (fst st, snd st + length cs))
    end.

  Definition ids (l : list item) : list nat := map item_id l.
  Fixpoint dedup_id (seen : list nat) (l : list item) : list item :=
    match l with
    | [] => []
    | x :: r => if memb (item_id x) seen then dedup_id seen r else x :: dedup_id (item_id x :: seen) r
    end.
  Definition count_id (i : nat) (l : list item) : nat := length (filter (fun x => item_id x =? i) l).
  (* Python indexing / slicing *)
  Definition py_index (i : Z) (len : nat) : option nat :=
    let j := if (i <? 0)%Z then (i + Z.of_nat len)%Z else i in
    if (0 <=? j)%Z && (j <? Z.of_nat len)%Z then Some (Z.to_nat j) else None.
  Definition py_bound (o : option Z) (dflt : nat) (len : nat) : nat :=
    match o with
    | None => dflt
    | Some i => let j := if (i <? 0)%Z then (i + Z.of_nat len)%Z else i in
                Z.to_nat (Z.min (Z.max j 0) (Z.of_nat len))
    end.
  Fixpoint every {A} (fuel step : nat) (l : list A) : list A :=
    match fuel with
    | O => []
    | S f => match l with [] => [] | x :: _ => x :: every f step (skipn step l) end
    end.
  Definition py_slice {A} (lo hi : option Z) (step : nat) (l : list A) : list A :=
    let len := length l in
    let a := py_bound lo 0 len in let b := py_bound hi len len in
    every len (Nat.max step 1) (firstn (b - a) (skipn a l)).
  Definition lt_prob (z : Z) (p : prob) : bool := (z * 2 ^ Z.of_nat (snd p) <? fst p * 2 ^ 53)%Z.
  (* list equality as Python compares an operation's output with its input (DNA.__eq__ is by value) *)
  Fixpoint item_eqb (x y : item) {struct x} : bool :=
    match x, y with
    | It a, It b => sdna_eqb (idna a) (idna b)
    | Grp _ l, Grp _ m =>
        (fix go (l m : list item) : bool :=
           match l, m with [], [] => true | a :: l', b :: m' => item_eqb a b && go l' m' | _, _ => false end) l m
    | _, _ => false
    end.
  Definition pop_eqb (l m : list item) : bool := forallb2 item_eqb l m.
  (* Flatten._flatten_list *)
  Fixpoint flat_item (maxl : option nat) (level : nat) (x : item) {struct x} : list item :=
    match x with
    | It _ => [x]
    | Grp _ l =>
        match maxl with
        | Some m => if m <? S level then [x] else flat_map (flat_item maxl (S level)) l
        | None => flat_map (flat_item maxl (S level)) l
        end
    end.
  Definition iter_res {A} (f : A -> res A) : nat -> A -> res A :=
    fix go k a := match k with O => Ok a | S k' => match f a with Ok a' => go k' a' | Err e => Err e end end.

  (* the global state of one evaluation: key -> stored list.  [gst] = (PRNG, next identity) and the global state *)
  Definition gstate := list (nat * list item).
  Definition gst := (est * gstate)%type.
  Fixpoint gs_get (k : nat) (g : gstate) : option (list item) :=
    match g with [] => None | (k', l) :: r => if k' =? k then Some l else gs_get k r end.
  Definition gs_set (k : nat) (l : list item) (g : gstate) : gstate := (k, l) :: g.
  Definition st_r (st : gst) : R := fst (fst st).
  Definition st_n (st : gst) : nat := snd (fst st).
  Definition with_r (st : gst) (r : R) : gst := ((r, snd (fst st)), snd st).

  Fixpoint eval (x : opx) (pop : list item) (st : gst) {struct x} : res (list item * gst) :=
    match x with
    | Prim p => dor o <- run_prim p pop (fst st); Ok (fst o, (snd o, snd st))
    | Plain a =>     (* called without global_state: the operation inside starts with an empty one of its own *)
        dor o <- eval a pop (fst st, []); Ok (fst o, (fst (snd o), snd st))
    | GGet k dflt =>
        match gs_get k (snd st) with
        | Some l => Ok (l, st)
        | None => if dflt then Ok ([], st) else Err EKey end
    | GSet k fi => Ok ([], (fst st, gs_set k (if fi then pop else []) (snd st)))
    | Ident => Ok (pop, st)
    | Pipe a b => dor o <- eval a pop st; eval b (fst o) (snd o)
    | Union_ a b => dor o1 <- eval a pop st; dor o2 <- eval b pop (snd o1); Ok (dedup_id [] (fst o1 ++ fst o2), snd o2)
    | Inter a b =>   (* the operands after the first are evaluated first; every item once *)
        dor o2 <- eval b pop st; dor o1 <- eval a pop (snd o2);
        Ok (dedup_id [] (filter (fun y => memb (item_id y) (ids (fst o2))) (fst o1)), snd o1)
    | Concat a b => dor o1 <- eval a pop st; dor o2 <- eval b pop (snd o1); Ok (fst o1 ++ fst o2, snd o2)
    | Diff a b =>
        dor o2 <- eval b pop st; dor o1 <- eval a pop (snd o2);
        Ok (filter (fun y => negb (memb (item_id y) (ids (fst o2)))) (fst o1), snd o1)
    | SymDiff a b =>
        dor o1 <- eval a pop st; dor o2 <- eval b pop (snd o1);
        Ok (filter (fun y => xorb (memb (item_id y) (ids (fst o1))) (memb (item_id y) (ids (fst o2)))) (fst o1 ++ fst o2), snd o2)
    | Repeat k a =>
        iter_res (fun acc : list item * gst => dor o <- eval a pop (snd acc); Ok (fst acc ++ fst o, snd o)) (Z.to_nat k) ([], st)
    | Power k a => iter_res (fun acc : list item * gst => eval a (fst acc) (snd acc)) (Z.to_nat k) (pop, st)
    | SliceI i a =>
        dor o <- eval a pop st;
        match py_index i (length (fst o)) with
        | None => Err EIndex
        | Some j => match nth_error (fst o) j with
                    | Some (Grp _ l) => Ok (l, snd o)        (* the selected element is itself a list *)
                    | Some y => Ok ([y], snd o)
                    | None => Err EIndex end
        end
    | SliceS lo hi step a => dor o <- eval a pop st; Ok (py_slice lo hi step (fst o), snd o)
    | Invert a => dor o <- eval a pop st; Ok (filter (fun y => negb (memb (item_id y) (ids (fst o)))) pop, snd o)
    | WithProb p a =>
        let (z, r1) := real G (st_r st) in
        if lt_prob z p then eval a pop (with_r st r1) else Ok (pop, with_r st r1)
    | Choice2 a p b q limit =>
        let (z, r1) := real G (st_r st) in
        dor o1 <- (if lt_prob z p then dor o <- eval a pop (with_r st r1); Ok (fst o, snd o, 1) else Ok (pop, with_r st r1, 0));
        let '(pop1, st1, n1) := o1 in
        if match limit with Some l => (n1 =? 1) && (l =? 1) | None => false end then Ok (pop1, st1) else
        let (z2, r2) := real G (st_r st1) in
        if lt_prob z2 q then eval b pop1 (with_r st1 r2) else Ok (pop1, with_r st1 r2)
    | IfLen thr t f => if thr <? length pop then eval t pop st else eval f pop st
    | Each a =>
        dor o <- foldi (fun (_ : nat) y (acc : list item * gst) =>
                   match y with
                   | Grp _ l => dor o1 <- eval a l (snd acc);
                                Ok (fst acc ++ [Grp (st_n (snd o1)) (fst o1)], ((st_r (snd o1), S (st_n (snd o1))), snd (snd o1)))
                   | It _ => Err EType end) 0 pop ([], st);
        Ok o
    | Flatten maxl => Ok (flat_map (fun y => match y with
                                             | It _ => [y]
                                             | Grp _ l => flat_item maxl 0 y end) pop, st)
    | Until maxa a =>
        (fix go (k : nat) (st0 : gst) : res (list item * gst) :=
           match k with
           | O => Err EValue
           | S k' => dor o <- eval a pop st0;
                     if negb (pop_eqb (fst o) pop) then Ok o
                     else match k' with O => Ok o | _ => go k' (snd o) end
           end) maxa st
    end.
End Eval.

(* ---- specification vocabulary ------------------------------------------------------------------------ *)
(* every DNA of the population (at any nesting depth) is a valid decision of the specification *)
Fixpoint item_okb (s : dspec) (x : item) {struct x} : bool :=
  match x with It i => valid s (idna i) | Grp _ l => forallb (item_okb s) l end.
Definition pop_ok (s : dspec) (pop : list item) : Prop := Forall (fun x => item_okb s x = true) pop.
(* an operation maps valid populations to valid populations (when it does not raise) *)
Definition closed {St : Type} (s : dspec) (f : list item -> St -> res (list item * St)) : Prop :=
  forall pop st pop' st', pop_ok s pop -> f pop st = Ok (pop', st') -> pop_ok s pop'.
(* ... for expressions, which also read and write the global state: what is stored stays valid *)
Definition gs_ok (s : dspec) (g : list (nat * list item)) : Prop := Forall (fun kv => pop_ok s (snd kv)) g.
Definition closedg {E : Type} (s : dspec) (f : list item -> E * list (nat * list item) -> res (list item * (E * list (nat * list item)))) : Prop :=
  forall pop st pop' st', pop_ok s pop -> gs_ok s (snd st) -> f pop st = Ok (pop', st') -> pop_ok s pop' /\ gs_ok s (snd st').

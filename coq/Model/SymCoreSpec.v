(* SymCoreSpec.v — the predicates the theorems about SymCore are stated with (definitions only). *)
From Coq Require Import ZArith NArith List Bool.
Import ListNotations.
From PG Require Import Model.SymCoreDefs Model.SymCoreOps.
Local Open Scope Z_scope.

(* --- C08: which operations change their target -------------------------------------------------- *)
(* every operation of the catalogue except the ones that build a new value (+, *, copy, clone) and the two
   flag setters; enumerated, so that a mutator added to [op] must be classified *)
Definition mutating {V} (o : op V) : bool :=
  match o with
  | LSet _ _ | LDel _ | LAppend _ | LInsert _ _ | LExtend _ | LPop _ | LRemove _ | LClear | LReverse | LSort _ _
  | LIAdd _ | LIMul _
  | DSet _ _ _ | DDel _ _ | DPop _ _ | DPopItem | DClear | DSetDefault _ _ | DUpdate _ | DIOr _
  | OSet _ _ | Rebind _ => true
  | LAdd _ | LMul _ | LCopy | DCopy | Clone _ | Seal _ | SetAW _ => false
  end.
(* rebind and its aliases check the seal of the owner of every written key instead of the target's *)
Definition rebind_like {V} (o : op V) : bool :=
  match o with Rebind _ | DUpdate _ | DIOr _ => true | _ => false end.
(* assignment / deletion through accessors *)
(* an operation and its resolved form are the same constructor with the same non-value arguments *)
Definition resolvable (st : state) (o : op value) : Prop := exists ro, resolve_op st o = Some ro.
Definition accessor_op {V} (o : op V) : bool :=
  match o with LSet _ _ | LDel _ | DSet _ _ _ | DDel _ _ | OSet _ _ => true | _ => false end.
(* the operation has something to do on these items (otherwise it is a no-op or fails with its own error
   before the permission check): pop of an existing index / key, remove of a present value, setdefault of an
   absent key, assignment of a declared attribute *)
Definition applicable {V} (tk : kind) (its : list (key * node)) (o : op V) : bool :=
  let n := zlen its in
  match o with
  | LPop oi => let i := match oi with Some i => i | None => -1 end in negb ((i <? - n) || (i >=? n))
  | LRemove l =>
      match find_index (fun kv => match snd kv with Leaf x => leaf_pyeq x l | _ => false end) its with
      | Some _ => true | None => false end
  | DPop k _ => has_key k its
  | DSetDefault k _ => match assoc k its with Some old => is_missing old | None => true end
  | OSet k _ => match tk with KObj c => existsb (key_eqb k) (class_fields c) | _ => false end
  | _ => true
  end.

(* --- C01: well-formedness ---------------------------------------------------------------------------- *)
(* a node is where it believes to be: stored parent = the container it sits in, stored path = the keys leading to it;
   list keys are the positions 0..n-1; dict keys are distinct *)
Fixpoint positions (i : Z) (l : list key) : Prop :=
  match l with [] => True | k :: r => k = KI i /\ positions (i + 1) r end.
Definition keys_ok (k : kind) (ks : list key) : Prop :=
  match k with
  | KList => positions 0 ks
  | KDict => NoDup ks
  | KObj c => ks = class_fields c
  end.
Fixpoint wf_node (ep : option N) (epth : list key) (n : node) : Prop :=
  match n with
  | Leaf _ => True
  | Node i k pa pt fl its =>
      pa = ep /\ pt = epth /\ keys_ok k (map fst its) /\
      (fix all (l : list (key * node)) : Prop :=
         match l with
         | [] => True
         | kv :: r => wf_node (Some i) (epth ++ [fst kv]) (snd kv) /\ all r
         end) its
  end.
Definition wf_slot (s : slot) : Prop := match s with Live t => is_node t = true /\ wf_node None [] t | Moved _ => True end.
Definition ids_below (bound : N) (l : list N) : Prop := Forall (fun i => (i < bound)%N) l.
Definition WF (st : state) : Prop :=
  Forall wf_slot (roots st) /\ NoDup (all_ids st) /\ ids_below (next_id st) (all_ids st).

(* --- C07 / C02: what a tree *is* once identities, annotations and flags are forgotten --------------------- *)
Inductive pv : Type :=
| PLeaf (l : leaf)                       (* opaque objects keep their tag only *)
| PNode (k : kind) (items : list (key * pv)).
Definition erase_leaf (l : leaf) : leaf := match l with LOpq _ t => LOpq 0 t | _ => l end.
Fixpoint erase (n : node) : pv :=
  match n with
  | Leaf l => PLeaf (erase_leaf l)
  | Node _ k _ _ _ its => PNode k (map (fun kv => (fst kv, erase (snd kv))) its)
  end.
(* the flags of every node, in the shape of the tree *)
Inductive ftree : Type := FLeaf | FNode (fl : flags) (items : list ftree).
Fixpoint flags_of (n : node) : ftree :=
  match n with
  | Leaf _ => FLeaf
  | Node _ _ _ _ fl its => FNode fl (map (fun kv => flags_of (snd kv)) its)
  end.
(* opaque leaf objects (identities) below a node *)
Fixpoint oids (n : node) : list N :=
  match n with
  | Leaf (LOpq o _) => [o]
  | Leaf _ => []
  | Node _ _ _ _ _ its => flat_map (fun kv => oids (snd kv)) its
  end.

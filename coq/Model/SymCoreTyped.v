(* SymCoreTyped.v — SymCore forests whose nodes may carry a value spec (property C03).  Definitions only.

   A node with [f_spec fl = r <> 0] is bound to the r-th entry of a table of [Typing.spec]:
     pg.List  <-> SList elem min max        (every element goes through elem)
     pg.Dict  <-> SDict (Some fields)       (const keys and at most one StrKey() field; SDict None = no constraint)
     pg.Object of class c <-> SDict (Some fields) with the keys [class_fields c]   (the class schema)
   The typed write path is formalise-then-store as List._formalized_value / Dict._formalized_value do it:
   the written plain value is applied to the field's value spec ([Typing.apply] with the effective allow_partial),
   the result is turned into nodes bound to the specs of the fields they sit in, and only then stored; the explicit
   size checks are those of list.py (write primitive, __delitem__, append, insert, extend, remove, clear).

   Covered values of a typed write: plain Python values (None, MISSING_VALUE, bool, int, float, str, tuples, class
   instances, nested lists and dicts).  Symbolic values (references to nodes, constructed pg.Dict / pg.List) written
   into a typed container are outside the model: the step answers "not applicable" (and so does the driver).
   Untyped containers behave as in SymCoreOps.                                                                   *)
From Coq Require Import ZArith NArith List Bool.
Import ListNotations.
From PG Require Import Common.Tr Model.SymCoreDefs Model.SymCoreOps.
From PG Require Model.SymCore Model.Typing.
Local Open Scope Z_scope.

Notation pv := Typing.pv.
Notation spec := Typing.spec.

(* ---------------------------------------------------------------------------------------------------------- *)
(** * Plain values as leaves

   SymCore leaves are None / bool / int / str / MISSING.  Every other non-symbolic value (float, tuple, class
   instance) is carried by a string leaf whose first code point is 0 followed by a token code of the value
   (generated strings never start with code point 0). *)

Definition zn (z : Z) : N := if z <? 0 then (2 * Z.to_N (- z) - 1)%N else (2 * Z.to_N z)%N.
Definition nz (n : N) : Z := if N.even n then Z.of_N (N.div n 2) else - Z.of_N (N.div (n + 1) 2).
Definition nlen {A} (l : list A) : N := N.of_nat (length l).

Fixpoint enc_pv (v : pv) : list N :=
  match v with
  | Typing.PNone => [0%N]
  | Typing.PMissing => [1%N]
  | Typing.PBool b => [2%N; if b then 1%N else 0%N]
  | Typing.PInt z => [3%N; zn z]
  | Typing.PFlt q => [4%N; zn q]
  | Typing.PStr s => 5%N :: nlen s :: s
  | Typing.PList l => 6%N :: nlen l :: (fix go (l : list pv) : list N := match l with [] => [] | x :: r => enc_pv x ++ go r end) l
  | Typing.PTuple l => 7%N :: nlen l :: (fix go (l : list pv) : list N := match l with [] => [] | x :: r => enc_pv x ++ go r end) l
  | Typing.PDict kvs =>
      8%N :: nlen kvs ::
      (fix go (l : list (Typing.str * pv)) : list N :=
         match l with [] => [] | (k, x) :: r => (nlen k :: k) ++ enc_pv x ++ go r end) kvs
  | Typing.PObj c i => 9%N :: nlen c :: c ++ [i]
  end.

Fixpoint take_n {A} (n : nat) (l : list A) : option (list A * list A) :=
  match n with
  | O => Some ([], l)
  | S m => match l with [] => None | x :: r => match take_n m r with Some (a, b) => Some (x :: a, b) | None => None end end
  end.

Fixpoint dec_pv (fuel : nat) (ts : list N) : option (pv * list N) :=
  match fuel with
  | O => None
  | S f =>
    let many := fix many (k : nat) (ts : list N) : option (list pv * list N) :=
                  match k with
                  | O => Some ([], ts)
                  | S k' => match dec_pv f ts with
                            | Some (x, r) => match many k' r with Some (xs, r') => Some (x :: xs, r') | None => None end
                            | None => None
                            end
                  end in
    match ts with
    | 0%N :: r => Some (Typing.PNone, r)
    | 1%N :: r => Some (Typing.PMissing, r)
    | 2%N :: b :: r => Some (Typing.PBool (negb (N.eqb b 0)), r)
    | 3%N :: z :: r => Some (Typing.PInt (nz z), r)
    | 4%N :: q :: r => Some (Typing.PFlt (nz q), r)
    | 5%N :: n :: r => match take_n (N.to_nat n) r with Some (s, r') => Some (Typing.PStr s, r') | None => None end
    | 6%N :: n :: r => match many (N.to_nat n) r with Some (l, r') => Some (Typing.PList l, r') | None => None end
    | 7%N :: n :: r => match many (N.to_nat n) r with Some (l, r') => Some (Typing.PTuple l, r') | None => None end
    | 8%N :: n :: r =>
        match
        (fix kvs (k : nat) (ts : list N) : option (list (Typing.str * pv) * list N) :=
           match k with
           | O => Some ([], ts)
           | S k' =>
               match ts with
               | kn :: r1 =>
                   match take_n (N.to_nat kn) r1 with
                   | Some (key, r2) =>
                       match dec_pv f r2 with
                       | Some (x, r3) => match kvs k' r3 with Some (xs, r4) => Some ((key, x) :: xs, r4) | None => None end
                       | None => None
                       end
                   | None => None
                   end
               | [] => None
               end
           end) (N.to_nat n) r
        with Some (l, r') => Some (Typing.PDict l, r') | None => None end
    | 9%N :: n :: r =>
        match take_n (N.to_nat n) r with
        | Some (c, i :: r') => Some (Typing.PObj c i, r')
        | _ => None
        end
    | _ => None
    end
  end.

Definition code_fuel (ts : list N) : nat := S (length ts).
Definition leaf_of_pv (v : pv) : leaf :=
  match v with
  | Typing.PNone => LNone
  | Typing.PMissing => LMissing
  | Typing.PBool b => LBool b
  | Typing.PInt z => LInt z
  | Typing.PStr (0%N :: _) => LStr (0%N :: enc_pv v)
  | Typing.PStr s => LStr s
  | _ => LStr (0%N :: enc_pv v)
  end.
Definition leaf_pv (l : leaf) : pv :=
  match l with
  | LNone => Typing.PNone
  | LBool b => Typing.PBool b
  | LInt z => Typing.PInt z
  | LStr (0%N :: ts) => match dec_pv (code_fuel ts) ts with Some (v, []) => v | _ => Typing.PStr (0%N :: ts) end
  | LStr s => Typing.PStr s
  | LMissing => Typing.PMissing
  | LOpq _ t => Typing.PObj [9%N; 9%N] t          (* a symcore_driver.Opq object: == by tag *)
  | LJunk => Typing.PObj [9%N; 9%N; 9%N] 0        (* some other object (a pg.Insertion stored as a value) *)
  end.

Definition key_str_of (k : key) : Typing.str := match k with KS s => s | KI z => [0%N; 1%N; zn z] end.

(* the Python value a stored item is (symbolic containers as plain dict / list; an object is an instance of its class) *)
Fixpoint node_pv (n : node) : pv :=
  match n with
  | Leaf l => leaf_pv l
  | Node i k _ _ _ its =>
      match k with
      | KDict => Typing.PDict ((fix go (l : list (key * node)) : list (Typing.str * pv) :=
                             match l with [] => [] | (kk, c) :: r => (key_str_of kk, node_pv c) :: go r end) its)
      | KList => Typing.PList ((fix go (l : list (key * node)) : list pv :=
                             match l with [] => [] | (_, c) :: r => node_pv c :: go r end) its)
      | KObj c => Typing.PObj [2%N; c] i
      end
  end.

(* ---------------------------------------------------------------------------------------------------------- *)
(** * The spec table *)

Definition mods_eqb (a b : Typing.mods) : bool :=
  Bool.eqb (Typing.noneable a) (Typing.noneable b) &&
  match Typing.default a, Typing.default b with
  | Some x, Some y => Typing.pv_eqb x y
  | None, None => true
  | _, _ => false
  end && Bool.eqb (Typing.frozen a) (Typing.frozen b).
Definition optZ_eqb (a b : option Z) : bool :=
  match a, b with Some x, Some y => Z.eqb x y | None, None => true | _, _ => false end.
Fixpoint pvs_eqb (a b : list pv) : bool :=
  match a, b with
  | [], [] => true
  | x :: a', y :: b' => Typing.pv_eqb x y && pvs_eqb a' b'
  | _, _ => false
  end.

Fixpoint spec_eqb (a b : spec) {struct a} : bool :=
  match a, b with
  | Typing.SBool m, Typing.SBool m' => mods_eqb m m'
  | Typing.SInt lo hi m, Typing.SInt lo' hi' m' => optZ_eqb lo lo' && optZ_eqb hi hi' && mods_eqb m m'
  | Typing.SFloat lo hi m, Typing.SFloat lo' hi' m' => optZ_eqb lo lo' && optZ_eqb hi hi' && mods_eqb m m'
  | Typing.SStr m, Typing.SStr m' => mods_eqb m m'
  | Typing.SEnum vs m, Typing.SEnum vs' m' => pvs_eqb vs vs' && mods_eqb m m'
  | Typing.SList e mn mx m, Typing.SList e' mn' mx' m' => spec_eqb e e' && Z.eqb mn mn' && optZ_eqb mx mx' && mods_eqb m m'
  | Typing.STuple es mn mx m, Typing.STuple es' mn' mx' m' =>
      (fix go (xs ys : list spec) {struct xs} : bool :=
         match xs, ys with
         | [], [] => true
         | x :: xs', y :: ys' => spec_eqb x y && go xs' ys'
         | _, _ => false
         end) es es' && Z.eqb mn mn' && optZ_eqb mx mx' && mods_eqb m m'
  | Typing.SDict None m, Typing.SDict None m' => mods_eqb m m'
  | Typing.SDict (Some fs) m, Typing.SDict (Some fs') m' =>
      (fix go (xs ys : list (Typing.fkey * spec)) {struct xs} : bool :=
         match xs, ys with
         | [], [] => true
         | (k, x) :: xs', (k', y) :: ys' => Typing.fkey_eqb k k' && spec_eqb x y && go xs' ys'
         | _, _ => false
         end) fs fs' && mods_eqb m m'
  | Typing.SObj c m, Typing.SObj c' m' => Typing.str_eqb c c' && mods_eqb m m'
  | Typing.SUnion cs m, Typing.SUnion cs' m' =>
      (fix go (xs ys : list spec) {struct xs} : bool :=
         match xs, ys with
         | [], [] => true
         | x :: xs', y :: ys' => spec_eqb x y && go xs' ys'
         | _, _ => false
         end) cs cs' && mods_eqb m m'
  | Typing.SAny m, Typing.SAny m' => mods_eqb m m'
  | _, _ => false
  end.

(* the environment of a case: the spec table and the schema reference of each of the three classes *)
(* e_tq: the quirk flags of the typing layer (C04's open findings about is_compatible), set per run like the others *)
Record env : Type := mkEnv { e_tab : list spec; e_cls : list N; e_tq : Typing.quirks }.
Definition spec_at (ev : env) (r : N) : option spec :=
  match r with 0%N => None | _ => nth_error (e_tab ev) (N.to_nat (r - 1)) end.
Fixpoint find_spec (s : spec) (tb : list spec) (i : N) : N :=
  match tb with [] => 0%N | x :: r => if spec_eqb x s then i else find_spec s r (i + 1)%N end.
(* the reference a node bound to s carries (the first table entry equal to s; 0 when the table has none) *)
Definition ref_of (ev : env) (s : spec) : N := find_spec s (e_tab ev) 1%N.
Definition ref_opt (ev : env) (o : option spec) : N := match o with Some s => ref_of ev s | None => 0%N end.
Definition class_ref (ev : env) (c : N) : N := nth (N.to_nat c) (e_cls ev) 0%N.

Definition node_spec (ev : env) (n : node) : option spec :=
  match n with Node _ _ _ _ fl _ => spec_at ev (f_spec fl) | Leaf _ => None end.

(* the field a member under key k is checked against: Schema.get_field / List.element *)
Definition dict_field (fs : list (Typing.fkey * spec)) (k : key) : option spec :=
  match k with
  | KS s => match Typing.field_of (Typing.KConst s) fs with Some f => Some f | None => Typing.field_of Typing.KDyn fs end
  | KI _ => None
  end.
Definition is_const_key (fs : list (Typing.fkey * spec)) (k : key) : bool :=
  match k with KS s => Typing.has_const s fs | KI _ => false end.

(* Dict.sym_keys: the declared keys in schema order, then the others in the order they were stored *)
Definition ordered_items (ev : env) (n : node) : list (key * node) :=
  match n with
  | Node _ KList _ _ _ its => its
  | Node _ _ _ _ fl its =>
      match spec_at ev (f_spec fl) with
      | Some (Typing.SDict (Some fs) _) =>
          let consts := flat_map (fun kf => match fst kf with
                                            | Typing.KConst k => match assoc (KS k) its with Some c => [(KS k, c)] | None => [] end
                                            | Typing.KDyn => []
                                            end) fs in
          consts ++ filter (fun kc => negb (is_const_key fs (fst kc))) its
      | _ => its
      end
  | Leaf _ => []
  end.

(* ---------------------------------------------------------------------------------------------------------- *)
(** * From an applied value to nodes: which spec a created pg.Dict / pg.List is bound to *)

Definition is_tydict (t : Typing.ty) : bool := match t with Typing.TyDict | Typing.TyObject => true | _ => false end.
Definition is_tylist (t : Typing.ty) : bool := match t with Typing.TyList | Typing.TyObject => true | _ => false end.
Definition takes (p : Typing.ty -> bool) (s : spec) : bool :=
  match Typing.vtype s with Some ts => existsb p ts | None => false end.

(* Union._apply hands a dict (list) to its first candidate whose value type a dict (list) is an instance of;
   Dict.custom_apply / symbolic_transform_fn then bind it when that candidate is a Dict (List) spec *)
Fixpoint bound_for (dict : bool) (s : spec) {struct s} : option spec :=
  match s with
  | Typing.SDict _ _ => if dict then Some s else None
  | Typing.SList _ _ _ _ => if dict then None else Some s
  | Typing.SUnion cs _ =>
      (fix go (l : list spec) : option spec :=
         match l with
         | [] => None
         | c :: r => if takes (if dict then is_tydict else is_tylist) c then bound_for dict c else go r
         end) cs
  | _ => None
  end.
(* the field hands a dict (list) to a Dict (List) spec or to Any *)
Fixpoint route (dict : bool) (s : spec) {struct s} : bool :=
  negb (Typing.frozen (Typing.mods_of s)) &&
  match s with
  | Typing.SDict _ _ => dict
  | Typing.SList _ _ _ _ => negb dict
  | Typing.SAny _ => true
  | Typing.SUnion cs _ =>
      (fix go (l : list spec) : bool :=
         match l with
         | [] => false
         | c :: r => if takes (if dict then is_tydict else is_tylist) c then route dict c else go r
         end) cs
  | _ => false
  end.
(* what a field sees of an object: its class *)
Definition obj_pv (c : N) : pv := Typing.PObj [2%N; c] 0.

Definition bound_opt (dict : bool) (o : option spec) : option spec :=
  match o with Some s => bound_for dict s | None => None end.
Definition field_opt (o : option spec) (k : key) : option spec :=
  match o with Some (Typing.SDict (Some fs) _) => dict_field fs k | _ => None end.
Definition elem_opt (o : option spec) : option spec :=
  match o with Some (Typing.SList e _ _ _) => Some e | _ => None end.

(* the literal (in the sense of SymCoreDefs.build) of an applied value: every dict / list becomes a constructed
   container with default flags, allow_partial [pc], bound to the spec of the field it sits in *)
Fixpoint tlit (ev : env) (pc : bool) (s : option spec) (v : pv) {struct v} : lit :=
  match v with
  | Typing.PDict kvs =>
      let b := bound_opt true s in
      LitNode KDict (mkFlags false true pc (ref_opt ev b)) false
        ((fix go (l : list (Typing.str * pv)) : list (key * lit) :=
            match l with [] => [] | (k, x) :: r => (KS k, tlit ev pc (field_opt b (KS k)) x) :: go r end) kvs)
  | Typing.PList l =>
      let b := bound_opt false s in
      LitNode KList (mkFlags false true pc (ref_opt ev b)) false
        ((fix go (l : list pv) (i : Z) : list (key * lit) :=
            match l with [] => [] | x :: r => (KI i, tlit ev pc (elem_opt b) x) :: go r (i + 1) end) l 0)
  | _ => LitLeaf (leaf_of_pv v)
  end.

(* Schema.apply runs in place on the pg.Dict the value has become: a key of the StrKey() field whose value is (applied to)
   MISSING_VALUE is deleted again by the typed __setitem__ *)
Fixpoint prune (s : option spec) (v : pv) {struct v} : pv :=
  match v with
  | Typing.PDict kvs =>
      let b := bound_opt true s in
      Typing.PDict
        ((fix go (l : list (Typing.str * pv)) : list (Typing.str * pv) :=
            match l with
            | [] => []
            | (k, x) :: r =>
                match b with
                | Some (Typing.SDict (Some fs) _) =>
                    if Typing.is_missing x && negb (Typing.has_const k fs) then go r
                    else (k, prune (field_opt b (KS k)) x) :: go r
                | _ => (k, prune None x) :: go r
                end
            end) kvs)
  | Typing.PList l =>
      let b := bound_opt false s in
      Typing.PList ((fix go (l : list pv) : list pv := match l with [] => [] | x :: r => prune (elem_opt b) x :: go r end) l)
  | _ => v
  end.

(* from_json turns the plain dicts / lists of a written value into pg.Dict / pg.List first; their constructors drop
   MISSING_VALUE entries and items (tuples are left alone) *)
Fixpoint strip (v : pv) {struct v} : pv :=
  match v with
  | Typing.PDict kvs =>
      Typing.PDict ((fix go (l : list (Typing.str * pv)) : list (Typing.str * pv) :=
                       match l with
                       | [] => []
                       | (k, x) :: r => if Typing.is_missing x then go r else (k, strip x) :: go r
                       end) kvs)
  | Typing.PList l =>
      Typing.PList ((fix go (l : list pv) : list pv :=
                       match l with [] => [] | x :: r => if Typing.is_missing x then go r else strip x :: go r end) l)
  | _ => v
  end.

(* a plain Python value written into an untyped container: plain dict / list literals (converted by from_json) *)
Fixpoint plain_lit (v : pv) {struct v} : lit :=
  match v with
  | Typing.PDict kvs =>
      LitNode KDict default_flags true
        ((fix go (l : list (Typing.str * pv)) : list (key * lit) :=
            match l with [] => [] | (k, x) :: r => (KS k, plain_lit x) :: go r end) kvs)
  | Typing.PList l =>
      LitNode KList default_flags true
        ((fix go (l : list pv) (i : Z) : list (key * lit) :=
            match l with [] => [] | x :: r => (KI i, plain_lit x) :: go r (i + 1) end) l 0)
  | _ => LitLeaf (leaf_of_pv v)
  end.

(* back from a literal to the Python value (to validate [leaf_of_pv] on the values actually written) *)
Fixpoint lit_pv (l : lit) : pv :=
  match l with
  | LitLeaf lf => leaf_pv lf
  | LitNode k _ _ its =>
      match k with
      | KDict => Typing.PDict ((fix go (l : list (key * lit)) : list (Typing.str * pv) :=
                             match l with [] => [] | (kk, c) :: r => (key_str_of kk, lit_pv c) :: go r end) its)
      | KList => Typing.PList ((fix go (l : list (key * lit)) : list pv :=
                             match l with [] => [] | (_, c) :: r => lit_pv c :: go r end) its)
      | KObj c => Typing.PObj [2%N; c] 0
      end
  end.

Fixpoint has_container (v : pv) : bool :=
  match v with
  | Typing.PList _ | Typing.PDict _ => true
  | Typing.PTuple l => (fix go (l : list pv) : bool := match l with [] => false | x :: r => has_container x || go r end) l
  | _ => false
  end.
(* no MISSING_VALUE directly inside a list (pg.List drops such items) *)
Fixpoint lists_present (v : pv) : bool :=
  match v with
  | Typing.PList l => (fix go (l : list pv) : bool := match l with [] => true | x :: r => negb (Typing.is_missing x) && lists_present x && go r end) l
  | Typing.PTuple l => (fix go (l : list pv) : bool := match l with [] => true | x :: r => lists_present x && go r end) l
  | Typing.PDict kvs => (fix go (l : list (Typing.str * pv)) : bool := match l with [] => true | (_, x) :: r => lists_present x && go r end) kvs
  | _ => true
  end.
Fixpoint dict_keys_nodup (v : pv) : bool :=
  match v with
  | Typing.PDict kvs =>
      (fix go (l : list (Typing.str * pv)) : bool :=
         match l with
         | [] => true
         | (k, x) :: r => negb (Typing.has_key k r) && dict_keys_nodup x && go r
         end) kvs
  | Typing.PList l | Typing.PTuple l => (fix go (l : list pv) : bool := match l with [] => true | x :: r => dict_keys_nodup x && go r end) l
  | _ => true
  end.

(* ---------------------------------------------------------------------------------------------------------- *)
(** * Values of operations *)

Inductive tvalue : Type := TLit (l : lit) | TRef (p : pos) | TIns (v : tvalue) | TPv (v : pv).
(* resolved against the state the operation starts in: Insertion marker, the value as SymCore sees it, and the plain
   Python value when it is one (the only values the typed write path of this model takes) *)
Record rtv : Type := mkRtv { r_ins : bool; r_rv : rvalue; r_pv : option pv }.

(* constructed values given as SymCore literals are untyped pg.Dict / pg.List (objects are constructed through their class) *)
Fixpoint lit_no_obj (l : lit) : bool :=
  match l with
  | LitLeaf _ => true
  | LitNode k fl _ its =>
      match k with KObj _ => false | _ => true end && N.eqb (f_spec fl) 0 &&
      (fix go (l : list (key * lit)) : bool := match l with [] => true | (_, c) :: r => lit_no_obj c && go r end) its
  end.

Fixpoint resolve_t (st : state) (v : tvalue) : option rtv :=
  match v with
  | TLit (LitLeaf l) => Some (mkRtv false (RLeaf l) (Some (leaf_pv l)))
  | TLit l => if lit_valid l && lit_no_obj l then Some (mkRtv false (RLit l) None) else None
  | TRef p =>
      match get_at st p with
      | Some (Leaf l) => Some (mkRtv false (RLeaf l) (Some (leaf_pv l)))
      | Some (Node i _ _ _ _ _) => Some (mkRtv false (RNodeId i) None)
      | None => None
      end
  | TPv x0 =>
      let x := strip x0 in
      if dict_keys_nodup x && Typing.pv_eqb (lit_pv (plain_lit x)) x then
        Some (mkRtv false (match plain_lit x with LitLeaf l => RLeaf l | l => RLit l end) (Some x))
      else None
  | TIns v' =>
      match resolve_t st v' with
      | Some r => if r_ins r then Some (mkRtv true (RIns (r_rv r)) None) else Some (mkRtv true (r_rv r) (r_pv r))
      | None => None
      end
  end.
Definition to_rv (x : rtv) : rvalue := if r_ins x then RIns (r_rv x) else r_rv x.

Fixpoint mapM {A B} (f : A -> option B) (l : list A) : option (list B) :=
  match l with
  | [] => Some []
  | x :: r => match f x, mapM f r with Some a, Some b => Some (a :: b) | _, _ => None end
  end.
Definition mapM_snd {K A B} (f : A -> option B) (l : list (K * A)) : option (list (K * B)) :=
  mapM (fun kv => match f (snd kv) with Some b => Some (fst kv, b) | None => None end) l.

Definition op_mapM {A B} (f : A -> option B) (o : op A) : option (op B) :=
  match o with
  | LSet i v => option_map (LSet i) (f v)
  | LDel i => Some (LDel i)
  | LAppend v => option_map LAppend (f v)
  | LInsert i v => option_map (LInsert i) (f v)
  | LExtend vs => option_map LExtend (mapM f vs)
  | LPop i => Some (LPop i)
  | LRemove l => Some (LRemove l)
  | LClear => Some LClear
  | LReverse => Some LReverse
  | LSort ks b => Some (LSort ks b)
  | LIAdd vs => option_map LIAdd (mapM f vs)
  | LIMul n => Some (LIMul n)
  | LAdd vs => option_map LAdd (mapM f vs)
  | LMul n => Some (LMul n)
  | LCopy => Some LCopy
  | DSet a k v => option_map (DSet a k) (f v)
  | DDel a k => Some (DDel a k)
  | DPop k d => Some (DPop k d)
  | DPopItem => Some DPopItem
  | DClear => Some DClear
  | DSetDefault k v => option_map (DSetDefault k) (f v)
  | DUpdate kvs => option_map DUpdate (mapM_snd f kvs)
  | DIOr kvs => option_map DIOr (mapM_snd f kvs)
  | DCopy => Some DCopy
  | OSet k v => option_map (OSet k) (f v)
  | Rebind pvs => option_map Rebind (mapM_snd f pvs)
  | Clone m => Some (Clone m)
  | Seal b => Some (Seal b)
  | SetAW b => Some (SetAW b)
  end.
Definition op_values {A} (o : op A) : list A :=
  match o with
  | LSet _ v | LAppend v | LInsert _ v | DSet _ _ v | DSetDefault _ v | OSet _ v => [v]
  | LExtend vs | LIAdd vs | LAdd vs => vs
  | DUpdate kvs | DIOr kvs => map snd kvs
  | Rebind pvs => map snd pvs
  | _ => []
  end.

(* ---------------------------------------------------------------------------------------------------------- *)
(** * The typed write path *)

Definition t_err (e : Typing.err) : err := match e with Typing.TypeErr => EType | Typing.ValueErr => EValue | Typing.KeyErr => EKey end.

Section WithEnv.
Variable q : quirks.
(* open finding C03/member-not-fixpoint/apply/Union-...: the code stores what apply returns also when the value spec does
   not map that result to itself (a Union can dispatch its own result to another candidate).  Flag off = the stored value
   is checked to be a fixed point of the field's apply (anything else is answered EOther and shows up as a disagreement). *)
Variable nf : bool.
Variable ev : env.

(* the value that is about to be stored: decodes back to itself as nodes, Python-dict keys distinct, no MISSING_VALUE item
   in a list, and (unless [nf]) mapped to itself by the spec it was applied to *)
Definition stored_ok (p : bool) (f : spec) (l : lit) (v : pv) : bool :=
  Typing.pv_eqb (lit_pv l) v && dict_keys_nodup v && lists_present v &&
  (nf || match Typing.apply p f v with Typing.Ok w => Typing.pv_eqb w v | Typing.Err _ => false end).

(* does the node check what is written into it against a field *)
Definition checks_members (n : node) : bool :=
  match n, node_spec ev n with
  | Node _ KList _ _ _ _, Some (Typing.SList _ _ _ _) => true
  | Node _ KDict _ _ _ _, Some (Typing.SDict (Some _) _) => true
  | Node _ (KObj _) _ _ _ _, Some (Typing.SDict (Some _) _) => true
  | _, _ => false
  end.

Definition scope_partial (sc : scope) : option bool := innermost None (sc_partial sc).
(* an enclosing as_sealed(True) / allow_writable_accessors(False) also governs the pg.Dict a written value has become while
   Schema.apply completes it through __setitem__ (WritePermissionError from inside the write): not modelled *)
Definition scope_restrictive (sc : scope) : bool :=
  match sealed_scope sc with Some true => true | _ => false end ||
  match innermost None (sc_aw sc) with Some false => true | _ => false end.
(* what the typed write path of the model takes: a plain Python value; under an allow_partial scope (the allow_partial
   flag of the created containers would be that of the scope) or a restrictive scope only one without dicts / lists inside *)
Definition value_ok (sc : scope) (x : rtv) : bool :=
  match r_pv x with
  | Some v =>
      (* MISSING_VALUE stands for the default of the field, which may hold dicts / lists *)
      let c := has_container v || Typing.is_missing v in
      match scope_partial sc with None => negb (scope_restrictive sc && c) | Some _ => negb c end
  | None => false
  end.
Fixpoint any_typed (n : node) : bool :=
  match n with
  | Leaf _ => false
  | Node _ _ _ _ _ its =>
      checks_members n || (fix go (l : list (key * node)) : bool := match l with [] => false | (_, c) :: r => any_typed c || go r end) its
  end.

(* an object that does not accept partial values and has an unfilled attribute (reachable through an allow_partial scope
   only): a copy constructs it again through the class, which is refused (dicts and lists are copied pass_through) *)
Fixpoint unfilled (n : node) : bool :=
  match n with
  | Leaf _ => false
  | Node _ k _ _ fl its =>
      (match k with KObj _ => true | _ => false end && checks_members n && negb (f_partial fl) &&
       existsb (fun kc => SymCoreDefs.is_missing (snd kc)) its) ||
      (fix go (l : list (key * node)) : bool := match l with [] => false | (_, c) :: r => unfilled c || go r end) its
  end.

(* _formalized_value: apply the field with the effective allow_partial, then build the nodes.
   Children created on the way get the container's own allow_partial flag. *)
Definition tformalize (sc : scope) (st : state) (r : nat) (ck : kind) (cid : N) (cfl : flags) (tpath : list key)
           (ins : bool) (f : spec) (v : pv) : (node * state) + err :=
  match Typing.apply (accepts_partial sc cfl) f v with
  | Typing.Err e => inr (t_err e)
  | Typing.Ok v' =>
      let v2 := prune (Some f) v' in
      let l := tlit ev (f_partial cfl) (Some f) v2 in
      if stored_ok (accepts_partial sc cfl) f l v2 then inl (formalize q sc st r ck cid cfl tpath ins (RLit l))
      else inr EOther
  end.

(* a symbolic value (given by reference) handed to a field: what apply + custom_apply do with it when nothing has to be
   bound or completed in place.
   - an object: the field checks its class (there is no custom_apply) and, when it is an Object spec and partial values are
     not allowed, that the object is fully bound; it is stored as it is;
   - an untyped dict / list: stored as it is when the field routes it to Any; refused with the error of apply when the field
     takes no dict / list at all; a field that routes it to a Dict / List spec binds that spec to the value and completes it in
     place (not modelled);
   - a dict / list that carries a spec: stored as it is when that spec is the one the field binds (or the field routes it to
     Any) and its allow_partial flag is the effective one; refused (ValueError) when the field's spec is not compatible with
     it (Typing.compat: is_compatible, with the quirk flags of the typing layer); a compatible value with another spec keeps
     that spec, and one with another allow_partial flag is re-flagged and completed (not modelled). *)
(* Object.sym_partial: a required field is unset somewhere below -- MISSING_VALUE counts as a member of a dict / object that
   carries a schema (not in untyped dicts, not as a placeholder in a list) *)
Fixpoint partial_node (n : node) : bool :=
  match n with
  | Leaf _ => false
  | Node _ k _ _ fl its =>
      let typed := match k, spec_at ev (f_spec fl) with
                   | KList, _ => false
                   | _, Some (Typing.SDict (Some _) _) => true
                   | _, _ => false
                   end in
      (fix go (l : list (key * node)) : bool :=
         match l with [] => false | (_, c) :: r => (typed && SymCoreDefs.is_missing c) || partial_node c || go r end) its
  end.
Inductive rdec : Type := RDAccept | RDErr (e : err) | RDNA.
Definition ref_decide (sc : scope) (cfl : flags) (f : spec) (v : node) : rdec :=
  let p := accepts_partial sc cfl in
  match v with
  | Leaf _ => RDNA
  | Node _ (KObj c) _ _ _ _ =>
      if Typing.frozen (Typing.mods_of f) then RDNA else
      match Typing.apply p f (obj_pv c) with
      | Typing.Ok w =>
          if Typing.pv_eqb w (obj_pv c) then
            (* pg.typing.Object._apply: an object that is not fully bound is refused unless partial values are allowed *)
            if negb p && partial_node v then
              match f with Typing.SObj _ _ => RDErr EValue | Typing.SUnion _ _ => RDNA | _ => RDAccept end
            else RDAccept
          else RDNA
      | Typing.Err e => RDErr (t_err e)
      end
  | Node _ k _ _ fl _ =>
      let dict := match k with KDict => true | _ => false end in
      if route dict f then
        match bound_for dict f with
        | None => if N.eqb (f_spec fl) 0 || (Bool.eqb (f_partial fl) p && Bool.eqb (f_partial fl) (f_partial cfl)) then RDAccept else RDNA
        | Some b =>
            (* (the flag must also be the container's own: a copy of the container applies its fields under that flag) *)
            if negb (N.eqb (f_spec fl) 0) && N.eqb (f_spec fl) (ref_of ev b) && Bool.eqb (f_partial fl) p &&
               Bool.eqb (f_partial fl) (f_partial cfl) then RDAccept else RDNA
        end
      else if N.eqb (f_spec fl) 0 then
        match Typing.apply p f (node_pv v) with Typing.Err e => RDErr (t_err e) | Typing.Ok _ => RDNA end
      else RDNA
  end.
(* ... with the compatibility test in front for a value that carries a spec *)
Definition ref_decide2 (sc : scope) (cfl : flags) (f : spec) (v : node) : rdec :=
  match v with
  | Node _ (KObj _) _ _ _ _ => ref_decide sc cfl f v
  | Node _ _ _ _ fl _ =>
      match spec_at ev (f_spec fl) with
      | Some s => if Typing.compat (e_tq ev) f s then ref_decide sc cfl f v else RDErr EValue
      | None => ref_decide sc cfl f v
      end
  | _ => ref_decide sc cfl f v
  end.
Definition tformalize_ref (sc : scope) (st : state) (r : nat) (ck : kind) (cid : N) (cfl : flags) (tpath : list key)
           (ins : bool) (f : spec) (rv : rvalue) : (node * state) + err :=
  match rv with
  | RNodeId i =>
      match locate st i with
      | Some vpos =>
          match get_at st vpos with
          | Some v =>
              match ref_decide2 sc cfl f v with
              | RDAccept => inl (formalize q sc st r ck cid cfl tpath ins rv)
              | RDErr e => inr e
              | RDNA => inr ENA
              end
          | None => inr ENA
          end
      | None => inr ENA
      end
  | _ => inr ENA
  end.
(* a resolved value: the plain Python value when it is one, else the value as SymCore sees it *)
Definition xval (x : rtv) : pv + rvalue := match r_pv x with Some v => inl v | None => inr (r_rv x) end.
Definition tformalize_s (sc : scope) (st : state) (r : nat) (ck : kind) (cid : N) (cfl : flags) (tpath : list key)
           (ins : bool) (f : spec) (s : pv + rvalue) : (node * state) + err :=
  match s with
  | inl v => tformalize sc st r ck cid cfl tpath ins f v
  | inr rv => tformalize_ref sc st r ck cid cfl tpath ins f rv
  end.

Definition count_present (its : list (key * node)) : Z := zlen (filter (fun kv => negb (is_missing (snd kv))) its).
(* List._ensure_removable(count) *)
Definition removable (mn : Z) (its : list (key * node)) (count : Z) : bool := negb (count_present its - count <? mn).
Definition full (mx : option Z) (n : Z) : bool := match mx with Some m => n >=? m | None => false end.
(* `old is value`: a stored MISSING_VALUE is a MissingValue(spec) object, never the written singleton; a float /
   tuple / class instance just written is a new object *)
Definition same_obj_t (old : node) (rv : rvalue) : bool :=
  match old with
  | Leaf LMissing => false
  | Leaf (LStr (0%N :: _)) => false
  | _ => same_obj old rv
  end.
Definition junk_pv : pv := Typing.PObj [9%N; 9%N; 9%N] 0.
(* `value == MISSING_VALUE` for a resolved value *)
Definition x_missing (x : rtv) : bool :=
  match r_pv x with Some v => Typing.is_missing v | None => is_missing_rv (r_rv x) end.

(* List._set_item_without_permission_check of a list bound to List(e, min, max) *)
Definition tlprim (sc : scope) (st : state) (cp : pos) (k : key) (x : rtv) (e : spec) (mn : Z) (mx : option Z) : state * pres :=
  match get_at st cp with
  | Some (Node cid KList _ cpath cfl its) =>
      match k with
      | KS _ => (st, PErr EAssert)
      | KI z =>
          let n := zlen its in
          let rv := r_rv x in
          let ins := r_ins x in
          if (z >=? n) && negb ins && x_missing x then (st, PNone) else
          let idx0 := if z >=? n then n else z in
          let idx := if idx0 <? 0 then (if idx0 >=? - n then idx0 + n else if ins then 0 else idx0) else idx0 in
          if (idx <? n) && negb ins then
            if idx <? 0 then (st, PErr EIndex) else
            match nth_error its (Z.to_nat idx) with
            | Some (_, old) =>
                if same_obj_t old rv then (st, PNone) else
                if x_missing x && negb (removable mn its 1) then (st, PErr EValue) else
                match tformalize_s sc st (fst cp) KList cid cfl (cpath ++ [KI idx]) false e (xval x) with
                | inr er => (st, PErr er)
                | inl (nw, st1) =>
                    let st2 := update_at st1 cp (set_items (set_nth (Z.to_nat idx) (KI idx, nw) its)) in
                    (add_detached st2 old, PUpd)
                end
            | None => (st, PErr EIndex)
            end
          else
            if full mx n then (st, PErr EValue) else
            match tformalize_s sc st (fst cp) KList cid cfl (cpath ++ [KI idx]) ins e (xval x) with
            | inr er => (st, PErr er)
            | inl (nw, st1) =>
                if idx <? n then
                  (update_at st1 cp (set_items (renum cpath (insert_at (Z.to_nat idx) (KI idx, nw) its))), PUpd)
                else
                  (update_at st1 cp (set_items (its ++ [(KI idx, nw)])), PUpd)
            end
      end
  | _ => (st, PErr EOther)
  end.

(* Dict._set_item_without_permission_check of a dict (or the attribute dict of an object) bound to a schema *)
Definition tdprim (sc : scope) (st : state) (cp : pos) (k : key) (x : rtv) (fs : list (Typing.fkey * spec)) : state * pres :=
  match get_at st cp with
  | Some (Node cid ck _ cpath cfl its) =>
      let rv := to_rv x in
      let old := match assoc k its with Some o => o | None => Leaf LMissing end in
      let miss := negb (r_ins x) && x_missing x in
      if (if has_key k its then same_obj_t old rv else miss) then (st, PNone) else
      match dict_field fs k with
      | None => (st, PErr EKey)
      | Some f =>
          if miss && negb (is_const_key fs k) then
            (* MISSING_VALUE deletes a key of the StrKey() field *)
            (add_detached (update_at st cp (set_items (remove_assoc k its))) old, PUpd)
          else
            (* MISSING_VALUE on a declared key: back to the field's default *)
            let v := if r_ins x then inl junk_pv else if miss then inl (Typing.dflt (Typing.mods_of f)) else xval x in
            match tformalize_s sc st (fst cp) ck cid cfl (cpath ++ [k]) false f v with
            | inr er => (st, PErr er)
            | inl (nw, st1) => (add_detached (update_at st1 cp (set_items (set_assoc k nw its))) old, PUpd)
            end
      end
  | _ => (st, PErr EOther)
  end.

Definition tprim (sc : scope) (st : state) (cp : pos) (k : key) (x : rtv) : state * pres :=
  match get_at st cp with
  | Some (Node _ kd _ _ fl _) =>
      match kd, spec_at ev (f_spec fl) with
      | KList, Some (Typing.SList e mn mx _) => tlprim sc st cp k x e mn mx
      | KDict, Some (Typing.SDict (Some fs) _) => tdprim sc st cp k x fs
      | KObj _, Some (Typing.SDict (Some fs) _) => tdprim sc st cp k x fs
      | _, _ => prim q sc st cp k (to_rv x)
      end
  | _ => (st, PErr EOther)
  end.

(* --- rebind over typed and untyped containers (as SymCoreOps.rebind_*, with [tprim]) ---------------------------- *)
Definition trebind_one (sc : scope) (st : state) (tp : pos) (path : list key) (x : rtv) : state * pres * option N :=
  match path with
  | [] => (st, PErr EKey, None)
  | _ =>
      match get_at st tp with
      | Some tgt =>
          match query_path tgt (removelast path) with
          | None => (st, PErr EKey, None)
          | Some app =>
              let cp := (fst tp, snd tp ++ app) in
              match get_at st cp with
              | Some (Node cid _ _ _ cfl _) =>
                  if treats_as_sealed sc cfl then (st, PErr EWrite, None)
                  else let '(st', p) := tprim sc st cp (last path (KI 0)) x in (st', p, Some cid)
              | _ => (st, PErr EKey, None)
              end
          end
      | None => (st, PErr EOther, None)
      end
  end.
Fixpoint trebind_loop (sc : scope) (st : state) (tp : pos) (pvs : list (list key * rtv)) (upd : list N)
  : state * list N * option err :=
  match pvs with
  | [] => (st, upd, None)
  | (p, x) :: r =>
      match trebind_one sc st tp p x with
      | (st', PErr e, _) => (st', upd, Some e)
      | (st', PUpd, Some cid) => trebind_loop sc st' tp r (upd ++ [cid])
      | (st', _, _) => trebind_loop sc st' tp r upd
      end
  end.
Definition trebind_core (sc : scope) (st : state) (tp : pos) (tk : kind) (pvs : list (list key * rtv)) (notify : bool)
  : state * outcome :=
  let ordered := match tk with KList => sort_desc pvs | _ => pvs end in
  match trebind_loop sc st tp ordered [] with
  | (st', _, Some e) => (st', Err e)
  | (st', upd, None) => (if notify then fix_chains st' upd else st', Ok RNone)
  end.

(* List.extend once the checks have passed *)
Fixpoint textend_loop (sc : scope) (st : state) (ps : pos) (xs : list rtv) (upd : bool) : state * bool * option err :=
  match xs with
  | [] => (st, upd, None)
  | x :: r =>
      match tprim sc st ps (KI (cur_len st ps)) x with
      | (st', PErr e) => (st', upd, Some e)
      | (st', PUpd) => textend_loop sc st' ps r true
      | (st', PNone) => textend_loop sc st' ps r upd
      end
  end.
Definition textend_core (sc : scope) (st : state) (ps : pos) (xs : list rtv) : state * outcome :=
  match textend_loop sc st ps xs false with
  | (st', _, Some e) => (st', Err e)
  | (st', upd, None) => (if upd && notify_on sc then fix_chain st' ps else st', Ok RNone)
  end.

(* --- constructing a typed value: pg.Dict(v, value_spec=sp, ...), pg.List(...), Class(kwargs) -------------------------- *)
Definition tconstruct (st : state) (k : kind) (sp : spec) (fl : flags) (v : pv) : (node * state) + err :=
  match Typing.apply (f_partial fl) sp v with
  | Typing.Err e => inr (t_err e)
  | Typing.Ok v0 =>
      let v' := prune (Some sp) v0 in
      match tlit ev (f_partial fl) (Some sp) v' with
      | LitNode _ fl0 _ its =>
          let l := LitNode k (mkFlags (f_sealed fl) (f_aw fl) (f_partial fl) (f_spec fl0)) false its in
          if stored_ok (f_partial fl) sp (LitNode (match k with KObj _ => KDict | _ => k end) fl0 false its) v' then
            let '(n, nx) := build false None [] l (next_id st) in inl (n, with_next st nx)
          else inr EOther
      | LitLeaf _ => inr EType
      end
  end.

(* the constructor of a typed pg.Dict / pg.Object stores the given items as they are (a MISSING_VALUE item is then taken
   for an absent one by Schema.apply); only the dicts / lists below are converted first *)
Definition strip_items (v : pv) : pv :=
  match v with
  | Typing.PDict kvs => Typing.PDict (map (fun kv => (fst kv, strip (snd kv))) kvs)
  | _ => strip v
  end.
Definition drop_missing (l : list pv) : list pv := filter (fun x => negb (Typing.is_missing x)) l.

(* Object.__init__: unexpected keyword arguments and (unless partial) required arguments are checked first *)
Definition obj_args_ok (fs : list (Typing.fkey * spec)) (partial : bool) (kvs : list (Typing.str * pv)) : bool :=
  forallb (fun kv => Typing.has_const (fst kv) fs || Typing.has_dyn fs) kvs &&
  (partial ||
   forallb (fun kf => match fst kf with
                      | Typing.KConst k => match Typing.default (Typing.mods_of (snd kf)) with Some _ => true | None => Typing.has_key k kvs end
                      | Typing.KDyn => true
                      end) fs).

Definition troot (st : state) (k : kind) (r : N) (fl0 : flags) (v : pv) : (node * state) + err :=
  let fl := mkFlags (f_sealed fl0) (f_aw fl0) (f_partial fl0) r in
  match k, spec_at ev r, v with
  | KDict, Some sp, Typing.PDict _ => tconstruct st KDict sp fl (strip_items v)
  | KList, Some sp, Typing.PList _ => tconstruct st KList sp fl (strip v)
  | KObj c, Some (Typing.SDict (Some fs) m), Typing.PDict kvs =>
      if negb (N.eqb (class_ref ev c) r) then inr ENA else
      if obj_args_ok fs (f_partial fl) kvs then tconstruct st (KObj c) (Typing.SDict (Some fs) m) fl (strip_items v) else inr EType
  | _, _, _ => inr ENA
  end.

Definition items_pv (its : list (key * node)) : list pv := map (fun kv => node_pv (snd kv)) its.
Definition has_sym_child (its : list (key * node)) : bool := existsb (fun kv => is_node (snd kv)) its.
Definition rtv_of_item (n : node) : rtv :=
  match n with Leaf l => mkRtv false (RLeaf l) (Some (leaf_pv l)) | Node i _ _ _ _ _ => mkRtv false (RNodeId i) None end.

(* --- one operation on a target ------------------------------------------------------------------------------------ *)
Definition exec_list (sc : scope) (st : state) (ps : pos) (tid : N) (tpth : list key) (tfl : flags)
           (its : list (key * node)) (e : spec) (mn : Z) (mx : option Z) (sp : spec) (o : op rtv) (deleg : state * outcome)
  : state * outcome :=
  let sl := treats_as_sealed sc tfl in
  let aw := writable_via_accessors sc tfl in
  let n := zlen its in
  let new_list (v : list pv) := troot st KList (f_spec tfl) (mkFlags false true false 0) (Typing.PList v) in
  match o with
  | LSet i x =>
      if sl then (st, Err EWrite) else if negb aw then (st, Err EWrite) else
      if (i <? - n) || (i >=? n) then (st, Err EIndex) else
      match tlprim sc st ps (KI i) x e mn mx with
      | (st', PErr er) => (st', Err er)
      | (st', p) => (notified sc st' ps p, Ok RNone)
      end
  | LDel i =>
      if sl then (st, Err EWrite) else if negb aw then (st, Err EWrite) else
      if (i <? - n) || (i >=? n) then (st, Err EIndex) else
      if negb (removable mn its 1) then (st, Err EValue) else
      (fst (ldel_core sc st ps (Z.to_nat (if i <? 0 then i + n else i))), Ok RNone)
  | LAppend x =>
      if sl then (st, Err EWrite) else
      if full mx n then (st, Err EValue) else
      match tlprim sc st ps (KI n) x e mn mx with
      | (st', PErr er) => (st', Err er)
      | (st', p) => (notified sc st' ps p, Ok RNone)
      end
  | LInsert i x =>
      if sl then (st, Err EWrite) else
      if full mx n then (st, Err EValue) else
      match tlprim sc st ps (KI i) (mkRtv true (to_rv x) (if r_ins x then None else r_pv x)) e mn mx with
      | (st', PErr er) => (st', Err er)
      | (st', p) => (notified sc st' ps p, Ok RNone)
      end
  | LExtend xs | LIAdd xs =>
      if sl then (st, Err EWrite) else
      if match mx with Some m => n + zlen xs >? m | None => false end then (st, Err EValue) else
      textend_core sc st ps xs
  | LPop oi =>
      let i := match oi with Some i => i | None => -1 end in
      if (i <? - n) || (i >=? n) then (st, Err EIndex) else
      if sl then (st, Err EWrite) else
      if negb (removable mn its 1) then (st, Err EValue) else
      let '(st', r) := ldel_core sc st ps (Z.to_nat ((i + n) mod n)) in (st', Ok r)
  | LRemove l =>
      match find_index (fun kv => match snd kv with Leaf x => Typing.py_eq (leaf_pv x) (leaf_pv l) | _ => false end) its with
      | None => (st, Err EValue)
      | Some idx =>
          if mn =? n then (st, Err EValue) else
          if sl then (st, Err EWrite) else if negb aw then (st, Err EWrite) else
          if negb (removable mn its 1) then (st, Err EValue) else
          (fst (ldel_core sc st ps idx), Ok RNone)
      end
  | LClear =>
      if sl then (st, Err EWrite) else
      if mn >? 0 then (st, Err EValue) else deleg
  | LIMul m =>
      if sl then (st, Err EWrite) else
      if m <=? 0 then (if mn >? 0 then (st, Err EValue) else deleg)
      else
        let xs := repeat_list (Z.to_nat (m - 1)) (map (fun kv => rtv_of_item (snd kv)) its) in
        if match mx with Some mm => n + zlen xs >? mm | None => false end then (st, Err EValue) else
        textend_core sc st ps xs
  | LCopy =>
      match new_list (items_pv its) with
      | inr er => (st, Err er)
      | inl (c, st1) => (add_root st1 c, Ok (RPos (length (roots st1), [])))
      end
  | LAdd xs =>
      (* self.copy() (validated again), then extend on the copy; nothing is left behind when either fails *)
      match new_list (items_pv its) with
      | inr er => (st, Err er)
      | inl (c, st1) =>
          let ri := length (roots st1) in
          let st2 := add_root st1 c in
          if treats_as_sealed sc default_flags then (st, Err EWrite) else
          if match mx with Some m => cur_len st2 (ri, []) + zlen xs >? m | None => false end then (st, Err EValue) else
          match textend_core sc st2 (ri, []) xs with
          | (_, Err er) => (st, Err er)
          | (st', _) => (st', Ok (RPos (ri, [])))
          end
      end
  | LMul m =>
      (* List(), extended m times, then use_value_spec *)
      if (m >=? 1) && treats_as_sealed sc default_flags then (st, Err EWrite) else
      match new_list (repeat_list (Z.to_nat m) (items_pv its)) with
      | inr er => (st, Err er)
      | inl (c, st1) => (add_root st1 c, Ok (RPos (length (roots st1), [])))
      end
  | _ => deleg
  end.

Definition exec_dict (sc : scope) (st : state) (ps : pos) (tid : N) (tk : kind) (tpth : list key) (tfl : flags)
           (its : list (key * node)) (fs : list (Typing.fkey * spec)) (sp : spec) (o : op rtv) (deleg : state * outcome)
  : state * outcome :=
  let sl := treats_as_sealed sc tfl in
  let aw := writable_via_accessors sc tfl in
  match o with
  | DSet _ k x =>
      if sl then (st, Err EWrite) else if negb aw then (st, Err EWrite) else
      match tdprim sc st ps k x fs with
      | (st', PErr er) => (st', Err er)
      | (st', p) => (notified sc st' ps p, Ok RNone)
      end
  | DDel _ k =>
      if sl then (st, Err EWrite) else if negb aw then (st, Err EWrite) else
      if negb (has_key k its) then (st, Err EKey) else
      match tdprim sc st ps k (mkRtv false (RLeaf LMissing) (Some Typing.PMissing)) fs with
      | (st', PErr er) => (st', Err er)
      | (st', p) => (notified sc st' ps p, Ok RNone)
      end
  | DPop k d =>
      match assoc k its with
      | Some old =>
          if sl then (st, Err EWrite) else
          match tdprim sc st ps k (mkRtv false (RLeaf LMissing) (Some Typing.PMissing)) fs with
          | (st', PErr er) => (st', Err er)
          | (st', p) =>
              let st'' := notified sc st' ps p in
              (* `value if value != MISSING_VALUE else default`; without a default argument that is the RAISE_IF_NOT_FOUND marker *)
              (st'', Ok (if is_missing old then (match d with Some l => RLeafV l | None => RLeafV (leaf_of_pv (Typing.PTuple [Typing.PMissing])) end)
                         else ret_item st'' old))
          end
      | None => match d with Some l => (st, Ok (RLeafV l)) | None => (st, Err EKey) end
      end
  | DPopItem => (st, Err EValue)
  | DClear =>
      if sl then (st, Err EWrite) else
      (* the cleared content is the spec applied to an empty dict; it is computed (and may be refused) first.
         use_value_spec applies the spec to the dict in place: the created containers pass through the typed __setitem__
         once more and end up with the effective allow_partial *)
      match Typing.apply (accepts_partial sc tfl) sp (Typing.PDict []) with
      | Typing.Err e => (st, Err (t_err e))
      | Typing.Ok v0 =>
          let v' := prune (Some sp) v0 in
          match tlit ev (accepts_partial sc tfl) (Some sp) v' with
          | LitNode _ _ _ lits =>
              if negb (stored_ok (accepts_partial sc tfl) sp (LitNode KDict default_flags false lits) v') then (st, Err EOther) else
              let '(tmp, nx) := build false None tpth (LitNode tk (mkFlags false true (accepts_partial sc tfl) 0%N) false lits) (next_id st) in
              let its' := map (fun kc => (fst kc, set_par (Some tid) (snd kc))) (nitems tmp) in
              let st1 := update_at (with_next st nx) ps (set_items its') in
              let st2 := detach_all st1 (ordered_items ev (Node tid tk None tpth tfl its)) in
              ((if notify_on sc then fix_chain st2 ps else st2), Ok RNone)
          | LitLeaf _ => (st, Err EType)
          end
      end
  | DSetDefault k x =>
      let doit :=
        if sl then (st, Err EWrite) else if negb aw then (st, Err EWrite) else
        match tdprim sc st ps k x fs with
        | (st', PErr er) => (st', Err er)
        | (st', p) => let st'' := notified sc st' ps p in (st'', Ok (ret_of_rv st'' (fst ps, snd ps ++ [k]) (to_rv x)))
        end in
      match assoc k its with
      | Some old => if is_missing old then doit else (st, Ok (ret_item st old))
      | None => doit
      end
  | OSet k x =>
      match tk with
      | KObj c =>
          if negb (existsb (key_eqb k) (class_fields c)) then (st, Ok RNone)
          else if sl then (st, Err EWrite) else if negb aw then (st, Err EWrite) else
          match tdprim sc st ps k x fs with
          | (st', PErr er) => (st', Err er)
          | (st', p) => (notified sc st' ps p, Ok RNone)
          end
      | _ => (st, Err ENA)
      end
  | _ => deleg
  end.

(* an untyped list: the operations that write several values go through [tprim] element by element (for a list that
   does not check its members this is SymCoreOps.lprim, i.e. exactly SymCoreOps.exec) *)
Definition exec_ulist (sc : scope) (st : state) (ps : pos) (tfl : flags) (its : list (key * node)) (o : op rtv)
           (deleg : state * outcome) : state * outcome :=
  let sl := treats_as_sealed sc tfl in
  match o with
  | LExtend xs | LIAdd xs => if sl then (st, Err EWrite) else textend_core sc st ps xs
  | LRemove l =>      (* list.index compares with ==: 2 finds 2.0, which is a coded leaf here *)
      match find_index (fun kv => match snd kv with Leaf x => Typing.py_eq (leaf_pv x) (leaf_pv l) | _ => false end) its with
      | None => (st, Err EValue)
      | Some idx =>
          if sl then (st, Err EWrite) else if negb (writable_via_accessors sc tfl) then (st, Err EWrite) else
          (fst (ldel_core sc st ps idx), Ok RNone)
      end
  | LIMul m =>
      if sl then (st, Err EWrite) else
      if m <=? 0 then deleg
      else textend_core sc st ps (repeat_list (Z.to_nat (m - 1)) (map (fun kv => rtv_of_item (snd kv)) its))
  | LAdd xs =>
      if treats_as_sealed sc default_flags then (st, Err EWrite) else
      let '(c, st1) := new_list_from q st its in
      let ri := length (roots st1) in
      match textend_core sc (add_root st1 c) (ri, []) xs with
      | (st', Err e) => (st', Err e)
      | (st', _) => (st', Ok (RPos (ri, [])))
      end
  | LMul m =>
      if (m >=? 1) && treats_as_sealed sc default_flags then (st, Err EWrite) else
      let '(c, st1) := new_list_from q st [] in
      let ri := length (roots st1) in
      match textend_loop sc (add_root st1 c) (ri, []) (repeat_list (Z.to_nat m) (map (fun kv => rtv_of_item (snd kv)) its)) false with
      | (st', _, Some e) => (st', Err e)
      | (st', _, None) => (st', Ok (RPos (ri, [])))
      end
  | _ => deleg
  end.

Definition op_rv (o : op rtv) : op rvalue :=
  match op_mapM (fun x => Some (to_rv x)) o with Some o' => o' | None => LCopy end.

Definition exec2 (sc : scope) (st : state) (ps : pos) (tid : N) (tk : kind) (tpth : list key) (tfl : flags)
           (its : list (key * node)) (o : op rtv) : state * outcome :=
  let sl := treats_as_sealed sc tfl in
  let deleg := exec q sc st ps tid tk tpth tfl its (op_rv o) in
  match o with
  | Rebind pvs =>
      match pvs with
      | [] => (st, Err EValue)
      | _ => if (match tk with KObj _ => sl | _ => false end) then (st, Err EWrite)
             else trebind_core sc st ps tk pvs (notify_on sc)
      end
  | DUpdate kvs | DIOr kvs =>
      match tk with
      | KDict => trebind_core sc st ps tk (map (fun kv => ([fst kv], snd kv)) kvs) false
      | _ => deleg
      end
  | _ =>
      match tk, spec_at ev (f_spec tfl) with
      | KList, Some (Typing.SList e mn mx m) => exec_list sc st ps tid tpth tfl its e mn mx (Typing.SList e mn mx m) o deleg
      | KList, _ => exec_ulist sc st ps tfl its o deleg
      | KDict, Some (Typing.SDict (Some fs) m) => exec_dict sc st ps tid tk tpth tfl its fs (Typing.SDict (Some fs) m) o deleg
      | KObj _, Some (Typing.SDict (Some fs) m) => exec_dict sc st ps tid tk tpth tfl its fs (Typing.SDict (Some fs) m) o deleg
      | KDict, Some (Typing.SDict None _) => match o with DPopItem => (st, Err EValue) | _ => deleg end
      | _, _ => deleg
      end
  end.

(* --- the scope guard: what the typed write path of this model covers (the driver applies the same test) ------------ *)
Definition container_at (st : state) (tp : pos) (path : list key) : option node :=
  match get_at st tp with
  | Some tgt =>
      match query_path tgt (removelast path) with
      | Some app => get_at st (fst tp, snd tp ++ app)
      | None => None
      end
  | None => None
  end.
(* a value given by reference that has typed containers inside and has to be copied on the way (it has a parent already, or
   holds the target): the copy is constructed under the scope *)
Definition ref_typed (st : state) (troot : nat) (x : rtv) : bool :=
  match (match r_rv x with RIns v => v | v => v end) with
  | RNodeId i =>
      match locate st i with
      | Some p =>
          (match snd p with [] => false | _ => true end || Nat.eqb (fst p) troot) &&
          match get_at st p with Some n => any_typed n | None => false end
      | None => false
      end
  | _ => false
  end.
(* the field a value written into container c under key k is checked against *)
Definition field_at (c : node) (k : option key) : option spec :=
  match c, node_spec ev c with
  | Node _ KList _ _ _ _, Some (Typing.SList e _ _ _) => Some e
  | Node _ KList _ _ _ _, _ => None
  | _, Some (Typing.SDict (Some fs) _) => match k with Some kk => dict_field fs kk | None => None end
  | _, _ => None
  end.
Definition flags_of (n : node) : flags := match n with Node _ _ _ _ fl _ => fl | Leaf _ => default_flags end.
(* a value given by reference, for a container that checks its members: one of the cases [ref_decide] covers *)
Definition ref_ok (sc : scope) (st : state) (troot : nat) (c : node) (k : option key) (x : rtv) : bool :=
  negb (r_ins x) &&
  match r_rv x with
  | RNodeId i =>
      match locate st i with
      | Some vpos =>
          match get_at st vpos with
          | Some v =>
              (* a value that has a parent, or holds the target, is copied on the way: the copy of an object that is not
                 partial but has an unfilled attribute is refused by its class *)
              negb (unfilled v && (match snd vpos with [] => false | _ => true end || Nat.eqb (fst vpos) troot)) &&
              match field_at c k with
              | None => true
              | Some f => match ref_decide2 sc (flags_of c) f v with RDNA => false | _ => true end
              end
          | None => false
          end
      | None => false
      end
  | _ => false
  end.
Definition value_ok2 (sc : scope) (st : state) (troot : nat) (c : node) (k : option key) (x : rtv) : bool :=
  match r_pv x with
  | Some v =>
      if Typing.is_missing v &&
         (scope_restrictive sc || match scope_partial sc with Some _ => true | None => false end) then
        (* MISSING_VALUE stands for the default of the field: fine when that holds no dict / list *)
        match field_at c k with
        | Some f => negb (has_container (Typing.dflt (Typing.mods_of f)))
        | None => false
        end
      else value_ok sc x
  | None => ref_ok sc st troot c k x
  end.
Definition op_keyed {A} (o : op A) : list (option key * A) :=
  match o with
  | DSet _ k v | DSetDefault k v | OSet k v => [(Some k, v)]
  | DUpdate kvs | DIOr kvs => map (fun kv => (Some (fst kv), snd kv)) kvs
  | _ => map (fun v => (None, v)) (op_values o)
  end.

Definition guard (sc : scope) (st : state) (ps : pos) (tn : node) (o : op rtv) : bool :=
  negb ((scope_restrictive sc || match scope_partial sc with Some _ => true | None => false end) &&
        existsb (ref_typed st (fst ps)) (op_values o)) &&
  (* removing a declared key stores the default of its field, like assigning MISSING_VALUE *)
  negb ((scope_restrictive sc || match scope_partial sc with Some _ => true | None => false end) && checks_members tn &&
        match o with DDel _ _ | DPop _ _ | DClear => true | _ => false end) &&
  match o with
  | Rebind pvs =>
      forallb (fun pv => match container_at st ps (fst pv) with
                         | Some c => negb (checks_members c) || value_ok2 sc st (fst ps) c (Some (last (fst pv) (KI 0))) (snd pv)
                         | None => true
                         end) pvs
  | _ =>
      (* list + values: the values are written into the copy, which is not partial *)
      let wn := match o, tn with
                | LAdd _, Node i k pa pt fl its => Node i k pa pt (mkFlags (f_sealed fl) (f_aw fl) false (f_spec fl)) its
                | _, _ => tn
                end in
      (negb (checks_members tn) || forallb (fun kx => value_ok2 sc st (fst ps) wn (fst kx) (snd kx)) (op_keyed o)) &&
      (* two placeholders of removed elements in a typed list are distinct objects (MissingValue(spec)): sorting / reversing
         them counts as a change there, while the leaves of the model are equal *)
      match o with
      | LSort _ _ | LReverse =>
          negb (checks_members tn &&
                (2 <=? zlen (filter (fun kc => SymCoreDefs.is_missing (snd kc)) (nitems tn))))
      | _ => true
      end &&
      (* the copy of a typed list that holds placeholders of removed elements puts them back after validating the rest *)
      match o with
      | LCopy | LAdd _ => negb (checks_members tn && existsb (fun kc => SymCoreDefs.is_missing (snd kc)) (nitems tn))
      | _ => true
      end &&
      match o with
      | LIMul _ | LMul _ | LAdd _ | LCopy => negb (checks_members tn && has_sym_child (nitems tn))
      | _ => true
      end &&
      (* copying a typed value constructs it again (through the accessors of the copy) *)
      match o with
      | LMul _ | LAdd _ | LCopy | DCopy | Clone _ =>
          negb ((scope_restrictive sc || match scope_partial sc with Some _ => true | None => false end) && any_typed tn) &&
          negb (unfilled tn)
      | _ => true
      end
  end.

Record sop2 : Type := mkSop2 { o2_scope : scope; o2_pos : pos; o2_op : op tvalue }.

Definition step2 (st : state) (o : sop2) : state * outcome :=
  match get_at st (o2_pos o) with
  | Some (Node tid tk tpa tpth tfl its) =>
      if negb (kind_ok tk (o2_op o)) then (st, Err ENA) else
      match op_mapM (resolve_t st) (o2_op o) with
      | None => (st, Err ENA)
      | Some ro =>
          if negb (guard (o2_scope o) st (o2_pos o) (Node tid tk tpa tpth tfl its) ro) then (st, Err ENA) else
          let '(st', out) := exec2 (o2_scope o) st (o2_pos o) tid tk tpth tfl its ro in
          (gc (length (roots st)) (next_id st) (is_result_op ro) st', out)
      end
  | _ => (st, Err ENA)
  end.
Definition stepS2 (st : state) (o : sop2) : state := fst (step2 st o).
Definition run_ops2 (st : state) (ops : list sop2) : state := fold_left stepS2 ops st.

(* --- the initial forest ------------------------------------------------------------------------------------------------- *)
Inductive root : Type := RootLit (l : lit) | RootTyped (k : kind) (r : N) (fl : flags) (v : pv).
Definition dead_slot : slot := Moved 0.
Definition add_slot (st : state) (s : slot) : state := mkState (roots st ++ [s]) (next_id st).
Definition init_root (st : state) (r : root) : state * option err :=
  match r with
  | RootLit l =>
      match l with
      | LitLeaf _ => (add_slot st dead_slot, Some EType)
      | _ =>
          if lit_valid l && lit_no_obj l then
            let '(n, nx) := build false None [] l (next_id st) in (add_root (with_next st nx) n, None)
          else (add_slot st dead_slot, Some ENA)
      end
  | RootTyped k rf fl v =>
      match troot st k rf fl v with
      | inl (n, st1) => (add_root st1 n, None)
      | inr e => (add_slot st dead_slot, Some e)
      end
  end.
Fixpoint init_roots (st : state) (rs : list root) : state * list (option err) :=
  match rs with
  | [] => (st, [])
  | r :: rest => let '(st1, e) := init_root st r in let '(st2, es) := init_roots st1 rest in (st2, e :: es)
  end.
End WithEnv.

(* ---------------------------------------------------------------------------------------------------------- *)
(** * Wire format (harness/props/c03.py prints the same; the grammar is in its header) *)

Fixpoint d_tvalue (fuel : nat) (t : tr) : option tvalue :=
  match fuel with
  | O => None
  | S f =>
      match t with
      | L [I 0; lt] => do l <- SymCore.d_lit 64 lt; Some (TLit l)
      | L [I 1; r; ks] => do p <- SymCore.d_pos r ks; Some (TRef p)
      | L [I 2; v] => do v' <- d_tvalue f v; Some (TIns v')
      | L [I 3; v] => do v' <- Typing.d_pv 50 v; Some (TPv v')
      | _ => None
      end
  end.
Definition d_tval : tr -> option tvalue := d_tvalue 8.
Definition d_tkv (t : tr) : option (key * tvalue) :=
  match t with L [k; v] => do k' <- SymCore.d_key k; do v' <- d_tval v; Some (k', v') | _ => None end.
Definition d_tpv (t : tr) : option (list key * tvalue) :=
  match t with L [p; v] => do p' <- SymCore.d_keys p; do v' <- d_tval v; Some (p', v') | _ => None end.
Definition d_top (tag : Z) (args : list tr) : option (op tvalue) :=
  match tag, args with
  | 1, [I i; v] => do v' <- d_tval v; Some (LSet i v')
  | 2, [I i] => Some (LDel i)
  | 3, [v] => do v' <- d_tval v; Some (LAppend v')
  | 4, [I i; v] => do v' <- d_tval v; Some (LInsert i v')
  | 5, [vs] => do vs' <- dlist d_tval vs; Some (LExtend vs')
  | 6, [oi] => do oi' <- dopt dZ oi; Some (LPop oi')
  | 7, [l] => do l' <- SymCore.d_leaf l; Some (LRemove l')
  | 8, [] => Some LClear
  | 9, [] => Some LReverse
  | 10, [ks; b] => do ks' <- dlist dZ ks; do b' <- dbool b; Some (LSort ks' b')
  | 11, [vs] => do vs' <- dlist d_tval vs; Some (LIAdd vs')
  | 12, [I n] => Some (LIMul n)
  | 13, [vs] => do vs' <- dlist d_tval vs; Some (LAdd vs')
  | 14, [I n] => Some (LMul n)
  | 15, [] => Some LCopy
  | 20, [a; k; v] => do a' <- dbool a; do k' <- SymCore.d_key k; do v' <- d_tval v; Some (DSet a' k' v')
  | 21, [a; k] => do a' <- dbool a; do k' <- SymCore.d_key k; Some (DDel a' k')
  | 22, [k; d] => do k' <- SymCore.d_key k; do d' <- dopt SymCore.d_leaf d; Some (DPop k' d')
  | 23, [] => Some DPopItem
  | 24, [] => Some DClear
  | 25, [k; v] => do k' <- SymCore.d_key k; do v' <- d_tval v; Some (DSetDefault k' v')
  | 26, [kvs] => do kvs' <- dlist d_tkv kvs; Some (DUpdate kvs')
  | 27, [kvs] => do kvs' <- dlist d_tkv kvs; Some (DIOr kvs')
  | 28, [] => Some DCopy
  | 30, [k; v] => do k' <- SymCore.d_key k; do v' <- d_tval v; Some (OSet k' v')
  | 40, [pvs] => do pvs' <- dlist d_tpv pvs; Some (Rebind pvs')
  | 41, [m] => do m' <- dN m; Some (Clone m')
  | 42, [b] => do b' <- dbool b; Some (Seal b')
  | 43, [b] => do b' <- dbool b; Some (SetAW b')
  | _, _ => None
  end.
Definition d_step2 (t : tr) : option sop2 :=
  match t with
  | L [sc; L (I tag :: L [r; ks] :: args)] =>
      do sc' <- SymCore.d_scope sc; do p <- SymCore.d_pos r ks; do o <- d_top tag args; Some (mkSop2 sc' p o)
  | _ => None
  end.
Definition d_root (t : tr) : option root :=
  match t with
  | L [I 0; lt] => do l <- SymCore.d_lit 64 lt; if lit_valid l && lit_no_obj l then Some (RootLit l) else None
  | L [I 1; kd; rf; fl; v] =>
      do k <- SymCore.d_kind kd; do r <- dN rf; do f <- SymCore.d_flags fl; do v' <- Typing.d_pv 50 v;
      if dict_keys_nodup v' then Some (RootTyped k r f v') else None
  | _ => None
  end.

(* --- printing ------------------------------------------------------------------------------------------------ *)
Definition e_pv_leaf (l : leaf) : tr :=
  match l with
  | LJunk => L [I 99]
  | _ => match leaf_pv l with
         | Typing.PObj [9%N; 9%N; 9%N] 0%N => L [I 99]
         | v => Typing.e_pv v
         end
  end.
Definition e_tflags (ev : env) (n : node) (f : flags) : tr :=
  L [ebool (f_sealed f); ebool (f_aw f); ebool (f_partial f); eN (ref_opt ev (node_spec ev n))].
Fixpoint e_tnode (ev : env) (fuel : nat) (expected : option N) (n : node) : tr :=
  match fuel with
  | O => L [I (-9)]
  | S f =>
      match n with
      | Leaf l => L [I 0; e_pv_leaf l]
      | Node i k pa pt fl its =>
          L [I 1; L [SymCore.e_kind k; SymCore.e_keys pt; ebool (optN_eqb pa expected); e_tflags ev n fl;
                     L (map (fun kc => L [SymCore.e_key (fst kc); e_tnode ev f (Some i) (snd kc)]) (ordered_items ev n))]]
      end
  end.
Definition e_troots (ev : env) (rs : list slot) : list tr :=
  map (fun s => match s with Moved _ => L [] | Live t => L [SymCore.unwrap (e_tnode ev 200 None t)] end) rs.
Definition e_tsnapshot (ev : env) (st : state) : tr := L (e_troots ev (roots st)).
Fixpoint e_tret (r : ret) : tr :=
  match r with
  | RLeafV (LStr (0%N :: ts)) => L [I 1; L [I 8; e_pv_leaf (LStr (0%N :: ts))]]
  | RLeafV (LOpq o t) => L [I 1; L [I 8; e_pv_leaf (LOpq o t)]]
  | RLeafV LJunk => L [I 1; L [I 8; L [I 99]]]
  | RKV k r' => L [I 3; SymCore.e_key k; e_tret r']
  | _ => SymCore.e_ret r
  end.
Definition e_toutcome (o : outcome) : tr :=
  match o with Ok r => L [I 0; e_tret r] | Err e => L [I 1; I (SymCore.e_err e)] end.

Fixpoint run_steps2 (q : quirks) (nf : bool) (ev : env) (st : state) (ops : list sop2) : list tr :=
  match ops with
  | [] => []
  | o :: r => let '(st', out) := step2 q nf ev st o in L [e_toutcome out; e_tsnapshot ev st'] :: run_steps2 q nf ev st' r
  end.
(* quirk flags of a case: (copy_drops_missing stores_non_fixpoint) *)
Definition d_nf (t : tr) : option bool :=
  match t with L (_ :: b :: _) => dbool b | L _ => Some false | _ => None end.
(* entries 3..7 of the quirk list: the flags of Typing.quirks (absent = none) *)
Definition d_tq (t : tr) : option Typing.quirks :=
  match t with
  | L (_ :: _ :: a :: b :: c :: d :: e :: _) =>
      do a' <- dbool a; do b' <- dbool b; do c' <- dbool c; do d' <- dbool d; do e' <- dbool e;
      Some (Typing.Quirks a' b' c' d' e')
  | L _ => Some Typing.noq
  | _ => None
  end.

Definition run (c : tr) : tr :=
  match c with
  | L [qs; L specs; cls; L rts; L steps] =>
      match SymCore.d_quirks qs, d_nf qs, d_tq qs, dall (Typing.d_spec 50) specs, dlist dN cls, dall d_root rts, dall d_step2 steps with
      | Some q, Some nf, Some tq, Some tb, Some cr, Some rs, Some ops =>
          let ev := mkEnv tb cr tq in
          let '(st0, inits) := init_roots nf ev empty_state rs in
          L [L (map (fun e => match e with None => I 0 | Some x => I (SymCore.e_err x) end) inits);
             e_tsnapshot ev st0; L (run_steps2 q nf ev st0 ops)]
      | _, _, _, _, _, _, _ => ebad
      end
  | _ => ebad
  end.

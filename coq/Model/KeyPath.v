(* KeyPath.v — model of pyglove/core/utils/value_location.py (property C10): KeyPath formatting
   (path_str), the parse state machine, path arithmetic, ordering, and KeyPathSet as the literal
   dict-of-dicts trie of the code.  Strings are lists of code points.  Definitions only. *)
From Coq Require Import NArith ZArith List Bool Decimal DecimalZ.
Import ListNotations.
From PG Require Import Common.Tr Model.KeyPathDigits.
Local Open Scope N_scope.

(* ---------------------------------------------------------------------------------------- *)
(* keys *)
Inductive key : Type := KStr (s : list N) | KInt (z : Z).

Fixpoint str_eqb (a b : list N) : bool :=
  match a, b with
  | [], [] => true
  | x :: a', y :: b' => N.eqb x y && str_eqb a' b'
  | _, _ => false
  end.

Definition key_eqb (a b : key) : bool :=
  match a, b with
  | KStr s, KStr t => str_eqb s t
  | KInt x, KInt y => Z.eqb x y
  | _, _ => false
  end.

Fixpoint path_eqb (p q : list key) : bool :=
  match p, q with
  | [], [] => true
  | a :: p', b :: q' => key_eqb a b && path_eqb p' q'
  | _, _ => false
  end.

Definition c_dot : N := 46.
Definition c_open : N := 91.
Definition c_close : N := 93.
Definition c_dash : N := 45.
Definition c_dollar : N := 36.

(* ---------------------------------------------------------------------------------------- *)
(* str.isdigit / int() on the code points that can reach them *)
Inductive dcls : Type := NotDigit | DigitOnly | Decimal (d : N).

Definition dclass (c : N) : dcls :=
  match find (fun s => N.leb s c && N.ltb c (s + 10)) dec_starts with
  | Some s => Decimal (c - s)
  | None => if existsb (fun ab => N.leb (fst ab) c && N.leb c (snd ab)) digit_only then DigitOnly else NotDigit
  end.

Definition is_digit_char (c : N) : bool := match dclass c with NotDigit => false | _ => true end.

(* s.isdigit(): non-empty and every character is a digit *)
Definition isdigit (s : list N) : bool :=
  match s with [] => false | _ => forallb is_digit_char s end.

Fixpoint lstrip_dash (s : list N) : list N :=
  match s with c :: r => if N.eqb c c_dash then lstrip_dash r else s | [] => [] end.

Fixpoint count_dash (s : list N) : nat :=
  match s with c :: r => if N.eqb c c_dash then S (count_dash r) else O | [] => O end.

Definition cons_digit (d : N) (u : uint) : uint :=
  match d with
  | 0 => D0 u | 1 => D1 u | 2 => D2 u | 3 => D3 u | 4 => D4 u
  | 5 => D5 u | 6 => D6 u | 7 => D7 u | 8 => D8 u | _ => D9 u
  end.

Fixpoint digits_uint (s : list N) : option uint :=
  match s with
  | [] => Some Nil
  | c :: r =>
      match dclass c, digits_uint r with
      | Decimal d, Some u => Some (cons_digit d u)
      | _, _ => None
      end
  end.

(* int(s) for s = dashes ++ digits (the only strings parse hands to int()); None = ValueError *)
Definition py_int (s : list N) : option Z :=
  match digits_uint (lstrip_dash s) with
  | None => None
  | Some u =>
      match count_dash s with
      | O => Some (Z.of_uint u)
      | S O => Some (Z.opp (Z.of_uint u))
      | _ => None
      end
  end.

(* str(int) *)
Fixpoint uint_cps (u : uint) : list N :=
  match u with
  | Nil => []
  | D0 u => 48 :: uint_cps u | D1 u => 49 :: uint_cps u | D2 u => 50 :: uint_cps u
  | D3 u => 51 :: uint_cps u | D4 u => 52 :: uint_cps u | D5 u => 53 :: uint_cps u
  | D6 u => 54 :: uint_cps u | D7 u => 55 :: uint_cps u | D8 u => 56 :: uint_cps u
  | D9 u => 57 :: uint_cps u
  end.

Definition z_cps (z : Z) : list N :=
  match Z.to_int z with
  | Pos u => uint_cps u
  | Neg u => c_dash :: uint_cps u
  end.

(* ---------------------------------------------------------------------------------------- *)
(* KeyPath.path_str(preserve_complex_keys) *)
Definition is_special (c : N) : bool := N.eqb c c_open || N.eqb c c_close || N.eqb c c_dot.
Definition has_special (s : list N) : bool := existsb is_special s.

Definition fmt_key (preserve first : bool) (k : key) : list N :=
  match k with
  | KStr s =>
      if preserve && has_special s then c_open :: s ++ [c_close]
      else (if first then [] else [c_dot]) ++ s
  | KInt z => c_open :: z_cps z ++ [c_close]
  end.

Fixpoint fmt_go (preserve first : bool) (ks : list key) : list N :=
  match ks with
  | [] => []
  | k :: r => fmt_key preserve first k ++ fmt_go preserve false r
  end.

Definition format (ks : list key) : list N := fmt_go true true ks.
Definition format_flat (ks : list key) : list N := fmt_go false true ks.

(* ---------------------------------------------------------------------------------------- *)
(* KeyPath.parse *)
Inductive perr : Type := PEClose | PEOpen | PEInt.
Inductive pres : Type := POk (ks : list key) | PErr (e : perr).

Definition is_nil {A} (l : list A) : bool := match l with [] => true | _ => false end.

(* _append_key; None = int() raised ValueError *)
Definition append_key (acc : list key) (cur : list N) (preserve_empty numeric : bool) : option (list key) :=
  if negb preserve_empty && is_nil cur then Some acc
  else if numeric && isdigit (lstrip_dash cur) then
    match py_int cur with Some z => Some (acc ++ [KInt z]) | None => None end
  else Some (acc ++ [KStr cur]).

Definition is_zero (n : nat) : bool := match n with O => true | _ => false end.

Fixpoint parse_go (s : list N) (cur : list N) (d : nat) (acc : list key) : pres :=
  match s with
  | [] =>
      match append_key acc cur false false with
      | Some acc' => match d with O => POk acc' | _ => PErr PEOpen end
      | None => PErr PEInt
      end
  | c :: r =>
      if N.eqb c c_close then
        match d with
        | O => PErr PEClose
        | S O => match append_key acc cur true true with
                 | Some acc' => parse_go r [] 0 acc'
                 | None => PErr PEInt
                 end
        | S d' => parse_go r (cur ++ [c]) d' acc
        end
      else if N.eqb c c_open then
        match d with
        | O => match append_key acc cur false false with
               | Some acc' => parse_go r [] 1 acc'
               | None => PErr PEInt
               end
        | _ => parse_go r (cur ++ [c]) (S d) acc
        end
      else if N.eqb c c_dot && is_zero d then
        match append_key acc cur false false with
        | Some acc' => parse_go r [] 0 acc'
        | None => PErr PEInt
        end
      else parse_go r (cur ++ [c]) d acc
  end.

Definition parse (s : list N) : pres := parse_go s [] 0 [].

(* the strings the property quantifies over: non-empty, brackets balanced *)
Fixpoint bal (d : nat) (s : list N) : bool :=
  match s with
  | [] => is_zero d
  | c :: r =>
      if N.eqb c c_open then bal (S d) r
      else if N.eqb c c_close then match d with O => false | S d' => bal d' r end
      else bal d r
  end.

Definition key_okb (k : key) : bool :=
  match k with KInt _ => true | KStr s => negb (is_nil s) && bal 0 s end.
Definition key_ok (k : key) : Prop := key_okb k = true.

(* ---------------------------------------------------------------------------------------- *)
(* path arithmetic *)
Inductive aerr : Type := AKeyError | AValueAncestor | AValueDifferent.

Definition path_add (p q : list key) : list key := p ++ q.

Definition path_parent (p : list key) : option (list key) :=
  match p with [] => None | _ => Some (removelast p) end.

Definition path_key (p : list key) : option key :=
  match p with [] => None | _ => Some (last p (KInt 0)) end.

(* __sub__ : self - other *)
Fixpoint path_sub (p q : list key) : aerr + list key :=
  match p, q with
  | _, [] => inr p
  | [], _ :: _ => inl AValueAncestor
  | a :: p', b :: q' => if key_eqb a b then path_sub p' q' else inl AValueDifferent
  end.

Fixpoint is_prefix (q p : list key) : bool :=      (* q is a prefix of p *)
  match q, p with
  | [], _ => true
  | b :: q', a :: p' => key_eqb a b && is_prefix q' p'
  | _ :: _, [] => false
  end.
Definition is_relative_to (p q : list key) : bool := is_prefix q p.

(* _KeyComparisonWrapper: ints numerically, strings by code point, an int before a string *)
Fixpoint str_cmp (a b : list N) : comparison :=
  match a, b with
  | [], [] => Eq
  | [], _ :: _ => Lt
  | _ :: _, [] => Gt
  | x :: a', y :: b' => match N.compare x y with Eq => str_cmp a' b' | c => c end
  end.

Definition key_cmp (a b : key) : comparison :=
  match a, b with
  | KInt x, KInt y => Z.compare x y
  | KStr s, KStr t => str_cmp s t
  | KInt _, KStr _ => Lt
  | KStr _, KInt _ => Gt
  end.

(* tuple comparison: first position where the wrappers are not ==, else the lengths *)
Fixpoint path_cmp (p q : list key) : comparison :=
  match p, q with
  | [], [] => Eq
  | [], _ :: _ => Lt
  | _ :: _, [] => Gt
  | a :: p', b :: q' => match key_cmp a b with Eq => path_cmp p' q' | c => c end
  end.

Definition path_lt p q := match path_cmp p q with Lt => true | _ => false end.
Definition path_le p q := match path_cmp p q with Gt => false | _ => true end.
Definition path_gt p q := match path_cmp p q with Gt => true | _ => false end.
Definition path_ge p q := match path_cmp p q with Lt => false | _ => true end.

(* ---------------------------------------------------------------------------------------- *)
(* KeyPathSet: the trie is a dict of dicts; the entry '$' -> True marks "a path ends here".
   Quirk (open finding): the marker is the *string* '$', so a path key '$' is the marker.
   q_dollar = true models the code as it is; false models a marker no key can equal. *)
Record quirks : Type := { q_dollar : bool }.
Definition no_quirks (q : quirks) : Prop := q_dollar q = false.

Inductive mkey : Type := MTerm | MK (k : key).
Inductive tnode : Type := TTrue | TDict (kids : list (mkey * tnode)).
Definition trie := list (mkey * tnode).

Definition mkey_eqb (a b : mkey) : bool :=
  match a, b with
  | MTerm, MTerm => true
  | MK x, MK y => key_eqb x y
  | _, _ => false
  end.

Definition inj (q : quirks) (k : key) : mkey :=
  if q_dollar q && key_eqb k (KStr [c_dollar]) then MTerm else MK k.

Fixpoint aget (m : mkey) (l : trie) : option tnode :=
  match l with
  | [] => None
  | (m', v) :: r => if mkey_eqb m m' then Some v else aget m r
  end.
Fixpoint aset (m : mkey) (v : tnode) (l : trie) : trie :=
  match l with
  | [] => [(m, v)]
  | (m', v') :: r => if mkey_eqb m m' then (m', v) :: r else (m', v') :: aset m v r
  end.
Fixpoint adel (m : mkey) (l : trie) : trie :=
  match l with
  | [] => []
  | (m', v') :: r => if mkey_eqb m m' then r else (m', v') :: adel m r
  end.
Definition ahas (m : mkey) (l : trie) : bool := match aget m l with Some _ => true | None => false end.

Definition node_empty (n : tnode) : bool := match n with TDict [] => true | _ => false end.

(* add(path, include_intermediate) -> updated.  None = the Python code raises (a True where a dict is expected). *)
Fixpoint add_go (q : quirks) (ii : bool) (ks : list key) (node : tnode) : option (tnode * bool) :=
  match node with
  | TTrue => None
  | TDict kids =>
      match ks with
      | [] => if ahas MTerm kids then Some (TDict kids, false) else Some (TDict (aset MTerm TTrue kids), true)
      | k :: r =>
          let m := inj q k in
          let kids2 :=
            match aget m kids with
            | Some _ => kids
            | None => let kids1 := aset m (TDict []) kids in if ii then aset MTerm TTrue kids1 else kids1
            end in
          let fresh := negb (ahas m kids) in
          match aget m kids2 with
          | None => None
          | Some child =>
              match add_go q ii r child with
              | None => None
              | Some (child', u) => Some (TDict (aset m child' kids2), u || (fresh && ii))
              end
          end
      end
  end.

Fixpoint remove_go (q : quirks) (ks : list key) (node : tnode) : option (tnode * bool) :=
  match node with
  | TTrue => None
  | TDict kids =>
      match ks with
      | [] => if ahas MTerm kids then Some (TDict (adel MTerm kids), true) else Some (TDict kids, false)
      | k :: r =>
          let m := inj q k in
          match aget m kids with
          | None => Some (TDict kids, false)
          | Some child =>
              match remove_go q r child with
              | None => None
              | Some (child', true) =>
                  Some (TDict (if node_empty child' then adel m kids else aset m child' kids), true)
              | Some (_, false) => Some (TDict kids, false)
              end
          end
      end
  end.

Fixpoint contains_go (q : quirks) (ks : list key) (node : tnode) : option bool :=
  match node with
  | TTrue => None
  | TDict kids =>
      match ks with
      | [] => Some (ahas MTerm kids)
      | k :: r => match aget (inj q k) kids with None => Some false | Some c => contains_go q r c end
      end
  end.

(* walking to the node at a path: None = raises, Some None = absent, Some (Some n) = the node *)
Fixpoint walk (q : quirks) (ks : list key) (node : tnode) : option (option tnode) :=
  match ks with
  | [] => Some (Some node)
  | k :: r =>
      match node with
      | TTrue => None
      | TDict kids => match aget (inj q k) kids with None => Some None | Some c => walk q r c end
      end
  end.

Definition has_prefix (q : quirks) (ks : list key) (t : trie) : option bool :=
  match walk q ks (TDict t) with None => None | Some None => Some false | Some (Some _) => Some true end.

(* __iter__: every '$' entry yields the path to its dict *)
Fixpoint paths_node (n : tnode) (prefix : list key) : list (list key) :=
  match n with
  | TTrue => []
  | TDict kids =>
      (fix go (l : trie) : list (list key) :=
         match l with
         | [] => []
         | (MTerm, _) :: r => prefix :: go r
         | (MK k, v) :: r => paths_node v (prefix ++ [k]) ++ go r
         end) kids
  end.
Definition paths (t : trie) : list (list key) := paths_node (TDict t) [].

(* a True under a real key makes iteration raise (unreachable from the API; kept for totality) *)
Fixpoint iter_ok (n : tnode) : bool :=
  match n with
  | TTrue => true
  | TDict kids =>
      (fix go (l : trie) : bool :=
         match l with
         | [] => true
         | (MTerm, _) :: r => go r
         | (MK _, TTrue) :: _ => false
         | (MK _, v) :: r => iter_ok v && go r
         end) kids
  end.

(* dict == dict *)
Fixpoint teq (a b : tnode) : bool :=
  match a, b with
  | TTrue, TTrue => true
  | TDict ka, TDict kb =>
      Nat.eqb (length ka) (length kb) &&
      forallb (fun mv => match aget (fst mv) kb with Some v' => teq (snd mv) v' | None => false end) ka
  | _, _ => false
  end.

(* rebase(root_path) (after the repair: an empty set stays empty) *)
Definition rebase (q : quirks) (ks : list key) (t : trie) : trie :=
  match t with
  | [] => []
  | _ => fold_right (fun k n => [(inj q k, TDict n)]) t ks
  end.

(* difference_update / _remove_same *)
Fixpoint diff_node (t s : tnode) {struct t} : tnode :=
  match t, s with
  | TDict tk, TDict sk =>
      TDict ((fix go (l : trie) : trie :=
                match l with
                | [] => []
                | (m, v) :: r =>
                    match aget m sk with
                    | None => (m, v) :: go r
                    | Some sv =>
                        match m with
                        | MTerm => go r
                        | MK _ => let v' := diff_node v sv in
                                  if node_empty v' then go r else (m, v') :: go r
                        end
                    end
                end) tk)
  | _, _ => t
  end.

(* intersection_update / _remove_diff *)
Fixpoint inter_node (t s : tnode) {struct t} : tnode :=
  match t, s with
  | TDict tk, TDict sk =>
      TDict ((fix go (l : trie) : trie :=
                match l with
                | [] => []
                | (m, v) :: r =>
                    match aget m sk with
                    | None => go r
                    | Some sv =>
                        match m with
                        | MTerm => (m, v) :: go r
                        | MK _ => let v' := inter_node v sv in
                                  if node_empty v' then go r else (m, v') :: go r
                        end
                    end
                end) tk)
  | _, _ => t
  end.

(* update / _merge *)
Fixpoint merge_node (t s : tnode) {struct s} : tnode :=
  match t, s with
  | TDict tk, TDict sk =>
      TDict ((fix go (l : trie) (acc : trie) : trie :=
                match l with
                | [] => acc
                | (m, v) :: r =>
                    go r (match m, aget m acc with
                          | MK _, Some tv => aset m (merge_node tv v) acc
                          | _, _ => aset m v acc
                          end)
                end) sk tk)
  | _, _ => t
  end.

Definition t_diff (a b : trie) : trie := match diff_node (TDict a) (TDict b) with TDict k => k | TTrue => a end.
Definition t_inter (a b : trie) : trie := match inter_node (TDict a) (TDict b) with TDict k => k | TTrue => a end.
Definition t_union (a b : trie) : trie := match merge_node (TDict a) (TDict b) with TDict k => k | TTrue => a end.

(* ---------------------------------------------------------------------------------------- *)
(* a small register machine over KeyPathSet values, for op-sequence correspondence *)
Inductive sop : Type :=
| SAdd (r : nat) (p : list key) (ii : bool)
| SRemove (r : nat) (p : list key)
| SContains (r : nat) (p : list key)
| SHasPrefix (r : nat) (p : list key)
| SRebase (r : nat) (p : list key)
| SClear (r : nat)
| SUpdate (r r2 : nat) | SDiffUpdate (r r2 : nat) | SInterUpdate (r r2 : nat)
| SUnion (r r2 r3 : nat) | SDiff (r r2 r3 : nat) | SInter (r r2 r3 : nat)
| SCopy (r r3 : nat)
| SEq (r r2 : nat)
| SBool (r : nat)
| SList (r : nat)
| SSubtree (r : nat) (p : list key)
| SKpAdd (r : nat) (p : list key) (r3 : nat).

Definition reg_get (regs : list trie) (r : nat) : trie := nth r regs [].
Fixpoint reg_set (regs : list trie) (r : nat) (t : trie) : list trie :=
  match regs, r with
  | [], _ => []
  | _ :: rest, O => t :: rest
  | x :: rest, S r' => x :: reg_set rest r' t
  end.

Inductive sout : Type :=
| OBool (b : bool) | OUnit | OPaths (ps : list (list key)) | ONone | OCrash.

Definition as_trie (n : tnode) (dflt : trie) : trie := match n with TDict k => k | TTrue => dflt end.

Definition step (q : quirks) (regs : list trie) (o : sop) : list trie * sout :=
  match o with
  | SAdd r p ii =>
      match add_go q ii p (TDict (reg_get regs r)) with
      | Some (n, u) => (reg_set regs r (as_trie n []), OBool u)
      | None => (regs, OCrash)
      end
  | SRemove r p =>
      match remove_go q p (TDict (reg_get regs r)) with
      | Some (n, u) => (reg_set regs r (as_trie n []), OBool u)
      | None => (regs, OCrash)
      end
  | SContains r p =>
      match contains_go q p (TDict (reg_get regs r)) with Some b => (regs, OBool b) | None => (regs, OCrash) end
  | SHasPrefix r p =>
      match has_prefix q p (reg_get regs r) with Some b => (regs, OBool b) | None => (regs, OCrash) end
  | SRebase r p => (reg_set regs r (rebase q p (reg_get regs r)), OUnit)
  | SClear r => (reg_set regs r [], OUnit)
  | SUpdate r r2 => (reg_set regs r (t_union (reg_get regs r) (reg_get regs r2)), OUnit)
  | SDiffUpdate r r2 => (reg_set regs r (t_diff (reg_get regs r) (reg_get regs r2)), OUnit)
  | SInterUpdate r r2 => (reg_set regs r (t_inter (reg_get regs r) (reg_get regs r2)), OUnit)
  | SUnion r r2 r3 => (reg_set regs r3 (t_union (reg_get regs r) (reg_get regs r2)), OUnit)
  | SDiff r r2 r3 => (reg_set regs r3 (t_diff (reg_get regs r) (reg_get regs r2)), OUnit)
  | SInter r r2 r3 => (reg_set regs r3 (t_inter (reg_get regs r) (reg_get regs r2)), OUnit)
  | SCopy r r3 => (reg_set regs r3 (reg_get regs r), OUnit)
  | SEq r r2 => (regs, OBool (teq (TDict (reg_get regs r)) (TDict (reg_get regs r2))))
  | SBool r => (regs, OBool (negb (is_nil (reg_get regs r))))
  | SList r => if iter_ok (TDict (reg_get regs r)) then (regs, OPaths (paths (reg_get regs r))) else (regs, OCrash)
  | SSubtree r p =>
      match p with
      | [] => (regs, OPaths (paths (reg_get regs r)))
      | _ =>
        match walk q p (TDict (reg_get regs r)) with
        | None => (regs, OCrash)
        | Some None => (regs, ONone)
        | Some (Some TTrue) => (regs, OCrash)
        | Some (Some (TDict k)) => (regs, OPaths (paths k))
        end
      end
  | SKpAdd r p r3 => (reg_set regs r3 (rebase q p (reg_get regs r)), OUnit)
  end.

Fixpoint steps (q : quirks) (regs : list trie) (os : list sop) : list trie * list sout :=
  match os with
  | [] => (regs, [])
  | o :: r =>
      match step q regs o with
      | (regs', OCrash) => (regs', [OCrash])
      | (regs', out) => let (rf, outs) := steps q regs' r in (rf, out :: outs)
      end
  end.

(* ---------------------------------------------------------------------------------------- *)
(* wire format (see harness/props/c10.py)
   key   ::= (0 (cp ...)) | (1 z)          path ::= (key ...)
   case  ::= (0 preserve path)              -> (0 (cp ...))                      path_str
           | (1 (cp ...))                   -> (0 path) | (1 e)                  parse; e: 0 close 1 open 2 int()
           | (2 path)                       -> as parse                          parse(path_str(path))
           | (3 op p q)                     -> (0 x) | (1 e)                     arithmetic / comparison
           | (6 path ((obs q) ...))         -> (answer ...)                       read-only observers on one object
           | (5 dollar (sop ...))           -> ((out ...) ((paths bool) ...))    KeyPathSet machine; final state of the 3 registers *)
Definition ekey (k : key) : tr := match k with KStr s => L [I 0%Z; estr s] | KInt z => L [I 1%Z; I z] end.
Definition epath (p : list key) : tr := elist ekey p.
Definition dkey (t : tr) : option key :=
  match t with
  | L [I 0%Z; s] => do s' <- dstr s; Some (KStr s')
  | L [I 1%Z; I z] => Some (KInt z)
  | _ => None
  end.
Definition dpath (t : tr) : option (list key) := dlist dkey t.

Definition epres (r : pres) : tr :=
  match r with
  | POk ks => L [I 0%Z; epath ks]
  | PErr PEClose => L [I 1%Z; I 0%Z]
  | PErr PEOpen => L [I 1%Z; I 1%Z]
  | PErr PEInt => L [I 1%Z; I 2%Z]
  end.

Definition run_arith (op : Z) (p q : list key) : tr :=
  let ok x := L [I 0%Z; x] in
  let err e := L [I 1%Z; I e] in
  match op with
  | 0%Z => ok (epath (path_add p q))
  | 1%Z => match path_sub p q with
           | inr r => ok (epath r)
           | inl AValueAncestor => err 1%Z
           | inl AValueDifferent => err 2%Z
           | inl AKeyError => err 0%Z
           end
  | 2%Z => match path_parent p with Some r => ok (epath r) | None => err 0%Z end
  | 3%Z => ok (ebool (is_relative_to p q))
  | 4%Z => ok (ebool (path_lt p q))
  | 5%Z => ok (ebool (path_le p q))
  | 6%Z => ok (ebool (path_gt p q))
  | 7%Z => ok (ebool (path_ge p q))
  | 8%Z => ok (ebool (path_eqb p q))
  | 9%Z => match path_key p with Some k => ok (ekey k) | None => err 0%Z end
  | 10%Z => ok (ebool (str_eqb (format p) (format q)))
  | 11%Z => ok (enat (length p))
  (* comparison with a string compares the printed paths as strings *)
  | 12%Z => ok (ebool (match str_cmp (format p) (format q) with Lt => true | _ => false end))
  | 13%Z => ok (ebool (match str_cmp (format p) (format q) with Gt => false | _ => true end))
  | 14%Z => ok (ebool (match str_cmp (format p) (format q) with Gt => true | _ => false end))
  | 15%Z => ok (ebool (match str_cmp (format p) (format q) with Lt => false | _ => true end))
  (* KeyPath.parse(str(q), parent=p) *)
  | 16%Z => match parse (format q) with
            | POk ks => ok (epath (p ++ ks))
            | PErr PEClose => err 10%Z | PErr PEOpen => err 11%Z | PErr PEInt => err 12%Z
            end
  (* KeyPath(q.keys, parent=p) *)
  | 17%Z => ok (epath (p ++ q))
  | _ => ebad
  end.

Definition dsop (t : tr) : option sop :=
  match t with
  | L [I c; a; b; d; p; f] =>
      do r <- dnat a; do r2 <- dnat b; do r3 <- dnat d; do pp <- dpath p; do fl <- dbool f;
      match c with
      | 0%Z => Some (SAdd r pp fl) | 1%Z => Some (SRemove r pp) | 2%Z => Some (SContains r pp)
      | 3%Z => Some (SHasPrefix r pp) | 4%Z => Some (SRebase r pp) | 5%Z => Some (SClear r)
      | 6%Z => Some (SUpdate r r2) | 7%Z => Some (SDiffUpdate r r2) | 8%Z => Some (SInterUpdate r r2)
      | 9%Z => Some (SUnion r r2 r3) | 10%Z => Some (SDiff r r2 r3) | 11%Z => Some (SInter r r2 r3)
      | 12%Z => Some (SCopy r r3) | 13%Z => Some (SEq r r2) | 14%Z => Some (SBool r) | 15%Z => Some (SList r)
      | 16%Z => Some (SSubtree r pp) | 17%Z => Some (SKpAdd r pp r3)
      | _ => None
      end
  | _ => None
  end.

Definition esout (o : sout) : tr :=
  match o with
  | OBool b => L [I 0%Z; ebool b]
  | OUnit => L [I 1%Z]
  | OPaths ps => L [I 2%Z; elist epath ps]
  | ONone => L [I 3%Z]
  | OCrash => L [I (-2)%Z]
  end.

Definition run_set (dollar : bool) (os : list sop) : tr :=
  let q := {| q_dollar := dollar |} in
  let (regs, outs) := steps q [[]; []; []] os in
  let crashed := existsb (fun o => match o with OCrash => true | _ => false end) outs in
  L [elist esout outs;
     if crashed then L []
     else elist (fun t => if iter_ok (TDict t) then L [elist epath (paths t); ebool (negb (is_nil t))] else L [I (-2)%Z]) regs].

(* read-only observers applied one after the other to the SAME KeyPath object: every answer is a function of the keys
   alone (whatever was asked before) *)
Definition run_obs (p : list key) (o : Z) (q : list key) : tr :=
  let s x := L [I 0%Z; estr x] in
  let b x := L [I 1%Z; ebool x] in
  match o with
  | 0%Z => s (fmt_go true true p)                       (* path_str(True) *)
  | 1%Z => s (fmt_go false true p)                      (* path_str(False) *)
  | 2%Z | 3%Z | 4%Z | 5%Z => s (format p)               (* .path, str, repr, format() *)
  | 6%Z => b true                                       (* hash(p) == hash(a fresh equal path) *)
  | 7%Z => b (str_eqb (format p) (format q))            (* p == str(q) *)
  | 8%Z => b (path_lt p q)                              (* p < q *)
  | 9%Z => b (match str_cmp (format p) (format q) with Lt => true | _ => false end)   (* p < str(q) *)
  | 10%Z => L [I 2%Z; enat (length p)]                  (* depth *)
  | 11%Z => match path_parent p with Some r => L [I 3%Z; epath r] | None => L [I 4%Z] end
  | 12%Z => L [I 3%Z; epath p]                          (* keys *)
  | 13%Z => b (path_eqb p q)                            (* p == q *)
  | 14%Z => L [I 3%Z; epath (p ++ q)]                   (* p + q *)
  | 15%Z => b (is_nil p)                                (* is_root *)
  | _ => ebad
  end.

Definition run_kp (c : tr) : tr :=
  match c with
  | L [I 0%Z; pr; p] =>
      match dbool pr, dpath p with
      | Some b, Some ks => L [I 0%Z; estr (fmt_go b true ks)]
      | _, _ => ebad
      end
  | L [I 1%Z; s] => match dstr s with Some cs => epres (parse cs) | None => ebad end
  | L [I 2%Z; p] => match dpath p with Some ks => epres (parse (format ks)) | None => ebad end
  | L [I 3%Z; I op; p; q] =>
      match dpath p, dpath q with Some a, Some b => run_arith op a b | _, _ => ebad end
  | L [I 5%Z; d; os] =>
      match dbool d, dlist dsop os with Some b, Some l => run_set b l | _, _ => ebad end
  | L [I 6%Z; p; L obs] =>
      match dpath p with
      | Some ks => L (map (fun ob => match ob with
                                     | L [I o; q] => match dpath q with Some qs => run_obs ks o qs | None => ebad end
                                     | _ => ebad
                                     end) obs)
      | None => ebad
      end
  | _ => ebad
  end.

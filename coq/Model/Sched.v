(* Sched.v — a small shared-memory language and its interleaving semantics (property C16).

   One [prog] per API entry of the in-memory tuning backend (constructor, next, add_measurement, done,
   skip, should_stop_early, end_loop), obtained from the source by harness/translators/sched_prog.py with
   every call to a function of the anchored files inlined (the code is not recursive).  One [act] is one
   Python statement (or one of the few sub-steps of a statement that contains an inlined call).
   [step1] lets ONE thread execute ONE act on the global state; [run] folds it over ANY list of thread
   ids.  Definitions only; the proofs are in Proofs/Sched*.v. *)
From Coq Require Import ZArith List Bool Arith.
Import ListNotations.

(* ---------------------------------------------------------------------------------------- *)
(* syntax *)
Inductive lockref := LReg | LStudy | LAlgo.              (* as written in the source: module lock, self._lock of the study / of the algorithm *)
Inductive lockid := KReg | KStudy (s : nat) | KAlgo (gen : nat).   (* the lock object that is meant at run time *)

Inductive var :=
| VRegistry
| VTrials | VCntPend | VCntComp | VCntInf | VBest | VLatest | VActive | VLastUpdate
| VTStatus | VTInf | VTFinal | VTMeas | VTMeta
| VASpec | VANumProp | VANumFeed
| VEPending | VEInit | VEPop | VEGen | VEInitGen | VEConf | VELock | VDna.

Inductive exn := XStop | XRace | XValue.

Inductive cfgflag := FIsEvo | FNeedsFb | FGroupNone | FHasPolicy.

Inductive cond :=
| CConst (b : bool)          (* outcome fixed under the harness configuration (e.g. `name is not None`, `kwargs`) *)
| CFlag (f : cfgflag)
| CRegMissing                (* name not in _in_memory_results *)
| CActiveNot                 (* not self._study.is_active *)
| CTrialNoneOrDone           (* trial is None or trial.status != 'PENDING'      (local `trial` of next) *)
| CTrialPending              (* trial is not None and trial.status == 'PENDING' (local `trial` of create_trial) *)
| CFull                      (* max_num_trials is not None and next_trial_id() > max_num_trials *)
| CCurPending | CCurNotPending   (* status of the feedback's trial *)
| CNoMeas                    (* not self._trial.measurements *)
| CRetTrue | CRetFalse       (* the value just returned by an inlined call *)
| CInfeasible
| CBestBetter
| CRewardSome
| CSpecNone | CSpecDiffers
| CPendEmpty | CPopInit | CDnaInitial | CPopInitReached | CHasPopUpdate.

Inductive effect :=
| ENop
| ENewStudy | ERegister | ELookup
| EGetLatest | EReadId | EAppend | EIncPend | ESetLatest | ESetCur
| EAddMeas | ESetCompleted | ESetFinalLast | ESetFinalZero | ESetInf | EMetaUpdate
| ELoadDna | EComputeReward | EIncComp | EDecPend | EIncInf | EReadBest | ESetBest | ETouch
| ESetActive (b : bool) | ESetRet (b : bool) | EPolicy | ERead
| ESetSpec | EResetNP | EResetNF | EIncNP | EIncNF
| ERandPropose | EUserFeedback
| EEvoConf | EInitGenSetup | EResetGen | ESetPopInit (b : bool) | EResetPop | EResetPending | ENewAlgoLock
| EInitGenPropose | ESetPid | EGenId | ESetInitial (b : bool) | EPendAppend | EExtendEvolve | ESetGen1 | EPopLeft
| EFeedbackSeq | ESetFitness | EInitGenFeedback | EPopAppend | EPopUpdate.

Inductive act :=
| Acquire (l : lockref)
| Release (l : lockref)
| Stmt (rd wr : list var) (e : effect)
| Branch (rd : list var) (c : cond) (off : nat)     (* c true: next act; c false: skip [off] further acts *)
| Jump (off : nat)
| Throw (k : exn)                                    (* the entry ends with an exception reaching the worker's script *)
| Done.                                              (* the entry returns to the worker's script *)

(* gate = true: the act begins at a scheduling point of the implementation (a `line` event or a lock
   acquire); gate = false: it runs in the same uninterrupted stretch as the act before it. *)
Definition prog := list (bool * act).
Definition progs := list prog.

(* entries, by position in [progs] *)
Definition P_init := 0.  Definition P_next := 1.  Definition P_add := 2.  Definition P_done := 3.
Definition P_skip := 4.  Definition P_stop := 5.  Definition P_end := 6.

(* what a worker does between two statements of the library: its script *)
Inductive uop := UNext | UAdd (r : Z) | UDone | USkip | USkipIf | UStop | UEnd
  | UAutoAdd (r : Z) | UAutoDone.   (* inserted by the sampling loop itself, see [to_script] *)
Definition entry_of (u : uop) : nat :=
  match u with UNext => P_next | UAdd _ | UAutoAdd _ => P_add | UDone | UAutoDone => P_done | USkip | USkipIf => P_skip | UStop => P_stop | UEnd => P_end end.

(* ---------------------------------------------------------------------------------------- *)
(* state *)
Record dna := { d_pid : nat; d_init : bool }.
Definition dna0 := {| d_pid := 0; d_init := false |}.

Record trial := { t_id : nat; t_group : nat; t_dna : dna; t_done : bool; t_inf : bool;
                  t_meas : list Z; t_final : option Z;
                  t_fed : nat;            (* ghost: how many times it was reported to the algorithm *)
                  t_owner : option nat }. (* ghost: the thread whose test-and-set completed it *)
Definition trial0 := {| t_id := 0; t_group := 0; t_dna := dna0; t_done := false; t_inf := false; t_meas := []; t_final := None; t_fed := 0; t_owner := None |}.

Record study := { s_trials : list trial; s_pend : Z; s_comp : Z; s_inf : Z; s_best : option nat;
                  s_latest : list (nat * nat);     (* group -> index of its latest trial *)
                  s_active : bool; s_max : option nat;
                  s_full : bool }.                 (* ghost: some worker found the study full *)
Definition study0 (mx : option nat) := {| s_trials := []; s_pend := 0; s_comp := 0; s_inf := 0; s_best := None; s_latest := [];
                                           s_active := true; s_max := mx; s_full := false |}.

Record algo := { a_spec : bool; a_np : nat; a_nf : nat;
                 a_fed : list (nat * nat);          (* ghost: (study, trial id) in the order they were fed back *)
                 e_pending : list dna; e_init : bool; e_pop : list dna; e_gen : nat; e_lockgen : nat;
                 ig_np : nat; ig_nf : nat; e_setups : nat;
                 a_fit : list (nat * Z);
                 a_nset : nat;      (* ghost: how often the DNASpec was stored (setup started) *)
                 a_win : bool;      (* ghost: a setup has started and its counter resets are not both done *)
                 a_fedv : list (nat * nat * Z) }.   (* ghost: a_fed with the reward that was handed to algorithm.feedback *)         (* proposal id -> fitness stored in the DNA's metadata by Evolution._feedback *)
Definition algo0 := {| a_spec := false; a_np := 0; a_nf := 0; a_fed := []; e_pending := []; e_init := false; e_pop := []; e_gen := 0;
                       e_lockgen := 0; ig_np := 0; ig_nf := 0; e_setups := 0; a_fit := []; a_nset := 0; a_win := false; a_fedv := [] |}.

(* studies are addressed by creation number; [nstudies] of them have been created so far (the others are pristine) *)
Record gstate := { studies : nat -> study; nstudies : nat; registry : option nat; alg : algo; locks : lockid -> option nat }.
Definition g0 (mx : option nat) := {| studies := fun _ => study0 mx; nstudies := 0; registry := None; alg := algo0; locks := fun _ => None |}.

Record ghost := { g_reg : bool;            (* created a study that is not yet registered *)
                  g_ip : Z;                (* appended trials whose PENDING counter increment is outstanding *)
                  g_lat : option nat;      (* appended trial not yet recorded as latest of its group *)
                  g_own : option nat;      (* the trial this thread has completed (test-and-set) most recently *)
                  g_cc : Z; g_dp : Z;      (* completed trials whose COMPLETED += 1 / PENDING -= 1 is outstanding *)
                  g_infd : Z;              (* trials made infeasible whose counter increment is outstanding *)
                  g_fb : bool;             (* the completed trial has still to be reported to the algorithm *)
                  g_best : bool }.         (* the completed trial has still to be compared with the best trial *)
Definition ghost0 := {| g_reg := false; g_ip := 0%Z; g_lat := None; g_own := None; g_cc := 0%Z; g_dp := 0%Z; g_infd := 0%Z; g_fb := false; g_best := false |}.

(* ghost, about the algorithm: *)
Record ghost2 := { g_rnp : bool; g_rnf : bool;   (* has stored the DNASpec (setup started) and still owes `_num_proposals = 0` / `_num_feedbacks = 0` *)
                   g_np : Z }.                   (* proposals counted by the algorithm whose trial is not yet appended *)
Definition ghost20 := {| g_rnp := false; g_rnf := false; g_np := 0%Z |}.

Record tstate := { pc : option (nat * nat);               (* None: the worker has finished *)
                   script : list uop;
                   held : list (lockref * lockid);
                   r_study : nat; r_group : nat; r_gnone : bool;
                   r_trial : option nat; r_cur : option nat; r_id : nat; r_dna : dna; r_ret : bool;
                   r_reward : option Z; r_arg : Z; r_best : option nat;
                   (* ghost: what this thread has changed in the study but not yet accounted for (never read by the code) *)
                   gh : ghost; gh2 : ghost2 }.

Record cfg := { c_max : option nat; c_evo : bool; c_needs_fb : bool; c_pop : nat; c_policy : bool; c_stop : list nat }.

(* ---------------------------------------------------------------------------------------- *)
(* helpers *)
Fixpoint upd_nth {A} (n : nat) (f : A -> A) (l : list A) : list A :=
  match l, n with
  | [], _ => []
  | x :: r, O => f x :: r
  | x :: r, S n' => x :: upd_nth n' f r
  end.

Definition lockid_eqb (a b : lockid) : bool :=
  match a, b with
  | KReg, KReg => true
  | KStudy x, KStudy y => Nat.eqb x y
  | KAlgo x, KAlgo y => Nat.eqb x y
  | _, _ => false
  end.

Fixpoint alookup (l : list (nat * nat)) (k : nat) : option nat :=
  match l with
  | [] => None
  | (k', v) :: r => if Nat.eqb k' k then Some v else alookup r k
  end.
Fixpoint aset (l : list (nat * nat)) (k v : nat) : list (nat * nat) :=
  match l with
  | [] => [(k, v)]
  | (k', v') :: r => if Nat.eqb k' k then (k, v) :: r else (k', v') :: aset r k v
  end.

Definition study_of (g : gstate) (s : nat) : study := studies g s.
Definition trial_of (st : study) (i : nat) : trial := nth i (s_trials st) trial0.
Definition otrial (st : study) (o : option nat) : option trial :=
  match o with None => None | Some i => nth_error (s_trials st) i end.

Definition set_studies (g : gstate) (f : nat -> study) (n : nat) : gstate :=
  {| studies := f; nstudies := n; registry := registry g; alg := alg g; locks := locks g |}.
Definition set_registry (g : gstate) (r : option nat) : gstate :=
  {| studies := studies g; nstudies := nstudies g; registry := r; alg := alg g; locks := locks g |}.
Definition set_alg (g : gstate) (a : algo) : gstate :=
  {| studies := studies g; nstudies := nstudies g; registry := registry g; alg := a; locks := locks g |}.
Definition set_locks (g : gstate) (l : lockid -> option nat) : gstate :=
  {| studies := studies g; nstudies := nstudies g; registry := registry g; alg := alg g; locks := l |}.
Definition upd_study (s : nat) (f : study -> study) (g : gstate) : gstate :=
  set_studies g (fun s' => if Nat.eqb s' s then f (studies g s') else studies g s') (nstudies g).
Definition set_lock (k : lockid) (o : option nat) (g : gstate) : gstate :=
  set_locks g (fun k' => if lockid_eqb k' k then o else locks g k').

Definition set_trials (st : study) (l : list trial) : study :=
  {| s_trials := l; s_pend := s_pend st; s_comp := s_comp st; s_inf := s_inf st; s_best := s_best st; s_latest := s_latest st;
     s_active := s_active st; s_max := s_max st; s_full := s_full st |}.
Definition upd_trial (i : nat) (f : trial -> trial) (st : study) : study := set_trials st (upd_nth i f (s_trials st)).
Definition upd_cur (s : nat) (o : option nat) (f : trial -> trial) (g : gstate) : gstate :=
  match o with None => g | Some i => upd_study s (upd_trial i f) g end.

(* field setters (explicit, so that every projection of an update computes by [simpl]) *)
Definition tr_done (b : bool) (owner : option nat) (x : trial) : trial :=
  {| t_id := t_id x; t_group := t_group x; t_dna := t_dna x; t_done := b; t_inf := t_inf x; t_meas := t_meas x; t_final := t_final x; t_fed := t_fed x; t_owner := owner |}.
Definition tr_inf (b : bool) (x : trial) : trial :=
  {| t_id := t_id x; t_group := t_group x; t_dna := t_dna x; t_done := t_done x; t_inf := b; t_meas := t_meas x; t_final := t_final x; t_fed := t_fed x; t_owner := t_owner x |}.
Definition tr_meas (m : list Z) (x : trial) : trial :=
  {| t_id := t_id x; t_group := t_group x; t_dna := t_dna x; t_done := t_done x; t_inf := t_inf x; t_meas := m; t_final := t_final x; t_fed := t_fed x; t_owner := t_owner x |}.
Definition tr_final (f : option Z) (x : trial) : trial :=
  {| t_id := t_id x; t_group := t_group x; t_dna := t_dna x; t_done := t_done x; t_inf := t_inf x; t_meas := t_meas x; t_final := f; t_fed := t_fed x; t_owner := t_owner x |}.
Definition tr_fed (x : trial) : trial :=
  {| t_id := t_id x; t_group := t_group x; t_dna := t_dna x; t_done := t_done x; t_inf := t_inf x; t_meas := t_meas x; t_final := t_final x; t_fed := S (t_fed x); t_owner := t_owner x |}.

Definition st_pend (z : Z) (st : study) : study :=
  {| s_trials := s_trials st; s_pend := z; s_comp := s_comp st; s_inf := s_inf st; s_best := s_best st; s_latest := s_latest st; s_active := s_active st; s_max := s_max st; s_full := s_full st |}.
Definition st_comp (z : Z) (st : study) : study :=
  {| s_trials := s_trials st; s_pend := s_pend st; s_comp := z; s_inf := s_inf st; s_best := s_best st; s_latest := s_latest st; s_active := s_active st; s_max := s_max st; s_full := s_full st |}.
Definition st_inf (z : Z) (st : study) : study :=
  {| s_trials := s_trials st; s_pend := s_pend st; s_comp := s_comp st; s_inf := z; s_best := s_best st; s_latest := s_latest st; s_active := s_active st; s_max := s_max st; s_full := s_full st |}.
Definition st_best (b : option nat) (st : study) : study :=
  {| s_trials := s_trials st; s_pend := s_pend st; s_comp := s_comp st; s_inf := s_inf st; s_best := b; s_latest := s_latest st; s_active := s_active st; s_max := s_max st; s_full := s_full st |}.
Definition st_latest (l : list (nat * nat)) (st : study) : study :=
  {| s_trials := s_trials st; s_pend := s_pend st; s_comp := s_comp st; s_inf := s_inf st; s_best := s_best st; s_latest := l; s_active := s_active st; s_max := s_max st; s_full := s_full st |}.
Definition st_active (b : bool) (st : study) : study :=
  {| s_trials := s_trials st; s_pend := s_pend st; s_comp := s_comp st; s_inf := s_inf st; s_best := s_best st; s_latest := s_latest st; s_active := b; s_max := s_max st; s_full := s_full st |}.
Definition st_full (b : bool) (st : study) : study :=
  {| s_trials := s_trials st; s_pend := s_pend st; s_comp := s_comp st; s_inf := s_inf st; s_best := s_best st; s_latest := s_latest st; s_active := s_active st; s_max := s_max st; s_full := b |}.

Definition al_base (sp : bool) (np nf : nat) (fed : list (nat * nat)) (a : algo) : algo :=
  {| a_spec := sp; a_np := np; a_nf := nf; a_fed := fed; e_pending := e_pending a; e_init := e_init a; e_pop := e_pop a; e_gen := e_gen a;
     e_lockgen := e_lockgen a; ig_np := ig_np a; ig_nf := ig_nf a; e_setups := e_setups a; a_fit := a_fit a; a_nset := a_nset a; a_win := a_win a; a_fedv := a_fedv a |}.
Definition al_evo (pend : list dna) (ini : bool) (pop : list dna) (gen : nat) (a : algo) : algo :=
  {| a_spec := a_spec a; a_np := a_np a; a_nf := a_nf a; a_fed := a_fed a; e_pending := pend; e_init := ini; e_pop := pop; e_gen := gen;
     e_lockgen := e_lockgen a; ig_np := ig_np a; ig_nf := ig_nf a; e_setups := e_setups a; a_fit := a_fit a; a_nset := a_nset a; a_win := a_win a; a_fedv := a_fedv a |}.
Definition al_misc (lockgen np nf setups : nat) (a : algo) : algo :=
  {| a_spec := a_spec a; a_np := a_np a; a_nf := a_nf a; a_fed := a_fed a; e_pending := e_pending a; e_init := e_init a; e_pop := e_pop a; e_gen := e_gen a;
     e_lockgen := lockgen; ig_np := np; ig_nf := nf; e_setups := setups; a_fit := a_fit a; a_nset := a_nset a; a_win := a_win a; a_fedv := a_fedv a |}.
Definition al_fit (f : list (nat * Z)) (a : algo) : algo :=
  {| a_spec := a_spec a; a_np := a_np a; a_nf := a_nf a; a_fed := a_fed a; e_pending := e_pending a; e_init := e_init a; e_pop := e_pop a; e_gen := e_gen a;
     e_lockgen := e_lockgen a; ig_np := ig_np a; ig_nf := ig_nf a; e_setups := e_setups a; a_fit := f; a_nset := a_nset a; a_win := a_win a; a_fedv := a_fedv a |}.
Definition al_win (n : nat) (w : bool) (a : algo) : algo :=
  {| a_spec := a_spec a; a_np := a_np a; a_nf := a_nf a; a_fed := a_fed a; e_pending := e_pending a; e_init := e_init a; e_pop := e_pop a; e_gen := e_gen a;
     e_lockgen := e_lockgen a; ig_np := ig_np a; ig_nf := ig_nf a; e_setups := e_setups a; a_fit := a_fit a; a_nset := n; a_win := w; a_fedv := a_fedv a |}.
Definition al_fedv (v : list (nat * nat * Z)) (a : algo) : algo :=
  {| a_spec := a_spec a; a_np := a_np a; a_nf := a_nf a; a_fed := a_fed a; e_pending := e_pending a; e_init := e_init a; e_pop := e_pop a; e_gen := e_gen a;
     e_lockgen := e_lockgen a; ig_np := ig_np a; ig_nf := ig_nf a; e_setups := e_setups a; a_fit := a_fit a; a_nset := a_nset a; a_win := a_win a; a_fedv := v |}.

Definition th_pc (p : option (nat * nat)) (th : tstate) : tstate :=
  {| pc := p; script := script th; held := held th; r_study := r_study th; r_group := r_group th; r_gnone := r_gnone th; r_trial := r_trial th;
     r_cur := r_cur th; r_id := r_id th; r_dna := r_dna th; r_ret := r_ret th; r_reward := r_reward th; r_arg := r_arg th; r_best := r_best th; gh := gh th; gh2 := gh2 th |}.
Definition th_held (h : list (lockref * lockid)) (th : tstate) : tstate :=
  {| pc := pc th; script := script th; held := h; r_study := r_study th; r_group := r_group th; r_gnone := r_gnone th; r_trial := r_trial th;
     r_cur := r_cur th; r_id := r_id th; r_dna := r_dna th; r_ret := r_ret th; r_reward := r_reward th; r_arg := r_arg th; r_best := r_best th; gh := gh th; gh2 := gh2 th |}.
Definition th_script (s : list uop) (arg : Z) (th : tstate) : tstate :=
  {| pc := pc th; script := s; held := held th; r_study := r_study th; r_group := r_group th; r_gnone := r_gnone th; r_trial := r_trial th;
     r_cur := r_cur th; r_id := r_id th; r_dna := r_dna th; r_ret := r_ret th; r_reward := r_reward th; r_arg := arg; r_best := r_best th; gh := gh th; gh2 := gh2 th |}.
Definition th_study (s : nat) (th : tstate) : tstate :=
  {| pc := pc th; script := script th; held := held th; r_study := s; r_group := r_group th; r_gnone := r_gnone th; r_trial := r_trial th;
     r_cur := r_cur th; r_id := r_id th; r_dna := r_dna th; r_ret := r_ret th; r_reward := r_reward th; r_arg := r_arg th; r_best := r_best th; gh := gh th; gh2 := gh2 th |}.
Definition th_trial (o : option nat) (th : tstate) : tstate :=
  {| pc := pc th; script := script th; held := held th; r_study := r_study th; r_group := r_group th; r_gnone := r_gnone th; r_trial := o;
     r_cur := r_cur th; r_id := r_id th; r_dna := r_dna th; r_ret := r_ret th; r_reward := r_reward th; r_arg := r_arg th; r_best := r_best th; gh := gh th; gh2 := gh2 th |}.
Definition th_cur (o : option nat) (th : tstate) : tstate :=
  {| pc := pc th; script := script th; held := held th; r_study := r_study th; r_group := r_group th; r_gnone := r_gnone th; r_trial := r_trial th;
     r_cur := o; r_id := r_id th; r_dna := r_dna th; r_ret := r_ret th; r_reward := r_reward th; r_arg := r_arg th; r_best := r_best th; gh := gh th; gh2 := gh2 th |}.
Definition th_id (n : nat) (th : tstate) : tstate :=
  {| pc := pc th; script := script th; held := held th; r_study := r_study th; r_group := r_group th; r_gnone := r_gnone th; r_trial := r_trial th;
     r_cur := r_cur th; r_id := n; r_dna := r_dna th; r_ret := r_ret th; r_reward := r_reward th; r_arg := r_arg th; r_best := r_best th; gh := gh th; gh2 := gh2 th |}.
Definition th_dna (d : dna) (th : tstate) : tstate :=
  {| pc := pc th; script := script th; held := held th; r_study := r_study th; r_group := r_group th; r_gnone := r_gnone th; r_trial := r_trial th;
     r_cur := r_cur th; r_id := r_id th; r_dna := d; r_ret := r_ret th; r_reward := r_reward th; r_arg := r_arg th; r_best := r_best th; gh := gh th; gh2 := gh2 th |}.
Definition th_ret (b : bool) (th : tstate) : tstate :=
  {| pc := pc th; script := script th; held := held th; r_study := r_study th; r_group := r_group th; r_gnone := r_gnone th; r_trial := r_trial th;
     r_cur := r_cur th; r_id := r_id th; r_dna := r_dna th; r_ret := b; r_reward := r_reward th; r_arg := r_arg th; r_best := r_best th; gh := gh th; gh2 := gh2 th |}.
Definition th_reward (r : option Z) (th : tstate) : tstate :=
  {| pc := pc th; script := script th; held := held th; r_study := r_study th; r_group := r_group th; r_gnone := r_gnone th; r_trial := r_trial th;
     r_cur := r_cur th; r_id := r_id th; r_dna := r_dna th; r_ret := r_ret th; r_reward := r; r_arg := r_arg th; r_best := r_best th; gh := gh th; gh2 := gh2 th |}.
Definition th_best (o : option nat) (th : tstate) : tstate :=
  {| pc := pc th; script := script th; held := held th; r_study := r_study th; r_group := r_group th; r_gnone := r_gnone th; r_trial := r_trial th;
     r_cur := r_cur th; r_id := r_id th; r_dna := r_dna th; r_ret := r_ret th; r_reward := r_reward th; r_arg := r_arg th; r_best := o; gh := gh th; gh2 := gh2 th |}.

Definition th_gh (x : ghost) (th : tstate) : tstate :=
  {| pc := pc th; script := script th; held := held th; r_study := r_study th; r_group := r_group th; r_gnone := r_gnone th; r_trial := r_trial th;
     r_cur := r_cur th; r_id := r_id th; r_dna := r_dna th; r_ret := r_ret th; r_reward := r_reward th; r_arg := r_arg th; r_best := r_best th; gh := x; gh2 := gh2 th |}.

Definition gh_mk (x : ghost) (reg : bool) (ip : Z) (lat own : option nat) (cc dp infd : Z) (fb best : bool) : ghost :=
  {| g_reg := reg; g_ip := ip; g_lat := lat; g_own := own; g_cc := cc; g_dp := dp; g_infd := infd; g_fb := fb; g_best := best |}.
Definition gh_reg (b : bool) (x : ghost) := gh_mk x b (g_ip x) (g_lat x) (g_own x) (g_cc x) (g_dp x) (g_infd x) (g_fb x) (g_best x).
Definition gh_append (i : nat) (x : ghost) := gh_mk x (g_reg x) (g_ip x + 1)%Z (Some i) (g_own x) (g_cc x) (g_dp x) (g_infd x) (g_fb x) (g_best x).
Definition gh_incpend (x : ghost) := gh_mk x (g_reg x) (g_ip x - 1)%Z (g_lat x) (g_own x) (g_cc x) (g_dp x) (g_infd x) (g_fb x) (g_best x).
Definition gh_setlat (x : ghost) := gh_mk x (g_reg x) (g_ip x) None (g_own x) (g_cc x) (g_dp x) (g_infd x) (g_fb x) (g_best x).
Definition gh_flip (i : nat) (x : ghost) := gh_mk x (g_reg x) (g_ip x) (g_lat x) (Some i) (g_cc x + 1)%Z (g_dp x + 1)%Z (g_infd x) true true.
Definition gh_inf (x : ghost) := gh_mk x (g_reg x) (g_ip x) (g_lat x) (g_own x) (g_cc x) (g_dp x) (g_infd x + 1)%Z false false.
Definition gh_fed (x : ghost) := gh_mk x (g_reg x) (g_ip x) (g_lat x) (g_own x) (g_cc x) (g_dp x) (g_infd x) false (g_best x).
Definition gh_cc (x : ghost) := gh_mk x (g_reg x) (g_ip x) (g_lat x) (g_own x) (g_cc x - 1)%Z (g_dp x) (g_infd x) (g_fb x) (g_best x).
Definition gh_dp (x : ghost) := gh_mk x (g_reg x) (g_ip x) (g_lat x) (g_own x) (g_cc x) (g_dp x - 1)%Z (g_infd x) (g_fb x) (g_best x).
Definition gh_infc (x : ghost) := gh_mk x (g_reg x) (g_ip x) (g_lat x) (g_own x) (g_cc x) (g_dp x) (g_infd x - 1)%Z (g_fb x) (g_best x).
Definition gh_bestdone (x : ghost) := gh_mk x (g_reg x) (g_ip x) (g_lat x) (g_own x) (g_cc x) (g_dp x) (g_infd x) (g_fb x) false.
Definition ghu (f : ghost -> ghost) (th : tstate) : tstate := th_gh (f (gh th)) th.
Definition th_gh2 (x : ghost2) (th : tstate) : tstate :=
  {| pc := pc th; script := script th; held := held th; r_study := r_study th; r_group := r_group th; r_gnone := r_gnone th; r_trial := r_trial th;
     r_cur := r_cur th; r_id := r_id th; r_dna := r_dna th; r_ret := r_ret th; r_reward := r_reward th; r_arg := r_arg th; r_best := r_best th; gh := gh th; gh2 := x |}.
Definition g2u (rnp rnf : bool) (np : Z) (th : tstate) : tstate := th_gh2 {| g_rnp := rnp; g_rnf := rnf; g_np := np |} th.

Definition lastn {A} (n : nat) (l : list A) : list A := skipn (length l - n) l.
Definition last_opt (l : list Z) : option Z := match rev l with [] => None | x :: _ => Some x end.

(* ---------------------------------------------------------------------------------------- *)
(* semantics of conditions and effects (thread [me] running on state g with its own registers th) *)
Definition phys (l : lockref) (g : gstate) (th : tstate) : lockid :=
  match l with LReg => KReg | LStudy => KStudy (r_study th) | LAlgo => KAlgo (e_lockgen (alg g)) end.

Definition pending_t (x : trial) : bool := negb (t_done x).

Definition flag (c : cfg) (th : tstate) (f : cfgflag) : bool :=
  match f with FIsEvo => c_evo c | FNeedsFb => c_needs_fb c | FGroupNone => r_gnone th | FHasPolicy => c_policy c end.

Definition evalc (c : cfg) (cn : cond) (g : gstate) (th : tstate) : bool :=
  let st := study_of g (r_study th) in
  let a := alg g in
  match cn with
  | CConst b => b
  | CFlag f => flag c th f
  | CRegMissing => match registry g with None => true | Some _ => false end
  | CActiveNot => negb (s_active st)
  | CTrialNoneOrDone => match otrial st (r_trial th) with None => true | Some x => negb (pending_t x) end
  | CTrialPending => match otrial st (r_trial th) with None => false | Some x => pending_t x end
  | CFull => match s_max st with None => false | Some m => Nat.ltb m (S (length (s_trials st))) end
  | CCurPending => match otrial st (r_cur th) with None => false | Some x => pending_t x end
  | CCurNotPending => match otrial st (r_cur th) with None => true | Some x => negb (pending_t x) end
  | CNoMeas => match otrial st (r_cur th) with None => true | Some x => match t_meas x with [] => true | _ => false end end
  | CRetTrue => r_ret th
  | CRetFalse => negb (r_ret th)
  | CInfeasible => match otrial st (r_cur th) with None => false | Some x => t_inf x end
  | CBestBetter =>
      match otrial st (r_best th) with
      | None => true
      | Some b => match otrial st (r_cur th) with
                  | Some x => match t_final x, t_final b with Some rc, Some rb => Z.ltb rb rc | _, _ => false end
                  | None => false
                  end
      end
  | CRewardSome => match r_reward th with Some _ => true | None => false end
  | CSpecNone => negb (a_spec a)
  | CSpecDiffers => false
  | CPendEmpty => match e_pending a with [] => true | _ => false end
  | CPopInit => e_init a
  | CDnaInitial => d_init (r_dna th)
  | CPopInitReached => negb (e_init a) && Nat.leb (c_pop c) (S (a_nf a))
  | CHasPopUpdate => true
  end.

(* ---- primitive mutations of the shared state: every effect is a list of these plus a change of the thread's own registers ---- *)
Inductive tmut := TFlip (owner : nat) | TInf | TMeas (z : Z) | TFinal (o : option Z) | TFed.
Inductive gmut :=
| MNewStudy | MRegister (s : nat)
| MAppend (x : trial) | MPend (d : Z) | MComp (d : Z) | MInfc (d : Z) | MLatest (gk i : nat) | MTrial (i : nat) (k : tmut)
| MBest (o : option nat) | MActive (b : bool) | MFull
| MAlg (a : algo).

Definition apply_tmut (k : tmut) (x : trial) : trial :=
  match k with
  | TFlip o => tr_done true (Some o) x
  | TInf => tr_inf true x
  | TMeas z => tr_meas (t_meas x ++ [z]) x
  | TFinal o => tr_final o x
  | TFed => tr_fed x
  end.

(* s: the study the thread works on *)
Definition apply_mut (s : nat) (g : gstate) (m : gmut) : gstate :=
  match m with
  | MNewStudy => set_studies g (studies g) (S (nstudies g))
  | MRegister s' => set_registry g (Some s')
  | MAppend x => upd_study s (fun st => set_trials st (s_trials st ++ [x])) g
  | MPend d => upd_study s (fun st => st_pend (s_pend st + d)%Z st) g
  | MComp d => upd_study s (fun st => st_comp (s_comp st + d)%Z st) g
  | MInfc d => upd_study s (fun st => st_inf (s_inf st + d)%Z st) g
  | MLatest gk i => upd_study s (fun st => st_latest (aset (s_latest st) gk i) st) g
  | MTrial i k => upd_study s (upd_trial i (apply_tmut k)) g
  | MBest o => upd_study s (st_best o) g
  | MActive b => upd_study s (st_active b) g
  | MFull => upd_study s (st_full true) g
  | MAlg a => set_alg g a
  end.

(* a CFull that comes out true is remembered (ghost) *)
Definition note_full (cn : cond) (b : bool) (g : gstate) (th : tstate) : gstate :=
  match cn with CFull => if b then apply_mut (r_study th) g MFull else g | _ => g end.

(* ghost: a comparison with the best trial that comes out "not better" settles that debt *)
Definition note_branch (cn : cond) (b : bool) (th : tstate) : tstate :=
  match cn with CBestBetter => if b then th else ghu gh_bestdone th | _ => th end.

(* what an effect does to the shared state ... *)
Definition muts (c : cfg) (me : nat) (e : effect) (g : gstate) (th : tstate) : list gmut :=
  let s := r_study th in
  let st := study_of g s in
  let a := alg g in
  match e with
  | ENewStudy => [MNewStudy]
  | ERegister => [MRegister s]
  | EAppend => [MAppend {| t_id := r_id th; t_group := r_group th; t_dna := r_dna th; t_done := false; t_inf := false; t_meas := []; t_final := None;
                            t_fed := 0; t_owner := None |}]
  | EIncPend => [MPend 1%Z] | EDecPend => [MPend (-1)%Z] | EIncComp => [MComp 1%Z] | EIncInf => [MInfc 1%Z]
  | ESetLatest => match r_trial th with Some i => [MLatest (r_group th) i] | None => [] end
  | EAddMeas => match r_cur th with Some i => [MTrial i (TMeas (r_arg th))] | None => [] end
  | ESetCompleted =>
      (* status = 'COMPLETED'; ghost: if this changes the status, this thread becomes the trial's owner *)
      match r_cur th, otrial st (r_cur th) with
      | Some i, Some x => if t_done x then [] else [MTrial i (TFlip me)]
      | _, _ => []
      end
  | ESetFinalLast => match r_cur th, otrial st (r_cur th) with Some i, Some x => [MTrial i (TFinal (last_opt (t_meas x)))] | _, _ => [] end
  | ESetFinalZero => match r_cur th with Some i => [MTrial i (TFinal (Some 0%Z))] | None => [] end
  | ESetInf => match r_cur th, otrial st (r_cur th) with Some i, Some x => if t_inf x then [] else [MTrial i TInf] | _, _ => [] end
  | ESetBest => [MBest (r_cur th)]
  | ESetActive b => [MActive b]
  | ESetSpec => [MAlg (al_win (S (a_nset a)) true (al_base true (a_np a) (a_nf a) (a_fed a) a))]
  | EResetNP => [MAlg (al_win (a_nset a) (a_win a && g_rnf (gh2 th)) (al_base (a_spec a) 0 (a_nf a) (a_fed a) a))]
  | EResetNF => [MAlg (al_win (a_nset a) (a_win a && g_rnp (gh2 th)) (al_base (a_spec a) (a_np a) 0 (a_fed a) a))]
  | EIncNP => [MAlg (al_base (a_spec a) (S (a_np a)) (a_nf a) (a_fed a) a)]
  | EIncNF =>
      (* the statement `self._num_feedbacks += 1`; ghost: the trial being reported is recorded *)
      match r_cur th, otrial st (r_cur th) with
      | Some i, Some x => [MTrial i TFed;
                           MAlg (al_fedv (a_fedv a ++ [(s, t_id x, match r_reward th with Some z => z | None => 0%Z end)])
                                   (al_base (a_spec a) (a_np a) (S (a_nf a)) (a_fed a ++ [(s, t_id x)]) a))]
      | _, _ => [MAlg (al_base (a_spec a) (a_np a) (S (a_nf a)) (a_fed a) a)]
      end
  | ESetFitness => [MAlg (al_fit ((d_pid (r_dna th), match r_reward th with Some z => z | None => 0%Z end) :: a_fit a) a)]
  | EInitGenSetup => [MAlg (al_misc (e_lockgen a) 0 0 (e_setups a) a)]
  | EResetGen => [MAlg (al_evo (e_pending a) (e_init a) (e_pop a) 0 a)]
  | ESetPopInit b => [MAlg (al_evo (e_pending a) b (e_pop a) (e_gen a) a)]
  | EResetPop => [MAlg (al_evo (e_pending a) (e_init a) [] (e_gen a) a)]
  | EResetPending => [MAlg (al_evo [] (e_init a) (e_pop a) (e_gen a) a)]
  | ENewAlgoLock => [MAlg (al_misc (S (e_lockgen a)) (ig_np a) (ig_nf a) (S (e_setups a)) a)]
  | EInitGenPropose => [MAlg (al_misc (e_lockgen a) (S (ig_np a)) (ig_nf a) (e_setups a) a)]
  | EPendAppend => [MAlg (al_evo (e_pending a ++ [r_dna th]) (e_init a) (e_pop a) (e_gen a) a)]
  | EExtendEvolve =>
      let kids := match e_pop a with [] => [] | _ => [ {| d_pid := S (a_np a); d_init := false |} ] end in
      [MAlg (al_evo (e_pending a ++ kids) (e_init a) (e_pop a) (S (e_gen a)) a)]
  | ESetGen1 => [MAlg (al_evo (e_pending a) (e_init a) (e_pop a) 1 a)]
  | EPopLeft => [MAlg (al_evo (tl (e_pending a)) (e_init a) (e_pop a) (e_gen a) a)]
  | EInitGenFeedback => [MAlg (al_misc (e_lockgen a) (ig_np a) (S (ig_nf a)) (e_setups a) a)]
  | EPopAppend => [MAlg (al_evo (e_pending a) (e_init a) (e_pop a ++ [r_dna th]) (e_gen a) a)]
  | EPopUpdate => [MAlg (al_evo (e_pending a) (e_init a) (lastn (c_pop c) (e_pop a)) (e_gen a) a)]
  | _ => []
  end.

(* ... and to the registers (and ghost debts) of the thread that runs it *)
Definition regs (c : cfg) (me : nat) (e : effect) (g : gstate) (th : tstate) : tstate :=
  let s := r_study th in
  let st := study_of g s in
  let a := alg g in
  match e with
  | ENewStudy => ghu (gh_reg true) (th_study (nstudies g) th)
  | ERegister => ghu (gh_reg false) th
  | ELookup => match registry g with Some s' => th_study s' th | None => th end
  | EGetLatest => th_trial (alookup (s_latest st) (r_group th)) th
  | EReadId => th_id (S (length (s_trials st))) th
  | EAppend => g2u (g_rnp (gh2 th)) (g_rnf (gh2 th)) (g_np (gh2 th) - 1)%Z (ghu (gh_append (length (s_trials st))) (th_trial (Some (length (s_trials st))) th))
  | EIncPend => ghu gh_incpend th
  | EDecPend => ghu gh_dp th
  | EIncComp => ghu gh_cc th
  | EIncInf => ghu gh_infc th
  | ESetLatest => ghu gh_setlat th
  | ESetCur => th_cur (r_trial th) th
  | ESetCompleted =>
      match r_cur th, otrial st (r_cur th) with
      | Some i, Some x => if t_done x then th else ghu (gh_flip i) th
      | _, _ => th
      end
  | ESetInf => match r_cur th, otrial st (r_cur th) with Some i, Some x => if t_inf x then th else ghu gh_inf th | _, _ => th end
  | ELoadDna => match otrial st (r_cur th) with Some x => th_dna (t_dna x) th | None => th end
  | EComputeReward =>
      th_reward (match otrial st (r_cur th) with Some x => if t_done x && negb (t_inf x) then t_final x else None | None => None end) th
  | EReadBest => th_best (s_best st) th
  | ESetBest => ghu gh_bestdone th
  | ESetRet b => th_ret b th
  | EPolicy => th_ret (match otrial st (r_cur th) with Some x => existsb (Nat.eqb (t_id x)) (c_stop c) | None => false end) th
  | EIncNF => ghu gh_fed th
  | ESetSpec => g2u true true (g_np (gh2 th)) th
  | EResetNP => g2u false (g_rnf (gh2 th)) (g_np (gh2 th)) th
  | EResetNF => g2u (g_rnp (gh2 th)) false (g_np (gh2 th)) th
  | EIncNP => g2u (g_rnp (gh2 th)) (g_rnf (gh2 th)) (g_np (gh2 th) + 1)%Z th
  | ERandPropose => th_dna dna0 th
  | EInitGenPropose => th_dna dna0 th
  | ESetPid => th_dna {| d_pid := S (a_np a); d_init := d_init (r_dna th) |} th
  | ESetInitial b => th_dna {| d_pid := d_pid (r_dna th); d_init := b |} th
  | EPopLeft => th_dna (hd dna0 (e_pending a)) th
  | _ => th
  end.

Definition sem (c : cfg) (me : nat) (e : effect) (g : gstate) (th : tstate) : gstate * tstate :=
  (fold_left (apply_mut (r_study th)) (muts c me e g th) g, regs c me e g th).

(* the declared footprint of conditions and effects: what [evalc]/[sem] read and write, as variables of the source *)
Definition cond_reads (cn : cond) : list var :=
  match cn with
  | CConst _ | CFlag _ | CRetTrue | CRetFalse | CRewardSome => []
  | CRegMissing => [VRegistry]
  | CActiveNot => [VActive]
  | CTrialNoneOrDone | CTrialPending | CCurPending | CCurNotPending => [VTStatus]
  | CFull => [VTrials]
  | CNoMeas => [VTMeas]
  | CInfeasible => [VTInf]
  | CBestBetter => [VTFinal]
  | CSpecNone | CSpecDiffers => [VASpec]
  | CPendEmpty => [VEPending]
  | CPopInit => [VEInit]
  | CDnaInitial => [VDna]
  | CPopInitReached => [VEInit; VEConf; VANumFeed]
  | CHasPopUpdate => [VEConf]
  end.

Definition eff_reads (e : effect) : list var :=
  match e with
  | ELookup => [VRegistry] | EGetLatest => [VLatest] | EReadId => [VTrials] | EAppend => [VTrials]
  | EIncPend | EDecPend => [VCntPend] | EIncComp => [VCntComp] | EIncInf => [VCntInf]
  | EAddMeas => [VTMeas] | ESetFinalLast => [VTMeas] | EMetaUpdate => [VTMeta]
  | EComputeReward => [VTStatus; VTInf; VTFinal] | EReadBest => [VBest]
  | EIncNP => [VANumProp] | EIncNF => [VANumFeed]
  | EInitGenSetup => [VEConf; VASpec; VEInitGen] | EInitGenPropose => [VEConf; VEInitGen] | EInitGenFeedback => [VEConf; VEInitGen]
  | ESetPid => [VANumProp] | EGenId => [VEGen] | EPendAppend => [VEPending] | EPopLeft => [VEPending]
  | EExtendEvolve => [VANumProp; VEConf; VEPop; VEGen; VDna; VEPending]
  | EFeedbackSeq => [VANumFeed] | EPopAppend => [VEPop] | EPopUpdate => [VEConf; VEPop; VEGen; VANumFeed]
  | _ => []
  end.

Definition eff_writes (e : effect) : list var :=
  match e with
  | ERegister => [VRegistry] | EAppend => [VTrials]
  | EIncPend | EDecPend => [VCntPend] | EIncComp => [VCntComp] | EIncInf => [VCntInf]
  | ESetLatest => [VLatest] | EAddMeas => [VTMeas] | ESetCompleted => [VTStatus] | ESetFinalLast | ESetFinalZero => [VTFinal]
  | ESetInf => [VTInf] | EMetaUpdate => [VTMeta] | ESetBest => [VBest] | ETouch => [VLastUpdate] | ESetActive _ => [VActive]
  | ESetSpec => [VASpec] | EResetNP => [VANumProp] | EResetNF => [VANumFeed] | EIncNP => [VANumProp] | EIncNF => [VANumFeed]
  | EEvoConf => [VEConf] | EInitGenSetup | EInitGenPropose | EInitGenFeedback => [VEInitGen]
  | EResetGen | ESetGen1 => [VEGen] | ESetPopInit _ => [VEInit] | EResetPop => [VEPop] | EResetPending => [VEPending] | ENewAlgoLock => [VELock]
  | ESetPid | EGenId | ESetInitial _ | EFeedbackSeq | ESetFitness => [VDna]
  | EPendAppend | EPopLeft => [VEPending] | EExtendEvolve => [VDna; VEGen; VEPending]
  | EPopAppend | EPopUpdate => [VEPop]
  | _ => []
  end.

(* ---------------------------------------------------------------------------------------- *)
(* one thread, one act *)
Definition fetch (ps : progs) (p i : nat) : option (bool * act) :=
  match nth_error ps p with Some pr => nth_error pr i | None => None end.

(* the worker's script decides what is called next; USkipIf is dropped when the last call returned False,
   UAutoDone when the call before it ended with an exception *)
Fixpoint next_call (s : list uop) (ret raised : bool) : option (uop * list uop) :=
  match s with
  | [] => None
  | USkipIf :: r => if ret then Some (USkipIf, r) else next_call r ret raised
  | UAutoDone :: r => if raised then next_call r ret raised else Some (UAutoDone, r)
  | u :: r => Some (u, r)
  end.

Fixpoint zlookup (l : list (nat * Z)) (k : nat) : option Z :=
  match l with [] => None | (k', v) :: r => if Nat.eqb k' k then Some v else zlookup r k end.

(* sample(): when next() hands out a trial whose DNA already carries a reward (a co-worker of the group has completed
   it meanwhile and Evolution._feedback has stored the fitness in the DNA's metadata), the loop reports that reward itself
   (`feedback(reward)` under ignore_race_condition) and asks for the next trial, without yielding to the worker *)
Definition auto_reward (c : cfg) (g : gstate) (p : nat) (th : tstate) : option Z :=
  if Nat.eqb p P_next && c_evo c
  then match otrial (study_of g (r_study th)) (r_cur th) with
       | Some x => zlookup (a_fit (alg g)) (d_pid (t_dna x))
       | None => None
       end
  else None.

Definition to_script (auto : option Z) (raised : bool) (th : tstate) : tstate :=
  let s := match auto with Some r => UAutoAdd r :: UAutoDone :: UNext :: script th | None => script th end in
  match next_call s (r_ret th) raised with
  | None => th_pc None th
  | Some (u, r) => th_pc (Some (entry_of u, 0)) (th_script r (match u with UAdd z | UAutoAdd z => z | _ => r_arg th end) th)
  end.

Definition set_th (ts : list tstate) (t : nat) (th : tstate) : list tstate := upd_nth t (fun _ => th) ts.

Definition step_act (c : cfg) (t : nat) (a : act) (p i : nat) (g : gstate) (th : tstate) : option (gstate * tstate) :=
  let goto n := th_pc (Some (p, n)) in
  match a with
  | Acquire l =>
      let k := phys l g th in
      match locks g k with
      | Some _ => None                                                 (* blocked *)
      | None => Some (set_lock k (Some t) g, th_held ((l, k) :: held th) (goto (S i) th))
      end
  | Release _ =>
      match held th with
      | [] => Some (g, goto (S i) th)
      | (_, k) :: h => Some (set_lock k None g, th_held h (goto (S i) th))
      end
  | Stmt _ _ e => let '(g', th') := sem c t e g th in Some (g', goto (S i) th')
  | Branch _ cn off =>
      let b := evalc c cn g th in
      Some (note_full cn b g th, goto (if b then S i else S i + off) (note_branch cn b th))
  | Jump off => Some (g, goto (S i + off) th)
  | Throw XStop => Some (g, th_pc None th)
  | Throw _ => if Nat.eqb p P_init then Some (g, th_pc None th)        (* an exception in the constructor ends the sampling loop *)
               else Some (g, to_script None true th)
  | Done => Some (g, to_script (auto_reward c g p th) false th)
  end.

(* None: thread t cannot move (finished, or blocked on a lock) *)
Definition step1 (ps : progs) (c : cfg) (g : gstate) (ts : list tstate) (t : nat) : option (gstate * list tstate) :=
  match nth_error ts t with
  | None => None
  | Some th =>
      match pc th with
      | None => None
      | Some (p, i) =>
          match fetch ps p i with
          | None => Some (g, set_th ts t (to_script (auto_reward c g p th) false th))   (* falling off the end of an entry: return *)
          | Some (_, a) =>
              match step_act c t a p i g th with
              | None => None
              | Some (g', th') => Some (g', set_th ts t th')
              end
          end
      end
  end.

Definition step (ps : progs) (c : cfg) (st : gstate * list tstate) (t : nat) : gstate * list tstate :=
  match step1 ps c (fst st) (snd st) t with Some st' => st' | None => st end.

(* ANY list of thread ids is a schedule; a thread that cannot move is skipped *)
Definition run (ps : progs) (c : cfg) (init : gstate * list tstate) (sched : list nat) : gstate * list tstate :=
  fold_left (step ps c) sched init.

Definition thread0 (grp : nat) (gnone : bool) (s : list uop) : tstate :=
  {| pc := Some (P_init, 0); script := s; held := []; r_study := 0; r_group := grp; r_gnone := gnone; r_trial := None; r_cur := None;
     r_id := 0; r_dna := dna0; r_ret := false; r_reward := None; r_arg := 0%Z; r_best := None; gh := ghost0; gh2 := ghost20 |}.

Definition init_state (c : cfg) (workers : list (nat * bool * list uop)) : gstate * list tstate :=
  (g0 (c_max c), map (fun w => thread0 (fst (fst w)) (snd (fst w)) (snd w)) workers).

Definition finished (ts : list tstate) : bool := forallb (fun th => match pc th with None => true | Some _ => false end) ts.

(* ---------------------------------------------------------------------------------------- *)
(* the stretch between two scheduling points of the implementation: one gate act, then the silent acts after it *)
Definition next_silent (ps : progs) (ts : list tstate) (t : nat) : bool :=
  match nth_error ts t with
  | Some th => match pc th with
               | Some (p, i) => match fetch ps p i with Some (gate, _) => negb gate | None => true end
               | None => false
               end
  | None => false
  end.

Fixpoint silent_run (fuel : nat) (ps : progs) (c : cfg) (st : gstate * list tstate) (t : nat) : gstate * list tstate :=
  match fuel with
  | O => st
  | S f => if next_silent ps (snd st) t
           then match step1 ps c (fst st) (snd st) t with Some st' => silent_run f ps c st' t | None => st end
           else st
  end.

Definition pc_of (ts : list tstate) (t : nat) : option (nat * nat) :=
  match nth_error ts t with Some th => pc th | None => None end.

(* runs the observed schedule (one entry per scheduling point); returns the state, the pcs of the gate acts
   executed, and the position at which the model could not follow (a blocked or finished thread was chosen) *)
Fixpoint run_gates (ps : progs) (c : cfg) (st : gstate * list tstate) (sched : list nat) (k : nat) (acc : list (nat * nat))
  : (gstate * list tstate) * list (nat * nat) * option nat :=
  match sched with
  | [] => (st, rev acc, None)
  | t :: r =>
      match pc_of (snd st) t with
      | None => (st, rev acc, Some k)
      | Some pi =>
          match step1 ps c (fst st) (snd st) t with
          | None => (st, rev acc, Some k)
          | Some st' => run_gates ps c (silent_run 64 ps c st' t) r (S k) (pi :: acc)
          end
      end
  end.

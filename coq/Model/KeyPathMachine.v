(* KeyPathMachine.v — a small imperative language for the bodies of KeyPath.parse, its helper _append_key and
   KeyPath.path_str, and its interpreter.  harness/translators/keypath_src.py turns the *source text* of these
   functions, statement by statement, into programs of this language (coq/Gen/KeyPathSrc.v, regenerated on every run);
   Proofs/KeyPathMachineLink.v proves that the interpreter on those programs computes parse / format of Model/KeyPath.v.
   Definitions only. *)
From Coq Require Import NArith ZArith List Bool.
Import ListNotations.
From PG Require Import Model.KeyPath.
Local Open Scope Z_scope.

(* ---- _append_key(key, preserve_empty, maybe_numeric) ---------------------------------------------------------------------- *)
Inductive akstmt : Type :=
| AKReturnIfEmptyNotPreserved          (* if not (preserve_empty or key): return *)
| AKIntIfNumeric (strip : N)           (* if maybe_numeric and key.lstrip(<strip>).isdigit(): key = int(key) *)
| AKAppend.                            (* keys.append(key) *)

Fixpoint lstrip_c (c : N) (s : list N) : list N :=
  match s with x :: r => if N.eqb x c then lstrip_c c r else s | [] => [] end.

(* the local variable `key` holds a str or, after int(), an int; None = int() raised ValueError *)
Fixpoint exec_ak (prog : list akstmt) (pe num : bool) (kv : list N + Z) (acc : list key) : option (list key) :=
  match prog with
  | [] => Some acc
  | AKReturnIfEmptyNotPreserved :: r =>
      let truthy := match kv with inl s => negb (is_nil s) | inr z => negb (Z.eqb z 0) end in
      if negb (pe || truthy) then Some acc else exec_ak r pe num kv acc
  | AKIntIfNumeric c :: r =>
      match kv with
      | inl s => if num && isdigit (lstrip_c c s)
                 then match py_int s with Some z => exec_ak r pe num (inr z) acc | None => None end
                 else exec_ak r pe num kv acc
      | inr _ => exec_ak r pe num kv acc
      end
  | AKAppend :: r => exec_ak r pe num kv (acc ++ [match kv with inl s => KStr s | inr z => KInt z end])
  end.

(* ---- the loop body of parse ---------------------------------------------------------------------------------------------------- *)
Inductive cond : Type :=
| CChEq (c : N)            (* ch == '<c>' *)
| CDepthEq0                (* unmatched_brackets == 0 *)
| CDepthLt0                (* unmatched_brackets < 0 *)
| CKeyStartNeLen           (* key_start != len(path_str)   (after the loop) *)
| CNot (a : cond)
| CAnd (a b : cond).

Inductive stmt : Type :=
| SSkip
| SSeq (a b : stmt)
| SDepthAdd (z : Z)                    (* unmatched_brackets += z *)
| SKeySlice                            (* key = path_str[key_start:pos]   /   path_str[key_start:] after the loop *)
| SAppendKey (pe num : bool)           (* _append_key(key, pe, num) *)
| SKeyStartNext                        (* key_start = pos + 1 *)
| SRaise (e : perr)                    (* raise ValueError(...) *)
| SIf (c : cond) (t e : stmt).

(* position is kept as the characters between key_start and pos; [m_next]: key_start was set to pos + 1 in this iteration *)
Record mstate : Type := { m_cur : list N; m_next : bool; m_depth : Z; m_key : list N; m_acc : list key }.
Inductive mres : Type := MOk (s : mstate) | MErr (e : perr).

Fixpoint eval_cond (ch : N) (s : mstate) (c : cond) : bool :=
  match c with
  | CChEq x => N.eqb ch x
  | CDepthEq0 => Z.eqb (m_depth s) 0
  | CDepthLt0 => Z.ltb (m_depth s) 0
  | CKeyStartNeLen => negb (is_nil (m_cur s))
  | CNot a => negb (eval_cond ch s a)
  | CAnd a b => eval_cond ch s a && eval_cond ch s b
  end.

Fixpoint exec (ak : list akstmt) (ch : N) (st : stmt) (s : mstate) : mres :=
  match st with
  | SSkip => MOk s
  | SSeq a b => match exec ak ch a s with MOk s' => exec ak ch b s' | MErr e => MErr e end
  | SDepthAdd z => MOk {| m_cur := m_cur s; m_next := m_next s; m_depth := m_depth s + z; m_key := m_key s; m_acc := m_acc s |}
  | SKeySlice => MOk {| m_cur := m_cur s; m_next := m_next s; m_depth := m_depth s;
                        m_key := if m_next s then [] else m_cur s; m_acc := m_acc s |}
  | SAppendKey pe num =>
      match exec_ak ak pe num (inl (m_key s)) (m_acc s) with
      | Some acc' => MOk {| m_cur := m_cur s; m_next := m_next s; m_depth := m_depth s; m_key := m_key s; m_acc := acc' |}
      | None => MErr PEInt
      end
  | SKeyStartNext => MOk {| m_cur := m_cur s; m_next := true; m_depth := m_depth s; m_key := m_key s; m_acc := m_acc s |}
  | SRaise e => MErr e
  | SIf c t e => if eval_cond ch s c then exec ak ch t s else exec ak ch e s
  end.

(* while pos != len(path_str): ch = path_str[pos]; <body>; pos += 1 *)
Fixpoint run_loop (ak : list akstmt) (body : stmt) (rest : list N) (s : mstate) : mres :=
  match rest with
  | [] => MOk s
  | ch :: r =>
      match exec ak ch body s with
      | MErr e => MErr e
      | MOk s' =>
          run_loop ak body r {| m_cur := if m_next s' then [] else m_cur s' ++ [ch]; m_next := false;
                                m_depth := m_depth s'; m_key := m_key s'; m_acc := m_acc s' |}
      end
  end.

Record parse_prog : Type := { pp_ak : list akstmt; pp_body : stmt; pp_final : stmt }.

Definition finish (p : parse_prog) (r : mres) : pres :=
  match r with
  | MErr e => PErr e
  | MOk s => match exec (pp_ak p) 0%N (pp_final p) s with MOk s' => POk (m_acc s') | MErr e => PErr e end
  end.

Definition run_parse (p : parse_prog) (str : list N) : pres :=
  finish p (run_loop (pp_ak p) (pp_body p) str {| m_cur := []; m_next := false; m_depth := 0; m_key := []; m_acc := [] |}).

(* ---- path_str -------------------------------------------------------------------------------------------------------------------- *)
(* for i, key in enumerate(keys):
     if (isinstance(key, str) and not (preserve and any(c in key for c in <special>))) or isinstance(key, StrKey):
       if i != 0: s.append(<sep>);  s.append(str(key))
     else: s.append(f'<open>{key}<close>') *)
Record fmt_params : Type := { fp_special : list N; fp_sep : list N; fp_open : list N; fp_close : list N }.

Definition g_has_special (p : fmt_params) (s : list N) : bool :=
  existsb (fun c => existsb (N.eqb c) s) (fp_special p).

Definition g_fmt_key (p : fmt_params) (preserve first : bool) (k : key) : list N :=
  match k with
  | KStr s => if negb (preserve && g_has_special p s)
              then (if first then [] else fp_sep p) ++ s
              else fp_open p ++ s ++ fp_close p
  | KInt z => fp_open p ++ z_cps z ++ fp_close p
  end.

Fixpoint g_fmt_go (p : fmt_params) (preserve first : bool) (ks : list key) : list N :=
  match ks with [] => [] | k :: r => g_fmt_key p preserve first k ++ g_fmt_go p preserve false r end.

(* Recover.v — model of DNAGenerator state machines and their recovery from history (property C15).
   Definitions only.  A DNA is its index in the (finite, ordered) enumeration of the search space plus the
   metadata the generators read and write.  A generator is a record of total functions over its state:
   public propose / feedback / recover exactly as pyglove/core/geno/dna_generator.py drives the protected
   hooks, with the base-class counters inside the state.
     Sweeping   pyglove/core/geno/sweeping.py
     Random     pyglove/core/geno/random.py            (seeded; the PRNG is a function draw : nat -> Z)
     Deduping   pyglove/core/geno/deduping.py          (cache, attempts loop, auto reward, recover)
     Evolution  pyglove/ext/evolution/base.py          (_propose, _evolve, _feedback, recover)
   Reproduction is a function parameter (any operator); population_update is one of the selectors the
   shipped algorithms use, or a recorded table. *)
From Coq Require Import ZArith List Bool Arith.
Import ListNotations.
From PG Require Import Common.Tr.

(* ---------------------------------------------------------------------------------------------- *)
(* DNA with metadata *)
Record dna := mkDna {
  dval : Z;                 (* index in the enumeration of the space *)
  dpid : option Z;          (* 'proposal_id' *)
  dgid : option Z;          (* 'generation_id' *)
  dini : option bool;       (* 'initial_population' *)
  dfsn : option Z;          (* 'feedback_sequence_number' *)
  dfit : option Z;          (* 'reward' (fitness, or the reward computed by Deduping's auto_reward_fn) *)
  dkey : option Z;          (* 'dedup_key' *)
  dskip : nat               (* 'dedup_skipped' (absent = 0) *)
}.
Definition bare (v : Z) : dna := mkDna v None None None None None None 0.
Definition set_ids (d : dna) (pid gid : Z) (ini : bool) : dna :=
  mkDna (dval d) (Some pid) (Some gid) (Some ini) (dfsn d) (dfit d) (dkey d) (dskip d).
Definition set_fed (d : dna) (fsn r : Z) : dna :=
  mkDna (dval d) (dpid d) (dgid d) (dini d) (Some fsn) (Some r) (dkey d) (dskip d).
Definition set_key (d : dna) (k : Z) : dna :=
  mkDna (dval d) (dpid d) (dgid d) (dini d) (dfsn d) (dfit d) (Some k) (dskip d).
Definition set_fit (d : dna) (r : Z) : dna :=
  mkDna (dval d) (dpid d) (dgid d) (dini d) (dfsn d) (Some r) (dkey d) (dskip d).
Definition set_skip (d : dna) (n : nat) : dna :=
  mkDna (dval d) (dpid d) (dgid d) (dini d) (dfsn d) (dfit d) (dkey d) n.

(* one persisted history entry: the DNA (with metadata) and its reward, None when it never arrived *)
Notation hentry := (dna * option Z)%type.

Inductive outcome := Ok (d : dna) | Stop | Fail (code : Z).

Definition cache_t := list (Z * list (option Z)).

(* what can be observed of a generator: counters, population, de-duplication memory, extra
   (state that only the model/implementation correspondence looks at), wrapped generator *)
Inductive obsv := Obs (np nf : nat) (pop : list dna) (cache : cache_t) (extra : list Z) (inner : list obsv).

Record gen := mkGen {
  st : Type;
  init : st;                                     (* state after setup(dna_spec) *)
  propose : st -> outcome * st;                  (* DNAGenerator.propose *)
  feedback : st -> dna -> Z -> dna * st;         (* DNAGenerator.feedback; returns the DNA as mutated *)
  recover : st -> list hentry -> st;             (* DNAGenerator.recover *)
  needs_fb : bool;                               (* needs_feedback *)
  obs : st -> obsv
}.

Definition rewarded (r : option Z) : nat := match r with Some _ => 1 | None => 0 end.

(* ---------------------------------------------------------------------------------------------- *)
(* Sweeping over a space of m points *)
Record sw_st := mkSw { sw_np : nat; sw_nf : nat; sw_last : option Z }.

Definition sw_propose (m : Z) (s : sw_st) : outcome * sw_st :=
  let nxt := match sw_last s with None => 0%Z | Some i => (i + 1)%Z end in
  if (nxt <? m)%Z then (Ok (bare nxt), mkSw (S (sw_np s)) (sw_nf s) (Some nxt)) else (Stop, s).
Definition sw_feedback (s : sw_st) (d : dna) (r : Z) : dna * sw_st :=
  (d, mkSw (sw_np s) (S (sw_nf s)) (sw_last s)).
Definition sw_replay (s : sw_st) (e : hentry) : sw_st :=
  mkSw (S (sw_np s)) (sw_nf s + rewarded (snd e)) (Some (dval (fst e))).
Definition sw_recover (s : sw_st) (h : list hentry) : sw_st := fold_left sw_replay h s.

Definition Sweeping (m : Z) : gen :=
  mkGen sw_st (mkSw 0 0 None) (sw_propose m) sw_feedback sw_recover false
        (fun s => Obs (sw_np s) (sw_nf s) [] [] [] []).

(* ---------------------------------------------------------------------------------------------- *)
(* Random(seed): the k-th DNA drawn from the PRNG is [draw k].  With a seed, _replay re-draws once per history
   entry; without one (seeded = false: the global PRNG) it does nothing. *)
Record rd_st := mkRd { rd_np : nat; rd_nf : nat; rd_k : nat }.

Definition rd_propose (draw : nat -> Z) (s : rd_st) : outcome * rd_st :=
  (Ok (bare (draw (rd_k s))), mkRd (S (rd_np s)) (rd_nf s) (S (rd_k s))).
Definition rd_feedback (s : rd_st) (d : dna) (r : Z) : dna * rd_st :=
  (d, mkRd (rd_np s) (S (rd_nf s)) (rd_k s)).
Definition rd_replay (seeded : bool) (s : rd_st) (e : hentry) : rd_st :=
  mkRd (S (rd_np s)) (rd_nf s + rewarded (snd e)) (if seeded then S (rd_k s) else rd_k s).
Definition rd_recover (seeded : bool) (s : rd_st) (h : list hentry) : rd_st := fold_left (rd_replay seeded) h s.

Definition RandomGen (seeded : bool) (draw : nat -> Z) : gen :=
  mkGen rd_st (mkRd 0 0 0) (rd_propose draw) rd_feedback (rd_recover seeded) false
        (fun s => Obs (rd_np s) (rd_nf s) [] [] [] []).
Notation RandomSeeded := (RandomGen true).

(* ---------------------------------------------------------------------------------------------- *)
(* Deduping(generator, hash_fn, auto_reward_fn, max_duplicates, max_proposal_attempts) *)
Fixpoint cache_get (c : cache_t) (k : Z) : list (option Z) :=
  match c with
  | [] => []
  | (k', v) :: r => if (k' =? k)%Z then v else cache_get r k
  end.
(* the cache is a dict; the model keeps it sorted by key (dict equality ignores order) *)
Fixpoint cache_add (c : cache_t) (k : Z) (r : option Z) : cache_t :=
  match c with
  | [] => [(k, [r])]
  | (k', v) :: rest =>
      if (k' =? k)%Z then (k', v ++ [r]) :: rest
      else if (k <? k')%Z then (k, [r]) :: c
      else (k', v) :: cache_add rest k r
  end.
Definition cache_add_dna (c : cache_t) (d : dna) (r : option Z) : cache_t :=
  match dkey d with Some k => cache_add c k r | None => c end.

(* auto_reward_fn: 1 = sum, 2 = max; a None in the list is a TypeError *)
Fixpoint all_some (l : list (option Z)) : option (list Z) :=
  match l with
  | [] => Some []
  | Some x :: r => match all_some r with Some xs => Some (x :: xs) | None => None end
  | None :: _ => None
  end.
Definition auto_apply (kind : nat) (l : list (option Z)) : option Z :=
  match all_some l with
  | None => None
  | Some [] => None
  | Some (x :: xs) =>
      Some (match kind with
            | 1 => fold_left Z.add xs x
            | _ => fold_left Z.max xs x
            end)
  end.

(* hash_fn: hm = 0 is the default (pg.hash of the DNA: covers the metadata, so a DNA carrying a proposal id
   hashes to a value unique to that proposal — canonicalised as m + proposal_id; all offset by 10^7, away from the
   small keys of a custom hash_fn); hm > 0 is index mod hm *)
Definition hash_of (m : Z) (hm : nat) (d : dna) : Z :=
  match hm with
  | O => (10000000 + match dpid d with Some p => (m + p)%Z | None => dval d end)%Z
  | _ => (dval d mod Z.of_nat hm)%Z
  end.

Section Deduping.
  Variable g : gen.
  Variable m : Z.
  Variable hm auto maxdup maxatt : nat.

  Record dd_st := mkDd { dd_np : nat; dd_nf : nat; dd_in : st g; dd_cache : cache_t }.

  Definition auto_on : bool := needs_fb g && negb (Nat.eqb auto 0).

  (* the while loop of Deduping._propose; fuel = attempts left *)
  Fixpoint dd_loop (fuel : nat) (c : cache_t) (i : st g) (attempts : nat) : outcome * st g :=
    match fuel with
    | O => (Stop, i)
    | S f =>
        match propose g i with
        | (Ok d, i') =>
            let k := hash_of m hm d in
            let seen := cache_get c k in
            let d' := set_key d k in
            if length seen <? maxdup then (Ok (set_skip d' attempts), i')
            else if auto_on then
              match auto_apply auto seen with
              | Some r => (Ok (set_skip (set_fit d' r) attempts), i')
              | None => (Fail 2, i')
              end
            else dd_loop f c i' (S attempts)
        | (o, i') => (o, i')
        end
    end.

  Definition dd_propose (s : dd_st) : outcome * dd_st :=
    match dd_loop maxatt (dd_cache s) (dd_in s) 0 with
    | (Ok d, i') =>
        (Ok d, mkDd (S (dd_np s)) (dd_nf s) i'
                    (if needs_fb g then dd_cache s else cache_add_dna (dd_cache s) d None))
    | (o, i') => (o, mkDd (dd_np s) (dd_nf s) i' (dd_cache s))
    end.

  Definition dd_feedback (s : dd_st) (d : dna) (r : Z) : dna * dd_st :=
    if needs_fb g then
      let (d', i') := feedback g (dd_in s) d r in
      (d', mkDd (dd_np s) (S (dd_nf s)) i' (cache_add_dna (dd_cache s) d' (Some r)))
    else (d, mkDd (dd_np s) (S (dd_nf s)) (dd_in s) (dd_cache s)).

  (* Deduping.recover: the inner generator replays the history with the dropped proposals re-inserted
     (as in-flight entries), then the base-class loop rebuilds the cache through _replay *)
  Definition dd_expand (h : list hentry) : list hentry :=
    flat_map (fun e => repeat (fst e, None) (dskip (fst e)) ++ [e]) h.
  Definition dd_replay_cache (c : cache_t) (e : hentry) : cache_t :=
    if needs_fb g then
      match snd e with Some r => cache_add_dna c (fst e) (Some r) | None => c end
    else cache_add_dna c (fst e) None.
  Definition dd_replay (s : dd_st) (e : hentry) : dd_st :=
    mkDd (S (dd_np s)) (dd_nf s + rewarded (snd e)) (dd_in s) (dd_replay_cache (dd_cache s) e).
  Definition dd_recover (s : dd_st) (h : list hentry) : dd_st :=
    let i' := recover g (dd_in s) (dd_expand h) in
    fold_left dd_replay h (mkDd (dd_np s) (dd_nf s) i' (dd_cache s)).

  Definition Deduping : gen :=
    mkGen dd_st (mkDd 0 0 (init g) []) dd_propose dd_feedback dd_recover (needs_fb g)
          (fun s => Obs (dd_np s) (dd_nf s) [] (dd_cache s) []
                        (if needs_fb g then [obs g (dd_in s)] else [])).
End Deduping.

(* ---------------------------------------------------------------------------------------------- *)
(* population_update operators *)
Inductive updk :=
| UNone                          (* population_update=None: accumulate *)
| ULast (n : nat)                (* selectors.Last(n)     : regularized evolution *)
| ULastStep (a b : nat)          (* selectors.Last(lambda step: a + step % b) : a size schedule *)
| UTop (n : nat)                 (* selectors.Top(n)      : hill climb (stable, by fitness, descending) *)
| UTopGen                        (* Top(1, cluster=True, key=generation_id) >> speciate : NEAT keeps the newest generation *)
| UTable (t : list (list Z))     (* recorded: at step s the new population is the individuals with these proposal ids *)
| UNsga2 (n : nat).              (* NSGA2: once n individuals are waiting they are merged into the elites and the population is emptied *)

Definition fitness (d : dna) : Z := match dfit d with Some r => r | None => 0%Z end.
Definition gen_id (d : dna) : Z := match dgid d with Some r => r | None => 0%Z end.

(* sorted(.., key=fitness, reverse=True) is stable: x goes after every element whose key is >= its own *)
Fixpoint insert_desc (x : dna) (l : list dna) : list dna :=
  match l with
  | [] => [x]
  | y :: r => if (fitness y <? fitness x)%Z then x :: l else y :: insert_desc x r
  end.
Definition sort_desc (l : list dna) : list dna := fold_left (fun acc x => insert_desc x acc) l [].

Definition find_pid (pop : list dna) (p : Z) : list dna :=
  match find (fun d => match dpid d with Some q => (q =? p)%Z | None => false end) pop with
  | Some d => [d] | None => []
  end.

Definition apply_upd (u : updk) (pop : list dna) (step : nat) : list dna :=
  match u with
  | UNone => pop
  | ULast n => skipn (length pop - n) pop
  | ULastStep a b => skipn (length pop - (a + step mod b)) pop
  | UTop n => firstn n (sort_desc pop)
  | UTopGen => let mx := fold_left Z.max (map gen_id pop) 0%Z in filter (fun d => (gen_id d =? mx)%Z) pop
  | UTable t => flat_map (find_pid pop) (nth step t [])
  | UNsga2 n => if n <=? length pop then [] else pop
  end.

(* ---------------------------------------------------------------------------------------------- *)
(* NSGA2 (pyglove/ext/evolution/nsga2.py).  A fitness tuple is packed into one integer: (a, b) as 64a + b with
   0 <= b < 63, a 1-tuple (a,) as 64a + 63. *)
From Coq Require Import QArith.
Close Scope Q_scope.
Definition objs (d : dna) : list Z :=
  let f := fitness d in
  if (f mod 64 =? 63)%Z then [(f / 64)%Z] else [(f / 64)%Z; (f mod 64)%Z].

(* dominates(ind1, ind2): nowhere smaller, somewhere greater *)
Fixpoint dominates_from (a b : list Z) (strict : bool) : bool :=
  match a, b with
  | x :: a', y :: b' => if (x <? y)%Z then false else dominates_from a' b' (strict || (y <? x)%Z)
  | _, _ => strict
  end.
Definition dominates (a b : list Z) : bool := dominates_from a b false.

(* nondominated_sort: dependency graph and in-degrees over indices, then a level-by-level topological sort *)
Section NonDominated.
  Variable items : list dna.
  Definition item (i : nat) : dna := nth i items (bare 0).
  Definition idxs : list nat := seq 0 (length items).
  Definition graph_of (i : nat) : list nat :=
    filter (fun j => dominates (objs (item i)) (objs (item j))) idxs.
  Definition indeg_of (i : nat) : nat :=
    length (filter (fun j => negb (dominates (objs (item i)) (objs (item j))) && dominates (objs (item j)) (objs (item i))) idxs).

  Fixpoint dec_at (i : nat) (l : list nat) : list nat :=
    match l, i with
    | [], _ => []
    | x :: r, O => pred x :: r
    | x :: r, S i' => x :: dec_at i' r
    end.
  (* visiting one parent: every child loses one in-degree and joins the next level when it reaches zero *)
  Fixpoint visit_children (cs : list nat) (indeg : list nat) (next : list nat) : list nat * list nat :=
    match cs with
    | [] => (indeg, next)
    | c :: r =>
        let indeg' := dec_at c indeg in
        visit_children r indeg' (if Nat.eqb (nth c indeg' 1%nat) 0 then next ++ [c] else next)
    end.
  Fixpoint visit_level (queue : list nat) (indeg : list nat) (next : list nat) : list nat * list nat :=
    match queue with
    | [] => (indeg, next)
    | p :: r => let (indeg', next') := visit_children (graph_of p) indeg next in visit_level r indeg' next'
    end.
  Fixpoint levels (fuel : nat) (queue : list nat) (indeg : list nat) : list (list nat) :=
    match fuel, queue with
    | O, _ => []
    | _, [] => []
    | S f, _ => let (indeg', next) := visit_level queue indeg [] in queue :: levels f next indeg'
    end.
  Definition fronts : list (list dna) :=
    let indeg := map indeg_of idxs in
    map (map item) (levels (length items) (filter (fun i => Nat.eqb (nth i indeg 1%nat) 0) idxs) indeg).
End NonDominated.

(* crowding_distance_sort on one frontier; distances are exact rationals *)
Section Crowding.
  Variable front : list dna.
  Definition fitem (i : nat) : dna := nth i front (bare 0).
  Definition nobj : nat := length (objs (fitem 0)).
  Definition fobj (i k : nat) : Z := nth k (objs (fitem i)) 0%Z.

  (* sorted(range(n), key=...) is stable and ascending *)
  Fixpoint insert_asc (k : nat) (x : nat) (l : list nat) : list nat :=
    match l with
    | [] => [x]
    | y :: r => if (fobj x k <? fobj y k)%Z then x :: l else y :: insert_asc k x r
    end.
  Definition order_by (k : nat) : list nat := fold_left (fun acc x => insert_asc k x acc) (seq 0 (length front)) [].

  Fixpoint set_q (i : nat) (v : Q) (l : list Q) : list Q :=
    match l, i with
    | [], _ => []
    | _ :: r, O => v :: r
    | x :: r, S i' => x :: set_q i' v r
    end.
  Definition getq (i : nat) (l : list Q) : Q := nth i l 0%Q.

  (* one objective: the ends get the number of objectives (assigned, not added), the others gain the normalised gap *)
  Definition crowd_step (dist : list Q) (k : nat) : list Q :=
    let ord := order_by k in
    let n := length front in
    let mx := fobj (nth (n - 1) ord 0%nat) k in
    let mn := fobj (nth 0 ord 0%nat) k in
    fold_left (fun dist j =>
      let idx := nth j ord 0%nat in
      if Nat.eqb j 0 || Nat.eqb j (n - 1) then set_q idx (inject_Z (Z.of_nat nobj)) dist
      else if (mn <? mx)%Z then
        set_q idx (getq idx dist + Qmake (fobj (nth (j + 1) ord 0%nat) k - fobj (nth (j - 1) ord 0%nat) k)%Z (Z.to_pos (mx - mn)))%Q dist
      else dist) (seq 0 n) dist.
  Definition distances : list Q := fold_left crowd_step (seq 0 nobj) (repeat 0%Q (length front)).

  (* sorted(..., key=distance, reverse=True): stable, descending *)
  Fixpoint insert_qdesc (dist : list Q) (x : nat) (l : list nat) : list nat :=
    match l with
    | [] => [x]
    | y :: r => if Qle_bool (getq x dist) (getq y dist) then y :: insert_qdesc dist x r else x :: l
    end.
  Definition crowding_sort : list dna :=
    match front with
    | [] | [_] => front
    | _ => let dist := distances in
           map fitem (fold_left (fun acc x => insert_qdesc dist x acc) (seq 0 (length front)) [])
    end.
End Crowding.

(* global state of NSGA2: the elites and the cursor of next_elite *)
Definition nsga_g := (list dna * nat)%type.
(* population_update: (elites + inputs) >> nondominated_sort >> for_each(crowding_distance_sort) >> flatten
   >> First(n) saved as the new elites, cursor reset; its own output is empty.  Only when n inputs are waiting. *)
Definition nsga2_updf (n : nat) (pop : list dna) (g : nsga_g) (step : nat) : list dna * nsga_g :=
  if n <=? length pop then
    ([], (firstn n (flat_map crowding_sort (fronts (fst g ++ pop))), 0%nat))
  else (pop, g).
(* reproduction: next_elite() >> mutator.  The mutated child is recorded (the mutator is random); the cursor moves on. *)
Definition nsga2_repro (t : list (list Z)) (pop : list dna) (g : nsga_g) (ngen : Z) (np : nat) : list Z * nsga_g :=
  (nth (Z.to_nat (ngen - 1)) t [],
   (fst g, match length (fst g) with O => snd g | S k => (S (snd g)) mod (S k) end)).
Definition nsga_gobs (g : nsga_g) : list Z :=
  Z.of_nat (snd g) :: map (fun d => match dpid d with Some p => p | None => (-1)%Z end) (fst g).


(* ---------------------------------------------------------------------------------------------- *)
(* Evolution(reproduction, population_init=(gi, size) | gi, population_update).
   G is the part of global_state other than num_generations (e.g. NSGA2's elites and cursor); reproduction and
   population_update are arbitrary functions that may read and write it. *)
Section Evolution.
  Variable gi : gen.                                   (* the population initialiser *)
  Variable size : option nat.                          (* initial population size, if given *)
  Variable G : Type.
  Variable g0 : G.
  Variable repro : list dna -> G -> Z -> nat -> list Z * G.   (* reproduction(population, global state, num_generations, step) *)
  Variable updf : list dna -> G -> nat -> list dna * G.       (* population_update(population + [dna], global state, step) *)
  Variable gobs : G -> list Z.                                 (* what the correspondence looks at of the global state *)

  Record ev_st := mkEv {
    ev_np : nat; ev_nf : nat;
    ev_in : st gi;
    ev_initialized : bool;
    ev_ngen : Z;                                       (* global_state.num_generations *)
    ev_g : G;
    ev_pop : list dna;
    ev_pending : list dna
  }.

  Fixpoint number_children (vals : list Z) (pid gid : Z) : list dna :=
    match vals with
    | [] => []
    | v :: r => set_ids (bare v) pid gid false :: number_children r (pid + 1)%Z gid
    end.

  Definition ev_pop_front (s : ev_st) : outcome * ev_st :=
    match ev_pending s with
    | d :: r => (Ok d, mkEv (S (ev_np s)) (ev_nf s) (ev_in s) (ev_initialized s) (ev_ngen s) (ev_g s) (ev_pop s) r)
    | [] => (Fail 5, s)
    end.

  (* _evolve, then popleft; no children = ValueError *)
  Definition ev_do_evolve (s : ev_st) : outcome * ev_st :=
    let (vals, g') := repro (ev_pop s) (ev_g s) (ev_ngen s) (ev_np s) in
    match number_children vals (Z.of_nat (ev_np s) + 1)%Z (ev_ngen s + 1)%Z with
    | [] => (Fail 1, mkEv (ev_np s) (ev_nf s) (ev_in s) (ev_initialized s) (ev_ngen s) g' (ev_pop s) (ev_pending s))
    | cs => ev_pop_front (mkEv (ev_np s) (ev_nf s) (ev_in s) (ev_initialized s) (ev_ngen s + 1)%Z g' (ev_pop s) (ev_pending s ++ cs))
    end.

  Definition ev_propose (s : ev_st) : outcome * ev_st :=
    match ev_pending s with
    | _ :: _ => ev_pop_front s
    | [] =>
        if ev_initialized s then ev_do_evolve s
        else
          match propose gi (ev_in s) with
          | (Ok d, i') =>
              let d' := set_ids d (Z.of_nat (ev_np s) + 1)%Z (ev_ngen s + 1)%Z true in
              ev_pop_front (mkEv (ev_np s) (ev_nf s) i' false (ev_ngen s) (ev_g s) (ev_pop s) [d'])
          | (Stop, i') =>
              ev_do_evolve (mkEv (ev_np s) (ev_nf s) i' true 1%Z (ev_g s) (ev_pop s) [])
          | (Fail c, i') => (Fail c, mkEv (ev_np s) (ev_nf s) i' false (ev_ngen s) (ev_g s) (ev_pop s) [])
          end
    end.

  Definition is_initial (d : dna) : bool := match dini d with Some b => b | None => false end.

  Definition size_reached (nf : nat) : bool :=
    match size with Some n => n <=? nf + 1 | None => false end.

  (* public feedback = _feedback, then num_feedbacks += 1 *)
  Definition ev_feedback (s : ev_st) (d : dna) (r : Z) : dna * ev_st :=
    let d' := set_fed d (Z.of_nat (ev_nf s) + 1)%Z r in
    let i' := if is_initial d' then snd (feedback gi (ev_in s) d' r) else ev_in s in
    let flip := negb (ev_initialized s) && size_reached (ev_nf s) in
    let (pop', g') := updf (ev_pop s ++ [d']) (ev_g s) (ev_nf s) in
    (d', mkEv (ev_np s) (S (ev_nf s)) i'
              (if flip then true else ev_initialized s)
              (if flip then 1%Z else ev_ngen s)
              g' pop' (ev_pending s)).

  (* the branch of Evolution.recover for a DNA that already carries a feedback sequence number *)
  Definition ev_readd (s : ev_st) (d : dna) : ev_st :=
    let (pop', g') := updf (ev_pop s ++ [d]) (ev_g s) (ev_nf s) in
    mkEv (ev_np s) (S (ev_nf s)) (ev_in s) (ev_initialized s) (ev_ngen s) g' pop' (ev_pending s).

  Definition ev_bump_np (s : ev_st) : ev_st :=
    mkEv (S (ev_np s)) (ev_nf s) (ev_in s) (ev_initialized s) (ev_ngen s) (ev_g s) (ev_pop s) (ev_pending s).
  Definition ev_raise_ngen (s : ev_st) (g : Z) : ev_st :=
    mkEv (ev_np s) (ev_nf s) (ev_in s) (ev_initialized s) (if (ev_ngen s <? g)%Z then g else ev_ngen s) (ev_g s) (ev_pop s) (ev_pending s).

  (* Evolution.recover: one step of the loop over the history; ip = init_population *)
  Definition ev_replay (acc : ev_st * list hentry) (e : hentry) : ev_st * list hentry :=
    let s := ev_bump_np (fst acc) in
    let ip := snd acc in
    let d := fst e in
    let '(s1, ip1) :=
      match snd e with
      | Some r =>
          let '(d1, s') :=
            match dfsn d with
            | None => ev_feedback s d r
            | Some _ => (d, ev_readd s d)
            end in
          (s', if is_initial d1 then ip ++ [(d1, Some r)] else ip)
      | None => (s, ip)
      end in
    (ev_raise_ngen s1 (gen_id d), ip1).

  Definition ev_recover (s : ev_st) (h : list hentry) : ev_st :=
    let (s1, ip) := fold_left ev_replay h (s, []) in
    let reached := match size with Some n => Nat.max n 1 <=? length ip | None => false end in
    mkEv (ev_np s1) (ev_nf s1) (recover gi (ev_in s1) ip)
         (if reached then true else ev_initialized s1) (ev_ngen s1) (ev_g s1) (ev_pop s1) (ev_pending s1).

  Definition Evolution : gen :=
    mkGen ev_st (mkEv 0 0 (init gi) false 0%Z g0 [] []) ev_propose ev_feedback ev_recover true
          (fun s => Obs (ev_np s) (ev_nf s) (ev_pop s) [] ((if ev_initialized s then 1%Z else 0%Z) :: ev_ngen s :: gobs (ev_g s)) []).
End Evolution.

(* ---------------------------------------------------------------------------------------------- *)
(* algorithm syntax (what a case names) and its denotation *)
Inductive alg :=
| ASweep
| ARand (seeded : bool) (draws : list Z)
| ADedup (a : alg) (hm auto maxdup maxatt : nat)
| AEvo (ini : alg) (size : option nat) (u : updk) (children : list (list Z)).

Fixpoint denote (m : Z) (a : alg) : gen :=
  match a with
  | ASweep => Sweeping m
  | ARand sd t => RandomGen sd (fun k => nth k t (-1)%Z)
  | ADedup a' hm auto maxdup maxatt => Deduping (denote m a') m hm auto maxdup maxatt
  | AEvo i size u t =>
      match u with
      | UNsga2 n => Evolution (denote m i) size nsga_g ([], 0) (nsga2_repro t) (nsga2_updf n) nsga_gobs
      | _ => Evolution (denote m i) size unit tt
                       (fun _ _ ngen _ => (nth (Z.to_nat (ngen - 1)) t [], tt))
                       (fun pop _ step => (apply_upd u pop step, tt))
                       (fun _ => [])
      end
  end.

(* proposals are a function of history and seed *)
Fixpoint deterministic (a : alg) : bool :=
  match a with
  | ASweep => true
  | ARand sd _ => sd
  | ADedup a' _ _ _ _ => deterministic a'
  | AEvo _ _ _ _ => false
  end.

(* the initial population of the Evolution inside comes from a generator whose proposals are a function of
   history and seed *)
Fixpoint init_deterministic (a : alg) : bool :=
  match a with
  | ADedup a' _ _ _ _ => init_deterministic a'
  | AEvo i _ _ _ => deterministic i
  | _ => false
  end.

(* ---------------------------------------------------------------------------------------------- *)
(* the uninterrupted run: events 0 = propose, 1 = feed back the oldest in-flight proposal, 2 = abandon it.
   The history holds every proposed DNA (as mutated by feedback) with its reward. *)
Section Run.
  Variable g : gen.
  Variable reward_of : Z -> Z.      (* the reward function of the DNA (by index) *)

  Definition reward_for (d : dna) : Z :=
    match dfit d, dfsn d with
    | Some r, None => r             (* computed by auto_reward_fn: fed back as is *)
    | _, _ => reward_of (dval d)
    end.

  Fixpoint set_nth {A} (n : nat) (x : A) (l : list A) : list A :=
    match l, n with
    | [], _ => []
    | _ :: r, O => x :: r
    | y :: r, S n' => y :: set_nth n' x r
    end.

  Record run_st := mkRun { r_st : st g; r_hist : list hentry; r_ptr : nat; r_ok : bool }.

  Definition run_init : run_st := mkRun (init g) [] 0 true.

  (* one event; r_ok = false once a propose did not return a DNA (the run ends there) *)
  Definition step (r : run_st) (e : Z) : run_st :=
    if negb (r_ok r) then r else
    if (e =? 0)%Z then
      match propose g (r_st r) with
      | (Ok d, s') => mkRun s' (r_hist r ++ [(d, None)]) (r_ptr r) true
      | (_, s') => mkRun s' (r_hist r) (r_ptr r) false
      end
    else
      match nth_error (r_hist r) (r_ptr r) with
      | None => r
      | Some (d, _) =>
          if (e =? 1)%Z then
            let rv := reward_for d in
            let (d', s') := feedback g (r_st r) d rv in
            mkRun s' (set_nth (r_ptr r) (d', Some rv) (r_hist r)) (S (r_ptr r)) true
          else mkRun (r_st r) (r_hist r) (S (r_ptr r)) true
      end.

  Definition run_events (evs : list Z) : run_st := fold_left step evs run_init.

  (* a fresh instance recovered from the persisted history *)
  Definition recovered (h : list hentry) : st g := recover g (init g) h.

  (* the next (up to n) proposals from a state; a failed propose ends the list with -1-code *)
  Fixpoint continue_from (n : nat) (s : st g) : list Z :=
    match n with
    | O => []
    | S n' =>
        match propose g s with
        | (Ok d, s') => dval d :: continue_from n' s'
        | (Stop, _) => [(-1)%Z]
        | (Fail c, _) => [(-1 - c)%Z]
        end
    end.
  (* the next (up to n) proposals of the initial-population phase: stops (-9) at the first proposal that is not
     an initial individual, or that fails — what comes after depends on the (randomised) reproduction *)
  Fixpoint continue_init (n : nat) (s : st g) : list Z :=
    match n with
    | O => []
    | S n' =>
        match propose g s with
        | (Ok d, s') => match dini d with
                        | Some true => dval d :: continue_init n' s'
                        | _ => [(-9)%Z]
                        end
        | (_, _) => [(-9)%Z]
        end
    end.
End Run.

(* ---------------------------------------------------------------------------------------------- *)
(* wire format
   case  ::= (alg m (reward ...) (event ...))
   alg   ::= (0) | (1 (draw ...)) | (6 (draw ...)) | (2 alg hashmod auto maxdup maxatt) | (3 alg (size?) upd ((child ...) ...))
   upd   ::= (0) | (1 n) | (2 n) | (3) | (4 ((pid ...) ...)) | (5 a b) | (6 n)
   out   ::= (snapshot ...)            one per crash point (before each event, and after the last)
   snapshot ::= (live recovered live_continuation recovered_continuation (recovered_with_undelivered_reward?) (recovered_from_proposal_time_metadata?) (recovered_in_two_parts?))
   obs   ::= (np nf (dna ...) ((key ((reward?) ...)) ...) (extra ...) (obs ...))
   dna   ::= (val (pid?) (gid?) (ini?) (fsn?) (fit?) (key?) skipped) *)
Local Open Scope Z_scope.

Definition e_dna (d : dna) : tr :=
  L [eZ (dval d); eopt eZ (dpid d); eopt eZ (dgid d); eopt ebool (dini d); eopt eZ (dfsn d); eopt eZ (dfit d);
     eopt eZ (dkey d); enat (dskip d)].
Definition e_cache (c : cache_t) : tr :=
  elist (fun kv => L [eZ (fst kv); elist (eopt eZ) (snd kv)]) c.
Fixpoint e_obs (o : obsv) : tr :=
  match o with
  | Obs np nf pop c ex inner => L [enat np; enat nf; elist e_dna pop; e_cache c; elist eZ ex; L (map e_obs inner)]
  end.

Definition d_upd (t : tr) : option updk :=
  match t with
  | L [I 0] => Some UNone
  | L [I 1; n] => do n' <- dnat n; Some (ULast n')
  | L [I 2; n] => do n' <- dnat n; Some (UTop n')
  | L [I 3] => Some UTopGen
  | L [I 4; rows] => do r <- dlist (dlist dZ) rows; Some (UTable r)
  | L [I 5; a; b] => do a' <- dnat a; do b' <- dnat b; Some (ULastStep a' b')
  | L [I 6; n] => do n' <- dnat n; Some (UNsga2 n')
  | _ => None
  end.

Fixpoint d_alg (fuel : nat) (t : tr) : option alg :=
  match fuel with
  | O => None
  | S f =>
      match t with
      | L [I 0] => Some ASweep
      | L [I 1; draws] => do ds <- dlist dZ draws; Some (ARand true ds)
      | L [I 6; draws] => do ds <- dlist dZ draws; Some (ARand false ds)
      | L [I 2; a; hm; auto; maxdup; maxatt] =>
          do a' <- d_alg f a; do hm' <- dnat hm; do auto' <- dnat auto; do md <- dnat maxdup; do ma <- dnat maxatt;
          Some (ADedup a' hm' auto' md ma)
      | L [I 3; i; size; u; tbl] =>
          do i' <- d_alg f i; do size' <- dopt dnat size; do u' <- d_upd u; do t' <- dlist (dlist dZ) tbl;
          Some (AEvo i' size' u' t')
      | _ => None
      end
  end.

(* decidable check that history h' is h with some rewarded entries replaced by the DNA as it was before feedback
   (the hypothesis of theorem C15_recover_from_stored_proposals, evaluated on every generated case) *)
Definition oeqb {A} (f : A -> A -> bool) (a b : option A) : bool :=
  match a, b with Some x, Some y => f x y | None, None => true | _, _ => false end.
Definition dna_eqb (a b : dna) : bool :=
  (dval a =? dval b)%Z && oeqb Z.eqb (dpid a) (dpid b) && oeqb Z.eqb (dgid a) (dgid b) && oeqb Bool.eqb (dini a) (dini b)
  && oeqb Z.eqb (dfsn a) (dfsn b) && oeqb Z.eqb (dfit a) (dfit b) && oeqb Z.eqb (dkey a) (dkey b) && Nat.eqb (dskip a) (dskip b).
Definition hs_key_b (e e' : hentry) : bool :=
  oeqb Z.eqb (snd e) (snd e') && oeqb Z.eqb (dkey (fst e)) (dkey (fst e')) && Nat.eqb (dskip (fst e)) (dskip (fst e'))
  && (dval (fst e) =? dval (fst e'))%Z
  && match snd e with
     | None => true
     | Some r =>
         dna_eqb (fst e') (fst e)
         || match dfsn (fst e'), dfsn (fst e) with
            | None, Some q => dna_eqb (fst e) (set_fed (fst e') q r)
            | _, _ => false
            end
     end.
Fixpoint hrk_b (h h' : list hentry) : bool :=
  match h, h' with
  | [], [] => true
  | e :: t, e' :: t' => hs_key_b e e' && hrk_b t t'
  | _, _ => false
  end.

(* population_initialized of the Evolution inside an observation (first [extra] entry; through Deduping wrappers) *)
Fixpoint obs_initialized (o : obsv) : bool :=
  match o with
  | Obs _ _ _ _ (i :: _) _ => (i =? 1)%Z
  | Obs _ _ _ _ [] [x] => obs_initialized x
  | _ => false
  end.
(* an initial individual whose reward has not arrived *)
Definition inflight_initial (e : hentry) : bool :=
  match snd e, dini (fst e) with None, Some true => true | _, _ => false end.

Section Sim.
  Variable g : gen.
  Variable reward_of : Z -> Z.
  Variable det : bool.
  Variable detinit : bool.
  (* the reward of the oldest in-flight proposal reached the history but feedback() was never called *)
  Definition undelivered (r : run_st g) (next : option Z) : list tr :=
    match next with
    | Some 1 =>
        match nth_error (r_hist g r) (r_ptr g r) with
        | Some (d, _) =>
            let hu := set_nth (r_ptr g r) (d, Some (reward_for reward_of d)) (r_hist g r) in
            [e_obs (obs g (recovered g hu)); ebool (hrk_b (r_hist g (step g reward_of r 1)) hu)]
        | None => []
        end
    | _ => []
    end.
  (* the history as a backend keeps it that stores the DNA when it is proposed and the reward when it arrives:
     metadata as of proposal time (no feedback sequence number, no fitness) *)
  Definition hist0_step (h0 : list hentry) (r : run_st g) (e : Z) (r' : run_st g) : list hentry :=
    if (e =? 0)%Z then
      match nth_error (r_hist g r') (length (r_hist g r)) with
      | Some x => if r_ok g r' then h0 ++ [x] else h0
      | None => h0
      end
    else if (e =? 1)%Z then
      match nth_error (r_hist g r) (r_ptr g r), nth_error h0 (r_ptr g r) with
      | Some (d, _), Some (d0, _) => set_nth (r_ptr g r) (d0, Some (reward_for reward_of d)) h0
      | _, _ => h0
      end
    else h0.
  Definition proposal_time (r : run_st g) (h0 : list hentry) : list tr :=
    if existsb (fun e => match snd e with Some _ => true | None => false end) h0
    then [e_obs (obs g (recovered g h0)); ebool (hrk_b (r_hist g r) h0)] else [].

  (* recover() called twice, on the two halves of the history (every third crash point) *)
  Definition in_parts (r : run_st g) (c : nat) : list tr :=
    let h := r_hist g r in
    if ((2 <=? length h) && (c mod 3 =? 0))%nat then
      let k := (length h / 2)%nat in
      [e_obs (obs g (recover g (recover g (init g) (firstn k h)) (skipn k h)))]
    else [].

  Definition snapshot (r : run_st g) (h0 : list hentry) (next : option Z) (c : nat) : tr :=
    let rec := recovered g (r_hist g r) in
    L [e_obs (obs g (r_st g r)); e_obs (obs g rec);
       (* inside the bootstrap window with rewards missing, the uninterrupted instance is asked as well *)
       elist eZ (if det then continue_from g 5 (r_st g r)
                 else if detinit && negb (obs_initialized (obs g (r_st g r))) && existsb inflight_initial (r_hist g r)
                      then continue_init g 3 (r_st g r) else []);
       elist eZ (if det then continue_from g 5 rec else if detinit then continue_init g 5 rec else []);
       L (undelivered r next);
       L (proposal_time r h0);
       L (in_parts r c)].
  Fixpoint sim (evs : list Z) (r : run_st g) (h0 : list hentry) (c : nat) : list tr :=
    snapshot r h0 (hd_error evs) c ::
    match evs with
    | [] => []
    | e :: rest => let r' := step g reward_of r e in if r_ok g r' then sim rest r' (hist0_step h0 r e r') (S c) else []
    end.
End Sim.

Definition run (c : tr) : tr :=
  match c with
  | L [a; m; rewards; evs] =>
      match d_alg 20 a, dZ m, dlist dZ rewards, dlist dZ evs with
      | Some a', Some m', Some rw, Some es =>
          let g := denote m' a' in
          L (sim g (fun v => nth (Z.to_nat v) rw 0) (deterministic a') (init_deterministic a') es (run_init g) [] 0)
      | _, _, _, _ => ebad
      end
  | _ => ebad
  end.

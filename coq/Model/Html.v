(* Html.v — model of pyglove's HTML rendering (property C20).  Definitions only.

   1. [escape]/[unescape]      : html.escape (quote=True) and its strict inverse;
   2. [hnode], [render]        : the trees Html.element builds and the exact string it concatenates;
   3. [parse_html]             : a strict tokenizer/parser, written as a one-character-at-a-time
                                  pushdown automaton ([step], [run] = fold_left step) — no fuel;
   4. [normalize]              : what a parser can observe of a tree (adjacent texts merge, empty texts vanish);
   5. [tree_view]              : HtmlTreeView._render / summary / content / simple_value / complex_value /
                                  object_key / tooltip / should_collapse / needs_summary on dict / list / object / leaf values;
   6. [run]                    : the wire interface used by the harness.

   Strings are lists of code points.  What [utils.format], [repr] and [camel_to_snake] return is carried by the
   value ([fmt], [rep], [cname]): the model and the theorems are parametric in those strings (any string at all). *)
From Coq Require Import NArith ZArith List Bool String Ascii.
Import ListNotations.
From PG Require Import Common.Tr.
Local Open Scope N_scope.

Definition str := list N.
Definition str_of (s : string) : str := map N_of_ascii (list_ascii_of_string s).

(* ---------------------------------------------------------------------------------------------- *)
(* 1. characters, escape, unescape                                                                  *)
Definition c_amp : N := 38.   Definition c_lt : N := 60.    Definition c_gt : N := 62.
Definition c_quot : N := 34.  Definition c_apos : N := 39.  Definition c_semi : N := 59.
Definition c_sp : N := 32.    Definition c_eq : N := 61.    Definition c_slash : N := 47.

Definition e_amp : str := Eval compute in str_of "amp;".
Definition e_lt : str := Eval compute in str_of "lt;".
Definition e_gt : str := Eval compute in str_of "gt;".
Definition e_quot : str := Eval compute in str_of "quot;".
Definition e_apos : str := Eval compute in str_of "#x27;".

(* html.escape(s, quote=True): one pass, character by character (the order of the five str.replace calls
   in the library gives the same result because the ampersand is replaced first). *)
Definition esc_char (c : N) : str :=
  if c =? c_amp then c_amp :: e_amp
  else if c =? c_lt then c_amp :: e_lt
  else if c =? c_gt then c_amp :: e_gt
  else if c =? c_quot then c_amp :: e_quot
  else if c =? c_apos then c_amp :: e_apos
  else [c].
Definition escape (s : str) : str := flat_map esc_char s.

Fixpoint str_eqb (a b : str) : bool :=
  match a, b with
  | [], [] => true
  | x :: a', y :: b' => (x =? y) && str_eqb a' b'
  | _, _ => false
  end.
Fixpoint prefixb (p s : str) : bool :=
  match p, s with
  | [], _ => true
  | x :: p', y :: s' => (x =? y) && prefixb p' s'
  | _, [] => false
  end.

(* the entity (without the leading "&") at the head of [r]: decoded character and number of characters to skip *)
Definition entity_at (r : str) : option (N * nat) :=
  if prefixb e_amp r then Some (c_amp, 4%nat)
  else if prefixb e_lt r then Some (c_lt, 3%nat)
  else if prefixb e_gt r then Some (c_gt, 3%nat)
  else if prefixb e_quot r then Some (c_quot, 5%nat)
  else if prefixb e_apos r then Some (c_apos, 5%nat)
  else None.

(* strict inverse of escape: decodes exactly the five entities, leaves anything else alone *)
Fixpoint unesc (skip : nat) (l : str) : str :=
  match l with
  | [] => []
  | c :: r =>
    match skip with
    | S k => unesc k r
    | O => if c =? c_amp
           then match entity_at r with
                | Some (ch, n) => ch :: unesc n r
                | None => c :: unesc O r
                end
           else c :: unesc O r
    end
  end.
Definition unescape (l : str) : str := unesc O l.

(* no metacharacter: none of lt, gt, double quote, apostrophe; and every ampersand begins one of the five entities *)
Definition is_meta4 (c : N) : bool := (c =? c_lt) || (c =? c_gt) || (c =? c_quot) || (c =? c_apos).
Fixpoint amps_ok (l : str) : bool :=
  match l with
  | [] => true
  | c :: r => (if c =? c_amp then match entity_at r with Some _ => true | None => false end else true) && amps_ok r
  end.
Definition no_meta (l : str) : Prop := forallb (fun c => negb (is_meta4 c)) l = true /\ amps_ok l = true.

(* ---------------------------------------------------------------------------------------------- *)
(* 2. trees and rendering (Html.element)                                                            *)
Inductive hnode : Type :=
| El (tag : str) (opts : list str) (attrs : list (str * str)) (kids : list hnode)
| Txt (s : str)      (* data in text position: written through Html.escape *)
| Raw (s : str).     (* data written verbatim (the defect position; never produced by tree_view) *)

Definition render_opt (o : str) : str := c_sp :: o.
(* attribute values hold the unescaped value; it is written escaped between double quotes *)
Definition render_attr (a : str * str) : str := c_sp :: fst a ++ [c_eq; c_quot] ++ escape (snd a) ++ [c_quot].
Definition open_tag (tag : str) (opts : list str) (attrs : list (str * str)) : str :=
  c_lt :: tag ++ flat_map render_opt opts ++ flat_map render_attr attrs ++ [c_gt].
Definition close_tag (tag : str) : str := c_lt :: c_slash :: tag ++ [c_gt].

Fixpoint render (t : hnode) : str :=
  match t with
  | El tag opts attrs kids => open_tag tag opts attrs ++ flat_map render kids ++ close_tag tag
  | Txt s => escape s
  | Raw s => s
  end.
Definition render_list (ts : list hnode) : str := flat_map render ts.

(* names: [A-Za-z][A-Za-z0-9_-]* *)
Definition is_alpha (c : N) : bool := ((65 <=? c) && (c <=? 90)) || ((97 <=? c) && (c <=? 122)).
Definition is_name_char (c : N) : bool := is_alpha c || ((48 <=? c) && (c <=? 57)) || (c =? 45) || (c =? 95).
Definition name_okb (n : str) : bool :=
  match n with [] => false | c :: r => is_alpha c && forallb is_name_char r end.
Fixpoint names_okb (t : hnode) : bool :=
  match t with
  | El tag opts attrs kids =>
      name_okb tag && forallb name_okb opts && forallb (fun a => name_okb (fst a)) attrs && forallb names_okb kids
  | Txt _ => true
  | Raw _ => false
  end.
Definition names_ok (t : hnode) : Prop := names_okb t = true.

(* ---------------------------------------------------------------------------------------------- *)
(* 3. strict tokenizer / parser: a pushdown automaton stepped once per character                     *)
(* decoding an entity name (the characters between the ampersand and the semicolon, semicolon included) *)
Definition decode_ent (e : str) : option N :=
  if str_eqb e e_amp then Some c_amp
  else if str_eqb e e_lt then Some c_lt
  else if str_eqb e e_gt then Some c_gt
  else if str_eqb e e_quot then Some c_quot
  else if str_eqb e e_apos then Some c_apos
  else None.

(* text with entities, used for both text nodes and attribute values:
   [acc] decoded characters so far, [ent] = Some e when inside an entity whose characters so far are e *)
Inductive tstate := TS (acc : str) (ent : option str).
Inductive tres := TCont (t : tstate) | TErr | TStop.   (* TStop: the character is not text (lt / double quote) *)
Definition tstep (stop : N) (t : tstate) (c : N) : tres :=
  match t with
  | TS acc None =>
      if c =? stop then TStop
      else if c =? c_amp then TCont (TS acc (Some []))
      else if is_meta4 c then TErr
      else TCont (TS (acc ++ [c]) None)
  | TS acc (Some e) =>
      if c =? c_semi
      then match decode_ent (e ++ [c]) with Some ch => TCont (TS (acc ++ [ch]) None) | None => TErr end
      else if (5 <=? List.length e)%nat then TErr else TCont (TS acc (Some (e ++ [c])))
  end.

Definition otag := (str * list str * list (str * str))%type.      (* tag, options, attributes read so far *)
Inductive mode :=
| MText (t : tstate)                          (* between tags *)
| MTagStart                                   (* after lt *)
| MOpen (name : str)                          (* reading the name of an opening tag *)
| MSpace (o : otag)                           (* after a space inside an opening tag: a name must start *)
| MAName (o : otag) (an : str)                (* reading an option / attribute name *)
| MAEq (o : otag) (an : str)                  (* after the equals sign: a double quote must follow *)
| MAVal (o : otag) (an : str) (t : tstate)    (* inside a quoted attribute value *)
| MAEnd (o : otag)                            (* after the closing quote: space or gt *)
| MClose (name : str).                        (* reading the name of a closing tag *)

(* an open element: its tag/options/attributes and the children its parent had before it *)
Definition frame := (otag * list hnode)%type.
Inductive pstate := PS (m : mode) (kids : list hnode) (stack : list frame) | PErr.

Definition flush_text (t : str) (kids : list hnode) : list hnode :=
  match t with [] => kids | _ => kids ++ [Txt t] end.
Definition push_open (o : otag) (kids : list hnode) (stack : list frame) : pstate :=
  PS (MText (TS [] None)) [] ((o, kids) :: stack).

Definition step (s : pstate) (c : N) : pstate :=
  match s with
  | PErr => PErr
  | PS m kids stack =>
    match m with
    | MText t =>
        match tstep c_lt t c with
        | TCont t' => PS (MText t') kids stack
        | TErr => PErr
        | TStop => match t with
                   | TS acc None => PS MTagStart (flush_text acc kids) stack
                   | _ => PErr
                   end
        end
    | MTagStart =>
        if c =? c_slash then PS (MClose []) kids stack
        else if is_alpha c then PS (MOpen [c]) kids stack
        else PErr
    | MOpen name =>
        if is_name_char c then PS (MOpen (name ++ [c])) kids stack
        else if c =? c_sp then PS (MSpace (name, [], [])) kids stack
        else if c =? c_gt then push_open (name, [], []) kids stack
        else PErr
    | MSpace o =>
        if is_alpha c then PS (MAName o [c]) kids stack else PErr
    | MAName (tag, opts, attrs) an =>
        if is_name_char c then PS (MAName (tag, opts, attrs) (an ++ [c])) kids stack
        else if c =? c_eq then PS (MAEq (tag, opts, attrs) an) kids stack
        else if c =? c_sp then PS (MSpace (tag, opts ++ [an], attrs)) kids stack
        else if c =? c_gt then push_open (tag, opts ++ [an], attrs) kids stack
        else PErr
    | MAEq o an =>
        if c =? c_quot then PS (MAVal o an (TS [] None)) kids stack else PErr
    | MAVal (tag, opts, attrs) an t =>
        match tstep c_quot t c with
        | TCont t' => PS (MAVal (tag, opts, attrs) an t') kids stack
        | TErr => PErr
        | TStop => match t with
                   | TS acc None => PS (MAEnd (tag, opts, attrs ++ [(an, acc)])) kids stack
                   | _ => PErr
                   end
        end
    | MAEnd o =>
        if c =? c_sp then PS (MSpace o) kids stack
        else if c =? c_gt then push_open o kids stack
        else PErr
    | MClose name =>
        if is_name_char c then PS (MClose (name ++ [c])) kids stack
        else if c =? c_gt then
          match stack with
          | ((tag, opts, attrs), pkids) :: rest =>
              if str_eqb tag name
              then PS (MText (TS [] None)) (pkids ++ [El tag opts attrs kids]) rest
              else PErr
          | [] => PErr
          end
        else PErr
    end
  end.

Definition run_parser (s : str) (p : pstate) : pstate := fold_left step s p.
Definition pstart : pstate := PS (MText (TS [] None)) [] [].
Definition parse_html (s : str) : option (list hnode) :=
  match run_parser s pstart with
  | PS (MText (TS acc None)) kids [] => Some (flush_text acc kids)
  | _ => None
  end.

(* ---------------------------------------------------------------------------------------------- *)
(* 4. normal form: what any parser can observe (adjacent texts merge, empty texts disappear)         *)
Definition flush (st : list hnode * str) : list hnode := flush_text (snd st) (fst st).
Fixpoint absorb (st : list hnode * str) (t : hnode) {struct t} : list hnode * str :=
  match t with
  | Txt s => (fst st, snd st ++ s)
  | Raw s => (fst st, snd st ++ s)
  | El tag opts attrs kids => (flush st ++ [El tag opts attrs (flush (fold_left absorb kids ([], [])))], [])
  end.
Definition normalize (ts : list hnode) : list hnode := flush (fold_left absorb ts ([], [])).

(* element names, option names, attribute names and texts of a tree *)
Fixpoint tags_of (t : hnode) : list str :=
  match t with El tag _ _ kids => tag :: flat_map tags_of kids | _ => [] end.
Fixpoint optnames_of (t : hnode) : list str :=
  match t with El _ opts _ kids => opts ++ flat_map optnames_of kids | _ => [] end.
Fixpoint attrnames_of (t : hnode) : list str :=
  match t with El _ _ attrs kids => map fst attrs ++ flat_map attrnames_of kids | _ => [] end.
Fixpoint texts_of (t : hnode) : list str :=
  match t with El _ _ _ kids => flat_map texts_of kids | Txt s => [s] | Raw s => [s] end.

(* Html.v — model of pyglove's HTML rendering (property C20).  Definitions only.

   1. [escape]/[unescape]      : html.escape (quote=True) and its strict inverse;
   2. [hnode], [render]        : the trees Html.element builds and the exact string it concatenates;
   3. [parse_html]             : a strict tokenizer/parser, written as a one-character-at-a-time
                                  pushdown automaton ([step], [run] = fold_left step) — no fuel;
   4. [normalize]              : what a parser can observe of a tree (adjacent texts merge, empty texts vanish);
   5. [tree_view]              : HtmlTreeView._render / summary / content / simple_value / complex_value /
                                  object_key / tooltip / should_collapse / needs_summary on dict / list / object / leaf values;
   6. [run_content]            : the wire interface for the content (Model/HtmlDoc.v run adds the whole document).

   Strings are lists of code points.  What [utils.format], [repr] and [camel_to_snake] return is carried by the
   value ([fmt], [rep], [cname]): the model and the theorems are parametric in those strings (any string at all). *)
From Coq Require Import NArith ZArith List Bool String Ascii.
Import ListNotations.
From PG Require Import Common.Tr.
Local Open Scope N_scope.

Definition str := list N.
Definition str_of (s : string) : str := map N_of_ascii (list_ascii_of_string s).

(* ---------------------------------------------------------------------------------------------- *)
(* 1. characters, escape, unescape                                                                  *)
Definition c_amp : N := 38.   Definition c_lt : N := 60.    Definition c_gt : N := 62.
Definition c_quot : N := 34.  Definition c_apos : N := 39.  Definition c_semi : N := 59.
Definition c_sp : N := 32.    Definition c_eq : N := 61.    Definition c_slash : N := 47.

Definition e_amp : str := Eval compute in str_of "amp;".
Definition e_lt : str := Eval compute in str_of "lt;".
Definition e_gt : str := Eval compute in str_of "gt;".
Definition e_quot : str := Eval compute in str_of "quot;".
Definition e_apos : str := Eval compute in str_of "#x27;".

(* html.escape(s, quote=True): one pass, character by character (the order of the five str.replace calls
   in the library gives the same result because the ampersand is replaced first). *)
Definition esc_char (c : N) : str :=
  if c =? c_amp then c_amp :: e_amp
  else if c =? c_lt then c_amp :: e_lt
  else if c =? c_gt then c_amp :: e_gt
  else if c =? c_quot then c_amp :: e_quot
  else if c =? c_apos then c_amp :: e_apos
  else [c].
Definition escape (s : str) : str := flat_map esc_char s.

Fixpoint str_eqb (a b : str) : bool :=
  match a, b with
  | [], [] => true
  | x :: a', y :: b' => (x =? y) && str_eqb a' b'
  | _, _ => false
  end.
Fixpoint prefixb (p s : str) : bool :=
  match p, s with
  | [], _ => true
  | x :: p', y :: s' => (x =? y) && prefixb p' s'
  | _, [] => false
  end.

(* the entity (without the leading "&") at the head of [r]: decoded character and number of characters to skip *)
Definition entity_at (r : str) : option (N * nat) :=
  if prefixb e_amp r then Some (c_amp, 4%nat)
  else if prefixb e_lt r then Some (c_lt, 3%nat)
  else if prefixb e_gt r then Some (c_gt, 3%nat)
  else if prefixb e_quot r then Some (c_quot, 5%nat)
  else if prefixb e_apos r then Some (c_apos, 5%nat)
  else None.

(* strict inverse of escape: decodes exactly the five entities, leaves anything else alone *)
Fixpoint unesc (skip : nat) (l : str) : str :=
  match l with
  | [] => []
  | c :: r =>
    match skip with
    | S k => unesc k r
    | O => if c =? c_amp
           then match entity_at r with
                | Some (ch, n) => ch :: unesc n r
                | None => c :: unesc O r
                end
           else c :: unesc O r
    end
  end.
Definition unescape (l : str) : str := unesc O l.

(* no metacharacter: none of lt, gt, double quote, apostrophe; and every ampersand begins one of the five entities *)
Definition is_meta4 (c : N) : bool := (c =? c_lt) || (c =? c_gt) || (c =? c_quot) || (c =? c_apos).
Fixpoint amps_ok (l : str) : bool :=
  match l with
  | [] => true
  | c :: r => (if c =? c_amp then match entity_at r with Some _ => true | None => false end else true) && amps_ok r
  end.
Definition no_meta (l : str) : Prop := forallb (fun c => negb (is_meta4 c)) l = true /\ amps_ok l = true.

(* ---------------------------------------------------------------------------------------------- *)
(* 2. trees and rendering (Html.element)                                                            *)
Inductive hnode : Type :=
| El (tag : str) (opts : list str) (attrs : list (str * str)) (kids : list hnode)
| Txt (s : str)      (* data in text position: written through Html.escape *)
| Raw (s : str)      (* data written verbatim (the defect position; never produced by tree_view) *)
| RawEl (tag : str) (body : str).   (* a constant <style> / <script> block: the body is written verbatim *)

Definition render_opt (o : str) : str := c_sp :: o.
(* attribute values hold the unescaped value; it is written escaped between double quotes *)
Definition render_attr (a : str * str) : str := c_sp :: fst a ++ [c_eq; c_quot] ++ escape (snd a) ++ [c_quot].
Definition open_tag (tag : str) (opts : list str) (attrs : list (str * str)) : str :=
  c_lt :: tag ++ flat_map render_opt opts ++ flat_map render_attr attrs ++ [c_gt].
Definition close_tag (tag : str) : str := c_lt :: c_slash :: tag ++ [c_gt].

Fixpoint render (t : hnode) : str :=
  match t with
  | El tag opts attrs kids => open_tag tag opts attrs ++ flat_map render kids ++ close_tag tag
  | Txt s => escape s
  | Raw s => s
  | RawEl tag body => open_tag tag [] [] ++ body ++ close_tag tag
  end.
Definition render_list (ts : list hnode) : str := flat_map render ts.

(* names: [A-Za-z][A-Za-z0-9_-]* *)
Definition is_alpha (c : N) : bool := ((65 <=? c) && (c <=? 90)) || ((97 <=? c) && (c <=? 122)).
Definition is_name_char (c : N) : bool := is_alpha c || ((48 <=? c) && (c <=? 57)) || (c =? 45) || (c =? 95).
Definition name_okb (n : str) : bool :=
  match n with [] => false | c :: r => is_alpha c && forallb is_name_char r end.
(* raw-text elements: their content is not parsed (it ends at the first lt, which must start the closing tag) *)
Definition s_style_tag : str := Eval compute in str_of "style".
Definition s_script_tag : str := Eval compute in str_of "script".
Definition is_raw_tag (tag : str) : bool := str_eqb tag s_style_tag || str_eqb tag s_script_tag.
Definition no_lt (s : str) : bool := forallb (fun c => negb (c =? c_lt)) s.
Fixpoint names_okb (t : hnode) : bool :=
  match t with
  | El tag opts attrs kids =>
      name_okb tag && negb (is_raw_tag tag) && forallb name_okb opts && forallb (fun a => name_okb (fst a)) attrs && forallb names_okb kids
  | Txt _ => true
  | Raw _ => false
  | RawEl tag body => is_raw_tag tag && no_lt body
  end.
Definition names_ok (t : hnode) : Prop := names_okb t = true.

(* ---------------------------------------------------------------------------------------------- *)
(* 3. strict tokenizer / parser: a pushdown automaton stepped once per character                     *)
(* decoding an entity name (the characters between the ampersand and the semicolon, semicolon included) *)
Definition decode_ent (e : str) : option N :=
  if str_eqb e e_amp then Some c_amp
  else if str_eqb e e_lt then Some c_lt
  else if str_eqb e e_gt then Some c_gt
  else if str_eqb e e_quot then Some c_quot
  else if str_eqb e e_apos then Some c_apos
  else None.

(* text with entities, used for both text nodes and attribute values:
   [acc] decoded characters so far, [ent] = Some e when inside an entity whose characters so far are e *)
Inductive tstate := TS (acc : str) (ent : option str).
Inductive tres := TCont (t : tstate) | TErr | TStop.   (* TStop: the character is not text (lt / double quote) *)
Definition tstep (stop : N) (t : tstate) (c : N) : tres :=
  match t with
  | TS acc None =>
      if c =? stop then TStop
      else if c =? c_amp then TCont (TS acc (Some []))
      else if is_meta4 c then TErr
      else TCont (TS (acc ++ [c]) None)
  | TS acc (Some e) =>
      if c =? c_semi
      then match decode_ent (e ++ [c]) with Some ch => TCont (TS (acc ++ [ch]) None) | None => TErr end
      else if (5 <=? List.length e)%nat then TErr else TCont (TS acc (Some (e ++ [c])))
  end.

Definition otag := (str * list str * list (str * str))%type.      (* tag, options, attributes read so far *)
Inductive mode :=
| MText (t : tstate)                          (* between tags *)
| MTagStart                                   (* after lt *)
| MOpen (name : str)                          (* reading the name of an opening tag *)
| MSpace (o : otag)                           (* after a space inside an opening tag: a name must start *)
| MAName (o : otag) (an : str)                (* reading an option / attribute name *)
| MAEq (o : otag) (an : str)                  (* after the equals sign: a double quote must follow *)
| MAVal (o : otag) (an : str) (t : tstate)    (* inside a quoted attribute value *)
| MAEnd (o : otag)                            (* after the closing quote: space or gt *)
| MClose (name : str)                         (* reading the name of a closing tag *)
| MRawText (acc : str)                        (* inside <style> / <script>: everything up to the next lt *)
| MRawClose (acc : str)                       (* after that lt: a slash must follow *)
| MRawCloseName (acc : str) (name : str).     (* reading the name of the closing tag of a raw-text element *)

(* an open element: its tag/options/attributes and the children its parent had before it *)
Definition frame := (otag * list hnode)%type.
Inductive pstate := PS (m : mode) (kids : list hnode) (stack : list frame) | PErr.

Definition flush_text (t : str) (kids : list hnode) : list hnode :=
  match t with [] => kids | _ => kids ++ [Txt t] end.
Definition push_open (o : otag) (kids : list hnode) (stack : list frame) : pstate :=
  match o with
  | (tag, opts, attrs) =>
      if is_raw_tag tag
      then match opts, attrs with
           | [], [] => PS (MRawText []) [] ((o, kids) :: stack)
           | _, _ => PErr
           end
      else PS (MText (TS [] None)) [] ((o, kids) :: stack)
  end.

Definition step (s : pstate) (c : N) : pstate :=
  match s with
  | PErr => PErr
  | PS m kids stack =>
    match m with
    | MText t =>
        match tstep c_lt t c with
        | TCont t' => PS (MText t') kids stack
        | TErr => PErr
        | TStop => match t with
                   | TS acc None => PS MTagStart (flush_text acc kids) stack
                   | _ => PErr
                   end
        end
    | MTagStart =>
        if c =? c_slash then PS (MClose []) kids stack
        else if is_alpha c then PS (MOpen [c]) kids stack
        else PErr
    | MOpen name =>
        if is_name_char c then PS (MOpen (name ++ [c])) kids stack
        else if c =? c_sp then PS (MSpace (name, [], [])) kids stack
        else if c =? c_gt then push_open (name, [], []) kids stack
        else PErr
    | MSpace o =>
        if is_alpha c then PS (MAName o [c]) kids stack else PErr
    | MAName (tag, opts, attrs) an =>
        if is_name_char c then PS (MAName (tag, opts, attrs) (an ++ [c])) kids stack
        else if c =? c_eq then PS (MAEq (tag, opts, attrs) an) kids stack
        else if c =? c_sp then PS (MSpace (tag, opts ++ [an], attrs)) kids stack
        else if c =? c_gt then push_open (tag, opts ++ [an], attrs) kids stack
        else PErr
    | MAEq o an =>
        if c =? c_quot then PS (MAVal o an (TS [] None)) kids stack else PErr
    | MAVal (tag, opts, attrs) an t =>
        match tstep c_quot t c with
        | TCont t' => PS (MAVal (tag, opts, attrs) an t') kids stack
        | TErr => PErr
        | TStop => match t with
                   | TS acc None => PS (MAEnd (tag, opts, attrs ++ [(an, acc)])) kids stack
                   | _ => PErr
                   end
        end
    | MAEnd o =>
        if c =? c_sp then PS (MSpace o) kids stack
        else if c =? c_gt then push_open o kids stack
        else PErr
    | MClose name =>
        if is_name_char c then PS (MClose (name ++ [c])) kids stack
        else if c =? c_gt then
          match stack with
          | ((tag, opts, attrs), pkids) :: rest =>
              if str_eqb tag name
              then PS (MText (TS [] None)) (pkids ++ [El tag opts attrs kids]) rest
              else PErr
          | [] => PErr
          end
        else PErr
    | MRawText acc =>
        if c =? c_lt then PS (MRawClose acc) kids stack else PS (MRawText (acc ++ [c])) kids stack
    | MRawClose acc =>
        if c =? c_slash then PS (MRawCloseName acc []) kids stack else PErr
    | MRawCloseName acc name =>
        if is_name_char c then PS (MRawCloseName acc (name ++ [c])) kids stack
        else if c =? c_gt then
          match stack with
          | ((tag, _, _), pkids) :: rest =>
              if str_eqb tag name
              then PS (MText (TS [] None)) (pkids ++ [RawEl tag acc]) rest
              else PErr
          | [] => PErr
          end
        else PErr
    end
  end.

Definition run_parser (s : str) (p : pstate) : pstate := fold_left step s p.
Definition pstart : pstate := PS (MText (TS [] None)) [] [].
Definition parse_html (s : str) : option (list hnode) :=
  match run_parser s pstart with
  | PS (MText (TS acc None)) kids [] => Some (flush_text acc kids)
  | _ => None
  end.

(* ---------------------------------------------------------------------------------------------- *)
(* 4. normal form: what any parser can observe (adjacent texts merge, empty texts disappear)         *)
Definition flush (st : list hnode * str) : list hnode := flush_text (snd st) (fst st).
Fixpoint absorb (st : list hnode * str) (t : hnode) {struct t} : list hnode * str :=
  match t with
  | Txt s => (fst st, snd st ++ s)
  | Raw s => (fst st, snd st ++ s)
  | El tag opts attrs kids => (flush st ++ [El tag opts attrs (flush (fold_left absorb kids ([], [])))], [])
  | RawEl tag body => (flush st ++ [RawEl tag body], [])
  end.
Definition normalize (ts : list hnode) : list hnode := flush (fold_left absorb ts ([], [])).

(* element names, option names, attribute names and texts of a tree *)
Fixpoint collect {X} (g : str -> list str -> list (str * str) -> list X) (t : hnode) : list X :=
  match t with
  | El tag opts attrs kids => g tag opts attrs ++ flat_map (collect g) kids
  | RawEl tag _ => g tag [] []
  | _ => []
  end.
Definition tags_of : hnode -> list str := collect (fun tag _ _ => [tag]).
Definition optnames_of : hnode -> list str := collect (fun _ opts _ => opts).
Definition attrnames_of : hnode -> list str := collect (fun _ _ attrs => map fst attrs).
Fixpoint texts_of (t : hnode) : list str :=
  match t with El _ _ _ kids => flat_map texts_of kids | Txt s => [s] | Raw s => [s] | RawEl _ _ => [] end.

(* ---------------------------------------------------------------------------------------------- *)
(* 5. the tree view                                                                                  *)
Inductive key := KInt (z : Z) | KStr (s : str).
Definition key_eqb (a b : key) : bool :=
  match a, b with
  | KInt x, KInt y => Z.eqb x y
  | KStr x, KStr y => str_eqb x y
  | _, _ => false
  end.
Definition key_mem (k : key) (l : list key) : bool := existsb (key_eqb k) l.

(* leaves: LIntV / LBoolV = an int / bool (value known: its repr is computed), LNum = float (or another number; repr carried), LNone = None, LStr = str, LOther = any other object (shown through its repr),
   LClass = a class (title 'type', css class '<name>-class'),
   LStrSub = an instance of a str subclass (treated as a str, but its repr is its own: carried) -- the leaf kinds whose text is
   arbitrary user data are LNum (subclasses of int / float included), LOther, LStrSub and every carried rep / fmt *)
Inductive lkind := LNum | LNone | LStr | LOther | LClass | LIntV (z : Z) | LBoolV (b : bool) | LStrSub.
Definition is_str (lk : lkind) : bool := match lk with LStr | LStrSub => true | _ => false end.
Definition plain_str (lk : lkind) : bool := match lk with LStr => true | _ => false end.

(* tname = type(value).__name__, cname = camel_to_snake(tname, '-'), raw = the string itself (LStr),
   rep = what simple_value's value_repr() returns for a non-string (and for a short string with code points above 255; the repr
   of a Latin-1 string is computed by the model: py_repr),
   fmt = what utils.format returns for the summary tooltip.  All five are arbitrary strings for the theorems. *)
Inductive pv : Type :=
| PLeaf (lk : lkind) (tname cname raw rep fmt : str)
| PNode (is_seq : bool) (tname cname fmt : str) (items : list (key * pv)).

Record opts := mkOpts {
  o_name : option key;              (* name= *)
  o_root_path : list key;           (* root_path= *)
  o_enable_summary : option bool;   (* enable_summary= *)
  o_summary_for_str : bool;         (* enable_summary_for_str= *)
  o_max_len : Z;                    (* max_summary_len_for_str= *)
  o_summary_tooltip : bool;         (* enable_summary_tooltip= *)
  o_key_tooltip : bool;             (* enable_key_tooltip= *)
  o_label_keys : bool;              (* key_style='label' (false: 'summary') *)
  o_include : option (list key);    (* include_keys= (a list) *)
  o_exclude : option (list key);    (* exclude_keys= (a list) *)
  o_collapse : option Z;            (* collapse_level= *)
  o_uncollapse : list (list key);   (* uncollapse= (a list of key paths) *)
  o_css : list str;                 (* css_classes= (trusted class names, root element only) *)
  o_summary_color : option str * option str;   (* summary_color= (color, background-color): the root's summary name only *)
  o_key_color : option str * option str;       (* key_color= : every label-style key *)
  (* callable options, as the table of their results on the nodes of the value (any table at all for the theorems): *)
  o_highlight : list (list key);               (* highlight= : the child paths on which it returns true *)
  o_lowlight : list (list key);                (* lowlight= *)
  o_key_style_fn : option (list (list key));   (* key_style= callable: the child paths for which it returns 'label' (others: 'summary') *)
  o_incl_fn : option (list (list key));        (* include_keys= callable: the child paths it accepts (every level) *)
  o_excl_fn : option (list (list key));        (* exclude_keys= callable: the child paths it rejects (every level) *)
  o_uncollapse_fn : option (list (list key));  (* uncollapse= callable: the paths on which it returns true *)
  o_key_color_fn : option (list (list key * (option str * option str)));  (* key_color= callable *)
  o_title : option str              (* title= (a str: text of the root's summary title; extensions such as pg.Ref pass type names) *)
}.

(* constants of the view *)
Definition s_details := Eval compute in str_of "details".
Definition s_summary := Eval compute in str_of "summary".
Definition s_div := Eval compute in str_of "div".
Definition s_span := Eval compute in str_of "span".
Definition s_table := Eval compute in str_of "table".
Definition s_tr := Eval compute in str_of "tr".
Definition s_td := Eval compute in str_of "td".
Definition s_open := Eval compute in str_of "open".
Definition s_class := Eval compute in str_of "class".
Definition s_pyglove := Eval compute in str_of "pyglove".
Definition s_summary_name := Eval compute in str_of "summary-name".
Definition s_summary_title := Eval compute in str_of "summary-title".
Definition s_tooltip := Eval compute in str_of "tooltip".
Definition s_simple_value := Eval compute in str_of "simple-value".
Definition s_complex_value := Eval compute in str_of "complex-value".
Definition s_object_key := Eval compute in str_of "object-key".
Definition s_empty_container := Eval compute in str_of "empty-container".
Definition s_str := Eval compute in str_of "str".
Definition s_int := Eval compute in str_of "int".
Definition s_dots := Eval compute in str_of "(...)".
Definition s_style := Eval compute in str_of "style".
Definition s_highlight := Eval compute in str_of "highlight".
Definition s_lowlight := Eval compute in str_of "lowlight".
Definition s_color := Eval compute in str_of "color:".
Definition s_bgcolor := Eval compute in str_of "background-color:".

Definition vocabulary_tags : list str := [s_details; s_summary; s_div; s_span; s_table; s_tr; s_td].
Definition vocabulary_opts : list str := [s_open].
Definition vocabulary_attrs : list str := [s_class; s_style].

(* decimal digits of an integer (str(int)) *)
Fixpoint uint_digits (u : Decimal.uint) : str :=
  match u with
  | Decimal.Nil => []
  | Decimal.D0 r => 48 :: uint_digits r | Decimal.D1 r => 49 :: uint_digits r
  | Decimal.D2 r => 50 :: uint_digits r | Decimal.D3 r => 51 :: uint_digits r
  | Decimal.D4 r => 52 :: uint_digits r | Decimal.D5 r => 53 :: uint_digits r
  | Decimal.D6 r => 54 :: uint_digits r | Decimal.D7 r => 55 :: uint_digits r
  | Decimal.D8 r => 56 :: uint_digits r | Decimal.D9 r => 57 :: uint_digits r
  end.
Definition dec_of_Z (z : Z) : str :=
  match Z.to_int z with
  | Decimal.Pos u => uint_digits u
  | Decimal.Neg u => 45 :: uint_digits u
  end.

(* KeyPath.path_str *)
Definition has_special (s : str) : bool := existsb (fun c => (c =? 91) || (c =? 93) || (c =? 46)) s.
Fixpoint path_str_from (first : bool) (p : list key) : str :=
  match p with
  | [] => []
  | k :: r =>
    (match k with
     | KStr s => if has_special s then [91] ++ s ++ [93] else (if first then [] else [46]) ++ s
     | KInt z => [91] ++ dec_of_Z z ++ [93]
     end) ++ path_str_from false r
  end.
Definition path_str (p : list key) : str := path_str_from true p.

Definition name_text (k : key) : str :=       (* name shown in a summary: an int name n is shown as [n] *)
  match k with KStr s => s | KInt z => [91] ++ dec_of_Z z ++ [93] end.
Definition key_label (k : key) : str :=       (* str(root_path.key) *)
  match k with KStr s => s | KInt z => dec_of_Z z end.
Definition key_type (k : key) : str := match k with KStr _ => s_str | KInt _ => s_int end.

(* Html.concate: flatten, drop duplicates (first occurrence wins), join with a space *)
Definition str_mem (x : str) (l : list str) : bool := existsb (str_eqb x) l.
Fixpoint dedup_acc (seen : list str) (l : list str) : list str :=
  match l with
  | [] => []
  | x :: r => if str_mem x seen then dedup_acc seen r else x :: dedup_acc (x :: seen) r
  end.
Fixpoint join_sp (l : list str) : str :=
  match l with [] => [] | [x] => x | x :: r => x ++ c_sp :: join_sp r end.
Definition class_attr (l : list str) : list (str * str) := [(s_class, join_sp (dedup_acc [] l))].

(* Html.style_str on dict(color=, background_color=): nothing when both are None *)
Definition style_attr (c : option str * option str) : list (str * str) :=
  match (match fst c with Some x => s_color ++ x ++ [c_semi] | None => [] end)
        ++ (match snd c with Some x => s_bgcolor ++ x ++ [c_semi] | None => [] end) with
  | [] => []
  | st => [(s_style, st)]
  end.

Definition tooltip_span (css : list str) (text : str) : hnode := El s_span [] (class_attr (s_tooltip :: css)) [Txt text].

Fixpoint is_prefix (p l : list key) : bool :=
  match p, l with
  | [], _ => true
  | x :: p', y :: l' => key_eqb x y && is_prefix p' l'
  | _, [] => false
  end.
Fixpoint assoc_key {A} (k : key) (l : list (key * A)) : option A :=
  match l with [] => None | (k', a) :: r => if key_eqb k k' then Some a else assoc_key k r end.

Fixpoint path_eqb (a b : list key) : bool :=
  match a, b with
  | [], [] => true
  | x :: a', y :: b' => key_eqb x y && path_eqb a' b'
  | _, _ => false
  end.
Definition path_mem (p : list key) (l : list (list key)) : bool := existsb (path_eqb p) l.
Fixpoint assoc_path {A} (p : list key) (l : list (list key * A)) : option A :=
  match l with [] => None | (p', a) :: r => if path_eqb p p' then Some a else assoc_path p r end.

(* complex_value: the keys to show, in order: include_keys (those present, in the order given, duplicates kept) or all keys,
   minus exclude_keys *)
Definition ordered_keys (incl excl : option (list key)) (present : list key) : list key :=
  let order0 := match incl with None => present | Some l => filter (fun k => key_mem k present) l end in
  match excl with None => order0 | Some l => filter (fun k => negb (key_mem k l)) order0 end.

Definition cname_of (v : pv) : str := match v with PLeaf _ _ c _ _ _ => c | PNode _ _ c _ _ => c end.
(* Python's repr of a str (unicode_repr), exact on Latin-1 strings, where printability is a finite table: the quote is a double
   quote when the string has an apostrophe and no double quote; the quote and the backslash are backslash-escaped; TAB LF CR are
   \t \n \r; the other C0/C1 controls, DEL, NBSP and the soft hyphen are \xNN.  (Strings with code points above 255 keep the
   repr carried by the value.) *)
Definition hex_digit (n : N) : N := if n <? 10 then 48 + n else 87 + n.
Definition py_repr_char (q c : N) : str :=
  if (c =? q) || (c =? 92) then [92; c]
  else if c =? 9 then [92; 116] else if c =? 10 then [92; 110] else if c =? 13 then [92; 114]
  else if (c <? 32) || (c =? 127) || ((128 <=? c) && (c <=? 160)) || (c =? 173)
       then [92; 120; hex_digit (c / 16); hex_digit (c mod 16)]
  else [c].
Definition py_repr (s : str) : str :=
  let q := if existsb (N.eqb 39) s && negb (existsb (N.eqb 34) s) then 34 else 39 in
  q :: flat_map (py_repr_char q) s ++ [q].
Definition latin1 (s : str) : bool := forallb (fun c => c <? 256) s.

Definition s_True := Eval compute in str_of "True".
Definition s_False := Eval compute in str_of "False".
Definition s_None := Eval compute in str_of "None".
Definition s_ellipsis := Eval compute in str_of "...".
(* repr of the leaves whose value the model knows *)
Definition known_repr (lk : lkind) : option str :=
  match lk with
  | LIntV z => Some (dec_of_Z z)
  | LBoolV b => Some (if b then s_True else s_False)
  | LNone => Some s_None
  | _ => None
  end.
(* utils.format(value, ..., max_str_len=256) as the tooltip calls it: repr; a string longer than 256 is cut and gets '...' *)
Definition leaf_fmt (lk : lkind) (raw fmt : str) : str :=
  match known_repr lk with
  | Some r => r
  | None => if plain_str lk && latin1 raw
            then py_repr (if (256 <? List.length raw)%nat then firstn 256 raw ++ s_ellipsis else raw)
            else fmt
  end.
Definition fmt_of (v : pv) : str := match v with PLeaf lk _ _ raw _ f => leaf_fmt lk raw f | PNode _ _ _ f _ => f end.
Definition is_simple (v : pv) : bool := match v with PLeaf LOther _ _ _ _ _ | PLeaf LClass _ _ _ _ _ => false | PLeaf _ _ _ _ _ _ => true | PNode _ _ _ _ _ => false end.
(* make_title *)
Definition title_of (v : pv) : str :=
  match v with
  | PLeaf LNum t _ _ _ _ | PLeaf LStr t _ _ _ _ | PLeaf LStrSub t _ _ _ _ | PLeaf LClass t _ _ _ _ | PLeaf (LIntV _) t _ _ _ _ | PLeaf (LBoolV _) t _ _ _ _ => t
  | PLeaf _ t _ _ _ _ => t ++ s_dots
  | PNode _ t _ _ _ => t ++ s_dots
  end.

Section TreeView.
  Variable o : opts.

  (* HtmlTreeView.needs_summary (title=None) *)
  Definition needs_summary (name : option key) (v : pv) : bool :=
    match o_enable_summary o with
    | Some b => b
    | None =>
      match v with
      | PLeaf lk _ _ raw _ _ =>
          if negb (o_summary_for_str o) && is_str lk then false
          else match name with
               | Some _ => true
               | None => match lk with
                         | LNum | LNone | LIntV _ | LBoolV _ => false
                         | LStr | LStrSub => negb (Z.of_nat (List.length raw) <=? o_max_len o)%Z
                         | LOther | LClass => true
                         end
               end
      | PNode _ _ _ _ _ => true
      end
    end.

  (* ... with a title: a title also forces a summary for a simple value *)
  Definition needs_summary_t (title : option str) (name : option key) (v : pv) : bool :=
    needs_summary (match title with Some _ => Some (KInt 0%Z) | None => name end) v.

  (* HtmlTreeView.should_collapse (uncollapse given as a list of paths; KeyPathSet with include_intermediate) *)
  Definition should_collapse (name : option key) (path : list key) (cl : option Z) (v : pv) : bool :=
    match cl with
    | None => false
    | Some n =>
        if (0 <? n)%Z then false
        else match o_uncollapse_fn o with
             | Some ps => negb (path_mem path ps)
             | None =>
                 if existsb (is_prefix path) (o_uncollapse o) then false
                 else match name with
                      | Some _ => negb (is_simple v)
                      | None => true
                      end
             end
    end.

  (* the keys complex_value shows under the node at [path]: a callable include/exclude is asked at every level, a list only
     filters the children of the rendered value ([incl]/[excl] are None below it) *)
  Definition order_at (path : list key) (incl excl : option (list key)) (present : list key) : list key :=
    let order0 := match o_incl_fn o with
                  | Some ps => filter (fun k => path_mem (path ++ [k]) ps) present
                  | None => match incl with None => present | Some l => filter (fun k => key_mem k present) l end
                  end in
    match o_excl_fn o with
    | Some ps => filter (fun k => negb (path_mem (path ++ [k]) ps)) order0
    | None => match excl with None => order0 | Some l => filter (fun k => negb (key_mem k l)) order0 end
    end.
  Definition key_included_at (path : list key) (incl excl : option (list key)) (k : key) : bool :=
    (match o_incl_fn o with
     | Some ps => path_mem (path ++ [k]) ps
     | None => match incl with None => true | Some l => key_mem k l end
     end)
    && (match o_excl_fn o with
        | Some ps => negb (path_mem (path ++ [k]) ps)
        | None => match excl with None => true | Some l => negb (key_mem k l) end
        end).
  (* label-style key? (every index of a list / tuple; else key_style, possibly a callable) *)
  Definition is_label_at (is_seq : bool) (path : list key) (k : key) : bool :=
    is_seq || match o_key_style_fn o with Some ps => path_mem (path ++ [k]) ps | None => o_label_keys o end.
  (* render_child_value: highlight / lowlight wrap the child *)
  Definition hl_wrap (cpath : list key) (h : hnode) : hnode :=
    let hi := path_mem cpath (o_highlight o) in
    let lo := path_mem cpath (o_lowlight o) in
    if hi || lo
    then El s_div [] (class_attr ((if hi then [s_highlight] else []) ++ (if lo then [s_lowlight] else []))) [h]
    else h.

  (* HtmlTreeView.summary *)
  Definition summary_el (css : list str) (scolor : option str * option str) (title : option str) (name : option key) (path : list key) (v : pv) : hnode :=
    El s_summary [] []
      ((match name with
        | Some k => [El s_div [] (class_attr (s_summary_name :: css) ++ style_attr scolor)
                       (Txt (name_text k) :: (if o_key_tooltip o then [tooltip_span css (path_str path)] else []))]
        | None => []
        end)
       ++ [El s_div [] (class_attr (s_summary_title :: css)) [Txt (match title with Some (c :: r) => c :: r | _ => title_of v end)]]
       ++ (if o_summary_tooltip o then [tooltip_span css (fmt_of v)] else [])).

  (* HtmlTreeView.object_key (+ its tooltip) *)
  Definition key_cell (k : key) (cpath : list key) : list hnode :=
    El s_span [] (class_attr [s_object_key; key_type k]
                  ++ style_attr (match o_key_color_fn o with
                                 | Some tbl => match assoc_path cpath tbl with Some c => c | None => (None, None) end
                                 | None => o_key_color o
                                 end)) [Txt (key_label k)]
    :: (if o_key_tooltip o then [tooltip_span [] (path_str cpath)] else []).

  (* simple_value's value_repr: a string shorter than max_summary_len_for_str is shown through repr, a longer one as it is *)
  Definition leaf_text (lk : lkind) (raw rep : str) : str :=
    if is_str lk then (if (Z.of_nat (List.length raw) <? o_max_len o)%Z then (if plain_str lk && latin1 raw then py_repr raw else rep) else raw)
    else match known_repr lk with Some r => r | None => rep end.

  (* HtmlTreeView._render: summary + content (simple_value / complex_value) *)
  Fixpoint tv (css : list str) (scolor : option str * option str) (title : option str) (name : option key) (path : list key) (cl : option Z)
              (incl excl : option (list key)) (v : pv) {struct v} : hnode :=
    let ccss := if needs_summary_t title name v then [] else css in
    let content :=
      match v with
      | PLeaf lk _ cname raw rep _ =>
          El s_span [] (class_attr ([s_simple_value; cname] ++ ccss))
             [Txt (leaf_text lk raw rep)]
      | PNode is_seq _ cname _ items =>
          let cl' := option_map (fun n => (n - 1)%Z) cl in
          let rendered :=
            map (fun kc : key * pv =>
                   let cpath := path ++ [fst kc] in
                   (fst kc,
                    if is_label_at is_seq path (fst kc)
                    then El s_tr [] [] [El s_td [] [] (key_cell (fst kc) cpath);
                                        El s_td [] [] [hl_wrap cpath (tv [] (None, None) None None cpath cl' None None (snd kc))]]
                    else hl_wrap cpath (tv [] (None, None) None (Some (fst kc)) cpath cl' None None (snd kc)))) items in
          let order := order_at path incl excl (map fst items) in
          let pick := flat_map (fun k => match assoc_key k rendered with Some h => [h] | None => [] end) in
          (* summary-style children first, then one table with the label-style children *)
          let skids := pick (filter (fun k => negb (is_label_at is_seq path k)) order) in
          let lkids := pick (filter (is_label_at is_seq path) order) in
          let kids := skids ++ (match lkids with [] => [] | _ => [El s_table [] [] lkids] end) in
          El s_div [] (class_attr ([s_complex_value; cname] ++ ccss))
             (match kids with
              | [] => [El s_span [] (class_attr [s_empty_container]) []]
              | _ => kids
              end)
      end in
    if needs_summary_t title name v
    then El s_details (if should_collapse name path cl v then [] else [s_open]) (class_attr ([s_pyglove; cname_of v] ++ css))
            [summary_el css (match name with Some _ => scolor | None => (None, None) end) title name path v; content]
    else content.

  Definition tree_view (v : pv) : hnode := tv (o_css o) (o_summary_color o) (o_title o) (o_name o) (o_root_path o) (o_collapse o) (o_include o) (o_exclude o) v.

  (* which keys the options ask to show, and as what text: label-style keys (and all indices of a list / tuple) through
     object_key, summary-style keys as the summary name of the child -- when the child has a summary at all *)
  Definition key_shown_text (is_seq : bool) (path : list key) (k : key) (c : pv) : option str :=
    if is_label_at is_seq path k then Some (key_label k)
    else if needs_summary (Some k) c then Some (name_text k) else None.

  (* every key of the path passes the filters that apply where it is rendered *)
  Fixpoint path_shown (path : list key) (incl excl : option (list key)) (p : list key) : bool :=
    match p with
    | [] => true
    | k :: r => key_included_at path incl excl k && path_shown (path ++ [k]) None None r
    end.
End TreeView.

(* the sub-value reached by following the keys of a path (a dict lookup at every level) *)
Inductive sub_at : pv -> list key -> pv -> Prop :=
| sub_here : forall v, sub_at v [] v
| sub_item : forall sq tn cn fmt items k c p w,
    assoc_key k items = Some c -> sub_at c p w -> sub_at (PNode sq tn cn fmt items) (k :: p) w.
Definition path_included (o : opts) (p : list key) : bool := path_shown o (o_root_path o) (o_include o) (o_exclude o) p.

(* ---------------------------------------------------------------------------------------------- *)
(* 6. wire format
   case ::= (0 opts pv)   -> (0 rendered)                 render (tree_view opts pv), code points
          | (1 str)       -> (1 (tree ...)?)              parse_html str: () when rejected, ((tree ...)) otherwise
          | (2 str)       -> (2 escaped unescaped ok)     escape str, unescape str, no_meta (escape str) as a boolean
          | (4 tree)      -> (4 rendered names_ok reads_back)   render of an arbitrary tree, names_ok, parse (render t) = normalize [t]
   key  ::= (0 z) | (1 str)
   pv   ::= (0 lkind tname cname raw rep fmt) | (1 is_seq tname cname fmt ((key pv) ...))
   opts ::= (name? root_path enable_summary? for_str max_len summary_tooltip key_tooltip label_keys include? exclude? collapse? uncollapse
            css (color? bg?) (color? bg?) (path ...) (path ...) (path ...)? (path ...)? (path ...)? (path ...)? ((path (color? bg?)) ...)?)
   tree ::= (0 tag (opt ...) ((name value) ...) (tree ...)) | (1 text) | (2 raw) | (3 tag body)                                        *)
Definition d_key (t : tr) : option key :=
  match t with
  | L [I 0%Z; I z] => Some (KInt z)
  | L [I 1%Z; s] => do s' <- dstr s; Some (KStr s')
  | _ => None
  end.
Definition d_lkind (t : tr) : option lkind :=
  match t with
  | I 0%Z => Some LNum | I 1%Z => Some LNone | I 2%Z => Some LStr | I 3%Z => Some LOther | I 4%Z => Some LClass
  | L [I 5%Z; I z] => Some (LIntV z) | L [I 6%Z; b] => do b' <- dbool b; Some (LBoolV b') | I 7%Z => Some LStrSub
  | _ => None
  end.
Fixpoint d_pv (fuel : nat) (t : tr) : option pv :=
  match fuel with
  | O => None
  | S f =>
    match t with
    | L [I 0%Z; lk; tn; cn; raw; rep; fmt] =>
        do lk' <- d_lkind lk; do tn' <- dstr tn; do cn' <- dstr cn; do raw' <- dstr raw; do rep' <- dstr rep; do fmt' <- dstr fmt;
        Some (PLeaf lk' tn' cn' raw' rep' fmt')
    | L [I 1%Z; sq; tn; cn; fmt; L items] =>
        do sq' <- dbool sq; do tn' <- dstr tn; do cn' <- dstr cn; do fmt' <- dstr fmt;
        do items' <- dall (fun it => match it with
                                     | L [k; c] => do k' <- d_key k; do c' <- d_pv f c; Some (k', c')
                                     | _ => None
                                     end) items;
        Some (PNode sq' tn' cn' fmt' items')
    | _ => None
    end
  end.
Definition d_opts (t : tr) : option opts :=
  match t with
  | L [nm; rp; es; fs; ml; st; kt; lb; inc; exc; cl; unc; css; sc; kc; hi; lo; ksf; incf; excf; uncf; kcf; ttl] =>
      do nm' <- dopt d_key nm; do rp' <- dlist d_key rp; do es' <- dopt dbool es; do fs' <- dbool fs; do ml' <- dZ ml;
      do st' <- dbool st; do kt' <- dbool kt; do lb' <- dbool lb;
      do inc' <- dopt (dlist d_key) inc; do exc' <- dopt (dlist d_key) exc; do cl' <- dopt dZ cl; do unc' <- dlist (dlist d_key) unc;
      do css' <- dlist dstr css; do sc' <- dpair (dopt dstr) (dopt dstr) sc; do kc' <- dpair (dopt dstr) (dopt dstr) kc;
      let dpaths := dlist (dlist d_key) in
      do hi' <- dpaths hi; do lo' <- dpaths lo; do ksf' <- dopt dpaths ksf; do incf' <- dopt dpaths incf; do excf' <- dopt dpaths excf;
      do uncf' <- dopt dpaths uncf; do kcf' <- dopt (dlist (dpair (dlist d_key) (dpair (dopt dstr) (dopt dstr)))) kcf;
      do ttl' <- dopt dstr ttl;
      Some (mkOpts nm' rp' es' fs' ml' st' kt' lb' inc' exc' cl' unc' css' sc' kc' hi' lo' ksf' incf' excf' uncf' kcf' ttl')
  | _ => None
  end.

Fixpoint e_hnode (t : hnode) : tr :=
  match t with
  | El tag opts attrs kids =>
      L [I 0%Z; estr tag; elist estr opts; elist (epair estr estr) attrs; L (map e_hnode kids)]
  | Txt s => L [I 1%Z; estr s]
  | Raw s => L [I 2%Z; estr s]
  | RawEl tag body => L [I 3%Z; estr tag; estr body]
  end.

Fixpoint d_hnode (fuel : nat) (t : tr) : option hnode :=
  match fuel with
  | O => None
  | S f =>
    match t with
    | L [I 0%Z; tag; opts; attrs; L kids] =>
        do tag' <- dstr tag; do opts' <- dlist dstr opts; do attrs' <- dlist (dpair dstr dstr) attrs;
        do kids' <- dall (d_hnode f) kids; Some (El tag' opts' attrs' kids')
    | L [I 1%Z; s] => do s' <- dstr s; Some (Txt s')
    | L [I 2%Z; s] => do s' <- dstr s; Some (Raw s')
    | L [I 3%Z; tag; body] => do tag' <- dstr tag; do body' <- dstr body; Some (RawEl tag' body')
    | _ => None
    end
  end.

Fixpoint list_eqb {A} (f : A -> A -> bool) (a b : list A) : bool :=
  match a, b with
  | [], [] => true
  | x :: a', y :: b' => f x y && list_eqb f a' b'
  | _, _ => false
  end.
Fixpoint hnode_eqb (a b : hnode) {struct a} : bool :=
  match a, b with
  | El t1 o1 a1 k1, El t2 o2 a2 k2 =>
      str_eqb t1 t2 && list_eqb str_eqb o1 o2
      && list_eqb (fun x y => str_eqb (fst x) (fst y) && str_eqb (snd x) (snd y)) a1 a2
      && (fix go (l1 l2 : list hnode) {struct l1} : bool :=
            match l1, l2 with
            | [], [] => true
            | x :: r1, y :: r2 => hnode_eqb x y && go r1 r2
            | _, _ => false
            end) k1 k2
  | Txt s1, Txt s2 => str_eqb s1 s2
  | Raw s1, Raw s2 => str_eqb s1 s2
  | RawEl t1 b1, RawEl t2 b2 => str_eqb t1 t2 && str_eqb b1 b2
  | _, _ => false
  end.
(* does the strict parser read the rendering back as the normal form of the tree? (true whenever names_ok, by render_parse) *)
Definition reads_back (t : hnode) : bool :=
  match parse_html (render t) with
  | Some d => list_eqb hnode_eqb d (normalize [t])
  | None => false
  end.

Definition no_metab (l : str) : bool := forallb (fun c => negb (is_meta4 c)) l && amps_ok l.

Definition run_content (c : tr) : tr :=
  match c with
  | L [I 0%Z; o; v] =>
      match d_opts o, d_pv 100 v with
      | Some o', Some v' => L [I 0%Z; estr (render (tree_view o' v'))]
      | _, _ => ebad
      end
  | L [I 1%Z; s] =>
      match dstr s with
      | Some s' => L [I 1%Z; eopt (fun d => L (map e_hnode d)) (parse_html s')]
      | None => ebad
      end
  | L [I 2%Z; s] =>
      match dstr s with
      | Some s' => L [I 2%Z; estr (escape s'); estr (unescape s'); ebool (no_metab (escape s'))]
      | None => ebad
      end
  | L [I 10%Z; s] =>
      match dstr s with Some s' => L [I 10%Z; ebool (latin1 s'); estr (py_repr s')] | None => ebad end
  | L [I 4%Z; t] =>
      match d_hnode 100 t with
      | Some t' => L [I 4%Z; estr (render t'); ebool (names_okb t'); ebool (reads_back t')]
      | None => ebad
      end
  | _ => ebad
  end.

(* ---------------------------------------------------------------------------------------------- *)
(* texts as a parser sees them: in a tree where no two text nodes are adjacent, the parsed document has exactly the
   non-empty text nodes of the tree *)
Definition is_text (t : hnode) : bool := match t with Txt _ | Raw _ => true | _ => false end.
Fixpoint no_adjacent_texts (l : list hnode) : bool :=
  match l with
  | a :: ((b :: _) as r) => negb (is_text a && is_text b) && no_adjacent_texts r
  | _ => true
  end.
Fixpoint sepb (t : hnode) : bool :=
  match t with
  | El _ _ _ kids => no_adjacent_texts kids && forallb sepb kids
  | _ => true
  end.
Definition nonempty (s : str) : bool := match s with [] => false | _ => true end.

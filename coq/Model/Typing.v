(* Typing.v — model of pyglove.core.typing value specs (properties C04 and C03).

   What is modelled (pyglove/core/typing/value_specs.py, class_schema.py, key_specs.py,
   type_conversion.py), as *states* of spec objects and pure functions on them:

     pv      Python values as they reach a value spec
     spec    the state of a ValueSpec object: Bool / Int / Float / Str / Enum / List / Tuple /
             Dict (schema-less, const keys, one StrKey() field) / Object / Union / Any, each with
             mods = (_is_noneable, _default, _frozen)
     apply   ValueSpecBase.apply step by step (frozen, missing, None, type check + int->float
             conversion, per-type _apply incl. Schema.apply, _validate)
     compat  a.is_compatible(b): the template method and every per-type override
     extend  c.extend(b): ValueSpecBase.extend, per-type _extend, Field.extend, Schema.extend

   Not modelled: user transforms, regular expressions (Str regex, StrKey regex), Callable / Type
   specs, forward references, CustomTyping values, symbolic (pg.Object) values with partial state.

   Floats are dyadic rationals in units of 1/64: [PFlt q] is the float q/64 (the generators only
   produce such floats), so every comparison is a comparison in Z.

   Definitions only; proofs are in Proofs/Typing*.v.

   Interface for C03 (stable): [pv], [py_eq], [err], [res] (with [Ok]/[Err], [bind], the [let?]
   notation), [mods], [fkey], [spec], [mods_of], [with_mods], [vtype], [coerce],
   [apply (partial : bool) (s : spec) (v : pv) : res pv], [accepts], [conforms], [total],
   the wire encoders/decoders [e_pv d_pv e_spec d_spec].  Useful lemmas: Proofs/TypingApply.v
   ([apply_eq]: apply = pipeline over [apply_body], the nested loops as the named functions
   [mapM], [zipM], [fields_apply], [dyn_apply]; idempotence), Proofs/TypingDict.v (what
   Schema.apply's per-field results and the merged dict contain), Proofs/TypingBasics.v
   (induction principles [spec_ind'] / [pv_ind'], [py_eq] is reflexive and transitive). *)
From Coq Require Import ZArith NArith List Bool.
Import ListNotations.
From PG Require Import Common.Tr.
Local Open Scope Z_scope.

(* ------------------------------------------------------------------------------------------ *)
(** * Values *)

Definition str := list N.                    (* code points *)
Definition cls := list N.                    (* a class is its path in a single-inheritance tree:
                                                [0] is a root class, [0;1] a subclass of [0] *)

Fixpoint str_eqb (a b : list N) : bool :=
  match a, b with
  | [], [] => true
  | x :: a', y :: b' => N.eqb x y && str_eqb a' b'
  | _, _ => false
  end.

(* issubclass(c, d): d is a prefix of c *)
Fixpoint is_subclass (c d : cls) : bool :=
  match d, c with
  | [], _ => true
  | y :: d', x :: c' => N.eqb x y && is_subclass c' d'
  | _ :: _, [] => false
  end.

Inductive pv : Type :=
| PNone
| PMissing                                   (* MISSING_VALUE / MissingValue(spec) *)
| PBool (b : bool)
| PInt (z : Z)
| PFlt (q : Z)                               (* the float q/64 *)
| PStr (s : str)
| PList (l : list pv)
| PTuple (l : list pv)
| PDict (kvs : list (str * pv))              (* insertion ordered, str keys *)
| PObj (c : cls) (id : N).                   (* an instance of class c; == is identity *)

(* numeric value in units of 1/64 (bool is an int in Python) *)
Definition num_of (v : pv) : option Z :=
  match v with
  | PBool b => Some (if b then 64 else 0)
  | PInt z => Some (64 * z)
  | PFlt q => Some q
  | _ => None
  end.

(* Python's == on these values: True == 1 == 1.0, lists and tuples pointwise, dicts regardless
   of order (on duplicate-free dicts the two-sided inclusion below is dict equality). *)
Fixpoint py_eq (a b : pv) {struct a} : bool :=
  match num_of a, num_of b with
  | Some x, Some y => Z.eqb x y
  | Some _, None | None, Some _ => false
  | None, None =>
    match a, b with
    | PNone, PNone => true
    | PMissing, PMissing => true
    | PStr x, PStr y => str_eqb x y
    | PList xs, PList ys =>
        (fix go (xs ys : list pv) {struct xs} : bool :=
           match xs, ys with
           | [], [] => true
           | x :: xs', y :: ys' => py_eq x y && go xs' ys'
           | _, _ => false
           end) xs ys
    | PTuple xs, PTuple ys =>
        (fix go (xs ys : list pv) {struct xs} : bool :=
           match xs, ys with
           | [], [] => true
           | x :: xs', y :: ys' => py_eq x y && go xs' ys'
           | _, _ => false
           end) xs ys
    | PDict xs, PDict ys =>
        (fix incl1 (xs : list (str * pv)) {struct xs} : bool :=
           match xs with
           | [] => true
           | (k, v) :: r =>
               (fix ex (ys : list (str * pv)) : bool :=
                  match ys with
                  | [] => false
                  | (k', w) :: r' => (str_eqb k k' && py_eq v w) || ex r'
                  end) ys && incl1 r
           end) xs
        &&
        (fix incl2 (ys : list (str * pv)) : bool :=
           match ys with
           | [] => true
           | (k', w) :: r' =>
               (fix ex (xs : list (str * pv)) {struct xs} : bool :=
                  match xs with
                  | [] => false
                  | (k, v) :: r => (str_eqb k k' && py_eq v w) || ex r
                  end) xs && incl2 r'
           end) ys
    | PObj c i, PObj d j => str_eqb c d && N.eqb i j
    | _, _ => false
    end
  end.

(* `v in values` *)
Definition py_in (v : pv) (values : list pv) : bool := existsb (fun u => py_eq u v) values.

(* ------------------------------------------------------------------------------------------ *)
(** * Outcomes *)

Inductive err : Type := TypeErr | ValueErr | KeyErr.
Inductive res (A : Type) : Type := Ok (a : A) | Err (e : err).
Arguments Ok {A} a.
Arguments Err {A} e.

Definition bind {A B} (r : res A) (k : A -> res B) : res B :=
  match r with Ok a => k a | Err e => Err e end.
Notation "'let?' x := e 'in' k" := (bind e (fun x => k)) (at level 200, x pattern, e at level 100, k at level 200).

(* ------------------------------------------------------------------------------------------ *)
(** * Specs *)

(* ValueSpecBase state shared by every spec: _is_noneable, _default (None = MISSING_VALUE), _frozen *)
Record mods : Type := Mods { noneable : bool; default : option pv; frozen : bool }.

(* key of a schema field: ConstStrKey(text) or StrKey() without a regular expression *)
Inductive fkey : Type := KConst (k : str) | KDyn.

Inductive spec : Type :=
| SBool (m : mods)
| SInt (lo hi : option Z) (m : mods)                       (* min_value, max_value *)
| SFloat (lo hi : option Z) (m : mods)                     (* in units of 1/64 *)
| SStr (m : mods)                                          (* no regex *)
| SEnum (vals : list pv) (m : mods)                        (* _values *)
| SList (elem : spec) (mn : Z) (mx : option Z) (m : mods)  (* element.value, ListKey(min,max) *)
| STuple (es : list spec) (mn : Z) (mx : option Z) (m : mods)
     (* _elements, _min_size, _max_size; fixed_length <-> mx = Some mn.  A constructor-made
        fixed tuple has length es = mn, a variable one has es = [e]. *)
| SDict (schema : option (list (fkey * spec))) (m : mods)  (* _schema: None or its fields in order *)
| SObj (c : cls) (m : mods)                                (* Object(cls) *)
| SUnion (cs : list spec) (m : mods)                       (* _candidates *)
| SAny (m : mods).

Definition mods_of (s : spec) : mods :=
  match s with
  | SBool m | SInt _ _ m | SFloat _ _ m | SStr m | SEnum _ m | SList _ _ _ m | STuple _ _ _ m
  | SDict _ m | SObj _ m | SUnion _ m | SAny m => m
  end.

Definition with_mods (s : spec) (m : mods) : spec :=
  match s with
  | SBool _ => SBool m | SInt lo hi _ => SInt lo hi m | SFloat lo hi _ => SFloat lo hi m
  | SStr _ => SStr m | SEnum vs _ => SEnum vs m | SList e mn mx _ => SList e mn mx m
  | STuple es mn mx _ => STuple es mn mx m | SDict sc _ => SDict sc m | SObj c _ => SObj c m
  | SUnion cs _ => SUnion cs m | SAny _ => SAny m
  end.

(* ------------------------------------------------------------------------------------------ *)
(** * Python types and the type check of ValueSpecBase.apply *)

Inductive ty : Type :=
| TyBool | TyInt | TyFloat | TyStr | TyList | TyTuple | TyDict | TyObj (c : cls) | TyObject.

(* type(v); None and MISSING_VALUE never reach the type check *)
Definition type_of (v : pv) : option ty :=
  match v with
  | PNone | PMissing => None
  | PBool _ => Some TyBool | PInt _ => Some TyInt | PFlt _ => Some TyFloat | PStr _ => Some TyStr
  | PList _ => Some TyList | PTuple _ => Some TyTuple | PDict _ => Some TyDict
  | PObj c _ => Some (TyObj c)
  end.

(* issubclass(t, u): bool is a subclass of int, user classes by prefix, everything under object *)
Definition issub (t u : ty) : bool :=
  match t, u with
  | _, TyObject => true
  | TyBool, TyBool | TyBool, TyInt | TyInt, TyInt | TyFloat, TyFloat | TyStr, TyStr
  | TyList, TyList | TyTuple, TyTuple | TyDict, TyDict => true
  | TyObj c, TyObj d => is_subclass c d
  | _, _ => false
  end.

Definition is_float (t : ty) : bool := match t with TyFloat => true | _ => false end.

(* pg_inspect.is_instance(v, types) *)
Definition isinstance (v : pv) (ts : list ty) : bool :=
  match type_of v with Some t => existsb (issub t) ts | None => false end.

(* the only registered converter that can fire on these values: int -> float (bool is an int) *)
Definition conv_float (v : pv) : option pv :=
  match v with
  | PBool b => Some (PFlt (if b then 64 else 0))
  | PInt z => Some (PFlt (64 * z))
  | _ => None
  end.

(* get_converter(type(v), types): Some converted value when a converter exists *)
Definition convert (v : pv) (ts : list ty) : option pv :=
  if existsb is_float ts then conv_float v else None.

(* value_spec.apply lines 303-317: value_type None = no check *)
Definition coerce (vt : option (list ty)) (v : pv) : res pv :=
  match vt with
  | None => Ok v
  | Some ts =>
      if isinstance v ts then Ok v
      else match convert v ts with Some v' => Ok v' | None => Err TypeErr end
  end.

(* Enum.__init__: the value type is the most general type of the non-None values when they form
   a chain under issubclass, otherwise None (no type check). *)
Fixpoint enum_vtype_go (cur : ty) (vs : list pv) : option ty :=
  match vs with
  | [] => Some cur
  | PNone :: r => enum_vtype_go cur r
  | v :: r =>
      match type_of v with
      | None => None
      | Some nx => if issub cur nx then enum_vtype_go nx r
                   else if issub nx cur then enum_vtype_go cur r else None
      end
  end.
Fixpoint enum_vtype (vs : list pv) : option (list ty) :=
  match vs with
  | [] => None
  | PNone :: r => enum_vtype r
  | v :: r => match type_of v with
              | None => None
              | Some t => match enum_vtype_go t r with Some t' => Some [t'] | None => None end
              end
  end.

(* _value_type of a spec (for Union: the flattened candidate types, None if some candidate has none) *)
Fixpoint vtype (s : spec) : option (list ty) :=
  match s with
  | SBool _ => Some [TyBool] | SInt _ _ _ => Some [TyInt] | SFloat _ _ _ => Some [TyFloat]
  | SStr _ => Some [TyStr] | SEnum vs _ => enum_vtype vs
  | SList _ _ _ _ => Some [TyList] | STuple _ _ _ _ => Some [TyTuple] | SDict _ _ => Some [TyDict]
  | SObj c _ => Some [TyObj c]
  | SUnion cs _ =>
      (fix go (cs : list spec) : option (list ty) :=
         match cs with
         | [] => Some []
         | c :: r => match vtype c, go r with Some a, Some b => Some (a ++ b) | _, _ => None end
         end) cs
  | SAny _ => Some [TyObject]
  end.

(* ------------------------------------------------------------------------------------------ *)
(** * apply *)

Definition is_missing (v : pv) : bool := match v with PMissing => true | _ => false end.
Definition len {A} (l : list A) : Z := Z.of_nat (length l).
Definition dflt (m : mods) : pv := match default m with Some d => d | None => PMissing end.

(* Number._validate; x and the bounds in the same unit *)
Definition in_range (lo hi : option Z) (x : Z) : bool :=
  match lo with Some l => negb (x <? l) | None => true end &&
  match hi with Some h => negb (x >? h) | None => true end.
Definition scale64 (o : option Z) : option Z := match o with Some z => Some (64 * z) | None => None end.
Definition validate_num (lo hi : option Z) (v : pv) : res pv :=
  match num_of v with
  | Some x => if in_range lo hi x then Ok v else Err ValueErr
  | None => Err TypeErr            (* unreachable after the type check *)
  end.

(* List._validate / Tuple size checks *)
Definition size_ok (mn : Z) (mx : option Z) (n : Z) : bool :=
  negb (n <? mn) && match mx with Some m => negb (n >? m) | None => true end.
Definition fixed_length (mn : Z) (mx : option Z) : bool :=
  match mx with Some m => Z.eqb mn m | None => false end.

(* dict helpers *)
Fixpoint lookup {A} (k : str) (kvs : list (str * A)) : option A :=
  match kvs with
  | [] => None
  | (k', v) :: r => if str_eqb k k' then Some v else lookup k r
  end.
Definition has_key {A} (k : str) (kvs : list (str * A)) : bool :=
  match lookup k kvs with Some _ => true | None => false end.
(* kvs with the values of the keys listed in ups replaced, then the entries of ups under new keys *)
Definition dict_merge (kvs ups : list (str * pv)) : list (str * pv) :=
  map (fun kx => (fst kx, match lookup (fst kx) ups with Some x' => x' | None => snd kx end)) kvs ++
  filter (fun ku => negb (has_key (fst ku) kvs)) ups.
Definition fkey_eqb (a b : fkey) : bool :=
  match a, b with KConst x, KConst y => str_eqb x y | KDyn, KDyn => true | _, _ => false end.
Fixpoint field_of {A} (k : fkey) (fs : list (fkey * A)) : option A :=
  match fs with
  | [] => None
  | (k', s) :: r => if fkey_eqb k k' then Some s else field_of k r
  end.
Definition has_const {A} (k : str) (fs : list (fkey * A)) : bool :=
  match field_of (KConst k) fs with Some _ => true | None => false end.
Definition has_dyn {A} (fs : list (fkey * A)) : bool :=
  match field_of KDyn fs with Some _ => true | None => false end.

(* ValueSpecBase.apply.  [partial] is allow_partial. *)
Fixpoint apply (partial : bool) (s : spec) (v : pv) {struct s} : res pv :=
  let m := mods_of s in
  if frozen m then
    (* a frozen spec only lets its default (or nothing) through and always returns the default *)
    if is_missing v || py_eq (dflt m) v then Ok (dflt m) else Err ValueErr
  else
  match v with
  | PMissing => if partial then Ok PMissing else Err ValueErr
  | PNone => if noneable m then Ok PNone else Err ValueErr
  | _ =>
    let? v := coerce (vtype s) v in
    match s with
    | SBool _ | SStr _ | SObj _ _ | SAny _ => Ok v
    | SInt lo hi _ => validate_num (scale64 lo) (scale64 hi) v
    | SFloat lo hi _ => validate_num lo hi v
    | SEnum vals _ => if py_in v vals then Ok v else Err ValueErr
    | SList e mn mx _ =>
        match v with
        | PList l =>
            let? l' := (fix go (l : list pv) : res (list pv) :=
                          match l with
                          | [] => Ok []
                          | x :: r => let? x' := apply partial e x in let? r' := go r in Ok (x' :: r')
                          end) l in
            if size_ok mn mx (len l') then Ok (PList l') else Err ValueErr
        | _ => Err TypeErr
        end
    | STuple es mn mx _ =>
        match v with
        | PTuple l =>
            if fixed_length mn mx then
              if negb (len l =? len es) then Err ValueErr else
              let? l' := (fix go (es : list spec) (l : list pv) {struct es} : res (list pv) :=
                            match es, l with
                            | e :: es', x :: r => let? x' := apply partial e x in
                                                  let? r' := go es' r in Ok (x' :: r')
                            | _, _ => Ok []
                            end) es l in
              Ok (PTuple l')
            else
              if negb (size_ok mn mx (len l)) then Err ValueErr else
              match es with
              | e :: _ =>
                  let? l' := (fix go (l : list pv) : res (list pv) :=
                                match l with
                                | [] => Ok []
                                | x :: r => let? x' := apply partial e x in let? r' := go r in Ok (x' :: r')
                                end) l in
                  Ok (PTuple l')
              | [] => match l with [] => Ok (PTuple []) | _ => Err TypeErr end
              end
        | _ => Err TypeErr
        end
    | SDict None _ => Ok v
    | SDict (Some fs) _ =>
        match v with
        | PDict kvs =>
            (* Schema.resolve: a key matches its const field, else the StrKey() field, else KeyError *)
            if negb (has_dyn fs) && existsb (fun kv => negb (has_const (fst kv) fs)) kvs then Err KeyErr else
            (* fields in declaration order; a missing or MISSING_VALUE entry takes the field default *)
            let? ups :=
              (fix go (fs' : list (fkey * spec)) : res (list (str * pv)) :=
                 match fs' with
                 | [] => Ok []
                 | (KConst k, fsp) :: r =>
                     let x := match lookup k kvs with
                              | Some x => if is_missing x then dflt (mods_of fsp) else x
                              | None => dflt (mods_of fsp)
                              end in
                     let? x' := apply partial fsp x in
                     let? r' := go r in Ok ((k, x') :: r')
                 | (KDyn, fsp) :: r =>
                     let? mine :=
                       (fix each (l : list (str * pv)) : res (list (str * pv)) :=
                          match l with
                          | [] => Ok []
                          | (k, x) :: l' =>
                              if has_const k fs then each l' else
                              let x0 := if is_missing x then dflt (mods_of fsp) else x in
                              let? x' := apply partial fsp x0 in
                              let? r' := each l' in Ok ((k, x') :: r')
                          end) kvs in
                     let? r' := go r in Ok (mine ++ r')
                 end) fs in
            (* the dict is updated in place: present keys keep their position, defaulted const
               keys are appended in field order *)
            Ok (PDict (dict_merge kvs ups))
        | _ => Err TypeErr
        end
    | SUnion cs _ =>
        (* 1. the first candidate whose value type the value is an instance of *)
        (fix strong (l : list spec) : res pv :=
           match l with
           | c :: r =>
               match vtype c with
               | Some ts => if isinstance v ts then apply partial c v else strong r
               | None => strong r
               end
           | [] =>
        (* 2. candidates without a value type, tried in order; only TypeError moves on *)
        (fix weak (l : list spec) : res pv :=
           match l with
           | c :: r =>
               match vtype c with
               | None => match apply partial c v with
                         | Err TypeErr => weak r
                         | o => o
                         end
               | Some _ => weak r
               end
           | [] =>
        (* 3. the first typed candidate reachable through a registered converter *)
        (fix conv (l : list spec) : res pv :=
           match l with
           | c :: r =>
               match vtype c with
               | Some ts => match convert v ts with
                            | Some v' => apply partial c v'
                            | None => conv r
                            end
               | None => conv r
               end
           | [] => Err TypeErr
           end) cs
           end) cs
           end) cs
    end
  end.

Definition accepts (s : spec) (v : pv) : Prop := exists v', apply false s v = Ok v'.
Definition acceptsb (s : spec) (v : pv) : bool := match apply false s v with Ok _ => true | Err _ => false end.

(* ------------------------------------------------------------------------------------------ *)
(** * Quirks: open findings the model stays faithful to (flag on = the behaviour of the
      unrepaired code, flag off = the behaviour once repaired; set per run by the harness from
      each finding's witness) *)

Record quirks : Type := Quirks {
  q_list_min : bool;       (* List._is_compatible ignores min_size *)
  q_frozen_recv : bool;    (* is_compatible ignores that the receiving spec is frozen *)
  q_enum_shortcut : bool;  (* Enum.is_compatible: a frozen sender only needs `default in values`
                              (==), although the Enum type check refuses e.g. 1.0 for [1, 2] *)
  q_enum_subset : bool;    (* Enum._is_compatible compares the candidate lists with == only *)
  q_enum_base : bool;      (* an Enum may extend a base of another class, with which that base is
                              never compatible *)
}.
Definition no_quirks (q : quirks) : Prop :=
  q_list_min q = false /\ q_frozen_recv q = false /\ q_enum_shortcut q = false /\
  q_enum_subset q = false /\ q_enum_base q = false.
Definition noq : quirks := Quirks false false false false false.

(* ------------------------------------------------------------------------------------------ *)
(** * compat a b  =  a.is_compatible(b) *)

Definition is_enum (s : spec) : bool := match s with SEnum _ _ => true | _ => false end.
Definition is_union (s : spec) : bool := match s with SUnion _ _ => true | _ => false end.
Definition is_any (s : spec) : bool := match s with SAny _ => true | _ => false end.

(* isinstance(b, a.__class__) for the concrete spec classes *)
Definition same_class (a b : spec) : bool :=
  match a, b with
  | SBool _, SBool _ | SInt _ _ _, SInt _ _ _ | SFloat _ _ _, SFloat _ _ _ | SStr _, SStr _
  | SEnum _ _, SEnum _ _ | SList _ _ _ _, SList _ _ _ _ | STuple _ _ _ _, STuple _ _ _ _
  | SDict _ _, SDict _ _ | SObj _ _, SObj _ _ | SUnion _ _, SUnion _ _ | SAny _, SAny _ => true
  | _, _ => false
  end.

(* `not self.is_noneable and other.is_noneable` is the only noneable rule *)
Definition none_ok (ma mb : mods) : bool := noneable ma || negb (noneable mb).

(* repaired rule for a frozen receiver: it only takes a sender frozen to an equal value *)
Definition frozen_ok (q : quirks) (ma mb : mods) : bool :=
  q_frozen_recv q || negb (frozen ma) || (frozen mb && py_eq (dflt ma) (dflt mb)).

Definition enum_vals (s : spec) : list pv := match s with SEnum vs _ => vs | _ => [] end.
(* every type the sender can produce is (a subclass of) one of ts *)
Definition types_within (vb : option (list ty)) (ts : list ty) : bool :=
  match vb with Some us => forallb (fun u => existsb (issub u) ts) us | None => false end.
(* repaired Enum._is_compatible: an Enum whose value type is int (bool) refuses floats (ints),
   so every candidate of the other Enum must be an instance of that type *)
Definition all_typed_within (vs : list pv) (t : ty) : bool :=
  forallb (fun w => match w with
                    | PNone => true
                    | _ => match type_of w with Some tw => issub tw t | None => false end
                    end) vs.
Definition enum_types_ok (q : quirks) (vals : list pv) (b : spec) : bool :=
  q_enum_subset q ||
  match enum_vtype vals with
  | Some [TyInt] => all_typed_within (enum_vals b) TyInt
  | Some [TyBool] => all_typed_within (enum_vals b) TyBool
  | _ => true
  end.

(* Number._is_compatible; bounds of both sides in the same unit *)
Definition range_compat (lo hi olo ohi : option Z) : bool :=
  match lo with
  | Some l => match olo with Some ol => negb (ol <? l) | None => false end
  | None => true
  end &&
  match hi with
  | Some h => match ohi with Some oh => negb (oh >? h) | None => false end
  | None => true
  end.

Fixpoint compat (q : quirks) (a : spec) {struct a} : spec -> bool :=
  fix compat_a (b : spec) {struct b} : bool :=
    let ma := mods_of a in
    let mb := mods_of b in
    frozen_ok q ma mb &&
    match a with
    | SAny _ => true
    | SUnion cs _ =>
        none_ok ma mb &&
        match b with
        | SUnion ocs _ =>
            (fix all (l : list spec) : bool :=
               match l with [] => true | oc :: r => compat_a oc && all r end) ocs
        | _ =>
            (fix any (l : list spec) : bool :=
               match l with [] => false | c :: r => compat q c b || any r end) cs
        end
    | SEnum vals _ =>
        (* Enum.is_compatible: a sender frozen to one of the values is always fine
           (repaired: frozen to a value this Enum accepts) *)
        (frozen mb && py_in (dflt mb) vals &&
         (q_enum_shortcut q || match apply false a (dflt mb) with Ok _ => true | Err _ => false end)) ||
        match b with
        | SEnum ovals _ => none_ok ma mb && forallb (fun v => py_in v vals) ovals && enum_types_ok q vals b
        | _ => false
        end
    | SBool _ => match b with SBool _ => none_ok ma mb | _ => false end
    | SStr _ => match b with SStr _ => none_ok ma mb | _ => false end
    | SInt lo hi _ =>
        match b with SInt olo ohi _ => none_ok ma mb && range_compat lo hi olo ohi | _ => false end
    | SFloat lo hi _ =>
        match b with SFloat olo ohi _ => none_ok ma mb && range_compat lo hi olo ohi | _ => false end
    | SList ea mn mx _ =>
        match b with
        | SList eb omn omx _ =>
            none_ok ma mb &&
            (q_list_min q || negb (mn >? omn)) &&
            match mx with
            | Some h => match omx with Some oh => negb (oh >? h) | None => false end
            | None => true
            end &&
            compat q ea eb
        | _ => false
        end
    | STuple es mn mx _ =>
        match b with
        | STuple oes omn omx _ =>
            none_ok ma mb &&
            if fixed_length mn mx then
              if fixed_length omn omx then
                Z.eqb (len es) (len oes) &&
                (fix go (xs ys : list spec) {struct xs} : bool :=
                   match xs, ys with
                   | x :: xs', y :: ys' => compat q x y && go xs' ys'
                   | _, _ => true
                   end) es oes
              else false
            else
              if fixed_length omn omx then
                (* len(other) = number of its elements *)
                negb (mn >? len oes) &&
                match mx with Some h => negb (h <? len oes) | None => true end &&
                match es with e :: _ => forallb (compat q e) oes | [] => false end
              else
                negb (mn >? omn) &&
                match mx with
                | Some h => match omx with Some oh => negb (h <? oh) | None => false end
                | None => true
                end &&
                match es, oes with e :: _, oe :: _ => compat q e oe | _, _ => false end
        | _ => false
        end
    | SDict sc _ =>
        match b with
        | SDict osc _ =>
            none_ok ma mb &&
            match sc with
            | None => true
            | Some fs =>
                match osc with
                | None => false
                | Some ofs =>
                    (* Schema.is_compatible: same keys, compatible value specs *)
                    forallb (fun kf => match field_of (fst kf) fs with Some _ => true | None => false end) ofs &&
                    (fix go (l : list (fkey * spec)) : bool :=
                       match l with
                       | [] => true
                       | (k, sa) :: r =>
                           match field_of k ofs with
                           | Some sb => compat q sa sb
                           | None => false
                           end && go r
                       end) fs
                end
            end
        | _ => false
        end
    | SObj ca _ =>
        match b with SObj cb _ => none_ok ma mb && is_subclass cb ca | _ => false end
    end.

(* ------------------------------------------------------------------------------------------ *)
(** * extend c b  =  c.extend(b)   (c is mutated by the library; here the new state is returned) *)

(* Union.get_candidate(dest): same class and compatible first, then any compatible one,
   descending into nested unions *)
Fixpoint get_candidate (q : quirks) (dest u : spec) {struct u} : option spec :=
  match u with
  | SUnion cs _ =>
      match find (fun c => same_class dest c && compat q dest c) cs with
      | Some c => Some c
      | None =>
          (fix go (l : list spec) : option spec :=
             match l with
             | [] => None
             | c :: r =>
                 match c with
                 | SUnion _ _ => match get_candidate q dest c with Some x => Some x | None => go r end
                 | _ => if compat q dest c then Some c else go r
                 end
             end) cs
      end
  | _ => None
  end.

(* Union._extend._base_candidate(c, v) *)
Fixpoint base_candidate (c v : spec) {struct v} : option spec :=
  match v with
  | SUnion vcs _ =>
      (fix go (l : list spec) : option spec :=
         match l with
         | [] => None
         | vc :: r => match base_candidate c vc with Some p => Some p | None => go r end
         end) vcs
  | _ =>
      if same_class c v &&
         match c, v with SObj cc _, SObj vc _ => is_subclass cc vc | _, _ => true end
      then Some v else None
  end.

(* Number._extend: Ok (lo', hi') or TypeError *)
Definition number_extend (lo hi blo bhi : option Z) : res (option Z * option Z) :=
  let? lo' := match blo with
              | Some bl => match lo with
                           | None => Ok (Some bl)
                           | Some l => if l <? bl then Err TypeErr else Ok (Some l)
                           end
              | None => Ok lo
              end in
  let? hi' := match bhi with
              | Some bh => match hi with
                           | None => Ok (Some bh)
                           | Some h => if h >? bh then Err TypeErr else Ok (Some h)
                           end
              | None => Ok hi
              end in
  match lo', hi' with
  | Some l, Some h => if l >? h then Err TypeErr else Ok (lo', hi')
  | _, _ => Ok (lo', hi')
  end.

(* ListKey.extend: Ok max' or TypeError *)
Definition listkey_extend (mn : Z) (mx : option Z) (bmn : Z) (bmx : option Z) : res (option Z) :=
  if mn <? bmn then Err TypeErr else
  match bmx with
  | None => Ok mx
  | Some bh => match mx with
               | None => Ok (Some bh)
               | Some h => if h >? bh then Err TypeErr else Ok (Some h)
               end
  end.

Definition has_none (vs : list pv) : bool := existsb (fun v => match v with PNone => true | _ => false end) vs.

(* Enum(MISSING_VALUE, values).freeze(d) *)
Definition new_frozen_enum (vals : list pv) (d : pv) : res spec :=
  let? d' := apply true (SEnum vals (Mods (has_none vals) None false)) d in
  Ok (SEnum vals (Mods (has_none vals) (Some d') true)).

Definition set_default (s : spec) (d : option pv) : spec :=
  let m := mods_of s in with_mods s (Mods (noneable m) d (frozen m)).

(* The end of ValueSpecBase.extend: the default must still be acceptable to the narrowed spec
   (it is re-applied with the frozen flag lifted; any failure is a TypeError). *)
Definition unfreeze (s : spec) : spec :=
  let m := mods_of s in with_mods s (Mods (noneable m) (default m) false).
Definition revalidate (r : res spec) : res spec :=
  let? s := r in
  match default (mods_of s) with
  | None => Ok s
  | Some d => match apply true (unfreeze s) d with
              | Ok d' => Ok (set_default s (Some d'))
              | Err _ => Err TypeErr
              end
  end.

(* The state of c after c.extend(b) (Field.extend and Union._extend ignore the return value). *)
Fixpoint extend_in (q : quirks) (c : spec) {struct c} : spec -> res spec := fun b0 =>
  let mc := mods_of c in
  if frozen (mods_of b0) && (negb (frozen mc) || negb (py_eq (dflt mc) (dflt (mods_of b0)))) then Err TypeErr else
  if frozen mc && is_enum b0 then
    (if py_in (dflt mc) (enum_vals b0)
     then let? _ := new_frozen_enum (enum_vals b0) (dflt mc) in Ok c
     else Err TypeErr) else
  if is_any b0 then Ok c else
  let? b := (if negb (is_union c) && is_union b0
             then match get_candidate q c b0 with
                  | Some x =>
                      (* the selected candidate may itself be frozen *)
                      if frozen (mods_of x) && (negb (frozen mc) || negb (py_eq (dflt mc) (dflt (mods_of x))))
                      then Err TypeErr else Ok x
                  | None => Err TypeErr
                  end
             else Ok b0) in
  if negb (same_class c b || (q_enum_base q && is_enum c)) then Err TypeErr else
  if negb (noneable (mods_of b)) && noneable mc then Err TypeErr else
  revalidate
  match c with
  | SBool _ | SStr _ | SAny _ => Ok c
  | SInt lo hi m =>
      match b with
      | SInt blo bhi _ => let? r := number_extend lo hi blo bhi in Ok (SInt (fst r) (snd r) m)
      | _ => Err TypeErr
      end
  | SFloat lo hi m =>
      match b with
      | SFloat blo bhi _ => let? r := number_extend lo hi blo bhi in Ok (SFloat (fst r) (snd r) m)
      | _ => Err TypeErr
      end
  | SEnum vals _ =>
      (* every value must be acceptable to the base (any base class) *)
      (fix go (l : list pv) : res spec :=
         match l with
         | [] => Ok c
         | v :: r => match apply false b v with
                     | Ok _ => go r
                     | Err KeyErr => Err KeyErr
                     | Err _ => Err TypeErr
                     end
         end) vals
  | SList e mn mx m =>
      match b with
      | SList be bmn bmx _ =>
          let? mx' := listkey_extend mn mx bmn bmx in
          let? e' := extend_in q e be in
          Ok (SList e' mn mx' m)
      | _ => Err TypeErr
      end
  | STuple es mn mx m =>
      match b with
      | STuple bes bmn bmx _ =>
          if fixed_length mn mx then
            if fixed_length bmn bmx then
              if negb (len es =? len bes) then Err TypeErr else
              let? es' := (fix go (xs ys : list spec) {struct xs} : res (list spec) :=
                             match xs, ys with
                             | x :: xs', y :: ys' => let? x' := extend_in q x y in
                                                     let? r' := go xs' ys' in Ok (x' :: r')
                             | _, _ => Ok []
                             end) es bes in
              Ok (STuple es' mn mx m)
            else
              if bmn >? len es then Err TypeErr else
              if match bmx with Some bh => bh <? len es | None => false end then Err TypeErr else
              match bes with
              | be :: _ =>
                  let? es' := (fix go (xs : list spec) : res (list spec) :=
                                 match xs with
                                 | [] => Ok []
                                 | x :: xs' => let? x' := extend_in q x be in
                                               let? r' := go xs' in Ok (x' :: r')
                                 end) es in
                  Ok (STuple es' mn mx m)
              | [] => match es with [] => Ok c | _ => Err TypeErr end
              end
          else
            if fixed_length bmn bmx then Err TypeErr else
            if negb (mn =? 0) && (mn <? bmn) then Err TypeErr else
            if match mx, bmx with Some h, Some bh => h >? bh | _, _ => false end then Err TypeErr else
            let mn' := if mn =? 0 then bmn else mn in
            let mx' := match mx with None => bmx | Some _ => mx end in
            match es, bes with
            | e :: _, be :: _ =>
                let? e' := extend_in q e be in
                (* once the sizes meet the tuple is fixed-length with one field per position *)
                if fixed_length mn' mx' then Ok (STuple (repeat e' (Z.to_nat mn')) mn' mx' m)
                else Ok (STuple [e'] mn' mx' m)
            | _, _ => Err TypeErr
            end
      | _ => Err TypeErr
      end
  | SDict sc m =>
      match b with
      | SDict bsc bm =>
          match bsc with
          | None => Ok c
          | Some bfs =>
              match sc with
              | None => Ok (SDict (Some bfs) (Mods (noneable m) (default bm) (frozen m)))
              | Some fs =>
                  (* Schema.extend: shared fields extend their parent (in the child's order) ... *)
                  let? fs' := (fix go (l : list (fkey * spec)) : res (list (fkey * spec)) :=
                                 match l with
                                 | [] => Ok []
                                 | (k, sc) :: r =>
                                     match field_of k bfs with
                                     | Some sb => let? sc' := extend_in q sc sb in
                                                  let? r' := go r in Ok ((k, sc') :: r')
                                     | None => let? r' := go r in Ok ((k, sc) :: r')
                                     end
                                 end) fs in
                  (* ... the merged schema lists the base's keys first, then the child's own *)
                  let merged :=
                    map (fun kf => match field_of (fst kf) fs' with
                                   | Some s' => (fst kf, s')
                                   | None => kf
                                   end) bfs ++
                    filter (fun kf => match field_of (fst kf) bfs with Some _ => false | None => true end) fs' in
                  Ok (SDict (Some merged) m)
              end
          end
      | _ => Err TypeErr
      end
  | SObj cc _ =>
      (* Object._extend: the base must be compatible with the child *)
      if compat q b c then Ok c else Err TypeErr
  | SUnion cs m =>
      let? cs' := (fix go (l : list spec) : res (list spec) :=
                     match l with
                     | [] => Ok []
                     | sc :: r =>
                         match base_candidate sc b with
                         | None => Err TypeErr
                         | Some bc => let? sc' := extend_in q sc bc in
                                      let? r' := go r in Ok (sc' :: r')
                         end
                     end) cs in
      Ok (SUnion cs' m)
  end.

(* What c.extend(b) returns: a frozen child on an Enum base yields a new frozen Enum. *)
Definition extend (q : quirks) (c b : spec) : res spec :=
  let mc := mods_of c in
  if frozen (mods_of b) && (negb (frozen mc) || negb (py_eq (dflt mc) (dflt (mods_of b)))) then Err TypeErr else
  if frozen mc && is_enum b then
    (if py_in (dflt mc) (enum_vals b) then new_frozen_enum (enum_vals b) (dflt mc) else Err TypeErr)
  else extend_in q c b.

(* ------------------------------------------------------------------------------------------ *)
(** * Wire format (see harness/props/c04.py: render_value / render_spec print exactly this)

   pv    ::= (0) None | (1) MISSING | (2 b) | (3 z) | (4 q) float q/64 | (5 str) | (6 (pv ...)) list
           | (7 (pv ...)) tuple | (8 ((str pv) ...)) dict | (9 cls id) object
   mods  ::= (noneable default? frozen)                 default? = () | (pv)
   spec  ::= (0 mods) Bool | (1 lo? hi? mods) Int | (2 lo? hi? mods) Float | (3 mods) Str
           | (4 (pv ...) mods) Enum | (5 spec min max? mods) List | (6 (spec ...) min max? mods) Tuple
           | (7 schema? mods) Dict, schema? = () | (((key spec) ...)), key = (0 str) | (1)
           | (8 cls mods) Object | (9 (spec ...) mods) Union | (10 mods) Any
   case  ::= ((q ...) 0 partial spec pv)   apply      -> (0 pv) | (1 err)
           | ((q ...) 1 a b)               compat     -> (b)
           | ((q ...) 2 c b)               extend     -> (0 spec) | (1 err)
           | ((q ...) 3 spec)              theorem hypotheses -> (wfb keys_ok sizes_ok enums_ok)
   err   ::= 1 TypeError | 2 ValueError | 3 KeyError *)

Fixpoint e_pv (v : pv) : tr :=
  match v with
  | PNone => L [I 0] | PMissing => L [I 1] | PBool b => L [I 2; ebool b] | PInt z => L [I 3; I z]
  | PFlt q => L [I 4; I q] | PStr s => L [I 5; estr s]
  | PList l => L [I 6; L (map e_pv l)]
  | PTuple l => L [I 7; L (map e_pv l)]
  | PDict kvs => L [I 8; L (map (fun kv => L [estr (fst kv); e_pv (snd kv)]) kvs)]
  | PObj c i => L [I 9; estr c; eN i]
  end.

Definition e_mods (m : mods) : tr := L [ebool (noneable m); eopt e_pv (default m); ebool (frozen m)].
Definition e_key (k : fkey) : tr := match k with KConst s => L [I 0; estr s] | KDyn => L [I 1] end.

Fixpoint e_spec (s : spec) : tr :=
  match s with
  | SBool m => L [I 0; e_mods m]
  | SInt lo hi m => L [I 1; eopt eZ lo; eopt eZ hi; e_mods m]
  | SFloat lo hi m => L [I 2; eopt eZ lo; eopt eZ hi; e_mods m]
  | SStr m => L [I 3; e_mods m]
  | SEnum vs m => L [I 4; L (map e_pv vs); e_mods m]
  | SList e mn mx m => L [I 5; e_spec e; I mn; eopt eZ mx; e_mods m]
  | STuple es mn mx m => L [I 6; L (map e_spec es); I mn; eopt eZ mx; e_mods m]
  | SDict sc m =>
      L [I 7;
         match sc with
         | None => L []
         | Some fs => L [L (map (fun kf => L [e_key (fst kf); e_spec (snd kf)]) fs)]
         end; e_mods m]
  | SObj c m => L [I 8; estr c; e_mods m]
  | SUnion cs m => L [I 9; L (map e_spec cs); e_mods m]
  | SAny m => L [I 10; e_mods m]
  end.

Definition e_err (e : err) : tr := match e with TypeErr => I 1 | ValueErr => I 2 | KeyErr => I 3 end.
Definition e_res {A} (f : A -> tr) (r : res A) : tr :=
  match r with Ok a => L [I 0; f a] | Err e => L [I 1; e_err e] end.

Fixpoint d_pv (fuel : nat) (t : tr) : option pv :=
  match fuel with
  | O => None
  | S f =>
    match t with
    | L [I 0] => Some PNone
    | L [I 1] => Some PMissing
    | L [I 2; b] => do b' <- dbool b; Some (PBool b')
    | L [I 3; I z] => Some (PInt z)
    | L [I 4; I q] => Some (PFlt q)
    | L [I 5; s] => do s' <- dstr s; Some (PStr s')
    | L [I 6; L l] => do l' <- dall (d_pv f) l; Some (PList l')
    | L [I 7; L l] => do l' <- dall (d_pv f) l; Some (PTuple l')
    | L [I 8; L l] =>
        do l' <- dall (fun kv => match kv with
                                 | L [k; v] => do k' <- dstr k; do v' <- d_pv f v; Some (k', v')
                                 | _ => None
                                 end) l;
        Some (PDict l')
    | L [I 9; c; i] => do c' <- dstr c; do i' <- dN i; Some (PObj c' i')
    | _ => None
    end
  end.

Definition d_mods (t : tr) : option mods :=
  match t with
  | L [n; d; f] => do n' <- dbool n; do d' <- dopt (d_pv 50) d; do f' <- dbool f; Some (Mods n' d' f')
  | _ => None
  end.
Definition d_key (t : tr) : option fkey :=
  match t with L [I 0; s] => do s' <- dstr s; Some (KConst s') | L [I 1] => Some KDyn | _ => None end.

Fixpoint d_spec (fuel : nat) (t : tr) : option spec :=
  match fuel with
  | O => None
  | S f =>
    match t with
    | L [I 0; m] => do m' <- d_mods m; Some (SBool m')
    | L [I 1; lo; hi; m] => do lo' <- dopt dZ lo; do hi' <- dopt dZ hi; do m' <- d_mods m; Some (SInt lo' hi' m')
    | L [I 2; lo; hi; m] => do lo' <- dopt dZ lo; do hi' <- dopt dZ hi; do m' <- d_mods m; Some (SFloat lo' hi' m')
    | L [I 3; m] => do m' <- d_mods m; Some (SStr m')
    | L [I 4; L vs; m] => do vs' <- dall (d_pv 50) vs; do m' <- d_mods m; Some (SEnum vs' m')
    | L [I 5; e; I mn; mx; m] =>
        do e' <- d_spec f e; do mx' <- dopt dZ mx; do m' <- d_mods m; Some (SList e' mn mx' m')
    | L [I 6; L es; I mn; mx; m] =>
        do es' <- dall (d_spec f) es; do mx' <- dopt dZ mx; do m' <- d_mods m; Some (STuple es' mn mx' m')
    | L [I 7; L []; m] => do m' <- d_mods m; Some (SDict None m')
    | L [I 7; L [L fs]; m] =>
        do fs' <- dall (fun kf => match kf with
                                  | L [k; s] => do k' <- d_key k; do s' <- d_spec f s; Some (k', s')
                                  | _ => None
                                  end) fs;
        do m' <- d_mods m; Some (SDict (Some fs') m')
    | L [I 8; c; m] => do c' <- dstr c; do m' <- d_mods m; Some (SObj c' m')
    | L [I 9; L cs; m] => do cs' <- dall (d_spec f) cs; do m' <- d_mods m; Some (SUnion cs' m')
    | L [I 10; m] => do m' <- d_mods m; Some (SAny m')
    | _ => None
    end
  end.

Definition d_quirks (t : tr) : option quirks :=
  match t with
  | L [a; b; c; d; e] =>
      do a' <- dbool a; do b' <- dbool b; do c' <- dbool c; do d' <- dbool d; do e' <- dbool e;
      Some (Quirks a' b' c' d' e')
  | _ => None
  end.


(* ------------------------------------------------------------------------------------------ *)
(** * Predicates used in theorem statements *)

(* v is a value of s: apply returns it unchanged (the values a spec hands on are of this kind) *)
Definition conforms (s : spec) (v : pv) : Prop := apply false s v = Ok v.

(* no MISSING_VALUE anywhere inside *)
Fixpoint total (v : pv) : bool :=
  match v with
  | PMissing => false
  | PList l | PTuple l => forallb total l
  | PDict kvs => forallb (fun kv => total (snd kv)) kvs
  | _ => true
  end.

(* no Union spec inside *)
Fixpoint no_union (s : spec) : bool :=
  match s with
  | SUnion _ _ => false
  | SList e _ _ _ => no_union e
  | STuple es _ _ _ => forallb no_union es
  | SDict (Some fs) _ => forallb (fun kf => no_union (snd kf)) fs
  | _ => true
  end.

(* schema keys are distinct (they are the keys of a Python dict) *)
Fixpoint keys_distinct {A} (fs : list (fkey * A)) : bool :=
  match fs with
  | [] => true
  | (k, _) :: r => match field_of k r with Some _ => false | None => true end && keys_distinct r
  end.
Fixpoint keys_ok (s : spec) : bool :=
  match s with
  | SList e _ _ _ => keys_ok e
  | STuple es _ _ _ => forallb keys_ok es
  | SDict (Some fs) _ => keys_distinct fs && forallb (fun kf => keys_ok (snd kf)) fs
  | SUnion cs _ => forallb keys_ok cs
  | _ => true
  end.

(* no Dict spec with a schema inside (schema-less Dict() is allowed) *)
Fixpoint no_schema (s : spec) : bool :=
  match s with
  | SDict (Some _) _ => false
  | SList e _ _ _ => no_schema e
  | STuple es _ _ _ => forallb no_schema es
  | SUnion cs _ => forallb no_schema cs
  | _ => true
  end.

(* The frozen value of a spec is a value of the spec itself (the constructors apply it through
   set_default / freeze before freezing, extend re-applies it); every Any is noneable (its
   constructor says so). *)
Definition frozen_value_ok (s : spec) : Prop :=
  frozen (mods_of s) = true -> total (dflt (mods_of s)) = true ->
  conforms (unfreeze s) (dflt (mods_of s)).
Fixpoint wf (s : spec) : Prop :=
  frozen_value_ok s /\
  match s with
  | SAny m => noneable m = true
  | SList e _ _ _ => wf e
  | STuple es _ _ _ => (fix all (l : list spec) : Prop := match l with [] => True | x :: r => wf x /\ all r end) es
  | SDict (Some fs) _ =>
      (fix all (l : list (fkey * spec)) : Prop := match l with [] => True | kf :: r => wf (snd kf) /\ all r end) fs
  | SUnion cs _ => (fix all (l : list spec) : Prop := match l with [] => True | x :: r => wf x /\ all r end) cs
  | _ => True
  end.

(* no frozen spec inside / no Enum spec inside (hypotheses of the partial extension theorem) *)
Fixpoint no_frozen (s : spec) : bool :=
  negb (frozen (mods_of s)) &&
  match s with
  | SList e _ _ _ => no_frozen e
  | STuple es _ _ _ => forallb no_frozen es
  | SDict (Some fs) _ => forallb (fun kf => no_frozen (snd kf)) fs
  | SUnion cs _ => forallb no_frozen cs
  | _ => true
  end.
Fixpoint no_enum (s : spec) : bool :=
  match s with
  | SEnum _ _ => false
  | SList e _ _ _ => no_enum e
  | STuple es _ _ _ => forallb no_enum es
  | SDict (Some fs) _ => forallb (fun kf => no_enum (snd kf)) fs
  | SUnion cs _ => forallb no_enum cs
  | _ => true
  end.
(* sizes are not negative and a variable-length tuple has its element spec (the constructors
   see to both) *)
Fixpoint sizes_ok (s : spec) : bool :=
  match s with
  | SList e mn _ _ => (0 <=? mn) && sizes_ok e
  | STuple es mn mx _ =>
      (0 <=? mn) && (fixed_length mn mx || match es with [] => false | _ => true end) && forallb sizes_ok es
  | SDict (Some fs) _ => forallb (fun kf => sizes_ok (snd kf)) fs
  | SUnion cs _ => forallb sizes_ok cs
  | _ => true
  end.

(* ------------------------------------------------------------------------------------------ *)
(** * Decidable versions of the theorem hypotheses (run on every generated spec by the harness:
      case ((q ...) 3 spec) -> (wfb keys_ok sizes_ok enums_ok)) *)

(* structural equality of values *)
Fixpoint pv_eqb (a b : pv) {struct a} : bool :=
  match a, b with
  | PNone, PNone => true
  | PMissing, PMissing => true
  | PBool x, PBool y => Bool.eqb x y
  | PInt x, PInt y => Z.eqb x y
  | PFlt x, PFlt y => Z.eqb x y
  | PStr x, PStr y => str_eqb x y
  | PList xs, PList ys | PTuple xs, PTuple ys =>
      (fix go (xs ys : list pv) {struct xs} : bool :=
         match xs, ys with
         | [], [] => true
         | x :: xs', y :: ys' => pv_eqb x y && go xs' ys'
         | _, _ => false
         end) xs ys
  | PDict xs, PDict ys =>
      (fix go (xs ys : list (str * pv)) {struct xs} : bool :=
         match xs, ys with
         | [], [] => true
         | (k, x) :: xs', (k', y) :: ys' => str_eqb k k' && pv_eqb x y && go xs' ys'
         | _, _ => false
         end) xs ys
  | PObj c i, PObj d j => str_eqb c d && N.eqb i j
  | _, _ => false
  end.

Definition frozen_value_okb (s : spec) : bool :=
  negb (frozen (mods_of s)) || negb (total (dflt (mods_of s))) ||
  match apply false (unfreeze s) (dflt (mods_of s)) with
  | Ok d' => pv_eqb d' (dflt (mods_of s))
  | Err _ => false
  end.

Fixpoint wfb (s : spec) : bool :=
  frozen_value_okb s &&
  match s with
  | SAny m => noneable m
  | SList e _ _ _ => wfb e
  | STuple es _ _ _ => forallb wfb es
  | SDict (Some fs) _ => forallb (fun kf => wfb (snd kf)) fs
  | SUnion cs _ => forallb wfb cs
  | _ => true
  end.


(* an Enum is noneable exactly when None is one of its values (Enum.__init__ / Enum.noneable),
   and MISSING_VALUE is not a candidate *)
Fixpoint enums_ok (s : spec) : bool :=
  match s with
  | SEnum vs m => Bool.eqb (noneable m) (has_none vs) && negb (existsb is_missing vs)
  | SList e _ _ _ => enums_ok e
  | STuple es _ _ _ => forallb enums_ok es
  | SDict (Some fs) _ => forallb (fun kf => enums_ok (snd kf)) fs
  | SUnion cs _ => forallb enums_ok cs
  | _ => true
  end.

Definition run_hyps (s : spec) : tr :=
  L [ebool (wfb s); ebool (keys_ok s); ebool (sizes_ok s); ebool (enums_ok s)].

(* The receiver a steers clear of the open findings whose flag is on in q (the behaviour of the
   code as it is): no frozen part when is_compatible ignores a frozen receiver, no List with a
   positive min_size when min_size is ignored, no Enum when an Enum rule is loose. *)
Fixpoint avoids (q : quirks) (a : spec) : bool :=
  (negb (q_frozen_recv q) || negb (frozen (mods_of a))) &&
  match a with
  | SEnum _ _ => negb (q_enum_shortcut q) && negb (q_enum_subset q)
  | SList e mn _ _ => (negb (q_list_min q) || (mn <=? 0)) && avoids q e
  | STuple es _ _ _ => forallb (avoids q) es
  | SDict (Some fs) _ => forallb (fun kf => avoids q (snd kf)) fs
  | SUnion cs _ => forallb (avoids q) cs
  | _ => true
  end.

(* ------------------------------------------------------------------------------------------ *)
(** * Unions with a safe dispatch (hypotheses of the Union theorems; both decidable)

   [union_plain]: the candidates of every Union inside are not frozen, are not Unions themselves
   and have a value type (so Union.apply always dispatches by isinstance).
   [union_safe]: moreover the candidates are Bool/Int/Float/Str/List/Tuple/Dict/Object specs whose
   value types are pairwise unrelated by issubclass (no candidate can capture another's values;
   Union([Int(), Bool()]) and a Union with an Any candidate are excluded). *)

Definition cand_plain (c : spec) : bool :=
  negb (frozen (mods_of c)) && negb (is_union c) &&
  match vtype c with Some _ => true | None => false end.

Fixpoint union_plain (s : spec) : bool :=
  match s with
  | SUnion cs _ => forallb cand_plain cs && forallb union_plain cs
  | SList e _ _ _ => union_plain e
  | STuple es _ _ _ => forallb union_plain es
  | SDict (Some fs) _ => forallb (fun kf => union_plain (snd kf)) fs
  | _ => true
  end.

Definition cand_simple (c : spec) : bool :=
  negb (frozen (mods_of c)) &&
  match c with
  | SBool _ | SInt _ _ _ | SFloat _ _ _ | SStr _ | SList _ _ _ _ | STuple _ _ _ _ | SDict _ _ | SObj _ _ => true
  | _ => false
  end.

(* the single value type of a simple candidate *)
Definition cand_type (c : spec) : ty :=
  match vtype c with Some (t :: _) => t | _ => TyObject end.

Definition unrelated (c c' : spec) : bool :=
  negb (issub (cand_type c) (cand_type c')) && negb (issub (cand_type c') (cand_type c)).

Fixpoint pairwise_unrelated (cs : list spec) : bool :=
  match cs with
  | [] => true
  | c :: r => forallb (unrelated c) r && pairwise_unrelated r
  end.

Fixpoint union_safe (s : spec) : bool :=
  match s with
  | SUnion cs _ => forallb cand_simple cs && pairwise_unrelated cs && forallb union_safe cs
  | SList e _ _ _ => union_safe e
  | STuple es _ _ _ => forallb union_safe es
  | SDict (Some fs) _ => forallb (fun kf => union_safe (snd kf)) fs
  | _ => true
  end.

(* which theorem fragments a spec lies in (reported per run as a coverage histogram):
   case ((q ...) 4 spec) -> (no_union union_plain union_safe no_schema no_frozen avoids) *)
Definition run_fragments (q : quirks) (s : spec) : tr :=
  L [ebool (no_union s); ebool (union_plain s); ebool (union_safe s); ebool (no_schema s);
     ebool (no_frozen s); ebool (avoids q s)].

Definition run (c : tr) : tr :=
  match c with
  | L [qs; I 0; p; s; v] =>
      match d_quirks qs, dbool p, d_spec 50 s, d_pv 50 v with
      | Some _, Some p', Some s', Some v' => e_res e_pv (apply p' s' v')
      | _, _, _, _ => ebad
      end
  | L [qs; I 1; a; b] =>
      match d_quirks qs, d_spec 50 a, d_spec 50 b with
      | Some q, Some a', Some b' => L [ebool (compat q a' b')]
      | _, _, _ => ebad
      end
  | L [qs; I 2; a; b] =>
      match d_quirks qs, d_spec 50 a, d_spec 50 b with
      | Some q, Some a', Some b' => e_res e_spec (extend q a' b')
      | _, _, _ => ebad
      end
  | L [qs; I 3; a] =>
      match d_quirks qs, d_spec 50 a with
      | Some _, Some a' => run_hyps a'
      | _, _ => ebad
      end
  | L [qs; I 4; a] =>
      match d_quirks qs, d_spec 50 a with
      | Some q, Some a' => run_fragments q a'
      | _, _ => ebad
      end
  | _ => ebad
  end.

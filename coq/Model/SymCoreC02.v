(* SymCoreC02.v -- the C02 extension of the SymCore model (definitions only).

   1. plain values [pv] as Python sees them: literals -> pv, Python == on pv ([pv_pyeq]), the instances of the
      reference semantics PyList / PyDict at element type pv;
   2. the operations of the list / dict API that the base catalogue lacks (slice assignment, slice deletion,
      d | m, m | d) as [xop], executed by [step2] from the base primitives (lprim, dprim, renum, detach_all, fix_chain);
   3. the read API of pg.List / pg.Dict on a stored tree (len, x[i], x[a:b:c], in, index, count, ==, keys, to_json);
   4. the wire format: [run] decodes (0 ..) a history on a built-in list, (1 ..) on a built-in dict, (2 ..) slice.indices,
      (3 ..) a SymCore history with read-back after every step.
   The code modelled is pyglove/core/symbolic/list.py (__getitem__/__setitem__/__delitem__ with slices, _delete_items)
   and dict.py (update, __or__, __ror__) as repaired by the C02 fix: commits.                                      *)
From Coq Require Import ZArith NArith List Bool.
Import ListNotations.
From PG Require Import Common.Tr.
From PG Require Model.PyList Model.PyDict.
From PG Require Import Model.SymCoreDefs Model.SymCoreOps Model.SymCoreSpec Model.SymCore.
Local Open Scope Z_scope.

(* ================= 1. plain values ================================================================== *)
Fixpoint number_from {A} (i : Z) (l : list A) : list (key * A) :=
  match l with [] => [] | x :: r => (KI i, x) :: number_from (i + 1) r end.
Definition plist (l : list pv) : pv := PNode KList (number_from 0 l).
Definition pitems (p : pv) : list (key * pv) := match p with PNode _ its => its | PLeaf _ => [] end.
Definition pvals (p : pv) : list pv := map snd (pitems p).

(* what a literal denotes (a pg.List literal numbers its items) *)
Fixpoint plit (l : lit) : pv :=
  match l with
  | LitLeaf lf => PLeaf (erase_leaf lf)
  | LitNode k _ _ its =>
      PNode k ((fix go (l : list (key * lit)) (i : Z) : list (key * pv) :=
                  match l with
                  | [] => []
                  | (kk, c) :: r => ((match k with KList => KI i | _ => kk end), plit c) :: go r (i + 1)
                  end) its 0)
  end.

(* Python == on plain values: numbers compare by value (True == 1), lists element-wise in order, dicts as maps,
   objects of the three classes field by field *)
Fixpoint pv_pyeq (a b : pv) : bool :=
  match a, b with
  | PLeaf x, PLeaf y => leaf_pyeq x y
  | PNode KList xs, PNode KList ys =>
      (fix go (xs ys : list (key * pv)) : bool :=
         match xs, ys with
         | [], [] => true
         | (_, x) :: xs', (_, y) :: ys' => pv_pyeq x y && go xs' ys'
         | _, _ => false
         end) xs ys
  | PNode KDict xs, PNode KDict ys =>
      Nat.eqb (length xs) (length ys) &&
      (fix all (xs : list (key * pv)) : bool :=
         match xs with
         | [] => true
         | (k, x) :: xs' =>
             (fix find (l : list (key * pv)) : bool :=
                match l with
                | [] => false
                | (k', y) :: r => if key_eqb k k' then pv_pyeq x y else find r
                end) ys && all xs'
         end) xs
  | PNode (KObj c) xs, PNode (KObj d) ys =>
      N.eqb c d &&
      (fix go (xs ys : list (key * pv)) : bool :=
         match xs, ys with
         | [], [] => true
         | (_, x) :: xs', (_, y) :: ys' => pv_pyeq x y && go xs' ys'
         | _, _ => false
         end) xs ys
  | _, _ => false
  end.

(* the reference semantics at element type pv *)
Definition py_lstep : list pv -> PyList.lop pv -> (list pv * PyList.lret pv) + PyList.pyerr := PyList.lstep pv_pyeq.
Definition py_dstep : list (key * pv) -> PyDict.dop key pv -> (list (key * pv) * PyDict.dret key pv) + PyList.pyerr :=
  PyDict.dstep key_eqb pv_pyeq.

(* ================= 2. the operations the base catalogue lacks ========================================== *)
Inductive xop (V : Type) : Type :=
| LSetSlice (a b c : option Z) (vs : list V)       (* l[a:b:c] = vs *)
| LDelSlice (a b c : option Z)                     (* del l[a:b:c] *)
| DOr (kvs : list (key * V))                       (* d | m *)
| DROr (kvs : list (key * V)).                     (* m | d *)
#[global] Arguments LSetSlice {V}. #[global] Arguments LDelSlice {V}. #[global] Arguments DOr {V}. #[global] Arguments DROr {V}.
Inductive op2 : Type := Base (o : sop) | Ext (sc : scope) (ps : pos) (x : xop value).

Definition resolve_xop (st : state) (x : xop value) : option (xop rvalue) :=
  match x with
  | LSetSlice a b c vs => option_map (LSetSlice a b c) (resolve_all st vs)
  | LDelSlice a b c => Some (LDelSlice a b c)
  | DOr kvs => option_map DOr (resolve_kvs st kvs)
  | DROr kvs => option_map DROr (resolve_kvs st kvs)
  end.
Definition xkind_ok {V} (k : kind) (x : xop V) : bool :=
  match x, k with
  | LSetSlice _ _ _ _, KList | LDelSlice _ _ _, KList | DOr _, KDict | DROr _, KDict => true
  | _, _ => false
  end.

Section WithQuirks.
Variable q : quirks.

(* a batch of writes through the list primitive (positions are final positions at the time of each write) *)
Fixpoint write_loop (sc : scope) (st : state) (ps : pos) (ivs : list (Z * rvalue)) (upd : bool) : state * bool * option err :=
  match ivs with
  | [] => (st, upd, None)
  | (i, rv) :: r =>
      match lprim q sc st ps (KI i) rv with
      | (st', PErr e) => (st', upd, Some e)
      | (st', PUpd) => write_loop sc st' ps r true
      | (st', PNone) => write_loop sc st' ps r upd
      end
  end.
(* List._delete_items: the items at the positions satisfying f are removed and detached, the rest is re-indexed *)
Definition ldel_many (st : state) (ps : pos) (f : Z -> bool) : state * bool :=
  let its := cur_items st ps in
  match PyList.filter_pos f 0 its with
  | [] => (st, false)
  | gone =>
      (detach_all (update_at st ps (set_items (renum (cur_path st ps) (PyList.filter_pos (fun i => negb (f i)) 0 its)))) gone, true)
  end.
Fixpoint slice_writes (start stop : Z) (rvs : list rvalue) : list (Z * rvalue) :=
  match rvs with
  | [] => []
  | rv :: r => (start, if start >=? stop then RIns rv else rv) :: slice_writes (start + 1) stop r
  end.
(* Dict(merged): a fresh dict filled through the dict primitive *)
Definition new_dict (sc : scope) (st : state) (kvs : list (key * rvalue)) : state * outcome :=
  let me := next_id st in
  let ri := length (roots st) in
  let st0 := add_root (with_next st (N.succ me)) (Node me KDict None [] default_flags []) in
  (fold_left (fun s kv => fst (dprim q sc s (ri, []) (fst kv) (snd kv))) kvs st0, Ok (RPos (ri, []))).
Definition merge_rv (base upd : list (key * rvalue)) : list (key * rvalue) :=
  fold_left (fun acc kv => set_assoc (fst kv) (snd kv) acc) upd base.

Definition exec_x (sc : scope) (st : state) (ps : pos) (tfl : flags) (its : list (key * node)) (x : xop rvalue) : state * outcome :=
  let sl := treats_as_sealed sc tfl in
  let aw := writable_via_accessors sc tfl in
  let n := zlen its in
  match x with
  | LSetSlice a b c rvs =>
      if sl then (st, Err EWrite) else if negb aw then (st, Err EWrite) else
      match PyList.slice_indices a b c n with
      | None => (st, Err EValue)
      | Some (start, stop, step) =>
          if step =? 1 then
            let stop' := Z.max start stop in
            match write_loop sc st ps (slice_writes start stop' rvs) false with
            | (st', _, Some e) => (st', Err e)
            | (st', upd, None) =>
                let lo := start + zlen rvs in
                let '(st'', del) := ldel_many st' ps (fun i => (lo <=? i) && (i <? stop')) in
                (if (upd || del) && notify_on sc then fix_chain st'' ps else st'', Ok RNone)
            end
          else
            let idxs := PyList.slice_range start stop step in
            if negb (Nat.eqb (length idxs) (length rvs)) then (st, Err EValue) else
            let ivs := PyList.zip idxs rvs in
            match write_loop sc st ps (if step <? 0 then rev ivs else ivs) false with
            | (st', _, Some e) => (st', Err e)
            | (st', upd, None) => (if upd && notify_on sc then fix_chain st' ps else st', Ok RNone)
            end
      end
  | LDelSlice a b c =>
      if sl then (st, Err EWrite) else if negb aw then (st, Err EWrite) else
      match PyList.slice_indices a b c n with
      | None => (st, Err EValue)
      | Some (start, stop, step) =>
          let idxs := PyList.slice_range start stop step in
          let '(st', del) := ldel_many st ps (fun i => PyList.zmem i idxs) in
          (if del && notify_on sc then fix_chain st' ps else st', Ok RNone)
      end
  | DOr kvs => new_dict sc st (merge_rv (map (fun kv => (fst kv, rv_of_item (snd kv))) its) kvs)
  | DROr kvs => new_dict sc st (merge_rv kvs (map (fun kv => (fst kv, rv_of_item (snd kv))) its))
  end.

Definition is_result_xop {V} (x : xop V) : bool := match x with DOr _ | DROr _ => true | _ => false end.
Definition step_x (st : state) (sc : scope) (ps : pos) (x : xop value) : state * outcome :=
  match get_at st ps with
  | Some (Node _ tk _ _ tfl its) =>
      if negb (xkind_ok tk x) then (st, Err ENA) else
      match resolve_xop st x with
      | None => (st, Err ENA)
      | Some rx =>
          let '(st', out) := exec_x sc st ps tfl its rx in
          (gc (length (roots st)) (next_id st) (is_result_xop rx) st', out)
      end
  | _ => (st, Err ENA)
  end.
Definition step2 (st : state) (o : op2) : state * outcome :=
  match o with Base o' => step q st o' | Ext sc ps x => step_x st sc ps x end.
Definition run_ops2 (st : state) (ops : list op2) : state := fold_left (fun s o => fst (step2 s o)) ops st.
End WithQuirks.

(* ================= 3. the read API of pg.List / pg.Dict on a stored tree ================================== *)
(* x == plain.  pg.List inherits list.__eq__, pg.Dict.__eq__ is dict.__eq__, pg.Object.__eq__ is sym_eq; all of them
   compare the stored children with == again *)
Fixpoint node_pyeq (n : node) (p : pv) : bool :=
  match n, p with
  | Leaf x, PLeaf y => leaf_pyeq (erase_leaf x) y
  | Node _ KList _ _ _ xs, PNode KList ys =>
      (fix go (xs : list (key * node)) (ys : list (key * pv)) : bool :=
         match xs, ys with
         | [], [] => true
         | (_, x) :: xs', (_, y) :: ys' => node_pyeq x y && go xs' ys'
         | _, _ => false
         end) xs ys
  | Node _ KDict _ _ _ xs, PNode KDict ys =>
      Nat.eqb (length xs) (length ys) &&
      (fix all (xs : list (key * node)) : bool :=
         match xs with
         | [] => true
         | (k, x) :: xs' =>
             (fix find (l : list (key * pv)) : bool :=
                match l with
                | [] => false
                | (k', y) :: r => if key_eqb k k' then node_pyeq x y else find r
                end) ys && all xs'
         end) xs
  | Node _ (KObj c) _ _ _ xs, PNode (KObj d) ys =>
      N.eqb c d &&
      (fix go (xs : list (key * node)) (ys : list (key * pv)) : bool :=
         match xs, ys with
         | [], [] => true
         | (_, x) :: xs', (_, y) :: ys' => node_pyeq x y && go xs' ys'
         | _, _ => false
         end) xs ys
  | _, _ => false
  end.

Definition r_len (n : node) : Z := zlen (nitems n).
(* List.__getitem__(int): range check, then the stored item *)
Definition r_getitem (n : node) (i : Z) : option node :=
  match PyList.norm_index (r_len n) i with
  | Some p => option_map snd (nth_error (nitems n) p)
  | None => None
  end.
(* List.__getitem__(slice): the items at the positions range(start, stop, step) of slice.indices(len(self)); None = ValueError *)
Definition r_getslice (n : node) (a b c : option Z) : option (list node) :=
  match PyList.slice_indices a b c (r_len n) with
  | None => None
  | Some (start, stop, step) => Some (PyList.pick (map snd (nitems n)) (PyList.slice_range start stop step))
  end.
(* list.__contains__ / index / count (inherited): stored item == x *)
Fixpoint r_find (x : pv) (l : list (key * node)) (i : nat) : option nat :=
  match l with [] => None | (_, y) :: r => if node_pyeq y x then Some i else r_find x r (S i) end.
Definition r_contains (n : node) (x : pv) : bool := existsb (fun kv => node_pyeq (snd kv) x) (nitems n).
Definition r_count (n : node) (x : pv) : Z := zlen (filter (fun kv => node_pyeq (snd kv) x) (nitems n)).
(* Dict: keys() / in / [] *)
Definition r_keys (n : node) : list key := map fst (nitems n).
Definition r_dget (n : node) (k : key) : option node := assoc k (nitems n).
(* pg.to_json: the tree of plain values (an opaque object becomes a pickled blob, printed as LJunk) *)
Definition json_leaf (l : leaf) : leaf := match l with LOpq _ _ => LJunk | _ => l end.
Fixpoint to_json (n : node) : pv :=
  match n with
  | Leaf l => PLeaf (json_leaf l)
  | Node _ k _ _ _ its => PNode k (map (fun kv => (fst kv, to_json (snd kv))) its)
  end.
Fixpoint pv_json (p : pv) : pv :=
  match p with
  | PLeaf l => PLeaf (json_leaf l)
  | PNode k its => PNode k (map (fun kv => (fst kv, pv_json (snd kv))) its)
  end.

(* ================= 4. wire format ========================================================================= *)
Fixpoint d_pv (fuel : nat) (t : tr) : option pv :=
  match fuel with
  | O => None
  | S f =>
      match t with
      | L [I 0; lf] => do l <- d_leaf lf; Some (PLeaf (erase_leaf l))
      | L [I 1; kd; L its] =>
          do k <- d_kind kd;
          do its' <- dall (fun kv => match kv with
                                     | L [kk; vv] => do k' <- d_key kk; do v' <- d_pv f vv; Some (k', v')
                                     | _ => None
                                     end) its;
          Some (PNode k its')
      | _ => None
      end
  end.
Definition d_pval : tr -> option pv := d_pv 32.
Fixpoint e_pv (p : pv) : tr :=
  match p with
  | PLeaf l => L [I 0; e_leaf0 l]
  | PNode k its => L [I 1; e_kind k; L (map (fun kv => L [e_key (fst kv); e_pv (snd kv)]) its)]
  end.
Definition d_oz : tr -> option (option Z) := dopt dZ.
Definition d_pkv (t : tr) : option (key * pv) :=
  match t with L [k; v] => do k' <- d_key k; do v' <- d_pval v; Some (k', v') | _ => None end.
Definition e_pkv (kv : key * pv) : tr := L [e_key (fst kv); e_pv (snd kv)].
Definition e_pyerr (e : PyList.pyerr) : Z :=
  match e with PyList.PyIndexError => 3 | PyList.PyKeyError => 2 | PyList.PyTypeError => 4 | PyList.PyValueError => 5 end.

(* --- (0 ..): a history on a built-in list -------------------------------------------------------------------- *)
Definition d_lop (t : tr) : option (PyList.lop pv) :=
  match t with
  | L (I tag :: args) =>
      match tag, args with
      | 1, [I i; v] => do v' <- d_pval v; Some (PyList.PLSet i v')
      | 2, [I i] => Some (PyList.PLDel i)
      | 3, [v] => do v' <- d_pval v; Some (PyList.PLAppend v')
      | 4, [I i; v] => do v' <- d_pval v; Some (PyList.PLInsert i v')
      | 5, [vs] => do vs' <- dlist d_pval vs; Some (PyList.PLExtend vs')
      | 6, [oi] => do oi' <- d_oz oi; Some (PyList.PLPop oi')
      | 7, [x] => do x' <- d_pval x; Some (PyList.PLRemove x')
      | 8, [] => Some PyList.PLClear
      | 9, [] => Some PyList.PLReverse
      | 10, [ks; b] => do ks' <- dlist dZ ks; do b' <- dbool b; Some (PyList.PLSort ks' b')
      | 11, [vs] => do vs' <- dlist d_pval vs; Some (PyList.PLIAdd vs')
      | 12, [I n] => Some (PyList.PLIMul n)
      | 13, [vs] => do vs' <- dlist d_pval vs; Some (PyList.PLAdd vs')
      | 14, [I n] => Some (PyList.PLMul n)
      | 15, [] => Some PyList.PLCopy
      | 50, [a; b; c; vs] => do a' <- d_oz a; do b' <- d_oz b; do c' <- d_oz c; do vs' <- dlist d_pval vs; Some (PyList.PLSetSlice a' b' c' vs')
      | 51, [a; b; c] => do a' <- d_oz a; do b' <- d_oz b; do c' <- d_oz c; Some (PyList.PLDelSlice a' b' c')
      | 60, [I i] => Some (PyList.PLGet i)
      | 61, [a; b; c] => do a' <- d_oz a; do b' <- d_oz b; do c' <- d_oz c; Some (PyList.PLGetSlice a' b' c')
      | 62, [] => Some PyList.PLLen
      | 63, [x] => do x' <- d_pval x; Some (PyList.PLContains x')
      | 64, [x] => do x' <- d_pval x; Some (PyList.PLIndex x')
      | 65, [x] => do x' <- d_pval x; Some (PyList.PLCount x')
      | 66, [o] => do o' <- dlist d_pval o; Some (PyList.PLEq o')
      | _, _ => None
      end
  | _ => None
  end.
Definition e_lret (r : PyList.lret pv) : tr :=
  match r with
  | PyList.LrNone => L [I 0]
  | PyList.LrVal v => L [I 1; e_pv v]
  | PyList.LrList l => L [I 2; L (map e_pv l)]
  | PyList.LrInt z => L [I 3; I z]
  | PyList.LrBool b => L [I 4; ebool b]
  end.
Fixpoint run_pylist (l : list pv) (ops : list (PyList.lop pv)) : list tr :=
  match ops with
  | [] => []
  | o :: r =>
      match py_lstep l o with
      | inl (l', ret) => L [I 0; e_lret ret; L (map e_pv l')] :: run_pylist l' r
      | inr e => L [I 1; I (e_pyerr e)] :: run_pylist l r
      end
  end.

(* --- (1 ..): a history on a built-in dict -------------------------------------------------------------------- *)
Definition d_dop (t : tr) : option (PyDict.dop key pv) :=
  match t with
  | L (I tag :: args) =>
      match tag, args with
      | 20, [k; v] => do k' <- d_key k; do v' <- d_pval v; Some (PyDict.PDSet k' v')
      | 21, [k] => do k' <- d_key k; Some (PyDict.PDDel k')
      | 22, [k; d] => do k' <- d_key k; do d' <- dopt d_pval d; Some (PyDict.PDPop k' d')
      | 23, [] => Some (PyDict.PDPopItem)
      | 24, [] => Some (PyDict.PDClear)
      | 25, [k; v] => do k' <- d_key k; do v' <- d_pval v; Some (PyDict.PDSetDefault k' v')
      | 26, [kvs] => do kvs' <- dlist d_pkv kvs; Some (PyDict.PDUpdate kvs')
      | 27, [kvs] => do kvs' <- dlist d_pkv kvs; Some (PyDict.PDIOr kvs')
      | 28, [] => Some (PyDict.PDCopy)
      | 52, [kvs] => do kvs' <- dlist d_pkv kvs; Some (PyDict.PDOr kvs')
      | 53, [kvs] => do kvs' <- dlist d_pkv kvs; Some (PyDict.PDROr kvs')
      | 70, [k] => do k' <- d_key k; Some (PyDict.PDGet k')
      | 71, [k; d] => do k' <- d_key k; do d' <- d_pval d; Some (PyDict.PDGetD k' d')
      | 72, [k] => do k' <- d_key k; Some (PyDict.PDContains k')
      | 73, [] => Some (PyDict.PDLen)
      | 74, [] => Some (PyDict.PDKeys)
      | 75, [] => Some (PyDict.PDItems)
      | 76, [o] => do o' <- dlist d_pkv o; Some (PyDict.PDEq o')
      | _, _ => None
      end
  | _ => None
  end.
Definition e_dret (r : PyDict.dret key pv) : tr :=
  match r with
  | PyDict.DrNone => L [I 0]
  | PyDict.DrVal v => L [I 1; e_pv v]
  | PyDict.DrKV k v => L [I 5; e_key k; e_pv v]
  | PyDict.DrDict d => L [I 6; L (map e_pkv d)]
  | PyDict.DrKeys ks => L [I 7; L (map e_key ks)]
  | PyDict.DrInt z => L [I 3; I z]
  | PyDict.DrBool b => L [I 4; ebool b]
  end.
Fixpoint run_pydict (d : list (key * pv)) (ops : list (PyDict.dop key pv)) : list tr :=
  match ops with
  | [] => []
  | o :: r =>
      match py_dstep d o with
      | inl (d', ret) => L [I 0; e_dret ret; L (map e_pkv d')] :: run_pydict d' r
      | inr e => L [I 1; I (e_pyerr e)] :: run_pydict d r
      end
  end.

(* --- (3 ..): a SymCore history with read-back of the target after every step ----------------------------------- *)
Record probes : Type := mkProbes {
  pr_idxs : list Z; pr_slices : list (option Z * option Z * option Z); pr_vals : list pv; pr_keys : list key }.
Definition d_slice3 (t : tr) : option (option Z * option Z * option Z) :=
  match t with L [a; b; c] => do a' <- d_oz a; do b' <- d_oz b; do c' <- d_oz c; Some (a', b', c') | _ => None end.
Definition d_probes (t : tr) : option probes :=
  match t with
  | L [is; ss; vs; ks] =>
      do is' <- dlist dZ is; do ss' <- dlist d_slice3 ss; do vs' <- dlist d_pval vs; do ks' <- dlist d_key ks;
      Some (mkProbes is' ss' vs' ks')
  | _ => None
  end.
Definition d_xop (tag : Z) (args : list tr) : option (xop value) :=
  match tag, args with
  | 50, [a; b; c; vs] => do a' <- d_oz a; do b' <- d_oz b; do c' <- d_oz c; do vs' <- dlist d_val vs; Some (LSetSlice a' b' c' vs')
  | 51, [a; b; c] => do a' <- d_oz a; do b' <- d_oz b; do c' <- d_oz c; Some (LDelSlice a' b' c')
  | 52, [kvs] => do kvs' <- dlist d_kv kvs; Some (DOr kvs')
  | 53, [kvs] => do kvs' <- dlist d_kv kvs; Some (DROr kvs')
  | _, _ => None
  end.
Definition d_step2 (t : tr) : option (op2 * pos * probes) :=
  match t with
  | L [sc; L (I tag :: L [r; ks] :: args); pr] =>
      do sc' <- d_scope sc; do p <- d_pos r ks; do pr' <- d_probes pr;
      match d_op tag args with
      | Some o => Some (Base (mkSop sc' p o), p, pr')
      | None => do x <- d_xop tag args; Some (Ext sc' p x, p, pr')
      end
  | _ => None
  end.

Definition e_item (st : state) (c : node) : tr := e_ret (ret_item st c).
Definition readback (st : state) (ps : pos) (pr : probes) : tr :=
  match get_at st ps with
  | Some (Node i KList pa pt fl its) =>
      let n := Node i KList pa pt fl its in
      L [I 1; I (r_len n);
         L (map (fun j => match r_getitem n j with Some c => L [I 0; e_item st c] | None => L [I 1; I 3] end) (pr_idxs pr));
         L (map (fun s => match r_getslice n (fst (fst s)) (snd (fst s)) (snd s) with
                          | Some cs => L [I 0; L (map (e_item st) cs)]
                          | None => L [I 1; I 5]
                          end) (pr_slices pr));
         L (map (fun x => L [ebool (r_contains n x); eopt enat (r_find x its 0); I (r_count n x); ebool (node_pyeq n x)]) (pr_vals pr));
         ebool (node_pyeq n (erase n));
         e_pv (to_json n)]
  | Some (Node i KDict pa pt fl its) =>
      let n := Node i KDict pa pt fl its in
      L [I 0; I (r_len n); L (map e_key (r_keys n));
         L (map (fun k => match r_dget n k with Some c => L [I 0; e_item st c] | None => L [I 1; I 2] end) (pr_keys pr));
         L (map (fun x => ebool (node_pyeq n x)) (pr_vals pr));
         ebool (node_pyeq n (erase n));
         e_pv (to_json n)]
  | _ => L []
  end.
Fixpoint run_steps2 (q : quirks) (st : state) (ops : list (op2 * pos * probes)) : list tr :=
  match ops with
  | [] => []
  | (o, ps, pr) :: r =>
      let '(st', out) := step2 q st o in
      L [e_outcome out; e_snapshot st'; readback st' ps pr] :: run_steps2 q st' r
  end.

(* slice(a, b, c).indices(n) and the positions it denotes *)
Definition run_indices (n : Z) (a b c : option Z) : tr :=
  match PyList.slice_indices a b c n with
  | None => L []
  | Some (start, stop, step) => L [I start; I stop; I step; L (map I (PyList.slice_range start stop step))]
  end.

Definition run (c : tr) : tr :=
  match c with
  | L [I 0; L init; L ops] =>
      match dall d_pval init, dall d_lop ops with
      | Some l, Some os => L (run_pylist l os)
      | _, _ => ebad
      end
  | L [I 1; L init; L ops] =>
      match dall d_pkv init, dall d_dop ops with
      | Some d, Some os => L (run_pydict d os)
      | _, _ => ebad
      end
  | L [I 2; I n; a; b; c'] =>
      match d_oz a, d_oz b, d_oz c' with
      | Some a', Some b', Some c'' => run_indices n a' b' c''
      | _, _, _ => ebad
      end
  | L [I 3; qs; L lits; L steps] =>
      match d_quirks qs, dall (d_lit 64) lits, dall d_step2 steps with
      | Some q, Some ls, Some ops =>
          if forallb lit_valid ls then
            let st0 := init_forest ls empty_state in
            L [e_snapshot st0; L (run_steps2 q st0 ops)]
          else ebad
      | _, _, _ => ebad
      end
  | _ => ebad
  end.

(* SymCoreOps.v — scopes, values, the single write primitives and every public mutator (definitions only).
   The permission checks are those each mutator of pyglove/core/symbolic/{list,dict,object,base}.py performs
   (they differ per mutator); see design/C01.md for the catalogue and the source anchors.                *)
From Coq Require Import ZArith NArith List Bool.
Import ListNotations.
From PG Require Import Model.SymCoreDefs.
Local Open Scope Z_scope.

(* --- scoped overrides: stacks of nested `with` blocks, the innermost (last) one is effective -------- *)
Record scope : Type := mkScope {
  sc_sealed : list (option bool);     (* pg.as_sealed(b | None) *)
  sc_aw : list (option bool);         (* pg.allow_writable_accessors(b | None) *)
  sc_notify : list bool;              (* pg.notify_on_change(b) *)
  sc_partial : list (option bool) }.  (* pg.allow_partial(b | None) *)
Definition innermost {A} (d : A) (l : list A) : A := last l d.
Definition sealed_scope (sc : scope) : option bool := innermost None (sc_sealed sc).
Definition treats_as_sealed (sc : scope) (fl : flags) : bool :=
  match sealed_scope sc with Some b => b | None => f_sealed fl end.
Definition writable_via_accessors (sc : scope) (fl : flags) : bool :=
  match innermost None (sc_aw sc) with Some b => b | None => f_aw fl end.
Definition accepts_partial (sc : scope) (fl : flags) : bool :=
  match innermost None (sc_partial sc) with Some b => b | None => f_partial fl end.
Definition notify_on (sc : scope) : bool := innermost true (sc_notify sc).

(* --- outcomes ------------------------------------------------------------------------------------------ *)
Inductive err : Type := EWrite | EKey | EIndex | EType | EValue | EAssert | EAttr | EOther | ENA.
Inductive ret : Type := RNone | RLeafV (l : leaf) | RPos (p : pos) | RKV (k : key) (r : ret) | RPlain.
Inductive outcome : Type := Ok (r : ret) | Err (e : err).

(* --- values -------------------------------------------------------------------------------------------- *)
Inductive value : Type := VLit (l : lit) | VRef (p : pos) | VIns (v : value).
(* after the references have been resolved against the state the operation starts in: a node is held by identity *)
Inductive rvalue : Type := RLeaf (l : leaf) | RLit (l : lit) | RNodeId (i : N) | RIns (v : rvalue).

Fixpoint resolve (st : state) (v : value) : option rvalue :=
  match v with
  | VLit (LitLeaf l) => Some (RLeaf l)
  | VLit l => if lit_valid l then Some (RLit l) else None
  | VRef p =>
      match get_at st p with
      | Some (Leaf l) => Some (RLeaf l)
      | Some (Node i _ _ _ _ _) => Some (RNodeId i)
      | None => None
      end
  | VIns v' => match resolve st v' with Some r => Some (RIns r) | None => None end
  end.
Fixpoint resolve_all (st : state) (vs : list value) : option (list rvalue) :=
  match vs with
  | [] => Some []
  | v :: r => match resolve st v, resolve_all st r with Some a, Some b => Some (a :: b) | _, _ => None end
  end.
Fixpoint resolve_kvs {K} (st : state) (kvs : list (K * value)) : option (list (K * rvalue)) :=
  match kvs with
  | [] => Some []
  | (k, v) :: r => match resolve st v, resolve_kvs st r with Some a, Some b => Some ((k, a) :: b) | _, _ => None end
  end.

Definition rv_of_item (n : node) : rvalue :=
  match n with Leaf l => RLeaf l | Node i _ _ _ _ _ => RNodeId i end.
Definition is_missing_rv (rv : rvalue) : bool := match rv with RLeaf LMissing => true | _ => false end.
(* `old_value is value` *)
Definition same_obj (old : node) (rv : rvalue) : bool :=
  match old, rv with
  | Leaf a, RLeaf b => leaf_is a b
  | Node i _ _ _ _ _, RNodeId j => N.eqb i j
  | _, _ => false
  end.

(* --- Symbolic._relocate_if_symbolic (after from_json of plain containers) ----------------------------------
   A value that already has a parent is shallow-cloned unless it sits below this very container at this very
   path; a parentless value is adopted (it stops being a root) unless it is the root of the tree it is written
   into, which is cloned as well.  [ins]: List insertion of an element of the same list clones it first.       *)
Definition needs_clone (r : nat) (ck : kind) (cid : N) (tpath : list key) (ins : bool) (vpos : pos) (v : node) : bool :=
  match npar v with
  | Some pid =>
      match ck with
      | KObj _ => true
      | _ => negb (N.eqb pid cid && path_eqb (npth v) tpath) || (ins && N.eqb pid cid)
      end
  | None => Nat.eqb (fst vpos) r && (match snd vpos with [] => true | _ => false end)
  end.

Definition with_next (st : state) (nx : N) : state := mkState (roots st) nx.

(* --- quirk flags: one per open finding, set by the harness from the replay of the finding's witness --------- *)
Record quirks : Type := mkQuirks {
  q_copy_drops_missing : bool   (* C07: copying a pg.List that holds MISSING_VALUE drops those items *)
}.
Definition no_quirks (q : quirks) : Prop := q_copy_drops_missing q = false.

Section WithQuirks.
Variable q : quirks.

Definition formalize (sc : scope) (st : state) (r : nat) (ck : kind) (cid : N) (cfl : flags)
           (tpath : list key) (ins : bool) (rv : rvalue) : node * state :=
  match rv with
  | RLeaf l => (Leaf l, st)
  | RIns _ => (Leaf LJunk, st)
  | RLit l =>
      let '(n, nx) := build (accepts_partial sc cfl) (Some cid) tpath l (next_id st) in (n, with_next st nx)
  | RNodeId i =>
      match locate st i with
      | None => (Leaf LJunk, st)
      | Some vpos =>
          match get_at st vpos with
          | Some v =>
              if needs_clone r ck cid tpath ins vpos v then
                let '(c, cs) := clone_at (q_copy_drops_missing q) false (Some cid) tpath v (next_id st, []) in (c, with_next st (fst cs))
              else
                (set_par (Some cid) (set_path tpath v),
                 match snd vpos with [] => set_root st (fst vpos) (Moved i) | _ => st end)
          | None => (Leaf LJunk, st)
          end
      end
  end.

(* --- the single write primitives: _set_item_without_permission_check ---------------------------------------- *)
Inductive pres : Type := PNone | PUpd | PErr (e : err).

Fixpoint insert_at {A} (n : nat) (x : A) (l : list A) : list A :=
  match n, l with
  | O, _ => x :: l
  | S m, y :: r => y :: insert_at m x r
  | S _, [] => [x]
  end.
Fixpoint remove_nth {A} (n : nat) (l : list A) : list A :=
  match n, l with
  | _, [] => []
  | O, _ :: r => r
  | S m, y :: r => y :: remove_nth m r
  end.
Definition zlen {A} (l : list A) : Z := Z.of_nat (length l).

Definition lprim (sc : scope) (st : state) (cp : pos) (k : key) (rv : rvalue) : state * pres :=
  match get_at st cp with
  | Some (Node cid KList _ cpath cfl its) =>
      match k with
      | KS _ => (st, PErr EAssert)
      | KI z =>
          let n := zlen its in
          if (z >=? n) && is_missing_rv rv then (st, PNone) else
          let idx0 := if z >=? n then n else z in
          let '(ins, v) := match rv with RIns v' => (true, v') | _ => (false, rv) end in
          let idx := if idx0 <? 0 then (if idx0 >=? - n then idx0 + n else if ins then 0 else idx0) else idx0 in
          if (idx <? n) && negb ins then
            if idx <? 0 then (st, PErr EIndex) else
            match nth_error its (Z.to_nat idx) with
            | Some (_, old) =>
                if same_obj old v then (st, PNone) else
                let '(nw, st1) := formalize sc st (fst cp) KList cid cfl (cpath ++ [KI idx]) false v in
                let st2 := update_at st1 cp (set_items (set_nth (Z.to_nat idx) (KI idx, nw) its)) in
                (add_detached st2 old, PUpd)
            | None => (st, PErr EIndex)
            end
          else
            let '(nw, st1) := formalize sc st (fst cp) KList cid cfl (cpath ++ [KI idx]) ins v in
            if idx <? n then
              (update_at st1 cp (set_items (renum cpath (insert_at (Z.to_nat idx) (KI idx, nw) its))), PUpd)
            else
              (update_at st1 cp (set_items (its ++ [(KI idx, nw)])), PUpd)
      end
  | _ => (st, PErr EOther)
  end.

Definition dprim (sc : scope) (st : state) (cp : pos) (k : key) (rv : rvalue) : state * pres :=
  match get_at st cp with
  | Some (Node cid KDict _ cpath cfl its) =>
      let old := match assoc k its with Some o => o | None => Leaf LMissing end in
      if same_obj old rv then (st, PNone) else
      if is_missing_rv rv then
        (* MISSING_VALUE deletes the key *)
        (add_detached (update_at st cp (set_items (remove_assoc k its))) old, PUpd)
      else
        let '(nw, st1) := formalize sc st (fst cp) KDict cid cfl (cpath ++ [k]) false rv in
        (add_detached (update_at st1 cp (set_items (set_assoc k nw its))) old, PUpd)
  | _ => (st, PErr EOther)
  end.

(* pg.Object: keys are the declared fields; MISSING_VALUE restores the default (None) *)
Definition oprim (sc : scope) (st : state) (cp : pos) (k : key) (rv : rvalue) : state * pres :=
  match get_at st cp with
  | Some (Node cid (KObj c) _ cpath cfl its) =>
      match assoc k its with
      | None => if is_missing_rv rv then (st, PNone) else (st, PErr EKey)
      | Some old =>
          if same_obj old rv then (st, PNone) else
          let '(nw, st1) :=
            if is_missing_rv rv then (Leaf LNone, st)
            else formalize sc st (fst cp) (KObj c) cid cfl (cpath ++ [k]) false rv in
          (add_detached (update_at st1 cp (set_items (set_assoc k nw its))) old, PUpd)
      end
  | _ => (st, PErr EOther)
  end.

Definition prim (sc : scope) (st : state) (cp : pos) (k : key) (rv : rvalue) : state * pres :=
  match get_at st cp with
  | Some (Node _ KList _ _ _ _) => lprim sc st cp k rv
  | Some (Node _ KDict _ _ _ _) => dprim sc st cp k rv
  | Some (Node _ (KObj _) _ _ _ _) => oprim sc st cp k rv
  | _ => (st, PErr EOther)
  end.

(* --- change notification, as far as it changes the trees: List._on_change of the written container and of every
   ancestor drops MISSING_VALUE items and re-indexes ---------------------------------------------------------- *)
Definition purge_list (n : node) : node :=
  match n with
  | Node i KList pa pt fl its => Node i KList pa pt fl (renum pt (filter (fun kv => negb (is_missing (snd kv))) its))
  | _ => n
  end.
Fixpoint inits {A} (l : list A) : list (list A) :=
  match l with [] => [[]] | x :: r => [] :: map (cons x) (inits r) end.
Definition prefixes_desc (p : list key) : list (list key) := rev (inits p).
Definition fix_chain (st : state) (ps : pos) : state :=
  fold_left (fun s pre => update_at s (fst ps, pre) purge_list) (prefixes_desc (snd ps)) st.
Definition fix_chains (st : state) (targets : list N) : state :=
  fold_left (fun s i => match locate s i with Some ps => fix_chain s ps | None => s end) targets st.
Definition notified (sc : scope) (st : state) (ps : pos) (p : pres) : state :=
  match p with PUpd => if notify_on sc then fix_chain st ps else st | _ => st end.

(* --- operations ----------------------------------------------------------------------------------------------- *)
Inductive op (V : Type) : Type :=
| LSet (i : Z) (v : V) | LDel (i : Z) | LAppend (v : V) | LInsert (i : Z) (v : V) | LExtend (vs : list V)
| LPop (i : option Z) | LRemove (l : leaf) | LClear | LReverse | LSort (ks : list Z) (rv : bool)
| LIAdd (vs : list V) | LIMul (n : Z) | LAdd (vs : list V) | LMul (n : Z) | LCopy
| DSet (attr : bool) (k : key) (v : V) | DDel (attr : bool) (k : key) | DPop (k : key) (d : option leaf)
| DPopItem | DClear | DSetDefault (k : key) (v : V) | DUpdate (kvs : list (key * V)) | DIOr (kvs : list (key * V)) | DCopy
| OSet (k : key) (v : V)
| Rebind (pvs : list (list key * V)) | Clone (mode : N) | Seal (b : bool) | SetAW (b : bool).
#[global] Arguments LSet {V}. #[global] Arguments LDel {V}. #[global] Arguments LAppend {V}. #[global] Arguments LInsert {V}. #[global] Arguments LExtend {V}.
#[global] Arguments LPop {V}. #[global] Arguments LRemove {V}. #[global] Arguments LClear {V}. #[global] Arguments LReverse {V}. #[global] Arguments LSort {V}.
#[global] Arguments LIAdd {V}. #[global] Arguments LIMul {V}. #[global] Arguments LAdd {V}. #[global] Arguments LMul {V}. #[global] Arguments LCopy {V}.
#[global] Arguments DSet {V}. #[global] Arguments DDel {V}. #[global] Arguments DPop {V}. #[global] Arguments DPopItem {V}. #[global] Arguments DClear {V}.
#[global] Arguments DSetDefault {V}. #[global] Arguments DUpdate {V}. #[global] Arguments DIOr {V}. #[global] Arguments DCopy {V}. #[global] Arguments OSet {V}.
#[global] Arguments Rebind {V}. #[global] Arguments Clone {V}. #[global] Arguments Seal {V}. #[global] Arguments SetAW {V}.

Record sop : Type := mkSop { o_scope : scope; o_pos : pos; o_op : op value }.

Definition resolve_op (st : state) (o : op value) : option (op rvalue) :=
  match o with
  | LSet i v => option_map (LSet i) (resolve st v)
  | LDel i => Some (LDel i)
  | LAppend v => option_map LAppend (resolve st v)
  | LInsert i v => option_map (LInsert i) (resolve st v)
  | LExtend vs => option_map LExtend (resolve_all st vs)
  | LPop i => Some (LPop i)
  | LRemove l => Some (LRemove l)
  | LClear => Some LClear
  | LReverse => Some LReverse
  | LSort ks b => Some (LSort ks b)
  | LIAdd vs => option_map LIAdd (resolve_all st vs)
  | LIMul n => Some (LIMul n)
  | LAdd vs => option_map LAdd (resolve_all st vs)
  | LMul n => Some (LMul n)
  | LCopy => Some LCopy
  | DSet a k v => option_map (DSet a k) (resolve st v)
  | DDel a k => Some (DDel a k)
  | DPop k d => Some (DPop k d)
  | DPopItem => Some DPopItem
  | DClear => Some DClear
  | DSetDefault k v => option_map (DSetDefault k) (resolve st v)
  | DUpdate kvs => option_map DUpdate (resolve_kvs st kvs)
  | DIOr kvs => option_map DIOr (resolve_kvs st kvs)
  | DCopy => Some DCopy
  | OSet k v => option_map (OSet k) (resolve st v)
  | Rebind pvs => option_map Rebind (resolve_kvs st pvs)
  | Clone m => Some (Clone m)
  | Seal b => Some (Seal b)
  | SetAW b => Some (SetAW b)
  end.

Definition kind_ok {V} (k : kind) (o : op V) : bool :=
  match o with
  | LSet _ _ | LDel _ | LAppend _ | LInsert _ _ | LExtend _ | LPop _ | LRemove _ | LClear | LReverse | LSort _ _
  | LIAdd _ | LIMul _ | LAdd _ | LMul _ | LCopy => match k with KList => true | _ => false end
  | DSet _ _ _ | DDel _ _ | DPop _ _ | DPopItem | DClear | DSetDefault _ _ | DUpdate _ | DIOr _ | DCopy =>
      match k with KDict => true | _ => false end
  | OSet _ _ => match k with KObj _ => true | _ => false end
  | _ => true
  end.

(* what the user gets back when a stored item is returned / removed *)
Definition ret_item (st : state) (n : node) : ret :=
  match n with
  | Leaf l => RLeafV l
  | Node i _ _ _ _ _ => match locate st i with Some p => RPos p | None => RPlain end
  end.
Definition cur_len (st : state) (ps : pos) : Z :=
  match get_at st ps with Some n => zlen (nitems n) | None => 0 end.
Definition cur_items (st : state) (ps : pos) : list (key * node) :=
  match get_at st ps with Some n => nitems n | None => [] end.
Definition cur_path (st : state) (ps : pos) : list key :=
  match get_at st ps with Some n => npth n | None => [] end.

(* del l[idx] once the checks have passed: idx is an actual position *)
Definition ldel_core (sc : scope) (st : state) (ps : pos) (idx : nat) : state * ret :=
  let its := cur_items st ps in
  match nth_error its idx with
  | Some (_, old) =>
      let st1 := update_at st ps (set_items (renum (cur_path st ps) (remove_nth idx its))) in
      let st2 := add_detached st1 old in
      let st3 := if notify_on sc then fix_chain st2 ps else st2 in
      (st3, ret_item st3 old)
  | None => (st, RNone)
  end.

(* List.extend once the seal check has passed *)
Fixpoint extend_loop (sc : scope) (st : state) (ps : pos) (rvs : list rvalue) (upd : bool) : state * bool * option err :=
  match rvs with
  | [] => (st, upd, None)
  | rv :: r =>
      match lprim sc st ps (KI (cur_len st ps)) rv with
      | (st', PErr e) => (st', upd, Some e)
      | (st', PUpd) => extend_loop sc st' ps r true
      | (st', PNone) => extend_loop sc st' ps r upd
      end
  end.
Definition extend_core (sc : scope) (st : state) (ps : pos) (rvs : list rvalue) : state * outcome :=
  match extend_loop sc st ps rvs false with
  | (st', _, Some e) => (st', Err e)
  | (st', upd, None) => (if upd && notify_on sc then fix_chain st' ps else st', Ok RNone)
  end.

(* l *= n: the original items are extended n - 1 times *)
Fixpoint repeat_extend (sc : scope) (ps : pos) (rvs : list rvalue) (k : nat) (st : state) : state * outcome :=
  match k with
  | O => (st, Ok RNone)
  | S k' =>
      match extend_core sc st ps rvs with
      | (st', Err e) => (st', Err e)
      | (st', _) => repeat_extend sc ps rvs k' st'
      end
  end.

Definition detach_all (st : state) (its : list (key * node)) : state :=
  fold_left (fun s kv => add_detached s (snd kv)) its st.

(* stable sort of the items by the given keys (Python: sort(key=..., reverse=...)) *)
Fixpoint insert_sorted {A} (le : Z -> Z -> bool) (x : Z * A) (l : list (Z * A)) : list (Z * A) :=
  match l with
  | [] => [x]
  | y :: r => if le (fst x) (fst y) then x :: l else y :: insert_sorted le x r
  end.
Definition stable_sort {A} (rev : bool) (l : list (Z * A)) : list (Z * A) :=
  fold_right (insert_sorted (if rev then Z.geb else Z.leb) ) [] l.
Fixpoint zip_keys {A} (ks : list Z) (l : list A) : list (Z * A) :=
  match l with
  | [] => []
  | x :: r => match ks with [] => (0, x) :: zip_keys [] r | k :: ks' => (k, x) :: zip_keys ks' r end
  end.

(* a fresh pg.List built from items (List(items)): nodes are cloned (they have a parent), MISSING is dropped *)
Definition default_flags : flags := mkFlags false true false 0.
Definition new_list_from (st : state) (its : list (key * node)) : node * state :=
  let '(c, cs) := clone_at (q_copy_drops_missing q) false None [] (Node 0%N KList None [] default_flags its) (next_id st, []) in
  (c, with_next st (fst cs)).

(* --- rebind ------------------------------------------------------------------------------------------------------ *)
Fixpoint pos_digits (fuel : nat) (n : N) (acc : list N) : list N :=
  match fuel with
  | O => acc
  | S f =>
      let acc' := (48 + N.modulo n 10)%N :: acc in
      if N.eqb (N.div n 10) 0 then acc' else pos_digits f (N.div n 10) acc'
  end.
Definition z_str (z : Z) : list N :=
  if z <? 0 then 45%N :: pos_digits 40 (Z.to_N (- z)) [] else pos_digits 40 (Z.to_N z) [].
Definition key_str (k : key) : list N := match k with KS s => s | KI z => z_str z end.
Fixpoint str_ltb (a b : list N) : bool :=
  match a, b with
  | [], [] => false
  | [], _ => true
  | _, [] => false
  | x :: a', y :: b' => if N.eqb x y then str_ltb a' b' else N.ltb x y
  end.
(* KeyPath._KeyComparisonWrapper *)
Definition kw_eqb (a b : key) : bool :=
  match a, b with KI x, KI y => Z.eqb x y | _, _ => list_eqb N.eqb (key_str a) (key_str b) end.
Definition kw_ltb (a b : key) : bool :=
  match a, b with KI x, KI y => Z.ltb x y | _, _ => str_ltb (key_str a) (key_str b) end.
Fixpoint path_ltb (a b : list key) : bool :=
  match a, b with
  | [], [] => false
  | [], _ => true
  | _, [] => false
  | x :: a', y :: b' => if kw_eqb x y then path_ltb a' b' else kw_ltb x y
  end.
Fixpoint insert_desc {A} (x : list key * A) (l : list (list key * A)) : list (list key * A) :=
  match l with
  | [] => [x]
  | y :: r => if path_ltb (fst x) (fst y) then y :: insert_desc x r else x :: l
  end.
Definition sort_desc {A} (l : list (list key * A)) : list (list key * A) := fold_right insert_desc [] l.

(* KeyPath.query from a node: the actual keys (negative list indices resolved) or None = KeyError *)
Fixpoint query_path (n : node) (p : list key) : option (list key) :=
  match p with
  | [] => Some []
  | k :: r =>
      match n with
      | Leaf _ => None
      | Node _ kd _ _ _ its =>
          let k' := match kd, k with
                    | KList, KI z => if (- zlen its <=? z) && (z <? 0) then KI (z + zlen its) else k
                    | _, _ => k
                    end in
          match kd, k with
          | KList, KS _ => None
          | _, _ =>
              match assoc k' its with
              | Some c => match query_path c r with Some q => Some (k' :: q) | None => None end
              | None => None
              end
          end
      end
  end.

(* one (path, value) of a rebind: Symbolic._set_item_of_current_tree *)
Definition rebind_one (sc : scope) (st : state) (tp : pos) (path : list key) (rv : rvalue) : state * pres * option N :=
  match path with
  | [] => (st, PErr EKey, None)
  | _ =>
      match get_at st tp with
      | Some tgt =>
          match query_path tgt (removelast path) with
          | None => (st, PErr EKey, None)
          | Some app =>
              let cp := (fst tp, snd tp ++ app) in
              match get_at st cp with
              | Some (Node cid _ _ _ cfl _) =>
                  if treats_as_sealed sc cfl then (st, PErr EWrite, None)
                  else let '(st', p) := prim sc st cp (last path (KI 0)) rv in (st', p, Some cid)
              | _ => (st, PErr EKey, None)
              end
          end
      | None => (st, PErr EOther, None)
      end
  end.
Fixpoint rebind_loop (sc : scope) (st : state) (tp : pos) (pvs : list (list key * rvalue)) (upd : list N)
  : state * list N * option err :=
  match pvs with
  | [] => (st, upd, None)
  | (p, rv) :: r =>
      match rebind_one sc st tp p rv with
      | (st', PErr e, _) => (st', upd, Some e)
      | (st', PUpd, Some cid) => rebind_loop sc st' tp r (upd ++ [cid])
      | (st', _, _) => rebind_loop sc st' tp r upd
      end
  end.
Definition rebind_core (sc : scope) (st : state) (tp : pos) (tk : kind) (pvs : list (list key * rvalue)) (notify : bool)
  : state * outcome :=
  let ordered := match tk with KList => sort_desc pvs | _ => pvs end in
  match rebind_loop sc st tp ordered [] with
  | (st', _, Some e) => (st', Err e)
  | (st', upd, None) => (if notify then fix_chains st' upd else st', Ok RNone)
  end.

(* what setdefault hands back: the `default` argument object itself *)
Definition ret_of_rv (st : state) (stored : pos) (rv : rvalue) : ret :=
  match rv with
  | RLeaf l => RLeafV l
  | RLit (LitNode _ _ true _) => RPlain
  | RLit _ => RPos stored
  | RNodeId i => match locate st i with Some p => RPos p | None => RPlain end
  | RIns _ => RLeafV LJunk
  end.

Fixpoint repeat_list {A} (n : nat) (l : list A) : list A :=
  match n with O => [] | S m => l ++ repeat_list m l end.

(* clear(): every item is removed; notified (when anything was removed) like any other change *)
Definition clear_core (sc : scope) (st : state) (ps : pos) (its : list (key * node)) : state :=
  let st1 := detach_all (update_at st ps (set_items [])) its in
  match its with
  | [] => st1
  | _ => if notify_on sc then fix_chain st1 ps else st1
  end.
(* reverse() / sort(): the items are permuted and re-indexed; notified when some position holds another object *)
Definition same_item (a b : node) : bool :=
  match a, b with
  | Leaf x, Leaf y => leaf_is x y
  | Node i _ _ _ _ _, Node j _ _ _ _ _ => N.eqb i j
  | _, _ => false
  end.
Fixpoint all_same (a b : list (key * node)) : bool :=
  match a, b with
  | x :: a', y :: b' => same_item (snd x) (snd y) && all_same a' b'
  | _, _ => true
  end.
Definition reorder_core (sc : scope) (st : state) (ps : pos) (tpth : list key) (its its' : list (key * node)) : state :=
  let st1 := update_at st ps (set_items (renum tpth its')) in
  if negb (all_same its its') && notify_on sc then fix_chain st1 ps else st1.

(* --- one step --------------------------------------------------------------------------------------------------------- *)
Definition find_index {A} (f : A -> bool) (l : list A) : option nat :=
  (fix go (l : list A) (i : nat) : option nat :=
     match l with [] => None | x :: r => if f x then Some i else go r (S i) end) l O.

Definition exec (sc : scope) (st : state) (ps : pos) (tid : N) (tk : kind) (tpth : list key) (tfl : flags)
           (its : list (key * node)) (o : op rvalue) : state * outcome :=
  let sl := treats_as_sealed sc tfl in
  let aw := writable_via_accessors sc tfl in
  let n := zlen its in
  match o with
  | LSet i rv =>
      if sl then (st, Err EWrite) else if negb aw then (st, Err EWrite) else
      if (i <? - n) || (i >=? n) then (st, Err EIndex) else
      match lprim sc st ps (KI i) rv with
      | (st', PErr e) => (st', Err e)
      | (st', p) => (notified sc st' ps p, Ok RNone)
      end
  | LDel i =>
      if sl then (st, Err EWrite) else if negb aw then (st, Err EWrite) else
      if (i <? - n) || (i >=? n) then (st, Err EIndex) else
      (fst (ldel_core sc st ps (Z.to_nat (if i <? 0 then i + n else i))), Ok RNone)
  | LAppend rv =>
      if sl then (st, Err EWrite) else
      match lprim sc st ps (KI n) rv with
      | (st', PErr e) => (st', Err e)
      | (st', p) => (notified sc st' ps p, Ok RNone)
      end
  | LInsert i rv =>
      if sl then (st, Err EWrite) else
      match lprim sc st ps (KI i) (RIns rv) with
      | (st', PErr e) => (st', Err e)
      | (st', p) => (notified sc st' ps p, Ok RNone)
      end
  | LExtend rvs | LIAdd rvs =>
      if sl then (st, Err EWrite) else extend_core sc st ps rvs
  | LPop oi =>
      let i := match oi with Some i => i | None => -1 end in
      if (i <? - n) || (i >=? n) then (st, Err EIndex) else
      if sl then (st, Err EWrite) else
      let '(st', r) := ldel_core sc st ps (Z.to_nat ((i + n) mod n)) in (st', Ok r)
  | LRemove l =>
      match find_index (fun kv => match snd kv with Leaf x => leaf_pyeq x l | _ => false end) its with
      | None => (st, Err EValue)
      | Some idx =>
          if sl then (st, Err EWrite) else if negb aw then (st, Err EWrite) else
          (fst (ldel_core sc st ps idx), Ok RNone)
      end
  | LClear =>
      if sl then (st, Err EWrite) else (clear_core sc st ps its, Ok RNone)
  | LReverse =>
      if sl then (st, Err EWrite) else (reorder_core sc st ps tpth its (rev its), Ok RNone)
  | LSort ks rv =>
      if sl then (st, Err EWrite) else
      (reorder_core sc st ps tpth its (map snd (stable_sort rv (zip_keys ks its))), Ok RNone)
  | LIMul m =>
      if sl then (st, Err EWrite) else
      if m <=? 0 then (clear_core sc st ps its, Ok RNone)
      else
        (* one extend with the original items repeated m - 1 times: one notification *)
        extend_core sc st ps (repeat_list (Z.to_nat (m - 1)) (map (fun kv => rv_of_item (snd kv)) its))
  | LAdd rvs =>
      (* self.copy() then extend on the copy: the copy is unsealed, so only as_sealed(True) refuses *)
      if treats_as_sealed sc default_flags then (st, Err EWrite) else
      let '(c, st1) := new_list_from st its in
      let ri := length (roots st1) in
      match extend_core sc (add_root st1 c) (ri, []) rvs with
      | (st', Err e) => (st', Err e)
      | (st', _) => (st', Ok (RPos (ri, [])))
      end
  | LMul m =>
      if (m >=? 1) && treats_as_sealed sc default_flags then (st, Err EWrite) else
      let '(c, st1) := new_list_from st [] in
      let ri := length (roots st1) in
      let rvs := repeat_list (Z.to_nat m) (map (fun kv => rv_of_item (snd kv)) its) in
      match extend_loop sc (add_root st1 c) (ri, []) rvs false with
      | (st', _, Some e) => (st', Err e)
      | (st', _, None) => (st', Ok (RPos (ri, [])))
      end
  | LCopy =>
      let '(c, st1) := new_list_from st its in
      (add_root st1 c, Ok (RPos (length (roots st1), [])))
  | DSet _ k rv =>
      if sl then (st, Err EWrite) else if negb aw then (st, Err EWrite) else
      match dprim sc st ps k rv with
      | (st', PErr e) => (st', Err e)
      | (st', p) => (notified sc st' ps p, Ok RNone)
      end
  | DDel _ k =>
      if sl then (st, Err EWrite) else if negb aw then (st, Err EWrite) else
      if negb (has_key k its) then (st, Err EKey) else
      match dprim sc st ps k (RLeaf LMissing) with
      | (st', PErr e) => (st', Err e)
      | (st', p) => (notified sc st' ps p, Ok RNone)
      end
  | DPop k d =>
      match assoc k its with
      | Some old =>
          if sl then (st, Err EWrite) else
          match dprim sc st ps k (RLeaf LMissing) with
          | (st', PErr e) => (st', Err e)
          | (st', p) => let st'' := notified sc st' ps p in (st'', Ok (ret_item st'' old))
          end
      | None => match d with Some l => (st, Ok (RLeafV l)) | None => (st, Err EKey) end
      end
  | DPopItem =>
      if sl then (st, Err EWrite) else
      match rev its with
      | [] => (st, Err EKey)
      | (k, old) :: _ =>
          let st1 := add_detached (update_at st ps (set_items (removelast its))) old in
          let st2 := if notify_on sc then fix_chain st1 ps else st1 in
          (st2, Ok (RKV k (ret_item st2 old)))
      end
  | DClear =>
      if sl then (st, Err EWrite) else (clear_core sc st ps its, Ok RNone)
  | DSetDefault k rv =>
      match assoc k its with
      | Some old =>
          if is_missing old then
            if sl then (st, Err EWrite) else if negb aw then (st, Err EWrite) else
            match dprim sc st ps k rv with
            | (st', PErr e) => (st', Err e)
            | (st', p) => let st'' := notified sc st' ps p in (st'', Ok (ret_of_rv st'' (fst ps, snd ps ++ [k]) rv))
            end
          else (st, Ok (ret_item st old))
      | None =>
          if sl then (st, Err EWrite) else if negb aw then (st, Err EWrite) else
          match dprim sc st ps k rv with
          | (st', PErr e) => (st', Err e)
          | (st', p) => let st'' := notified sc st' ps p in (st'', Ok (ret_of_rv st'' (fst ps, snd ps ++ [k]) rv))
          end
      end
  | DUpdate kvs | DIOr kvs =>
      rebind_core sc st ps tk (map (fun kv => ([fst kv], snd kv)) kvs) false
  | DCopy =>
      let '(c, cs) := clone_at (q_copy_drops_missing q) false None [] (Node tid tk None [] tfl its) (next_id st, []) in
      let st1 := with_next st (fst cs) in
      (add_root st1 c, Ok (RPos (length (roots st1), [])))
  | OSet k rv =>
      match tk with
      | KObj c =>
          if negb (existsb (key_eqb k) (class_fields c)) then (st, Ok RNone)   (* a plain Python attribute *)
          else if sl then (st, Err EWrite) else if negb aw then (st, Err EWrite) else
          match oprim sc st ps k rv with
          | (st', PErr e) => (st', Err e)
          | (st', p) => (notified sc st' ps p, Ok RNone)
          end
      | _ => (st, Err ENA)
      end
  | Rebind pvs =>
      match pvs with
      | [] => (st, Err EValue)
      | _ =>
          if (match tk with KObj _ => sl | _ => false end) then (st, Err EWrite)
          else rebind_core sc st ps tk pvs (notify_on sc)
      end
  | Clone m =>
      let deep := N.eqb m 1 || N.eqb m 3 in
      let '(c, cs) := clone_at (q_copy_drops_missing q) deep None [] (Node tid tk None [] tfl its) (next_id st, []) in
      let st1 := with_next st (fst cs) in
      (add_root st1 c, Ok (RPos (length (roots st1), [])))
  | Seal b => (update_at st ps (seal_rec b), Ok RNone)
  | SetAW b => (update_at st ps (set_flags (fun f => mkFlags (f_sealed f) b (f_partial f) (f_spec f))), Ok RNone)
  end.

(* End of a step: what the user cannot hold is not a root.  Among the slots created by this step, one whose
   object was moved into a tree again disappears, and so does a value that the step itself created and removed
   again (the results of copying operations are of course kept). *)
Definition is_result_op {V} (o : op V) : bool :=
  match o with LAdd _ | LMul _ | LCopy | DCopy | Clone _ => true | _ => false end.
Fixpoint gc_slots (base : N) (keep_fresh : bool) (rs : list slot) : list slot :=
  match rs with
  | [] => []
  | Moved _ :: r => gc_slots base keep_fresh r
  | Live t :: r =>
      if negb keep_fresh && (match nid t with Some i => N.leb base i | None => false end)
      then gc_slots base keep_fresh r
      else Live t :: gc_slots base keep_fresh r
  end.
Definition gc (old_len : nat) (base : N) (keep_fresh : bool) (st : state) : state :=
  mkState (firstn old_len (roots st) ++ gc_slots base keep_fresh (skipn old_len (roots st))) (next_id st).

Definition step (st : state) (o : sop) : state * outcome :=
  match get_at st (o_pos o) with
  | Some (Node tid tk _ tpth tfl its) =>
      if negb (kind_ok tk (o_op o)) then (st, Err ENA) else
      match resolve_op st (o_op o) with
      | None => (st, Err ENA)
      | Some ro =>
          let '(st', out) := exec (o_scope o) st (o_pos o) tid tk tpth tfl its ro in
          (gc (length (roots st)) (next_id st) (is_result_op ro) st', out)
      end
  | _ => (st, Err ENA)
  end.

Definition stepS (st : state) (o : sop) : state := fst (step st o).
Definition run_ops (st : state) (ops : list sop) : state := fold_left stepS ops st.
End WithQuirks.

(* the initial forest: every literal is a constructed value (built outside any scope) *)
Fixpoint init_forest (ls : list lit) (st : state) : state :=
  match ls with
  | [] => st
  | l :: r =>
      match l with
      | LitLeaf _ => init_forest r st
      | _ => let '(n, nx) := build false None [] l (next_id st) in init_forest r (add_root (with_next st nx) n)
      end
  end.
Definition empty_state : state := mkState [] 1%N.

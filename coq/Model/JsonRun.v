(* JsonRun.v — the single entry point of the C05 models for the generic runner:
   (0 json-case) | (1 memfs-case) | (2 memseq-case) | (3 text-case) | (4 options-case). *)
From Coq Require Import ZArith List.
Import ListNotations.
From PG Require Import Common.Tr Model.Json Model.JsonText Model.JsonOpts Model.MemFS Model.MemSeq.
Local Open Scope Z_scope.

(* the text layer with finite floats left out: they are never printed by the cases of kinds 7 and 8 *)
Definition no_float_repr (m e : Z) : str := [].
Definition no_float_tok (t : str) : option fl := None.
(* (3 (qbits classtab 7 pv))  -> the text of to_json_str           (string as code points)
   (3 (qbits classtab 8 text)) -> from_json_str(text)               (result) *)
Definition run_text (c : tr) : tr :=
  match c with
  | L [qb; ctb; I kind; payload] =>
      match d_quirks qb, d_classtab ctb with
      | Some q, Some ct =>
          match kind with
          | 7 => match d_pv payload with
                 | Some v => estr (to_str str (dumps no_float_repr []) v)
                 | None => ebad
                 end
          | 8 => match dstr payload with
                 | Some t => e_result e_pv (of_str str (loads no_float_tok) q ct t)
                 | None => ebad
                 end
          | _ => ebad
          end
      | _, _ => ebad
      end
  | _ => ebad
  end.

Definition run (c : tr) : tr :=
  match c with
  | L [I 0; x] => run_json x
  | L [I 1; x] => run_memfs x
  | L [I 2; x] => run_memseq x
  | L [I 3; x] => run_text x
  | L [I 4; x] => run_opts x
  | _ => ebad
  end.

(* JsonRun.v — the single entry point of the C05 models for the generic runner:
   (0 json-case) | (1 memfs-case) | (2 memseq-case). *)
From Coq Require Import ZArith List.
Import ListNotations.
From PG Require Import Common.Tr Model.Json Model.MemFS Model.MemSeq.
Local Open Scope Z_scope.

Definition run (c : tr) : tr :=
  match c with
  | L [I 0; x] => run_json x
  | L [I 1; x] => run_memfs x
  | L [I 2; x] => run_memseq x
  | _ => ebad
  end.

(* SchedDisc.v — the decidable discipline on a program set: a small static analysis (per program counter, facts about
   the executing thread that hold whenever it is there) plus the local requirements of every act.  Definitions only;
   that [disciplined ps = true] implies the invariants for every schedule is proved in Proofs/SchedSound.v. *)
From Coq Require Import ZArith List Bool Arith.
Import ListNotations.
From PG Require Import Model.Sched.

Definition lockref_eqb (a b : lockref) : bool :=
  match a, b with LReg, LReg | LStudy, LStudy | LAlgo, LAlgo => true | _, _ => false end.
Definition holds (l : lockref) (ls : list lockref) : bool := existsb (lockref_eqb l) ls.

Definition var_eqb (a b : var) : bool :=
  match a, b with
  | VRegistry, VRegistry | VTrials, VTrials | VCntPend, VCntPend | VCntComp, VCntComp | VCntInf, VCntInf | VBest, VBest | VLatest, VLatest
  | VActive, VActive | VLastUpdate, VLastUpdate | VTStatus, VTStatus | VTInf, VTInf | VTFinal, VTFinal | VTMeas, VTMeas | VTMeta, VTMeta
  | VASpec, VASpec | VANumProp, VANumProp | VANumFeed, VANumFeed | VEPending, VEPending | VEInit, VEInit | VEPop, VEPop | VEGen, VEGen
  | VEInitGen, VEInitGen | VEConf, VEConf | VELock, VELock | VDna, VDna => true
  | _, _ => false
  end.
Definition subset (a b : list var) : bool := forallb (fun x => existsb (var_eqb x) b) a.
Definition seteq (a b : list var) : bool := subset a b && subset b a.

(* ---- the syntactic part: footprints and protected writes ------------------------------------------------- *)
(* the reads/writes the translator derived from the AST must be the declared footprint of the effect it named
   (ERead: a statement without modelled effect that reads; any reads, no writes) *)
Definition footprint_ok (a : act) : bool :=
  match a with
  | Stmt rd wr ERead => match wr with [] => true | _ => false end
  | Stmt rd wr e => seteq rd (eff_reads e) && seteq wr (eff_writes e)
  | Branch rd cn _ => seteq rd (cond_reads cn)
  | _ => true
  end.

(* which lock must be held to WRITE a variable (a list: any one of them) ; [] = not lock protected *)
Definition write_guard (v : var) : list lockref :=
  match v with
  | VRegistry | VASpec | VEConf | VELock => [LReg]
  | VTrials | VCntPend | VCntComp | VCntInf | VBest | VLatest | VLastUpdate | VTStatus => [LStudy]
  | VANumProp => [LStudy; LReg]
  | VEPending | VEInit | VEPop | VEGen | VEInitGen => [LAlgo; LReg]
  | VActive | VTInf | VTFinal | VTMeas | VTMeta | VANumFeed | VDna => []
  end.
(* ... and to READ it inside a statement that also decides on it: the evolution state is read only under its lock *)
Definition read_guard (v : var) : list lockref :=
  match v with
  | VEPending | VEInit | VEPop => [LAlgo; LReg]
  | VRegistry => [LReg]
  | VTrials | VBest | VCntPend | VCntComp | VCntInf => [LStudy]
  | _ => []
  end.
Definition guarded (gd : list lockref) (ls : list lockref) : bool :=
  match gd with [] => true | _ => existsb (fun l => holds l ls) gd end.

(* ---- abstract state ---------------------------------------------------------------------------------------- *)
Record astate := {
  a_ok : bool;                 (* false: two paths with different locks / debts meet here *)
  a_locks : list lockref;      (* the `with` blocks around this point, innermost first *)
  f_regmiss : bool;            (* under LReg: the name is not registered *)
  f_idfresh : bool;            (* under LStudy: r_id = number of trials + 1 *)
  f_room : bool;               (* under LStudy: number of trials < max *)
  f_gotlat : bool;             (* under LStudy: r_trial = latest trial of my group *)
  f_latdone : bool;            (* under LStudy: the latest trial of my group is absent or completed *)
  f_curpend : bool;            (* under LStudy: my feedback's trial is pending *)
  f_bestfresh : bool;          (* under LStudy: r_best = the study's best trial *)
  f_better : bool;             (* under LStudy: CBestBetter just came out true *)
  f_hasmeas : bool;            (* my feedback's trial has a measurement *)
  f_mine : bool;               (* r_trial, if any, is a trial of my group *)
  f_own : bool;                (* I completed my feedback's trial and its accounting is not finished (g_own = r_cur) *)
  f_inf : option bool;         (* owner's knowledge of trial.infeasible *)
  f_final : bool;              (* owner's knowledge: final_measurement is set *)
  f_reward : bool;             (* r_reward is not None; it is the final measurement of my feedback's trial, which I completed *)
  d_reg : bool; d_ip : bool; d_lat : bool; d_cc : bool; d_dp : bool; d_inf : bool; d_fb : bool; d_best : bool;   (* the ghost debts, exactly *)
  f_spec : bool;               (* the algorithm is set up: DNASpec stored and both counter resets done (monotone) *)
  f_specnone : bool;           (* under LReg: the algorithm has no DNASpec yet *)
  d_rnp : bool; d_rnf : bool;  (* setup started here: `_num_proposals = 0` / `_num_feedbacks = 0` still to come *)
  d_np : bool                  (* a proposal was counted whose trial is not yet appended *)
}.

Definition a0 : astate :=
  {| a_ok := true; a_locks := []; f_regmiss := false; f_idfresh := false; f_room := false; f_gotlat := false; f_latdone := false; f_curpend := false;
     f_bestfresh := false; f_better := false; f_hasmeas := false; f_mine := false; f_own := false; f_inf := None; f_final := false; f_reward := false;
     d_reg := false; d_ip := false; d_lat := false; d_cc := false; d_dp := false; d_inf := false; d_fb := false; d_best := false;
     f_spec := false; f_specnone := false; d_rnp := false; d_rnf := false; d_np := false |}.

Definition no_debt (a : astate) : bool :=
  negb (d_reg a) && negb (d_ip a) && negb (d_lat a) && negb (d_cc a) && negb (d_dp a) && negb (d_inf a) && negb (d_fb a) && negb (d_best a) &&
  negb (d_rnp a) && negb (d_rnf a) && negb (d_np a).

(* generic record rebuilders *)
Definition with_locks (ls : list lockref) (a : astate) : astate :=
  {| a_ok := a_ok a; a_locks := ls; f_regmiss := f_regmiss a && holds LReg ls;
     f_idfresh := f_idfresh a && holds LStudy ls; f_room := f_room a && holds LStudy ls; f_gotlat := f_gotlat a && holds LStudy ls;
     f_latdone := f_latdone a && holds LStudy ls; f_curpend := f_curpend a && holds LStudy ls; f_bestfresh := f_bestfresh a && holds LStudy ls;
     f_better := f_better a && holds LStudy ls;
     f_hasmeas := f_hasmeas a; f_mine := f_mine a; f_own := f_own a; f_inf := f_inf a; f_final := f_final a; f_reward := f_reward a;
     d_reg := d_reg a; d_ip := d_ip a; d_lat := d_lat a; d_cc := d_cc a; d_dp := d_dp a; d_inf := d_inf a; d_fb := d_fb a; d_best := d_best a;
     f_spec := f_spec a; f_specnone := f_specnone a && holds LReg ls; d_rnp := d_rnp a; d_rnf := d_rnf a; d_np := d_np a |}.

Definition set_study_facts (idf room gotlat latdone curpend bestfresh better : bool) (a : astate) : astate :=
  {| a_ok := a_ok a; a_locks := a_locks a; f_regmiss := f_regmiss a;
     f_idfresh := idf; f_room := room; f_gotlat := gotlat; f_latdone := latdone; f_curpend := curpend; f_bestfresh := bestfresh; f_better := better;
     f_hasmeas := f_hasmeas a; f_mine := f_mine a; f_own := f_own a; f_inf := f_inf a; f_final := f_final a; f_reward := f_reward a;
     d_reg := d_reg a; d_ip := d_ip a; d_lat := d_lat a; d_cc := d_cc a; d_dp := d_dp a; d_inf := d_inf a; d_fb := d_fb a; d_best := d_best a;
     f_spec := f_spec a; f_specnone := f_specnone a; d_rnp := d_rnp a; d_rnf := d_rnf a; d_np := d_np a |}.

Definition set_cur_facts (hasmeas own : bool) (inf : option bool) (final : bool) (a : astate) : astate :=
  {| a_ok := a_ok a; a_locks := a_locks a; f_regmiss := f_regmiss a;
     f_idfresh := f_idfresh a; f_room := f_room a; f_gotlat := f_gotlat a; f_latdone := f_latdone a; f_curpend := f_curpend a; f_bestfresh := f_bestfresh a;
     f_better := f_better a;
     f_hasmeas := hasmeas; f_mine := f_mine a; f_own := own; f_inf := inf; f_final := final; f_reward := f_reward a;
     d_reg := d_reg a; d_ip := d_ip a; d_lat := d_lat a; d_cc := d_cc a; d_dp := d_dp a; d_inf := d_inf a; d_fb := d_fb a; d_best := d_best a;
     f_spec := f_spec a; f_specnone := f_specnone a; d_rnp := d_rnp a; d_rnf := d_rnf a; d_np := d_np a |}.

Definition set_misc (regmiss mine reward : bool) (a : astate) : astate :=
  {| a_ok := a_ok a; a_locks := a_locks a; f_regmiss := regmiss;
     f_idfresh := f_idfresh a; f_room := f_room a; f_gotlat := f_gotlat a; f_latdone := f_latdone a; f_curpend := f_curpend a; f_bestfresh := f_bestfresh a;
     f_better := f_better a;
     f_hasmeas := f_hasmeas a; f_mine := mine; f_own := f_own a; f_inf := f_inf a; f_final := f_final a; f_reward := reward;
     d_reg := d_reg a; d_ip := d_ip a; d_lat := d_lat a; d_cc := d_cc a; d_dp := d_dp a; d_inf := d_inf a; d_fb := d_fb a; d_best := d_best a;
     f_spec := f_spec a; f_specnone := f_specnone a; d_rnp := d_rnp a; d_rnf := d_rnf a; d_np := d_np a |}.

Definition set_alg_facts (spec specnone rnp rnf np : bool) (a : astate) : astate :=
  {| a_ok := a_ok a; a_locks := a_locks a; f_regmiss := f_regmiss a;
     f_idfresh := f_idfresh a; f_room := f_room a; f_gotlat := f_gotlat a; f_latdone := f_latdone a; f_curpend := f_curpend a; f_bestfresh := f_bestfresh a;
     f_better := f_better a;
     f_hasmeas := f_hasmeas a; f_mine := f_mine a; f_own := f_own a; f_inf := f_inf a; f_final := f_final a; f_reward := f_reward a;
     d_reg := d_reg a; d_ip := d_ip a; d_lat := d_lat a; d_cc := d_cc a; d_dp := d_dp a; d_inf := d_inf a; d_fb := d_fb a; d_best := d_best a;
     f_spec := spec; f_specnone := specnone; d_rnp := rnp; d_rnf := rnf; d_np := np |}.

Definition set_debts (reg ip lat cc dp inf fb best : bool) (a : astate) : astate :=
  {| a_ok := a_ok a; a_locks := a_locks a; f_regmiss := f_regmiss a;
     f_idfresh := f_idfresh a; f_room := f_room a; f_gotlat := f_gotlat a; f_latdone := f_latdone a; f_curpend := f_curpend a; f_bestfresh := f_bestfresh a;
     f_better := f_better a;
     f_hasmeas := f_hasmeas a; f_mine := f_mine a; f_own := f_own a; f_inf := f_inf a; f_final := f_final a; f_reward := f_reward a;
     d_reg := reg; d_ip := ip; d_lat := lat; d_cc := cc; d_dp := dp; d_inf := inf; d_fb := fb; d_best := best;
     f_spec := f_spec a; f_specnone := f_specnone a; d_rnp := d_rnp a; d_rnf := d_rnf a; d_np := d_np a |}.

(* the facts at the entry of a program: only the constructor (init = true) may run before the algorithm is set up *)
Definition a0e (init : bool) : astate := set_alg_facts (negb init) false false false false a0.

(* ---- transfer functions -------------------------------------------------------------------------------------- *)
Definition inf_is (o : option bool) (v : bool) : bool := match o with Some x => Bool.eqb x v | None => false end.
Definition cur_debts (a : astate) : bool := d_cc a || d_dp a || d_inf a || d_fb a || d_best a.

(* what an effect requires of the facts at its program point *)
Definition req_eff (e : effect) (a : astate) : bool :=
  let L := holds LStudy (a_locks a) in
  let R := holds LReg (a_locks a) in
  match e with
  | ENewStudy => R && f_regmiss a && negb L && no_debt a
  | ERegister => R && d_reg a && f_regmiss a
  | EGetLatest => negb (d_lat a)
  | EAppend => L && f_idfresh a && f_room a && negb (d_ip a) && negb (d_lat a) && f_latdone a && f_spec a && d_np a
  | EIncPend => d_ip a
  | ESetLatest => L && d_lat a && f_latdone a
  | ESetCur => negb (cur_debts a) && f_mine a
  | ESetCompleted => L && f_curpend a && negb (cur_debts a)
  | ESetFinalLast => f_own a && f_hasmeas a && (d_best a || inf_is (f_inf a) true) && negb (f_better a) && (d_fb a || inf_is (f_inf a) true)
  | ESetFinalZero => f_own a && (d_best a || inf_is (f_inf a) true) && negb (f_better a) && (d_fb a || inf_is (f_inf a) true)
  | ESetInf => f_own a && d_fb a && d_best a && inf_is (f_inf a) false && negb (d_inf a)
  | EIncNF => f_own a && d_fb a && inf_is (f_inf a) false && f_spec a && f_reward a
  | ESetSpec => R && f_specnone a && negb (d_rnp a) && negb (d_rnf a)
  | EResetNP => R && d_rnp a
  | EResetNF => R && d_rnf a
  | EIncNP => f_spec a && negb (d_np a)
  | EIncComp => d_cc a
  | EDecPend => d_dp a
  | EIncInf => d_inf a
  | ESetBest => L && f_bestfresh a && f_better a && d_best a && f_own a && inf_is (f_inf a) false && f_final a
  | _ => true
  end.

Definition post_eff (e : effect) (a : astate) : astate :=
  let L := holds LStudy (a_locks a) in
  match e with
  | ENewStudy => set_debts true (d_ip a) (d_lat a) (d_cc a) (d_dp a) (d_inf a) (d_fb a) (d_best a) a
  | ERegister => set_misc false (f_mine a) (f_reward a) (set_debts false (d_ip a) (d_lat a) (d_cc a) (d_dp a) (d_inf a) (d_fb a) (d_best a) a)
  | EGetLatest => set_misc (f_regmiss a) true (f_reward a)
                    (set_study_facts (f_idfresh a) (f_room a) L (f_latdone a) (f_curpend a) (f_bestfresh a) (f_better a) a)
  | EReadId => set_study_facts L (f_room a) (f_gotlat a) (f_latdone a) (f_curpend a) (f_bestfresh a) (f_better a) a
  | EAppend => set_alg_facts (f_spec a) (f_specnone a) (d_rnp a) (d_rnf a) false (set_misc (f_regmiss a) true (f_reward a)
                 (set_debts (d_reg a) true true (d_cc a) (d_dp a) (d_inf a) (d_fb a) (d_best a)
                    (set_study_facts false false false (f_latdone a) (f_curpend a) (f_bestfresh a) (f_better a) a)))
  | EIncPend => set_debts (d_reg a) false (d_lat a) (d_cc a) (d_dp a) (d_inf a) (d_fb a) (d_best a) a
  | ESetLatest => set_debts (d_reg a) (d_ip a) false (d_cc a) (d_dp a) (d_inf a) (d_fb a) (d_best a)
                    (set_study_facts (f_idfresh a) (f_room a) false false (f_curpend a) (f_bestfresh a) (f_better a) a)
  | ESetCur => set_misc (f_regmiss a) (f_mine a) false (set_cur_facts false false None false
                 (set_study_facts (f_idfresh a) (f_room a) (f_gotlat a) (f_latdone a) false (f_bestfresh a) false a))
  | ESetCompleted => set_debts (d_reg a) (d_ip a) (d_lat a) true true (d_inf a) true true
                       (set_cur_facts (f_hasmeas a) true (Some false) false
                          (set_study_facts (f_idfresh a) (f_room a) (f_gotlat a) (f_latdone a) false (f_bestfresh a) (f_better a) a))
  | ESetFinalLast | ESetFinalZero => set_misc (f_regmiss a) (f_mine a) false (set_cur_facts (f_hasmeas a) (f_own a) (f_inf a) true a)
  | ESetInf => set_debts (d_reg a) (d_ip a) (d_lat a) (d_cc a) (d_dp a) true false false (set_cur_facts (f_hasmeas a) (f_own a) (Some true) (f_final a) a)
  | EComputeReward => set_misc (f_regmiss a) (f_mine a) (f_own a && inf_is (f_inf a) false && f_final a) a
  | EIncNF => set_debts (d_reg a) (d_ip a) (d_lat a) (d_cc a) (d_dp a) (d_inf a) false (d_best a) a
  | ESetSpec => set_alg_facts false false true true (d_np a) a
  | EResetNP => set_alg_facts (holds LReg (a_locks a) && negb (d_rnf a)) (f_specnone a) false (d_rnf a) (d_np a) a
  | EResetNF => set_alg_facts (holds LReg (a_locks a) && negb (d_rnp a)) (f_specnone a) (d_rnp a) false (d_np a) a
  | EIncNP => set_alg_facts (f_spec a) (f_specnone a) (d_rnp a) (d_rnf a) true a
  | EIncComp => set_debts (d_reg a) (d_ip a) (d_lat a) false (d_dp a) (d_inf a) (d_fb a) (d_best a) a
  | EDecPend => set_debts (d_reg a) (d_ip a) (d_lat a) (d_cc a) false (d_inf a) (d_fb a) (d_best a) a
  | EIncInf => set_debts (d_reg a) (d_ip a) (d_lat a) (d_cc a) (d_dp a) false (d_fb a) (d_best a) a
  | EReadBest => set_study_facts (f_idfresh a) (f_room a) (f_gotlat a) (f_latdone a) (f_curpend a) L false a
  | ESetBest => set_debts (d_reg a) (d_ip a) (d_lat a) (d_cc a) (d_dp a) (d_inf a) (d_fb a) false
                  (set_study_facts (f_idfresh a) (f_room a) (f_gotlat a) (f_latdone a) (f_curpend a) false false a)
  | _ => a
  end.

(* branch outcome known from the facts (b: the partition, i.e. the value of r_ret) *)
Definition static_cond (b : bool) (a : astate) (cn : cond) : option bool :=
  match cn with
  | CConst v => Some v
  | CRetTrue => Some b
  | CRetFalse => Some (negb b)
  | CInfeasible => if f_own a then f_inf a else None
  | CRewardSome => if f_reward a then Some true else None
  | _ => None
  end.

Definition req_br (cn : cond) (a : astate) : bool :=
  match cn with
  | CBestBetter => implb (d_best a) (f_bestfresh a && f_own a && inf_is (f_inf a) false && f_final a)
  | _ => true
  end.

Definition post_br (cn : cond) (v : bool) (a : astate) : astate :=
  let L := holds LStudy (a_locks a) in
  let R := holds LReg (a_locks a) in
  match cn, v with
  | CRegMissing, true => set_misc R (f_mine a) (f_reward a) a
  | CRegMissing, false => set_misc false (f_mine a) (f_reward a) a
  | CTrialPending, false => set_study_facts (f_idfresh a) (f_room a) (f_gotlat a) (f_gotlat a && L) (f_curpend a) (f_bestfresh a) (f_better a) a
  | CFull, false => set_study_facts (f_idfresh a) L (f_gotlat a) (f_latdone a) (f_curpend a) (f_bestfresh a) (f_better a) a
  | CCurPending, true | CCurNotPending, false =>
      set_study_facts (f_idfresh a) (f_room a) (f_gotlat a) (f_latdone a) L (f_bestfresh a) (f_better a) a
  | CNoMeas, false => set_cur_facts true (f_own a) (f_inf a) (f_final a) a
  | CSpecNone, true => set_alg_facts (f_spec a) R (d_rnp a) (d_rnf a) (d_np a) a
  | CSpecNone, false => set_alg_facts (f_spec a || (R && negb (d_rnp a) && negb (d_rnf a))) false (d_rnp a) (d_rnf a) (d_np a) a
  | CBestBetter, false => set_debts (d_reg a) (d_ip a) (d_lat a) (d_cc a) (d_dp a) (d_inf a) (d_fb a) false a
  | CBestBetter, true => set_study_facts (f_idfresh a) (f_room a) (f_gotlat a) (f_latdone a) (f_curpend a) (f_bestfresh a) (f_bestfresh a && L && f_own a) a
  | _, _ => a
  end.

(* the lock order: registry lock, then a study's lock, then the evolution lock; a lock is only taken inside locks of higher rank *)
Definition lrank (l : lockref) : nat := match l with LReg => 3 | LStudy => 2 | LAlgo => 1 end.

Definition req (init : bool) (x : act) (a : astate) : bool :=
  a_ok a && footprint_ok x &&
  match x with
  | Acquire l => negb (holds l (a_locks a)) && forallb (fun l' => Nat.ltb (lrank l) (lrank l')) (a_locks a)
  | Release l => match a_locks a with
                 | l' :: _ => lockref_eqb l l' && match l with LStudy => negb (d_lat a) | LReg => negb (d_reg a) && negb (d_rnp a) && negb (d_rnf a) | LAlgo => true end
                 | [] => false
                 end
  | Stmt rd wr e => forallb (fun v => guarded (write_guard v) (a_locks a)) wr && forallb (fun v => guarded (read_guard v) (a_locks a)) rd && req_eff e a
  | Branch rd cn _ => forallb (fun v => guarded (read_guard v) (a_locks a)) rd && req_br cn a
  | Jump _ => true
  | Throw _ => match a_locks a with [] => no_debt a && (init || f_spec a) | _ => false end
  | Done => match a_locks a with [] => no_debt a && f_spec a | _ => false end
  end.

Definition succs (i : nat) (b : bool) (a : astate) (x : act) : list (nat * bool * astate) :=
  match x with
  | Acquire l => [(S i, b, with_locks (l :: a_locks a) a)]
  | Release _ => [(S i, b, with_locks (tl (a_locks a)) a)]
  | Stmt _ _ e =>
      match e with
      | ESetRet v => [(S i, v, a)]
      | EPolicy => [(S i, true, a); (S i, false, a)]
      | _ => [(S i, b, post_eff e a)]
      end
  | Branch _ cn off =>
      let sv := static_cond b a cn in
      (match sv with Some false => [] | _ => [(S i, b, post_br cn true a)] end) ++
      (match sv with Some true => [] | _ => [(S i + off, b, post_br cn false a)] end)
  | Jump off => [(S i + off, b, a)]
  | Throw _ | Done => []
  end.

(* ---- annotations: per program counter, per value of r_ret ------------------------------------------------------ *)
Definition cell := (option astate * option astate)%type.     (* (r_ret = false, r_ret = true) *)
Definition cell_get (c : cell) (b : bool) : option astate := if b then snd c else fst c.
Definition cell_set (c : cell) (b : bool) (o : option astate) : cell := if b then (fst c, o) else (o, snd c).
Definition annot := list cell.
Definition an_get (an : annot) (i : nat) (b : bool) : option astate := cell_get (nth i an (None, None)) b.

Definition list_lockref_eqb (x y : list lockref) : bool :=
  (length x =? length y) && forallb (fun p => lockref_eqb (fst p) (snd p)) (combine x y).
Definition opt_bool_eqb (x y : option bool) : bool :=
  match x, y with None, None => true | Some a, Some b => Bool.eqb a b | _, _ => false end.
Definition debts_eqb (x y : astate) : bool :=
  Bool.eqb (d_reg x) (d_reg y) && Bool.eqb (d_ip x) (d_ip y) && Bool.eqb (d_lat x) (d_lat y) && Bool.eqb (d_cc x) (d_cc y) &&
  Bool.eqb (d_dp x) (d_dp y) && Bool.eqb (d_inf x) (d_inf y) && Bool.eqb (d_fb x) (d_fb y) && Bool.eqb (d_best x) (d_best y) &&
  Bool.eqb (d_rnp x) (d_rnp y) && Bool.eqb (d_rnf x) (d_rnf y) && Bool.eqb (d_np x) (d_np y).

(* y claims no more than x *)
Definition leq (x y : astate) : bool :=
  a_ok x && a_ok y && list_lockref_eqb (a_locks x) (a_locks y) && debts_eqb x y &&
  implb (f_regmiss y) (f_regmiss x) && implb (f_idfresh y) (f_idfresh x) && implb (f_room y) (f_room x) && implb (f_gotlat y) (f_gotlat x) &&
  implb (f_latdone y) (f_latdone x) && implb (f_curpend y) (f_curpend x) && implb (f_bestfresh y) (f_bestfresh x) && implb (f_better y) (f_better x) &&
  implb (f_hasmeas y) (f_hasmeas x) && implb (f_mine y) (f_mine x) && implb (f_own y) (f_own x) && implb (f_final y) (f_final x) && implb (f_reward y) (f_reward x) &&
  implb (f_spec y) (f_spec x) && implb (f_specnone y) (f_specnone x) &&
  match f_inf y with None => true | Some v => inf_is (f_inf x) v end.

Definition meet (x y : astate) : astate :=
  {| a_ok := a_ok x && a_ok y && list_lockref_eqb (a_locks x) (a_locks y) && debts_eqb x y; a_locks := a_locks x;
     f_regmiss := f_regmiss x && f_regmiss y; f_idfresh := f_idfresh x && f_idfresh y; f_room := f_room x && f_room y; f_gotlat := f_gotlat x && f_gotlat y;
     f_latdone := f_latdone x && f_latdone y; f_curpend := f_curpend x && f_curpend y; f_bestfresh := f_bestfresh x && f_bestfresh y;
     f_better := f_better x && f_better y; f_hasmeas := f_hasmeas x && f_hasmeas y; f_mine := f_mine x && f_mine y; f_own := f_own x && f_own y;
     f_inf := if opt_bool_eqb (f_inf x) (f_inf y) then f_inf x else None; f_final := f_final x && f_final y; f_reward := f_reward x && f_reward y;
     d_reg := d_reg x; d_ip := d_ip x; d_lat := d_lat x; d_cc := d_cc x; d_dp := d_dp x; d_inf := d_inf x; d_fb := d_fb x; d_best := d_best x;
     f_spec := f_spec x && f_spec y; f_specnone := f_specnone x && f_specnone y; d_rnp := d_rnp x; d_rnf := d_rnf x; d_np := d_np x |}.

Definition join (o : option astate) (a : astate) : option astate :=
  match o with None => Some a | Some x => Some (meet x a) end.

Definition an_add (an : annot) (j : nat) (b : bool) (a : astate) : annot :=
  upd_nth j (fun c => cell_set c b (join (cell_get c b) a)) an.

(* forward propagation; jumps only go forward, so cell i is final when it is visited *)
Definition infer_step (pr : prog) (an : annot) (i : nat) : annot :=
  match nth_error pr i with
  | None => an
  | Some (_, x) =>
      fold_left (fun an b =>
        match an_get an i b with
        | None => an
        | Some a => fold_left (fun an s => an_add an (fst (fst s)) (snd (fst s)) (snd s)) (succs i b a x) an
        end) [false; true] an
  end.

Definition infer_prog (init : bool) (pr : prog) : annot :=
  fold_left (infer_step pr) (seq 0 (length pr)) ((Some (a0e init), Some (a0e init)) :: repeat (None, None) (length pr)).

Definition check_at (init : bool) (pr : prog) (an : annot) (i : nat) (b : bool) : bool :=
  match an_get an i b with
  | None => true
  | Some a =>
      match nth_error pr i with
      | None => a_ok a && match a_locks a with [] => no_debt a && f_spec a | _ => false end     (* falling off the end = returning *)
      | Some (_, x) =>
          req init x a &&
          forallb (fun s => (fst (fst s) <=? length pr) &&
                            match an_get an (fst (fst s)) (snd (fst s)) with Some a' => leq (snd s) a' | None => false end) (succs i b a x)
      end
  end.

Definition check_prog (init : bool) (pr : prog) (an : annot) : bool :=
  match an_get an 0 false, an_get an 0 true with
  | Some x, Some y => leq (a0e init) x && leq (a0e init) y
  | _, _ => false
  end &&
  forallb (fun i => check_at init pr an i false && check_at init pr an i true) (seq 0 (S (length pr))).

(* program 0 is the constructor *)
Definition is_init (p : nat) : bool := Nat.eqb p P_init.
Definition disciplined (ps : progs) : bool :=
  match ps with [] => false | _ => true end &&   (* there is a constructor *)
  forallb (fun ip => check_prog (is_init (fst ip)) (snd ip) (infer_prog (is_init (fst ip)) (snd ip))) (combine (seq 0 (length ps)) ps).

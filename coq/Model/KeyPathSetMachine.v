(* KeyPathSetMachine.v — the per-entry decision kernels of KeyPathSet.difference_update (_remove_same),
   intersection_update (_remove_diff) and update (_merge) as data, and their interpreters over the trie.
   harness/translators/keypathset_src.py turns the source of the three nested helper functions into this data
   (coq/Gen/KeyPathSetSrc.v, regenerated every run); Proofs/KeyPathSetMachineLink.v proves the interpreters on that data
   equal diff_node / inter_node / merge_node of Model/KeyPath.v.  Definitions only. *)
From Coq Require Import NArith ZArith List Bool.
Import ListNotations.
From PG Require Import Model.KeyPath.

(* what happens to one entry (key, value) of the target dict *)
Inductive dec : Type :=
| DKeep                              (* nothing is appended to keys_to_remove *)
| DRemove                            (* keys_to_remove.append(key) *)
| DIfInSrc (yes no : dec)            (* if key in src_dict *)
| DIfMark (yes no : dec)             (* if key == '$' *)
| DRec (if_empty otherwise : dec).   (* helper(value, src_dict[key]) mutates value; then: is value empty? *)

Fixpoint fkernel (d : dec) (t s : tnode) {struct t} : tnode :=
  match t, s with
  | TDict tk, TDict sk =>
      TDict ((fix go (l : trie) : trie :=
                match l with
                | [] => []
                | (m, v) :: r =>
                    match
                      (fix ev (d' : dec) (cur : tnode) {struct d'} : option tnode :=
                         match d' with
                         | DKeep => Some cur
                         | DRemove => None
                         | DIfInSrc a b => match aget m sk with Some _ => ev a cur | None => ev b cur end
                         | DIfMark a b => match m with MTerm => ev a cur | MK _ => ev b cur end
                         | DRec a b =>
                             match aget m sk with
                             | Some sv => let v' := fkernel d v sv in if node_empty v' then ev a v' else ev b v'
                             | None => Some cur
                             end
                         end) d v
                    with
                    | Some v' => (m, v') :: go r
                    | None => go r
                    end
                end) tk)
  | _, _ => t
  end.

(* _merge: for key, value in src.items(): if <all of cond>: _merge(target[key], value) else: target[key] = deepcopy(value) *)
Inductive matom : Type := ANotMark | AInTarget.

Fixpoint mkernel (cond : list matom) (t s : tnode) {struct s} : tnode :=
  match t, s with
  | TDict tk, TDict sk =>
      TDict ((fix go (l : trie) (acc : trie) : trie :=
                match l with
                | [] => acc
                | (m, v) :: r =>
                    let holds :=
                      forallb (fun a => match a with
                                        | ANotMark => match m with MTerm => false | MK _ => true end
                                        | AInTarget => ahas m acc
                                        end) cond in
                    go r (if holds
                          then match aget m acc with Some tv => aset m (mkernel cond tv v) acc | None => acc end
                          else aset m v acc)
                end) sk tk)
  | _, _ => t
  end.

Record kps_src : Type := { ks_same : dec; ks_diff : dec; ks_merge : list matom; ks_marker : list N }.

(* Hier.v — model of KeyPath.query on plain containers (value_location.py), utils.traverse / flatten /
   canonicalize / merge_tree (hierarchical.py) and pg.traverse / pg.query on dict/list values (symbolic/base.py).
   Values are plain Python values: None, int, str, list, dict with str/int keys.  Definitions only. *)
From Coq Require Import NArith ZArith List Bool.
Import ListNotations.
From PG Require Import Common.Tr Model.KeyPath.
Local Open Scope Z_scope.

Inductive pv : Type :=
| PNone | PInt (z : Z) | PStr (s : list N)
| PList (l : list pv)
| PDict (l : list (key * pv)).

Inductive herr : Type := HKeyError | HValueError | HIndexError | HTypeError.

(* dict access (insertion ordered association list; d[k] = v keeps the position of an existing key) *)
Fixpoint dget (k : key) (l : list (key * pv)) : option pv :=
  match l with [] => None | (k', v) :: r => if key_eqb k k' then Some v else dget k r end.
Fixpoint dset (k : key) (v : pv) (l : list (key * pv)) : list (key * pv) :=
  match l with
  | [] => [(k, v)]
  | (k', v') :: r => if key_eqb k k' then (k', v) :: r else (k', v') :: dset k v r
  end.

Fixpoint pv_eqb (a b : pv) {struct a} : bool :=
  match a, b with
  | PNone, PNone => true
  | PInt x, PInt y => Z.eqb x y
  | PStr s, PStr t => str_eqb s t
  | PList la, PList lb =>
      (fix go (xs ys : list pv) : bool :=
         match xs, ys with
         | [], [] => true
         | x :: xs', y :: ys' => pv_eqb x y && go xs' ys'
         | _, _ => false
         end) la lb
  | PDict da, PDict db =>
      Nat.eqb (length da) (length db) &&
      forallb (fun kv => match dget (fst kv) db with Some v' => pv_eqb (snd kv) v' | None => false end) da
  | _, _ => false
  end.

(* ---------------------------------------------------------------------------------------- *)
(* KeyPath.query / _query on plain values *)
Fixpoint is_substr_at (t s : list N) : bool :=     (* t is a prefix of s *)
  match t, s with
  | [], _ => true
  | x :: t', y :: s' => N.eqb x y && is_substr_at t' s'
  | _ :: _, [] => false
  end.
Fixpoint is_substr (t s : list N) : bool :=
  is_substr_at t s || match s with [] => false | _ :: s' => is_substr t s' end.

(* seq[i] with Python index normalisation; None = IndexError *)
Definition py_index {A} (l : list A) (i : Z) : option A :=
  let n := Z.of_nat (length l) in
  if (0 <=? i) && (i <? n) then nth_error l (Z.to_nat i)
  else if (i <? 0) && (0 <=? i + n) then nth_error l (Z.to_nat (i + n))
  else None.

(* one step of _query: the child selected by a key, or the exception *)
Definition child (v : pv) (k : key) : herr + pv :=
  match v, k with
  | PDict kvs, _ => match dget k kvs with Some x => inr x | None => inl HKeyError end
  | PList l, KInt i =>
      if i <? Z.of_nat (length l) then
        match py_index l i with Some x => inr x | None => inl HIndexError end
      else inl HKeyError
  | PList l, KStr s =>
      if existsb (fun x => match x with PStr t => str_eqb s t | _ => false end) l then inl HTypeError
      else inl HKeyError
  | PStr s, KInt i =>
      if i <? Z.of_nat (length s) then
        match py_index s i with Some c => inr (PStr [c]) | None => inl HIndexError end
      else inl HKeyError
  | PStr s, KStr t => if is_substr t s then inl HTypeError else inl HKeyError
  | _, _ => inl HKeyError
  end.

Fixpoint lookup (v : pv) (p : list key) : herr + pv :=
  match p with
  | [] => inr v
  | k :: r => match child v k with inl e => inl e | inr c => lookup c r end
  end.

(* ---------------------------------------------------------------------------------------- *)
(* utils.traverse(value, preorder_visitor_fn, postorder_visitor_fn, root_path) *)
Inductive ev : Type := EPre (p : list key) (v : pv) | EPost (p : list key) (v : pv).

Fixpoint trav (pre post : list key -> pv -> bool) (v : pv) (path : list key) {struct v} : list ev * bool :=
  if negb (pre path v) then ([EPre path v], false) else
  let kids : list ev * bool :=
    match v with
    | PDict kvs =>
        (fix go (l : list (key * pv)) : list ev * bool :=
           match l with
           | [] => ([], true)
           | (k, c) :: r =>
               let (lg, ok) := trav pre post c (path ++ [k]) in
               if ok then let (lg2, ok2) := go r in (lg ++ lg2, ok2) else (lg, false)
           end) kvs
    | PList l =>
        (fix go (l : list pv) (i : Z) : list ev * bool :=
           match l with
           | [] => ([], true)
           | c :: r =>
               let (lg, ok) := trav pre post c (path ++ [KInt i]) in
               if ok then let (lg2, ok2) := go r (i + 1) in (lg ++ lg2, ok2) else (lg, false)
           end) l 0
    | _ => ([], true)
    end in
  let (lg, ok) := kids in
  if ok then (EPre path v :: lg ++ [EPost path v], post path v) else (EPre path v :: lg, false).

(* ---------------------------------------------------------------------------------------- *)
(* pg.traverse with TraverseAction *)
Inductive action : Type := AStop | AEnter | AContinue.
Definition is_stop (a : action) : bool := match a with AStop => true | _ => false end.

Fixpoint strav (pre post : list key -> pv -> action) (v : pv) (path : list key) {struct v} : list ev * bool :=
  let a := pre path v in
  let kids : list ev * bool :=
    match a with
    | AEnter =>
      match v with
      | PDict kvs =>
          (fix go (l : list (key * pv)) : list ev * bool :=
             match l with
             | [] => ([], true)
             | (k, c) :: r =>
                 let (lg, ok) := strav pre post c (path ++ [k]) in
                 if ok then let (lg2, ok2) := go r in (lg ++ lg2, ok2) else (lg, false)
             end) kvs
      | PList l =>
          (fix go (l : list pv) (i : Z) : list ev * bool :=
             match l with
             | [] => ([], true)
             | c :: r =>
                 let (lg, ok) := strav pre post c (path ++ [KInt i]) in
                 if ok then let (lg2, ok2) := go r (i + 1) in (lg ++ lg2, ok2) else (lg, false)
             end) l 0
      | _ => ([], true)
      end
    | _ => ([], true)
    end in
  let (lg, ok) := kids in
  let pa := post path v in
  (EPre path v :: lg ++ [EPost path v], negb (is_stop a || negb ok || is_stop pa)).

(* pg.query(x, custom_selector=sel, enter_selected=es): the selected (path, value) pairs in visit order *)
Definition squery (sel : list key -> pv -> bool) (es : bool) (v : pv) : list (list key * pv) :=
  let pre p x := if sel p x then (if es then AEnter else AContinue) else AEnter in
  let (lg, _) := strav pre (fun _ _ => AEnter) v [] in
  flat_map (fun e => match e with EPre p x => if sel p x then [(p, x)] else [] | EPost _ _ => [] end) lg.

(* ---------------------------------------------------------------------------------------- *)
(* utils.flatten(src, flatten_complex_keys) *)
Definition is_leaf (v : pv) : bool :=
  match v with PDict (_ :: _) => false | PList (_ :: _) => false | _ => true end.

Definition flatten (fck : bool) (v : pv) : pv :=
  if is_leaf v then v else
  let (lg, _) := trav (fun _ _ => true) (fun _ _ => true) v [] in
  PDict (fold_left
           (fun dest e =>
              match e with
              | EPost (k :: p) x => if is_leaf x then dset (KStr (fmt_go (negb fck) true (k :: p))) x dest else dest
              | _ => dest
              end) lg []).

(* ---------------------------------------------------------------------------------------- *)
(* try_listify_dict_with_int_keys *)
Fixpoint int_keys (l : list (key * pv)) : option (list (Z * pv)) :=
  match l with
  | [] => Some []
  | (KInt z, v) :: r => match int_keys r with Some t => Some ((z, v) :: t) | None => None end
  | (KStr _, _) :: _ => None
  end.

Fixpoint insert_sorted (z : Z) (v : pv) (l : list (Z * pv)) : list (Z * pv) :=
  match l with
  | [] => [(z, v)]
  | (z', v') :: r => if z <=? z' then (z, v) :: l else (z', v') :: insert_sorted z v r
  end.
Definition sort_by_key (l : list (Z * pv)) : list (Z * pv) :=
  fold_right (fun zv acc => insert_sorted (fst zv) (snd zv) acc) [] l.

Definition try_listify (convert_when_sparse : bool) (kvs : list (key * pv)) : pv :=
  match kvs with
  | [] => PDict []
  | _ =>
      match int_keys kvs with
      | None => PDict kvs
      | Some zs =>
          let s := sort_by_key zs in
          let mn := match s with (z, _) :: _ => z | [] => 0 end in
          let mx := match rev s with (z, _) :: _ => z | [] => 0 end in
          if convert_when_sparse || ((mn =? 0) && (mx =? Z.of_nat (length kvs) - 1))
          then PList (map snd s) else PDict kvs
      end
  end.

(* transform(value, _listify_dict_equivalent): bottom-up *)
Fixpoint listify (conv : bool) (v : pv) : pv :=
  match v with
  | PDict kvs => try_listify conv (map (fun kv => (fst kv, listify conv (snd kv))) kvs)
  | PList l => PList (map (listify conv) l)
  | _ => v
  end.

(* _merge_dict_into_list *)
Fixpoint list_set {A} (l : list A) (i : nat) (x : A) : list A :=
  match l, i with
  | [], _ => []
  | _ :: r, O => x :: r
  | y :: r, S i' => y :: list_set r i' x
  end.

Definition merge_into_list (d : list pv) (s : list (key * pv)) : herr + pv :=
  match int_keys s with
  | None => inl HKeyError
  | Some zs =>
      let old := Z.of_nat (length d) in
      (fix go (l : list (Z * pv)) (acc : list pv) : herr + pv :=
         match l with
         | [] => inr (PList acc)
         | (z, v) :: r =>
             if z <? old then
               let n := Z.of_nat (length acc) in
               if 0 <=? z then go r (list_set acc (Z.to_nat z) v)
               else if 0 <=? z + n then go r (list_set acc (Z.to_nat (z + n)) v)
               else inl HIndexError
             else go r (acc ++ [v])
         end) (sort_by_key zs) d
  end.

(* merge_tree(dest, src, _merge_fn) with canonicalize's _merge_fn (two present values conflict) *)
Fixpoint merge_c (dest src : pv) {struct src} : herr + pv :=
  match dest, src with
  | PDict d, PDict s =>
      (fix go (l : list (key * pv)) (acc : list (key * pv)) : herr + pv :=
         match l with
         | [] => inr (PDict acc)
         | (k, v) :: r =>
             match dget k acc with
             | None => go r (dset k v acc)
             | Some old =>
                 match merge_c old v with
                 | inl e => inl e
                 | inr m => go r (dset k m acc)
                 end
             end
         end) s d
  | PList d, PDict s => merge_into_list d s
  | _, _ => inl HKeyError
  end.

(* merge_tree(dest, src) with merge_fn=None: the source wins at non-container positions *)
Fixpoint merge_plain (dest src : pv) {struct src} : herr + pv :=
  match dest, src with
  | PDict d, PDict s =>
      (fix go (l : list (key * pv)) (acc : list (key * pv)) : herr + pv :=
         match l with
         | [] => inr (PDict acc)
         | (k, v) :: r =>
             match dget k acc with
             | None => go r (dset k v acc)
             | Some old =>
                 match merge_plain old v with
                 | inl e => inl e
                 | inr m => go r (dset k m acc)
                 end
             end
         end) s d
  | PList d, PDict s => merge_into_list d s
  | _, _ => inr src
  end.

(* the single-branch dict built for a multi-key path *)
Fixpoint nest (p : list key) (v : pv) : pv :=
  match p with [] => v | k :: r => PDict [(k, nest r v)] end.

Definition key_to_path (k : key) : herr + list key :=
  match k with
  | KInt z => inr [KInt z]
  | KStr s => match parse s with POk ks => inr ks | PErr _ => inl HValueError end
  end.

(* utils.canonicalize(src, sparse_list_as_dict) *)
Fixpoint canon (sp : bool) (v : pv) {struct v} : herr + pv :=
  match v with
  | PDict kvs =>
      match
        (fix go (l : list (key * pv)) (cd : list (key * pv)) : herr + list (key * pv) :=
           match l with
           | [] => inr cd
           | (k, x) :: r =>
               match key_to_path k with
               | inl e => inl e
               | inr [] => inl HKeyError
               | inr [k1] =>
                   match canon sp x with
                   | inl e => inl e
                   | inr nv =>
                       match dget k1 cd with
                       | None => go r (dset k1 nv cd)
                       | Some old =>
                           match merge_c old nv with
                           | inl e => inl e
                           | inr m => go r (dset k1 m cd)
                           end
                       end
                   end
               | inr path =>
                   match canon sp x with
                   | inl e => inl e
                   | inr nv =>
                       match merge_c (PDict cd) (nest path nv) with
                       | inl e => inl e
                       | inr (PDict cd') => go r cd'
                       | inr _ => inl HTypeError
                       end
                   end
               end
           end) kvs []
      with
      | inl e => inl e
      | inr cd => inr (listify (negb sp) (PDict cd))
      end
  | PList l =>
      (fix go (l : list pv) : herr + pv :=
         match l with
         | [] => inr (PList [])
         | x :: r =>
             match canon sp x, go r with
             | inl e, _ => inl e
             | _, inl e => inl e
             | inr y, inr (PList ys) => inr (PList (y :: ys))
             | inr _, inr _ => inl HTypeError
             end
         end) l
  | _ => inr v
  end.

(* ---------------------------------------------------------------------------------------- *)
(* utils.merge(value_list) with merge_fn=None: canonicalize every value, merge them left to right (a None value after the
   first is skipped), then turn every int-keyed dict into a list (convert_when_sparse=True) *)
Fixpoint merge_rest (acc : pv) (l : list pv) : herr + pv :=
  match l with
  | [] => inr acc
  | PNone :: r => merge_rest acc r
  | v :: r =>
      match canon true v with
      | inl e => inl e
      | inr cv => match merge_plain acc cv with inl e => inl e | inr m => merge_rest m r end
      end
  end.

Definition merge_all (l : list pv) : herr + pv :=
  match l with
  | [] => inr PNone
  | v :: r =>
      match canon true v with
      | inl e => inl e
      | inr cv => match merge_rest cv r with inl e => inl e | inr m => inr (listify true m) end
      end
  end.

(* utils.transform(value, fn) where fn returns MISSING_VALUE for the nodes [drop] selects and the node otherwise:
   bottom-up; a child that becomes MISSING is deleted from its container; None = MISSING_VALUE *)
Fixpoint xform (drop : list key -> pv -> bool) (v : pv) (path : list key) {struct v} : option pv :=
  let nv :=
    match v with
    | PDict kvs =>
        PDict ((fix go (l : list (key * pv)) : list (key * pv) :=
                  match l with
                  | [] => []
                  | (k, c) :: r => match xform drop c (path ++ [k]) with Some c' => (k, c') :: go r | None => go r end
                  end) kvs)
    | PList l =>
        PList ((fix go (l : list pv) (i : Z) : list pv :=
                  match l with
                  | [] => []
                  | c :: r => match xform drop c (path ++ [KInt i]) with Some c' => c' :: go r (i + 1) | None => go r (i + 1) end
                  end) l 0)
    | _ => v
    end in
  if drop path nv then None else Some nv.

(* ---------------------------------------------------------------------------------------- *)
(* wire format
   value ::= (0) | (1 z) | (2 (cp ...)) | (3 (value ...)) | (4 ((key value) ...))
   case  ::= (20 path value)                         -> (0 value) | (1 e)       KeyPath.query; e: 0 Key 1 Value 2 Index 3 Type
           | (21 value root (path?) (path?))          -> ((ev ...) ok)           utils.traverse, visitors return path != stop
           | (22 value ((path act) ...) ((path act) ...)) -> ((ev ...) ok)       pg.traverse, default ENTER; act: 0 STOP 1 ENTER 2 CONTINUE
           | (23 value sel es)                        -> (((cp ...) value) ...)  pg.query with custom_selector
           | (24 fck value)                           -> value                   utils.flatten
           | (25 sp value)                            -> (0 value) | (1 e)       utils.canonicalize
           | (26 fck sp value)                        -> (0 value) | (1 e)       canonicalize(flatten(value))
           | (27 mode dest src)                       -> (0 value) | (1 e)       merge_tree (mode 0: merge_fn=None)
           | (28 path value)                          -> (0 b) | (1 e)           KeyPath.exists (only KeyError means absent)
           | (29 (value ...))                         -> (0 value) | (1 e)       utils.merge(values)
           | (30 value root sel)                      -> (0 value) | (5)         utils.transform; fn = MISSING_VALUE where sel holds
   ev    ::= (0 path value) | (1 path value)      (pre / post)
   sel   ::= (0 (path ...)) | (1) ints | (2) non-empty containers | (3) everything | (4) leaves *)
Fixpoint e_pv (v : pv) : tr :=
  match v with
  | PNone => L [I 0]
  | PInt z => L [I 1; I z]
  | PStr s => L [I 2; estr s]
  | PList l => L [I 3; L (map e_pv l)]
  | PDict kvs => L [I 4; L (map (fun kv => L [ekey (fst kv); e_pv (snd kv)]) kvs)]
  end.

Fixpoint d_pv (fuel : nat) (t : tr) : option pv :=
  match fuel with
  | O => None
  | S f =>
      match t with
      | L [I 0] => Some PNone
      | L [I 1; I z] => Some (PInt z)
      | L [I 2; s] => do s' <- dstr s; Some (PStr s')
      | L [I 3; L l] => do l' <- dall (d_pv f) l; Some (PList l')
      | L [I 4; L l] =>
          do l' <- dall (fun e => match e with
                                  | L [k; x] => do k' <- dkey k; do x' <- d_pv f x; Some (k', x')
                                  | _ => None
                                  end) l;
          Some (PDict l')
      | _ => None
      end
  end.

Definition e_herr (e : herr) : tr :=
  L [I 1; I (match e with HKeyError => 0 | HValueError => 1 | HIndexError => 2 | HTypeError => 3 end)].
Definition e_res (r : herr + pv) : tr := match r with inr v => L [I 0; e_pv v] | inl e => e_herr e end.

Definition e_ev (e : ev) : tr :=
  match e with EPre p v => L [I 0; epath p; e_pv v] | EPost p v => L [I 1; epath p; e_pv v] end.
Definition e_log (r : list ev * bool) : tr := L [elist e_ev (fst r); ebool (snd r)].

Definition stop_visitor (stop : option (list key)) : list key -> pv -> bool :=
  fun p _ => match stop with Some s => negb (path_eqb p s) | None => true end.

Definition d_action (t : tr) : option action :=
  match t with I 0 => Some AStop | I 1 => Some AEnter | I 2 => Some AContinue | _ => None end.
Fixpoint act_visitor (acts : list (list key * action)) (p : list key) : action :=
  match acts with
  | [] => AEnter
  | (p', a) :: r => if path_eqb p p' then a else act_visitor r p
  end.

Inductive selspec : Type := SelPaths (ps : list (list key)) | SelInts | SelContainers | SelAll | SelLeaves.
Definition d_sel (t : tr) : option selspec :=
  match t with
  | L [I 0; ps] => do l <- dlist dpath ps; Some (SelPaths l)
  | L [I 1] => Some SelInts | L [I 2] => Some SelContainers | L [I 3] => Some SelAll | L [I 4] => Some SelLeaves
  | _ => None
  end.
Definition sel_fn (s : selspec) : list key -> pv -> bool :=
  fun p v =>
    match s with
    | SelPaths ps => existsb (path_eqb p) ps
    | SelInts => match v with PInt _ => true | _ => false end
    | SelContainers => negb (is_leaf v)
    | SelAll => true
    | SelLeaves => is_leaf v
    end.

(* pg.query collects its results in a dict keyed by the printed path: results[str(path)] = v (a later visit with the same
   printed path replaces the value and keeps the position; cannot happen for admissible keys, where printing is injective) *)
Fixpoint sset (k : list N) (x : pv) (l : list (list N * pv)) : list (list N * pv) :=
  match l with
  | [] => [(k, x)]
  | (k', x') :: r => if str_eqb k k' then (k', x) :: r else (k', x') :: sset k x r
  end.
Definition query_results (l : list (list key * pv)) : list (list N * pv) :=
  fold_left (fun acc px => sset (format (fst px)) (snd px) acc) l [].

Definition FUEL : nat := 60.

Definition run (c : tr) : tr :=
  match c with
  | L [I 20; p; v] =>
      match dpath p, d_pv FUEL v with
      | Some ks, Some x => e_res (lookup x ks)
      | _, _ => ebad
      end
  | L [I 21; v; root; a; b] =>
      match d_pv FUEL v, dpath root, dopt dpath a, dopt dpath b with
      | Some x, Some rp, Some sa, Some sb => e_log (trav (stop_visitor sa) (stop_visitor sb) x rp)
      | _, _, _, _ => ebad
      end
  | L [I 22; v; a; b] =>
      let dacts := dlist (dpair dpath d_action) in
      match d_pv FUEL v, dacts a, dacts b with
      | Some x, Some pa, Some pb => e_log (strav (fun p _ => act_visitor pa p) (fun p _ => act_visitor pb p) x [])
      | _, _, _ => ebad
      end
  | L [I 23; v; s; es] =>
      match d_pv FUEL v, d_sel s, dbool es with
      | Some x, Some sl, Some e =>
          elist (fun pr => L [estr (fst pr); e_pv (snd pr)]) (query_results (squery (sel_fn sl) e x))
      | _, _, _ => ebad
      end
  | L [I 24; f; v] =>
      match dbool f, d_pv FUEL v with Some b, Some x => e_pv (flatten b x) | _, _ => ebad end
  | L [I 25; s; v] =>
      match dbool s, d_pv FUEL v with Some b, Some x => e_res (canon b x) | _, _ => ebad end
  | L [I 26; f; s; v] =>
      match dbool f, dbool s, d_pv FUEL v with
      | Some bf, Some bs, Some x => e_res (canon bs (flatten bf x))
      | _, _, _ => ebad
      end
  | L [I 29; L vs] =>
      match dall (d_pv FUEL) vs with Some l => e_res (merge_all l) | None => ebad end
  | L [I 30; v; root; spec] =>
      match d_pv FUEL v, dpath root, d_sel spec with
      | Some x, Some rp, Some sl =>
          match xform (sel_fn sl) x rp with Some y => L [I 0; e_pv y] | None => L [I 5] end
      | _, _, _ => ebad
      end
  | L [I 28; p; v] =>
      match dpath p, d_pv FUEL v with
      | Some ks, Some x =>
          match lookup x ks with
          | inr _ => L [I 0; ebool true]
          | inl HKeyError => L [I 0; ebool false]
          | inl e => e_herr e
          end
      | _, _ => ebad
      end
  | L [I 27; I 0; d; s] =>
      match d_pv FUEL d, d_pv FUEL s with Some x, Some y => e_res (merge_plain x y) | _, _ => ebad end
  | _ => run_kp c
  end.

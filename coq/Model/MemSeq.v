(* MemSeq.v — model of the in-memory record sequences of io/sequence.py (MemorySequenceIO,
   MemorySequence; paths with extension .mem).  Definitions only.

   MemorySequenceIO keeps path -> Python list; a handle shares the list object it was opened on, and
   opening with 'w' binds the path to a *new* list.  The model therefore has a heap of lists:
   [root] maps a path to a list id, a handle remembers the id of the list it was opened on. *)
From Coq Require Import ZArith NArith List Bool.
Import ListNotations.
From PG Require Import Common.Tr Model.Json Model.MemFS.

Record handle : Type := { h_list : nat; h_mode : mode; h_closed : bool }.

Record sstate : Type := {
  s_root : list (str * nat);          (* path -> list id (a defaultdict(list): any open creates the entry) *)
  s_heap : list (list str);           (* list id -> records *)
  s_handles : list handle             (* handle number -> handle *)
}.
Definition s_empty : sstate := {| s_root := []; s_heap := []; s_handles := [] |}.

Inductive sop : Type :=
| SOpen (p : str) (m : mode)
| SAdd (h : nat) (r : str)
| SIter (h : nat)
| SLen (h : nat)
| SClose (h : nat).

Inductive sout : Type :=
| SHandle (h : nat) | SDone | SRecords (l : list str) | SCount (n : nat) | SValueError | SBadHandle.

Fixpoint plookup (p : str) (root : list (str * nat)) : option nat :=
  match root with
  | [] => None
  | (p', i) :: r => if str_eqb p p' then Some i else plookup p r
  end.
Fixpoint pset (p : str) (i : nat) (root : list (str * nat)) : list (str * nat) :=
  match root with
  | [] => [(p, i)]
  | (p', j) :: r => if str_eqb p p' then (p', i) :: r else (p', j) :: pset p i r
  end.
Fixpoint list_upd {A} (l : list A) (i : nat) (f : A -> A) : list A :=
  match l, i with
  | [], _ => []
  | x :: r, O => f x :: r
  | x :: r, S i' => x :: list_upd r i' f
  end.

Definition sstep (s : sstate) (o : sop) : sstate * sout :=
  match o with
  | SOpen p m =>
      let hn := length (s_handles s) in
      match (if m_w m then None else plookup p (s_root s)) with
      | Some i =>
          ({| s_root := s_root s; s_heap := s_heap s;
              s_handles := s_handles s ++ [{| h_list := i; h_mode := m; h_closed := false |}] |}, SHandle hn)
      | None =>                                         (* 'w', or first use of the path: a new empty list *)
          let i := length (s_heap s) in
          ({| s_root := pset p i (s_root s); s_heap := s_heap s ++ [[]];
              s_handles := s_handles s ++ [{| h_list := i; h_mode := m; h_closed := false |}] |}, SHandle hn)
      end
  | SAdd h r =>
      match nth_error (s_handles s) h with
      | None => (s, SBadHandle)
      | Some hd =>
          if negb (m_w (h_mode hd) || m_a (h_mode hd)) then (s, SValueError)
          else if h_closed hd then (s, SValueError)
          else ({| s_root := s_root s; s_heap := list_upd (s_heap s) (h_list hd) (fun l => l ++ [r]);
                   s_handles := s_handles s |}, SDone)
      end
  | SIter h =>
      match nth_error (s_handles s) h with
      | None => (s, SBadHandle)
      | Some hd =>
          if negb (m_r (h_mode hd)) then (s, SValueError)
          else if h_closed hd then (s, SValueError)
          else (s, SRecords (nth (h_list hd) (s_heap s) []))
      end
  | SLen h =>
      match nth_error (s_handles s) h with
      | None => (s, SBadHandle)
      | Some hd => (s, SCount (length (nth (h_list hd) (s_heap s) [])))
      end
  | SClose h =>
      match nth_error (s_handles s) h with
      | None => (s, SBadHandle)
      | Some hd =>
          ({| s_root := s_root s; s_heap := s_heap s;
              s_handles := list_upd (s_handles s) h
                             (fun hd => {| h_list := h_list hd; h_mode := h_mode hd; h_closed := true |}) |}, SDone)
      end
  end.

Fixpoint srun (s : sstate) (h : list sop) : sstate * list sout :=
  match h with
  | [] => (s, [])
  | o :: r => let (s', out) := sstep s o in
              let (s'', outs) := srun s' r in
              (s'', out :: outs)
  end.

(* what a fresh reader of path p sees *)
Definition records_at (s : sstate) (p : str) : list str :=
  match plookup p (s_root s) with
  | Some i => nth i (s_heap s) []
  | None => []
  end.

(* --- wire format -------------------------------------------------------------------------------
   sop  ::= (0 path modebits) | (1 h text) | (2 h) | (3 h) | (4 h)
   sout ::= (0 h) | (1) | (2 (text ...)) | (3 n) | (8) ValueError | (9) bad handle
   case ::= (sop ...)  ->  ((sout ...) ((path (text ...)) ...))     final path -> records, in creation order *)
Definition d_sop (t : tr) : option sop :=
  match t with
  | L [I 0%Z; p; m] => do p' <- dstr p; do m' <- d_mode m; Some (SOpen p' m')
  | L [I 1%Z; h; r] => do h' <- dnat h; do r' <- dstr r; Some (SAdd h' r')
  | L [I 2%Z; h] => option_map SIter (dnat h)
  | L [I 3%Z; h] => option_map SLen (dnat h)
  | L [I 4%Z; h] => option_map SClose (dnat h)
  | _ => None
  end.
Definition e_sout (o : sout) : tr :=
  match o with
  | SHandle h => L [I 0%Z; enat h]
  | SDone => L [I 1%Z]
  | SRecords l => L [I 2%Z; elist estr l]
  | SCount n => L [I 3%Z; enat n]
  | SValueError => L [I 8%Z]
  | SBadHandle => L [I 9%Z]
  end.
Definition run_memseq (c : tr) : tr :=
  match dlist d_sop c with
  | Some h =>
      let (s, outs) := srun s_empty h in
      L [elist e_sout outs;
         L (map (fun pi => L [estr (fst pi); elist estr (nth (snd pi) (s_heap s) [])]) (s_root s))]
  | None => ebad
  end.

(* --- specification: the same histories without a heap ------------------------------------------------
   Every path has a generation number (how many times it was re-created by a 'w' open) and its records;
   a handle remembers the generation it was opened on and appends only while that generation is the
   current one (a writer left over from before a truncating re-open writes into a list nobody can reach). *)
Record ahandle : Type := { ah_path : str; ah_gen : nat; ah_mode : mode; ah_closed : bool }.
Record astate : Type := { a_files : list (str * (nat * list str)); a_handles : list ahandle }.
Definition a_empty : astate := {| a_files := []; a_handles := [] |}.

Fixpoint flookup (p : str) (fs : list (str * (nat * list str))) : option (nat * list str) :=
  match fs with
  | [] => None
  | (p', x) :: r => if str_eqb p p' then Some x else flookup p r
  end.
Fixpoint fset (p : str) (x : nat * list str) (fs : list (str * (nat * list str))) : list (str * (nat * list str)) :=
  match fs with
  | [] => [(p, x)]
  | (p', y) :: r => if str_eqb p p' then (p', x) :: r else (p', y) :: fset p x r
  end.

Definition astep_seq (a : astate) (o : sop) : astate :=
  match o with
  | SOpen p m =>
      match flookup p (a_files a) with
      | None => {| a_files := fset p (O, []) (a_files a);
                   a_handles := a_handles a ++ [{| ah_path := p; ah_gen := O; ah_mode := m; ah_closed := false |}] |}
      | Some (g, rs) =>
          if m_w m then {| a_files := fset p (S g, []) (a_files a);
                           a_handles := a_handles a ++ [{| ah_path := p; ah_gen := S g; ah_mode := m; ah_closed := false |}] |}
          else {| a_files := a_files a;
                  a_handles := a_handles a ++ [{| ah_path := p; ah_gen := g; ah_mode := m; ah_closed := false |}] |}
      end
  | SAdd h r =>
      match nth_error (a_handles a) h with
      | None => a
      | Some hd =>
          if negb (m_w (ah_mode hd) || m_a (ah_mode hd)) then a
          else if ah_closed hd then a
          else match flookup (ah_path hd) (a_files a) with
               | Some (g, rs) => if Nat.eqb g (ah_gen hd)
                                 then {| a_files := fset (ah_path hd) (g, rs ++ [r]) (a_files a); a_handles := a_handles a |}
                                 else a
               | None => a
               end
      end
  | SClose h =>
      {| a_files := a_files a;
         a_handles := list_upd (a_handles a) h
                        (fun hd => {| ah_path := ah_path hd; ah_gen := ah_gen hd; ah_mode := ah_mode hd; ah_closed := true |}) |}
  | _ => a
  end.
Definition arun_seq (a : astate) (h : list sop) : astate := fold_left astep_seq h a.
(* the records appended to path p that a new reader sees *)
Definition appended (h : list sop) (p : str) : list str :=
  match flookup p (a_files (arun_seq a_empty h)) with
  | Some (_, rs) => rs
  | None => []
  end.

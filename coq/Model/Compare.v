(* Compare.v — model of pg.eq / pg.ne / pg.lt / pg.gt / pg.hash and the object operators (property C06).
   Follows pyglove/core/symbolic/base.py (eq, ne, lt, gt, _type_order, _key_order, sym_hash),
   object.py (sym_eq, sym_lt, sym_hash, __eq__, __ne__, __hash__), dict.py / list.py (sym_hash).
   The type-order table [ranks] is regenerated from the source into Gen/TypeOrder.v on every run.
   Definitions only.  NaN and infinities are not values of this model (Python's own == is not
   reflexive on NaN); floats are the dyadic rationals m / 2^e, which is every finite float. *)
From Coq Require Import NArith ZArith QArith List Bool.
Import ListNotations.
From PG Require Import Common.Tr Gen.TypeOrder.
Close Scope Q_scope.

(* ---------------------------------------------------------------------------------------------
   values *)
(* a non-integral float key is (2h+1) / 2^e: every such float has exactly one (h, e) *)
Inductive key : Type := KStr (s : list N) | KInt (z : Z) | KFlt (h : Z) (e : positive).

Inductive pv : Type :=
| PMissing                                   (* pg.MISSING_VALUE *)
| PNone
| PBool (b : bool)
| PInt (z : Z)
| PFlt (m : Z) (e : N)                       (* the float m / 2^e *)
| PStr (s : list N)
| PList (sym : bool) (l : list pv)           (* sym = true: pg.List, false: plain list *)
| PTuple (l : list pv)
| PDict (sym : bool) (ents : list (key * pv))  (* insertion order; sym = true: pg.Dict *)
| PObj (name : list N) (uid : N) (ents : list (key * pv)).
  (* pg.Object of the class with this __qualname__; uid tells apart different classes that share a __qualname__ and orders them as (module, id(class)) does;
     fields in declaration order *)

Inductive err : Type := ETypeError | ERecursion | EUnmodelled.
Inductive result (A : Type) : Type := Ok (a : A) | Err (e : err).
Arguments Ok {A} a.
Arguments Err {A} e.

Definition is_eq (c : comparison) : bool := match c with Eq => true | _ => false end.
Definition is_lt (c : comparison) : bool := match c with Lt => true | _ => false end.

(* Python str comparison: lexicographic on code points *)
Fixpoint str_cmp (a b : list N) : comparison :=
  match a, b with
  | [], [] => Eq
  | [], _ :: _ => Lt
  | _ :: _, [] => Gt
  | x :: a', y :: b' => match N.compare x y with Eq => str_cmp a' b' | c => c end
  end.
Definition str_eqb (a b : list N) : bool := is_eq (str_cmp a b).

Definition toQ (m : Z) (e : N) : Q := Qmake m (Pos.shiftl 1 e).
Definition num_of (v : pv) : option Q :=
  match v with
  | PBool b => Some (inject_Z (if b then 1 else 0))
  | PInt z => Some (inject_Z z)
  | PFlt m e => Some (toQ m e)
  | _ => None
  end.

(* Python's own == between two values neither of which is handled by a container / object branch of
   base.eq (callable_eq falls back to x == y): numbers by value across bool/int/float, str by value,
   None and MISSING_VALUE only equal to themselves, everything else unequal. *)
Definition native_eq (a b : pv) : bool :=
  match num_of a, num_of b with
  | Some p, Some q => is_eq (Qcompare p q)
  | _, _ =>
    match a, b with
    | PStr s, PStr u => str_eqb s u
    | PNone, PNone => true
    | PMissing, PMissing => true
    | _, _ => false
    end
  end.

(* Python's own < on two leaves *)
Definition native_lt (a b : pv) : result bool :=
  match num_of a, num_of b with
  | Some p, Some q => Ok (is_lt (Qcompare p q))
  | _, _ =>
    match a, b with
    | PStr s, PStr u => Ok (is_lt (str_cmp s u))
    | _, _ => Err ETypeError
    end
  end.

Definition is_leaf (v : pv) : bool :=
  match v with PMissing | PNone | PBool _ | PInt _ | PFlt _ _ | PStr _ => true | _ => false end.

(* tuple.__lt__: first position where the elements are not ==, then < on those; otherwise by length.
   Only tuples of leaves are modelled. *)
Fixpoint tuple_lt (la lb : list pv) : result bool :=
  match la, lb with
  | x :: la', y :: lb' =>
      if is_leaf x && is_leaf y then
        if native_eq x y then tuple_lt la' lb' else native_lt x y
      else Err EUnmodelled
  | [], _ :: _ => Ok true
  | _, [] => Ok false
  end.

Definition key_eqb (k k' : key) : bool :=
  match k, k' with
  | KStr a, KStr b => str_eqb a b
  | KInt a, KInt b => Z.eqb a b
  | KFlt h e, KFlt h' e' => Z.eqb h h' && Pos.eqb e e'
  | _, _ => false
  end.

Fixpoint lookup {A} (k : key) (l : list (key * A)) : option A :=
  match l with
  | [] => None
  | (k', v) :: r => if key_eqb k k' then Some v else lookup k r
  end.
Definition has_key {A} (k : key) (l : list (key * A)) : bool :=
  match lookup k l with Some _ => true | None => false end.

Section WithTable.
Variable t : ranks.

(* _type_order(value) *)
Definition rank (v : pv) : list N :=
  match v with
  | PMissing => r_missing t | PNone => r_none t | PBool _ => r_bool t | PInt _ => r_int t
  | PFlt _ _ => r_float t | PStr _ => r_str t | PList _ _ => r_list t | PTuple _ => r_tuple t
  | PDict _ _ => r_dict t | PObj name _ _ => name
  end.

(* type(left) is type(right) *)
Definition same_type (a b : pv) : bool :=
  match a, b with
  | PMissing, PMissing | PNone, PNone | PBool _, PBool _ | PInt _, PInt _ | PFlt _ _, PFlt _ _
  | PStr _, PStr _ | PTuple _, PTuple _ => true
  | PList s _, PList s' _ | PDict s _, PDict s' _ => Bool.eqb s s'
  | PObj n u _, PObj n' u' _ => str_eqb n n' && N.eqb u u'
  | _, _ => false
  end.

(* _key_order(k) = (_type_order(k), k), compared as Python compares tuples.  (If the table gave int and
   str keys the same rank Python would raise on k < k'; that table is rejected by [ranks_ok].) *)
Definition knum (k : key) : option Q :=
  match k with
  | KInt z => Some (inject_Z z)
  | KFlt h e => Some (Qmake (2 * h + 1) (2 ^ e))
  | KStr _ => None
  end.
Definition krank (k : key) : list N := match k with KStr _ => r_str t | KInt _ => r_int t | KFlt _ _ => r_float t end.
Definition key_cmp (k k' : key) : comparison :=
  match str_cmp (krank k) (krank k') with
  | Eq =>
    match knum k, knum k' with
    | Some p, Some q => Qcompare p q
    | Some _, None => Lt
    | None, Some _ => Gt
    | None, None => match k, k' with KStr a, KStr b => str_cmp a b | _, _ => Eq end
    end
  | c => c
  end.

(* sorted(d.keys(), key=_key_order), carried out on the entries *)
Fixpoint ins_ent {A} (kv : key * A) (l : list (key * A)) : list (key * A) :=
  match l with
  | [] => [kv]
  | kv' :: r => if is_lt (key_cmp (fst kv) (fst kv')) then kv :: l else kv' :: ins_ent kv r
  end.
Definition sort_ents {A} (l : list (key * A)) : list (key * A) := fold_right ins_ent [] l.

Section Rec.
  Variable E : pv -> pv -> bool.            (* pg.eq on children *)
  Variable Lt_ : pv -> pv -> result bool.    (* pg.lt on children *)

  Fixpoint list_eqb (la lb : list pv) : bool :=
    match la, lb with
    | [], [] => true
    | x :: la', y :: lb' => E x y && list_eqb la' lb'
    | _, _ => false
    end.

  (* len equal, key sets equal, then every left item equals the right item under the same key *)
  Definition dict_eqb (ea eb : list (key * pv)) : bool :=
    Nat.eqb (length ea) (length eb)
    && forallb (fun kv => has_key (fst kv) eb) ea
    && forallb (fun kv => has_key (fst kv) ea) eb
    && forallb (fun kv => match lookup (fst kv) eb with Some w => E (snd kv) w | None => false end) ea.

  (* first position where the items are not pg.eq decides; otherwise the shorter list is less *)
  Fixpoint list_lt (la lb : list pv) : result bool :=
    match la, lb with
    | x :: la', y :: lb' => if E x y then list_lt la' lb' else Lt_ x y
    | [], _ :: _ => Ok true
    | _, [] => Ok false
    end.

  (* keys in canonical order, position by position *)
  Fixpoint ents_lt (ea eb : list (key * pv)) : result bool :=
    match ea, eb with
    | (k, v) :: ea', (k', w) :: eb' =>
        if key_eqb k k' then (if E v w then ents_lt ea' eb' else Lt_ v w)
        else Ok (is_lt (key_cmp k k'))
    | [], _ :: _ => Ok true
    | _, [] => Ok false
    end.
End Rec.

(* base.eq.  Fuel = nesting depth still allowed ([eq] supplies enough). *)
Fixpoint eq_f (n : nat) (a b : pv) {struct n} : bool :=
  match n with
  | O => false
  | S n' =>
    match a, b with
    | PList _ la, PList _ lb => list_eqb (eq_f n') la lb
    | PTuple la, PTuple lb => list_eqb (eq_f n') la lb
    | PDict _ ea, PDict _ eb => dict_eqb (eq_f n') ea eb
    | PDict _ _, _ => false
    | PObj na ua ea, PObj nb ub eb => str_eqb na nb && N.eqb ua ub && dict_eqb (eq_f n') ea eb   (* Object.sym_eq *)
    | PObj _ _ _, _ => false
    | _, PObj _ _ _ => false                                                   (* right.sym_eq(left): types differ *)
    | _, _ => native_eq a b                                                  (* callable_eq -> x == y *)
    end
  end.

(* base.lt *)
Fixpoint lt_f (n : nat) (a b : pv) {struct n} : result bool :=
  match n with
  | O => Err ERecursion
  | S n' =>
    if negb (same_type a b) && negb (str_eqb (rank a) (rank b))
    then Ok (is_lt (str_cmp (rank a) (rank b)))
    else
      match a with
      | PBool _ | PInt _ | PFlt _ _ | PStr _ => native_lt a b
      | PList _ la =>
          match b with PList _ lb => list_lt (eq_f n') (lt_f n') la lb | _ => Err EUnmodelled end
      | PDict _ ea =>
          match b with
          | PDict _ eb => ents_lt (eq_f n') (lt_f n') (sort_ents ea) (sort_ents eb)
          | _ => Err EUnmodelled
          end
      | PObj na ua ea =>
          (* Object.sym_lt: same class -> lt of the attribute dicts; another class of the same __qualname__ -> by
             (module, class identity), which is the order of the uids; otherwise back to base.lt (endless) *)
          match b with
          | PObj nb ub eb =>
              if str_eqb na nb then
                if N.eqb ua ub then ents_lt (eq_f n') (lt_f n') (sort_ents ea) (sort_ents eb)
                else Ok (N.ltb ua ub)
              else Err ERecursion
          | _ => Err ERecursion
          end
      | PNone | PMissing => Ok false
      | PTuple la => match b with PTuple lb => tuple_lt la lb | _ => Err ETypeError end
      end
  end.

Fixpoint depth (v : pv) : nat :=
  match v with
  | PList _ l | PTuple l => S (list_max (map depth l))
  | PDict _ e | PObj _ _ e => S (list_max (map (fun kv => depth (snd kv)) e))
  | _ => O
  end.

Definition eq (a b : pv) : bool := eq_f (S (depth a)) a b.
Definition ne (a b : pv) : bool := negb (eq a b).
Definition lt (a b : pv) : result bool := lt_f (S (depth a)) a b.
Definition gt (a b : pv) : result bool := lt b a.

(* Object.__eq__ / __ne__ for a class with use_symbolic_comparison: self.sym_eq(other) *)
Definition sym_eq (a b : pv) : bool :=
  match a, b with
  | PObj na ua ea, PObj nb ub eb => str_eqb na nb && N.eqb ua ub && eq (PDict true ea) (PDict true eb)
  | _, _ => false
  end.
(* [same]: the two operands are one and the same Python object.
   base.eq starts with `if left is right: return True`; Object.sym_eq with `self is other or ...`. *)
Definition eq_top (same : bool) (a b : pv) : bool := same || eq a b.
Definition ne_top (same : bool) (a b : pv) : bool := negb (eq_top same a b).
(* Object.__eq__ / __ne__ (and __hash__, see op_hash below): symbolic when the class has use_symbolic_comparison, otherwise Python's
   default (identity; the identity hash is not a value of this model) *)
Definition op_eq (symcmp same : bool) (a b : pv) : bool := if symcmp then same || sym_eq a b else same.
Definition op_ne (symcmp same : bool) (a b : pv) : bool := negb (op_eq symcmp same a b).

(* ---------------------------------------------------------------------------------------------
   pg.hash: the pre-image handed to Python's hash().  Leaves are mapped to their ==-class
   (1, 1.0 and True coincide, as CPython guarantees), containers to their class tag and the
   pre-images of their children; a pg.Dict to the *set* of (key, child) pairs (frozenset), kept here
   sorted by key; plain list / dict are unhashable. *)
Inductive cls : Type :=
| CMissing | CNone | CNum | CStr | CList | CTuple | CDict | CObj (name : list N) (uid : N) | CEnt.

Inductive hterm : Type :=
| HNum (q : Q)                 (* always Qred-uced *)
| HStr (s : list N)
| HNode (c : cls) (l : list hterm)
| HEnt (k : key) (h : hterm).

Fixpoint all_ok {A} (l : list (result A)) : result (list A) :=
  match l with
  | [] => Ok []
  | Ok a :: r => match all_ok r with Ok r' => Ok (a :: r') | Err e => Err e end
  | Err e :: _ => Err e
  end.

Definition is_missing (v : pv) : bool := match v with PMissing => true | _ => false end.

(* items of a pg.Dict whose value is not MISSING_VALUE, each hashed, as a set *)
Definition hash_ents (hs : list (key * (bool * result hterm))) : result (list hterm) :=
  match all_ok (map (fun kh => match snd (snd kh) with Ok h => Ok (fst kh, h) | Err e => Err e end)
                    (filter (fun kh => negb (fst (snd kh))) hs)) with
  | Ok l => Ok (map (fun kh => HEnt (fst kh) (snd kh)) (sort_ents l))
  | Err e => Err e
  end.

Fixpoint hpre (v : pv) : result hterm :=
  match v with
  | PMissing => Ok (HNode CMissing [])
  | PNone => Ok (HNode CNone [])
  | PBool b => Ok (HNum (Qred (inject_Z (if b then 1 else 0))))
  | PInt z => Ok (HNum (Qred (inject_Z z)))
  | PFlt m e => Ok (HNum (Qred (toQ m e)))
  | PStr s => Ok (HStr s)
  | PList true l => match all_ok (map hpre l) with Ok hs => Ok (HNode CList hs) | Err e => Err e end
  | PList false _ => Err ETypeError
  | PTuple l => match all_ok (map hpre l) with Ok hs => Ok (HNode CTuple hs) | Err e => Err e end
  | PDict true e =>
      match hash_ents (map (fun kv => (fst kv, (is_missing (snd kv), hpre (snd kv)))) e) with
      | Ok hs => Ok (HNode CDict hs) | Err e => Err e end
  | PDict false _ => Err ETypeError
  | PObj name uid e =>
      match hash_ents (map (fun kv => (fst kv, (is_missing (snd kv), hpre (snd kv)))) e) with
      | Ok hs => Ok (HNode (CObj name uid) [HNode CDict hs]) | Err e => Err e end
  end.

(* Object.__hash__ *)
Definition op_hash (symcmp : bool) (a : pv) : option (result hterm) := if symcmp then Some (hpre a) else None.

Definition cls_eqb (c d : cls) : bool :=
  match c, d with
  | CMissing, CMissing | CNone, CNone | CNum, CNum | CStr, CStr | CList, CList | CTuple, CTuple
  | CDict, CDict | CEnt, CEnt => true
  | CObj a u, CObj b u' => str_eqb a b && N.eqb u u'
  | _, _ => false
  end.
Fixpoint hterm_eqb (x y : hterm) {struct x} : bool :=
  match x, y with
  | HNum p, HNum q => Z.eqb (Qnum p) (Qnum q) && Pos.eqb (Qden p) (Qden q)
  | HStr a, HStr b => str_eqb a b
  | HNode c l, HNode d l' =>
      cls_eqb c d &&
      (fix go (l l' : list hterm) {struct l} : bool :=
         match l, l' with
         | [], [] => true
         | h :: r, h' :: r' => hterm_eqb h h' && go r r'
         | _, _ => false
         end) l l'
  | HEnt k h, HEnt k' h' => key_eqb k k' && hterm_eqb h h'
  | _, _ => false
  end.

(* ---------------------------------------------------------------------------------------------
   sorted(values, key=functools.cmp_to_key(c)) with c(a, b) = -1 if pg.lt(a, b) else 1 if pg.lt(b, a) else 0.
   A stable sort; modelled as the stable insertion sort (on a consistent order every stable sort
   returns the same list). *)
Definition cmp3 (a b : pv) : result comparison :=
  match lt a b with
  | Err e => Err e
  | Ok true => Ok Lt
  | Ok false => match lt b a with Err e => Err e | Ok true => Ok Gt | Ok false => Ok Eq end
  end.

Fixpoint sort_ins {A} (x : A * pv) (l : list (A * pv)) : result (list (A * pv)) :=
  match l with
  | [] => Ok [x]
  | y :: r =>
      match cmp3 (snd y) (snd x) with
      | Err e => Err e
      | Ok Lt => match sort_ins x r with Ok r' => Ok (y :: r') | Err e => Err e end
      | Ok _ => Ok (x :: y :: r)
      end
  end.
Fixpoint sort_by {A} (l : list (A * pv)) : result (list (A * pv)) :=
  match l with
  | [] => Ok []
  | x :: r => match sort_by r with Ok r' => sort_ins x r' | Err e => Err e end
  end.

(* ---------------------------------------------------------------------------------------------
   the domain of the theorems: values of the property's quantifier.
   [fam]: the one family of mutually comparable primitives that tuples are made of. *)
Inductive fam : Type := FNum | FStr.
Definition leaf_in_fam (f : fam) (v : pv) : bool :=
  match f, v with
  | FNum, (PBool _ | PInt _ | PFlt _ _) => true
  | FStr, PStr _ => true
  | _, _ => false
  end.
Fixpoint nodup_keys {A} (l : list (key * A)) : bool :=
  match l with [] => true | (k, _) :: r => negb (has_key k r) && nodup_keys r end.
Definition all_ranks : list (list N) :=
  [r_missing t; r_none t; r_bool t; r_int t; r_float t; r_str t; r_list t; r_tuple t; r_dict t].
Definition name_ok (name : list N) : bool := negb (existsb (str_eqb name) all_ranks).
Definition str_key (k : key) : bool := match k with KStr _ => true | _ => false end.

Fixpoint cmp_ok (f : fam) (v : pv) : bool :=
  match v with
  | PList _ l => forallb (cmp_ok f) l
  | PTuple l => forallb (leaf_in_fam f) l
  | PDict _ e => nodup_keys e && forallb (fun kv => cmp_ok f (snd kv)) e
  | PObj name uid e => name_ok name && nodup_keys e && forallb (fun kv => str_key (fst kv)) e
                       && forallb (fun kv => cmp_ok f (snd kv)) e
  | _ => true
  end.

(* symbolic all the way down: pg.hash is defined *)
Fixpoint hashable (v : pv) : bool :=
  match v with
  | PList s l => s && forallb hashable l
  | PTuple l => forallb hashable l
  | PDict s e => s && forallb (fun kv => hashable (snd kv)) e
  | PObj _ _ e => forallb (fun kv => hashable (snd kv)) e
  | _ => true
  end.

(* what makes the table a usable type order: bool, int, float share one rank; the ranks of the kinds
   are pairwise different *)
Fixpoint distinct (l : list (list N)) : bool :=
  match l with [] => true | x :: r => negb (existsb (str_eqb x) r) && distinct r end.
Definition ranks_ok : bool :=
  str_eqb (r_bool t) (r_int t) && str_eqb (r_int t) (r_float t)
  && distinct [r_missing t; r_none t; r_int t; r_str t; r_list t; r_tuple t; r_dict t].

End WithTable.

(* ---------------------------------------------------------------------------------------------
   wire format
   value ::= (0) MISSING | (1) None | (2 b) | (3 z) | (4 m e) | (5 str) | (6 sym (v ...)) list
           | (7 (v ...)) tuple | (8 sym ((key v) ...)) dict | (9 str ((key v) ...) uid) object
   key   ::= (0 str) | (1 z) | (2 h e)   the float (2h+1)/2^e
   case  ::= (0 a b ops same) -> (eq ne lt gt (hash-a hash-b equal) ops?)  same = 1: a and b are one Python object;
                                  ops = 1: a is an instance of a class with use_symbolic_comparison: also print ==, !=, hash();
                                  ops = 2: a is an instance of a class without it: also print ==, !=
           | (1 (v ...))   -> (0 (i ...)) | (1 err)                        sorted(): indices of the result
           | (2 v)         -> (rank-string hash-code)                      _type_order probe
   result bool ::= (0 b) | (1 err)      err ::= 1 TypeError | 2 RecursionError | 3 unmodelled *)
Definition d_key (x : tr) : option key :=
  match x with
  | L [I 0%Z; s] => do s' <- dstr s; Some (KStr s')
  | L [I 1%Z; I z] => Some (KInt z)
  | L [I 2%Z; I h; I (Zpos e)] => Some (KFlt h e)
  | _ => None
  end.

Fixpoint d_pv (fuel : nat) (x : tr) : option pv :=
  match fuel with
  | O => None
  | S f =>
    let d_ent := fun e => match e with L [k; v] => do k' <- d_key k; do v' <- d_pv f v; Some (k', v') | _ => None end in
    match x with
    | L [I 0%Z] => Some PMissing
    | L [I 1%Z] => Some PNone
    | L [I 2%Z; b] => do b' <- dbool b; Some (PBool b')
    | L [I 3%Z; I z] => Some (PInt z)
    | L [I 4%Z; I m; e] => do e' <- dN e; Some (PFlt m e')
    | L [I 5%Z; s] => do s' <- dstr s; Some (PStr s')
    | L [I 6%Z; sy; L l] => do s <- dbool sy; do l' <- dall (d_pv f) l; Some (PList s l')
    | L [I 7%Z; L l] => do l' <- dall (d_pv f) l; Some (PTuple l')
    | L [I 8%Z; sy; L es] => do s <- dbool sy; do es' <- dall d_ent es; Some (PDict s es')
    | L [I 9%Z; nm; L es; u] => do n <- dstr nm; do u' <- dN u; do es' <- dall d_ent es; Some (PObj n u' es')
    | _ => None
    end
  end.

Definition e_err (e : err) : tr :=
  I (match e with ETypeError => 1 | ERecursion => 2 | EUnmodelled => 3 end)%Z.
Definition e_res (r : result bool) : tr :=
  match r with Ok b => L [I 0%Z; ebool b] | Err e => L [I 1%Z; e_err e] end.
Definition h_code (r : result hterm) : tr := match r with Ok _ => I 0%Z | Err e => e_err e end.

Definition run_pair (a b : pv) (ops : Z) (same : bool) : tr :=
  let ha := hpre tbl a in
  let hb := hpre tbl b in
  L [ ebool (eq_top same a b); ebool (ne_top same a b); e_res (lt tbl a b); e_res (gt tbl a b);
      L [h_code ha; h_code hb;
         ebool (match ha, hb with Ok x, Ok y => hterm_eqb x y | _, _ => false end)];
      match ops with
      | 1%Z => L [ebool (op_eq true same a b); ebool (op_ne true same a b);
                  match op_hash tbl true a with Some h => h_code h | None => I 7%Z end]
      | 2%Z => L [ebool (op_eq false same a b); ebool (op_ne false same a b)]
      | _ => L []
      end ].

Definition run (c : tr) : tr :=
  match c with
  | L [I 0%Z; a; b; I ops; same] =>
      match d_pv 60 a, d_pv 60 b, dbool same with
      | Some a', Some b', Some s => run_pair a' b' ops s
      | _, _, _ => ebad
      end
  | L [I 1%Z; L vs] =>
      match dall (d_pv 60) vs with
      | Some l =>
          match sort_by tbl (combine (seq 0 (length l)) l) with
          | Ok r => L [I 0%Z; L (map (fun p => enat (fst p)) r)]
          | Err e => L [I 1%Z; e_err e]
          end
      | None => ebad
      end
  | L [I 2%Z; v] =>
      match d_pv 60 v with
      | Some v' => L [estr (rank tbl v'); h_code (hpre tbl v')]
      | None => ebad
      end
  | _ => ebad
  end.

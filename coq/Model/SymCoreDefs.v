(* SymCoreDefs.v — data types and tree surgery of the SymCore model (definitions only).

   A symbolic value is a node of a forest of *annotated* trees: the parent link [par] and the path
   [pth] a node BELIEVES (pg: sym_parent / sym_path) are stored annotations, separate from where the
   node actually sits (its position in [items] of its container).  Object identity is the node id.
   pg.Object's internal attribute Dict is collapsed into the object node.                              *)
From Coq Require Import ZArith NArith List Bool.
Import ListNotations.
Local Open Scope Z_scope.

Inductive key : Type := KS (s : list N) | KI (i : Z).
(* non-symbolic leaves. LOpq: a mutable user object with identity [oid] and value [tag];
   LJunk: any other object (e.g. a pg.Insertion stored as a plain value). *)
Inductive leaf : Type :=
| LNone | LBool (b : bool) | LInt (z : Z) | LStr (s : list N) | LMissing | LOpq (oid tag : N) | LJunk.
Inductive kind : Type := KDict | KList | KObj (cls : N).
(* f_spec: an opaque reference to the value spec bound to the node (0 = none); SymCore only carries it along
   (copied by clone, kept by moves, set by literals) -- its meaning belongs to the typed extension (C03) *)
Record flags : Type := mkFlags { f_sealed : bool; f_aw : bool; f_partial : bool; f_spec : N }.

Inductive node : Type :=
| Leaf (l : leaf)
| Node (id : N) (k : kind) (par : option N) (pth : list key) (fl : flags) (items : list (key * node)).

(* a root slot = something the user holds: a live tree, or an object that was moved into another tree
   (it comes back to its slot when that tree lets go of it) *)
Inductive slot : Type := Live (t : node) | Moved (i : N).
Record state : Type := mkState { roots : list slot; next_id : N }.

(* --- equalities ------------------------------------------------------------------------------ *)
Fixpoint list_eqb {A} (e : A -> A -> bool) (a b : list A) : bool :=
  match a, b with
  | [], [] => true
  | x :: a', y :: b' => e x y && list_eqb e a' b'
  | _, _ => false
  end.
Definition key_eqb (a b : key) : bool :=
  match a, b with
  | KS x, KS y => list_eqb N.eqb x y
  | KI x, KI y => Z.eqb x y
  | _, _ => false
  end.
Definition path_eqb : list key -> list key -> bool := list_eqb key_eqb.
Definition optN_eqb (a b : option N) : bool :=
  match a, b with Some x, Some y => N.eqb x y | None, None => true | _, _ => false end.
(* `a is b` on leaves as CPython decides it for the leaves the generators produce (None, bools, small ints,
   strings of length <= 1, MISSING are singletons; an opaque object is itself) *)
Definition leaf_is (a b : leaf) : bool :=
  match a, b with
  | LNone, LNone => true
  | LBool x, LBool y => Bool.eqb x y
  | LInt x, LInt y => Z.eqb x y
  | LStr x, LStr y => list_eqb N.eqb x y
  | LMissing, LMissing => true
  | LOpq i _, LOpq j _ => N.eqb i j
  | _, _ => false
  end.
(* `a == b` in Python *)
Definition leaf_num (a : leaf) : option Z :=
  match a with LBool b => Some (if b then 1 else 0) | LInt z => Some z | _ => None end.
Definition leaf_pyeq (a b : leaf) : bool :=
  match leaf_num a, leaf_num b with
  | Some x, Some y => Z.eqb x y
  | _, _ =>
    match a, b with
    | LNone, LNone => true
    | LStr x, LStr y => list_eqb N.eqb x y
    | LMissing, LMissing => true
    | LOpq _ s, LOpq _ t => N.eqb s t
    | _, _ => false
    end
  end.
Definition is_missing (n : node) : bool := match n with Leaf LMissing => true | _ => false end.

(* --- the three fixed pg.Object classes --------------------------------------------------------- *)
Definition kx : key := KS [120%N].
Definition ky : key := KS [121%N].
Definition kz : key := KS [122%N].
Definition class_fields (c : N) : list key :=
  match c with 0%N => [kx; ky] | 1%N => [kx; ky; kz] | _ => [kx] end.
Definition class_aw (c : N) : bool := match c with 1%N => true | _ => false end.

(* --- association lists --------------------------------------------------------------------------- *)
Section Assoc.
  Context {A : Type}.
  Fixpoint assoc (k : key) (l : list (key * A)) : option A :=
    match l with
    | [] => None
    | (k', v) :: r => if key_eqb k k' then Some v else assoc k r
    end.
  Fixpoint set_assoc (k : key) (v : A) (l : list (key * A)) : list (key * A) :=
    match l with
    | [] => [(k, v)]
    | (k', v') :: r => if key_eqb k k' then (k', v) :: r else (k', v') :: set_assoc k v r
    end.
  Fixpoint remove_assoc (k : key) (l : list (key * A)) : list (key * A) :=
    match l with
    | [] => []
    | (k', v') :: r => if key_eqb k k' then r else (k', v') :: remove_assoc k r
    end.
  Fixpoint map_assoc (k : key) (f : A -> A) (l : list (key * A)) : list (key * A) :=
    match l with
    | [] => []
    | (k', v') :: r => if key_eqb k k' then (k', f v') :: r else (k', v') :: map_assoc k f r
    end.
  Definition has_key (k : key) (l : list (key * A)) : bool :=
    match assoc k l with Some _ => true | None => false end.
End Assoc.

(* --- accessors ------------------------------------------------------------------------------------ *)
Definition nid (n : node) : option N := match n with Node i _ _ _ _ _ => Some i | Leaf _ => None end.
Definition npar (n : node) : option N := match n with Node _ _ p _ _ _ => p | Leaf _ => None end.
Definition npth (n : node) : list key := match n with Node _ _ _ p _ _ => p | Leaf _ => [] end.
Definition nitems (n : node) : list (key * node) := match n with Node _ _ _ _ _ its => its | Leaf _ => [] end.
Definition is_node (n : node) : bool := match n with Node _ _ _ _ _ _ => true | Leaf _ => false end.

Definition set_par (p : option N) (n : node) : node :=
  match n with Leaf l => Leaf l | Node i k _ pt fl its => Node i k p pt fl its end.
Definition set_items (its : list (key * node)) (n : node) : node :=
  match n with Leaf l => Leaf l | Node i k p pt fl _ => Node i k p pt fl its end.
Definition set_flags (f : flags -> flags) (n : node) : node :=
  match n with Leaf l => Leaf l | Node i k p pt fl its => Node i k p pt (f fl) its end.

(* Symbolic.sym_setpath: nothing happens when the path is already the stored one; otherwise the path is
   stored and every child is given (new path + its key), recursively. *)
Fixpoint set_path (p : list key) (n : node) : node :=
  match n with
  | Leaf l => Leaf l
  | Node i k pa pt fl its =>
      if path_eqb pt p then n
      else Node i k pa p fl (map (fun kv => (fst kv, set_path (p ++ [fst kv]) (snd kv))) its)
  end.

(* detaching a removed / replaced value: sym_setparent(None); sym_setpath(KeyPath()) *)
Definition detach (n : node) : node := set_path [] (set_par None n).

(* List: keys are positions.  renumbering also re-addresses the children (List._update_children_indices:
   a child whose path does not end with its index gets path = list path + index) *)
Definition last_key (p : list key) : option key := match rev p with [] => None | k :: _ => Some k end.
Definition reindex_child (cpath : list key) (i : Z) (c : node) : node :=
  match c with
  | Leaf _ => c
  | Node _ _ _ pt _ _ =>
      match last_key pt with
      | Some k => if key_eqb k (KI i) then c else set_path (cpath ++ [KI i]) c
      | None => set_path (cpath ++ [KI i]) c
      end
  end.
Fixpoint renum_from (cpath : list key) (i : Z) (l : list (key * node)) : list (key * node) :=
  match l with
  | [] => []
  | (_, c) :: r => (KI i, reindex_child cpath i c) :: renum_from cpath (i + 1) r
  end.
Definition renum (cpath : list key) (l : list (key * node)) : list (key * node) := renum_from cpath 0 l.
(* renumbering the keys only (positions), children untouched *)
Fixpoint rekey_from (i : Z) (l : list (key * node)) : list (key * node) :=
  match l with [] => [] | (_, c) :: r => (KI i, c) :: rekey_from (i + 1) r end.

(* seal(b): the flag of every node below *)
Fixpoint seal_rec (b : bool) (n : node) : node :=
  match n with
  | Leaf l => Leaf l
  | Node i k pa pt fl its =>
      Node i k pa pt (mkFlags b (f_aw fl) (f_partial fl) (f_spec fl)) (map (fun kv => (fst kv, seal_rec b (snd kv))) its)
  end.

(* --- positions --------------------------------------------------------------------------------------- *)
Fixpoint get_in (p : list key) (n : node) : option node :=
  match p with
  | [] => Some n
  | k :: r => match assoc k (nitems n) with Some c => get_in r c | None => None end
  end.
Fixpoint update_in (p : list key) (f : node -> node) (n : node) : node :=
  match p with
  | [] => f n
  | k :: r =>
      match n with
      | Leaf l => Leaf l
      | Node i kd pa pt fl its => Node i kd pa pt fl (map_assoc k (update_in r f) its)
      end
  end.
Definition pos : Type := (nat * list key)%type.
Definition get_root (st : state) (r : nat) : option node :=
  match nth_error (roots st) r with Some (Live t) => Some t | _ => None end.
Definition get_at (st : state) (ps : pos) : option node :=
  match get_root st (fst ps) with Some t => get_in (snd ps) t | None => None end.
Fixpoint set_nth {A} (n : nat) (x : A) (l : list A) : list A :=
  match l, n with
  | [], _ => []
  | _ :: r, O => x :: r
  | y :: r, S m => y :: set_nth m x r
  end.
Definition set_root (st : state) (r : nat) (t : slot) : state :=
  mkState (set_nth r t (roots st)) (next_id st).
Definition update_at (st : state) (ps : pos) (f : node -> node) : state :=
  match get_root st (fst ps) with
  | Some t => set_root st (fst ps) (Live (update_in (snd ps) f t))
  | None => st
  end.
Definition add_root (st : state) (t : node) : state := mkState (roots st ++ [Live t]) (next_id st).
(* a removed node the user may still hold becomes a root: back in its own slot if it was a root that had been
   moved into the tree, a new slot otherwise *)
Fixpoint restore_slot (i : N) (t : node) (rs : list slot) : option (list slot) :=
  match rs with
  | [] => None
  | Moved j :: r =>
      if N.eqb i j then Some (Live t :: r)
      else match restore_slot i t r with Some r' => Some (Moved j :: r') | None => None end
  | Live x :: r => match restore_slot i t r with Some r' => Some (Live x :: r') | None => None end
  end.
Definition add_detached (st : state) (n : node) : state :=
  match n with
  | Leaf _ => st
  | Node i _ _ _ _ _ =>
      match restore_slot i (detach n) (roots st) with
      | Some rs => mkState rs (next_id st)
      | None => add_root st (detach n)
      end
  end.

(* where the node with a given id is actually stored *)
Fixpoint find_id (i : N) (n : node) : option (list key) :=
  match n with
  | Leaf _ => None
  | Node j _ _ _ _ its =>
      if N.eqb i j then Some []
      else (fix go (l : list (key * node)) : option (list key) :=
              match l with
              | [] => None
              | (k, c) :: r => match find_id i c with Some p => Some (k :: p) | None => go r end
              end) its
  end.
Fixpoint locate_from (i : N) (rs : list slot) (idx : nat) : option pos :=
  match rs with
  | [] => None
  | Moved _ :: r => locate_from i r (S idx)
  | Live t :: r => match find_id i t with Some p => Some (idx, p) | None => locate_from i r (S idx) end
  end.
Definition locate (st : state) (i : N) : option pos := locate_from i (roots st) 0.

(* all node ids below a node / in a state *)
Fixpoint ids (n : node) : list N :=
  match n with
  | Leaf _ => []
  | Node i _ _ _ _ its => i :: flat_map (fun kv => ids (snd kv)) its
  end.
Definition ids_slot (o : slot) : list N := match o with Live t => ids t | Moved _ => [] end.
Definition all_ids (st : state) : list N := flat_map ids_slot (roots st).

(* identities of opaque leaf objects: those written in a case are even, those made by a deep copy are odd *)
(* --- copying ----------------------------------------------------------------------------------------- *)
(* sym_clone: every symbolic container below gets a fresh id, parent and path of the copy are those of a
   tree of its own (rooted at [p] below [pa]); flags are copied per node.  Non-symbolic leaves are shared
   (shallow) or copied once per object (deep: one memo for the whole call, as copy.deepcopy).
   [dm] (open finding C07/not-equal/.../list-holds-MISSING): building a pg.List from items drops MISSING_VALUE
   items (appending MISSING is a no-op), so the copy of a list that holds MISSING_VALUE loses it.          *)
Definition memo : Type := list (N * N).
Fixpoint memo_get (m : memo) (o : N) : option N :=
  match m with [] => None | (a, b) :: r => if N.eqb a o then Some b else memo_get r o end.
Definition cstate : Type := (N * memo)%type.
Definition clone_leaf (deep : bool) (l : leaf) (cs : cstate) : leaf * cstate :=
  match l with
  | LOpq o t =>
      if deep then
        match memo_get (snd cs) o with
        | Some o' => (LOpq o' t, cs)
        | None => (LOpq (2 * fst cs + 1) t, (N.succ (fst cs), (o, (2 * fst cs + 1)%N) :: snd cs))
        end
      else (l, cs)
  | _ => (l, cs)
  end.
Fixpoint clone_at (dm deep : bool) (pa : option N) (p : list key) (n : node) (cs : cstate) : node * cstate :=
  match n with
  | Leaf l => let '(l', cs') := clone_leaf deep l cs in (Leaf l', cs')
  | Node _ k _ _ fl its =>
      let me := fst cs in
      let '(its', cs') :=
        (fix go (l : list (key * node)) (i : Z) (cs : cstate) : list (key * node) * cstate :=
           match l with
           | [] => ([], cs)
           | (kk, c) :: r =>
               if dm && (match k with KList => is_missing c | _ => false end) then go r i cs
               else
                 let kk' := match k with KList => KI i | _ => kk end in
                 let '(c', cs1) := clone_at dm deep (Some me) (p ++ [kk']) c cs in
                 let '(r', cs2) := go r (i + 1) cs1 in
                 ((kk', c') :: r', cs2)
           end) its 0 (N.succ me, snd cs) in
      (Node me k pa p fl its', cs')
  end.

(* --- literals ---------------------------------------------------------------------------------------- *)
(* plain = a Python dict / list (converted on insertion: default flags, allow_partial of the context);
   otherwise a constructed pg.Dict / pg.List / pg.Object with the given flags (sealed seals everything below). *)
Inductive lit : Type :=
| LitLeaf (l : leaf)
| LitNode (k : kind) (fl : flags) (plain : bool) (items : list (key * lit)).

Fixpoint keys_nodup (l : list key) : bool :=
  match l with [] => true | k :: r => negb (existsb (key_eqb k) r) && keys_nodup r end.
Definition leaf_storable (l : leaf) : bool := match l with LMissing | LJunk => false | _ => true end.
Fixpoint lit_valid (l : lit) : bool :=
  match l with
  | LitLeaf lf => leaf_storable lf
  | LitNode k fl plain its =>
      (match k with
       | KObj c => negb plain && path_eqb (map fst its) (class_fields c)
       | KDict => keys_nodup (map fst its)
       | KList => true
       end)
      && forallb (fun kv => lit_valid (snd kv)) its
  end.
Definition ctor_seal (n : node) : node :=
  match n with Node _ _ _ _ fl _ => if f_sealed fl then seal_rec true n else n | Leaf _ => n end.
Fixpoint build (ctx_partial : bool) (pa : option N) (p : list key) (l : lit) (nx : N) : node * N :=
  match l with
  | LitLeaf lf => (Leaf lf, nx)
  | LitNode k fl plain its =>
      let fl' := if plain then mkFlags false true ctx_partial 0 else fl in
      let me := nx in
      let '(its', nx') :=
        (fix go (l : list (key * lit)) (i : Z) (nx : N) : list (key * node) * N :=
           match l with
           | [] => ([], nx)
           | (kk, c) :: r =>
               let kk' := match k with KList => KI i | _ => kk end in
               let '(c', n1) := build (f_partial fl') (Some me) (p ++ [kk']) c nx in
               let '(r', n2) := go r (i + 1) n1 in
               ((kk', c') :: r', n2)
           end) its 0 (N.succ me) in
      (ctor_seal (Node me k pa p fl' its'), nx')
  end.

(* SymCoreEvents.v -- the C09 extension of the SymCore model (definitions only).

   A step returns, besides the new forest and the outcome of SymCore.step, the EVENT LOG of the call (which
   nodes had their change handler called, in delivery order, with which payload) and the new contents of the
   MEMOISED DERIVED FACTS (sym_puresymbolic / sym_missing / sym_nondefault caches of every node).

   It is a re-run of SymCoreOps.exec that records a TRACE next to the state: one [TW] per write of a container
   (the write paths reset the caches of the container and of its ancestors), one [TN] per call of
   Symbolic._notify_field_updates (state at that moment, list of FieldUpdates, where to stop).  The state and
   outcome components are SymCoreOps.exec itself (Proofs/SymCoreEventsAgree.v: execT_exec).

   Who observes: a pg.Dict / pg.List with an onchange_callback (bit 0 of the opaque annotation f_spec, which
   clone copies per node and plain literals do not have -- exactly what the code does with the callback),
   objects of class 0 (overrides _on_change: subscribes, gets the payload), objects of class 1 (overrides
   _on_bound only: is called, without payload), objects of class 2 (nothing observable).                  *)
From Coq Require Import ZArith NArith List Bool.
Import ListNotations.
From PG Require Import Common.Tr Model.SymCore.
Local Open Scope Z_scope.

(* --- observers ------------------------------------------------------------------------------------------ *)
Inductive obs : Type := ObsNone | ObsBare | ObsFull.
Definition has_cb (fl : flags) : bool := N.odd (f_spec fl).
Definition obs_of (n : node) : obs :=
  match n with
  | Leaf _ => ObsNone
  | Node _ (KObj c) _ _ _ _ => if N.eqb c 0 then ObsFull else if N.eqb c 1 then ObsBare else ObsNone
  | Node _ _ _ _ fl _ => if has_cb fl then ObsFull else ObsNone
  end.
(* Symbolic._subscribes_field_updates *)
Definition subscribes (n : node) : bool := match obs_of n with ObsFull => true | _ => false end.

(* --- FieldUpdate ------------------------------------------------------------------------------------------ *)
Record update : Type := mkUpd {
  u_path : list key;     (* path of the written location: stored path of the container + actual key *)
  u_tid : N;             (* the container (FieldUpdate.target) *)
  u_old : node;
  u_new : node }.
Record event : Type := mkEv {
  ev_id : N;                                        (* the receiver *)
  ev_path : list key;                               (* its stored path at delivery *)
  ev_payload : list (list key * update) }.          (* relative path -> update, in dict order *)

Definition item_of (k : kind) (its : list (key * node)) (ky : key) : node :=
  match k, ky with
  | KList, KI z => match nth_error its (Z.to_nat z) with Some (_, c) => c | None => Leaf LMissing end
  | _, _ => match assoc ky its with Some c => c | None => Leaf LMissing end
  end.
Definition item_at (st : state) (cp : pos) (ky : key) : node :=
  match get_at st cp with
  | Some (Node _ k _ _ _ its) => item_of k its ky
  | _ => Leaf LMissing
  end.
(* List._set_item_without_permission_check: the actual index of a write and whether it fills a new slot *)
Definition l_actual (its : list (key * node)) (z : Z) (rv : rvalue) : Z * bool :=
  let n := zlen its in
  let idx0 := if z >=? n then n else z in
  let ins := match rv with RIns _ => true | _ => false end in
  let idx := if idx0 <? 0 then (if idx0 >=? - n then idx0 + n else if ins then 0 else idx0) else idx0 in
  (idx, ins || (idx >=? n)).
(* the FieldUpdate a successful write of key [ky] of the container at [cp] returns ([st]: before, [st']: after) *)
Definition upd_of (st st' : state) (cp : pos) (ky : key) (rv : rvalue) : list update :=
  match get_at st cp with
  | Some (Node cid kd _ cpath _ its) =>
      let '(k', fresh) :=
        match kd, ky with
        | KList, KI z => let '(i, f) := l_actual its z rv in (KI i, f)
        | _, _ => (ky, false)
        end in
      [mkUpd (cpath ++ [k']) cid (if fresh then Leaf LMissing else item_of kd its k') (item_at st' cp k')]
  | _ => []
  end.

(* --- Symbolic._notify_field_updates ------------------------------------------------------------------------- *)
(* the node with id [i] and the containers above it, deepest first *)
Definition chain_at (st : state) (ps : pos) : list node :=
  flat_map (fun pre => match get_at st (fst ps, pre) with Some n => [n] | None => [] end) (prefixes_desc (snd ps)).
Definition chain_of (st : state) (i : N) : list node :=
  match locate st i with Some ps => chain_at st ps | None => [] end.
Definition nid0 (n : node) : N := match nid n with Some i => i | None => 0%N end.

(* per_target_updates: targets in first-seen order; each with a dict relative path -> update *)
Definition target : Type := (node * list (list key * update))%type.
Fixpoint upsert (rp : list key) (u : update) (l : list (list key * update)) : list (list key * update) :=
  match l with
  | [] => [(rp, u)]
  | (p, v) :: r => if path_eqb p rp then (p, u) :: r else (p, v) :: upsert rp u r
  end.
Fixpoint add_target (n : node) (e : option (list key * update)) (ts : list target) : list target :=
  match ts with
  | [] => [(n, match e with Some (rp, u) => [(rp, u)] | None => [] end)]
  | (m, pl) :: r =>
      if N.eqb (nid0 m) (nid0 n)
      then (m, match e with Some (rp, u) => upsert rp u pl | None => pl end) :: r
      else (m, pl) :: add_target n e r
  end.
Definition rel_path (n : node) (u : update) : list key := skipn (length (npth n)) (u_path u).
Definition group_one (st : state) (ts : list target) (u : update) : list target :=
  fold_left (fun ts n => add_target n (if subscribes n then Some (rel_path n u, u) else None) ts) (chain_of st (u_tid u)) ts.
Definition group (st : state) (ups : list update) : list target := fold_left (group_one st) ups [].
(* sorted(..., key=sym_path, reverse=True) *)
Definition order (ts : list target) : list target :=
  map snd (sort_desc (map (fun t => (npth (fst t), t)) ts)).
(* `if target is self and not notify_parents: break` *)
Fixpoint cut_after (stop : option N) (ts : list target) : list target :=
  match ts with
  | [] => []
  | t :: r =>
      match stop with
      | Some i => if N.eqb (nid0 (fst t)) i then [t] else t :: cut_after stop r
      | None => t :: cut_after stop r
      end
  end.
(* the targets whose _on_change is called, in order *)
Definition notified_targets (st : state) (ups : list update) (stop : option N) : list target :=
  cut_after stop (order (group st ups)).
Definition event_of (t : target) : list event :=
  match obs_of (fst t) with
  | ObsFull => [mkEv (nid0 (fst t)) (npth (fst t)) (snd t)]
  | ObsBare => [mkEv (nid0 (fst t)) (npth (fst t)) []]
  | ObsNone => []
  end.
Definition deliver (st : state) (ups : list update) (stop : option N) : list event :=
  flat_map event_of (notified_targets st ups stop).

(* --- the trace of a call --------------------------------------------------------------------------------------- *)
Inductive tentry : Type :=
| TW (st : state) (cid : N)                                  (* container [cid] was written; [st]: right after *)
| TN (st : state) (ups : list update) (stop : option N).      (* _notify_field_updates(ups) in state [st] *)
Definition trace : Type := list tentry.
(* a FieldUpdate holds its old and new value by reference: what a receiver reads there is what those objects hold when the
   notification is delivered (a later write of the same batch may have gone into a value stored earlier) *)
Definition current (st : state) (n : node) : node :=
  match n with
  | Leaf _ => n
  | Node i _ _ _ _ _ => match locate st i with Some ps => match get_at st ps with Some m => m | None => n end | None => n end
  end.
Definition refresh (st : state) (u : update) : update := mkUpd (u_path u) (u_tid u) (current st (u_old u)) (current st (u_new u)).
Definition events_of (t : trace) : list event :=
  flat_map (fun e => match e with TN st ups stop => deliver st (map (refresh st) ups) stop | TW _ _ => [] end) t.

(* --- the trace of every operation (same guards, same primitive calls as SymCoreOps.exec) -------------------------- *)
Definition cur_id (st : state) (ps : pos) : N := match get_at st ps with Some n => nid0 n | None => 0%N end.
(* a notification happens only when there is something to tell and notification is enabled *)
Definition ntf (sc : scope) (st : state) (ups : list update) : trace :=
  match ups with [] => [] | _ => if notify_on sc then [TN st ups None] else [] end.
(* `old is new` for stored items: SymCoreOps.same_item *)
Definition missing_node : node := Leaf LMissing.
(* the updates of a re-ordering (sort / reverse): the positions whose element is another object now *)
Fixpoint reorder_ups (cpath : list key) (cid : N) (i : Z) (olds news : list (key * node)) : list update :=
  match olds, news with
  | (_, o) :: r, (_, n) :: r' =>
      (if same_item o n then [] else [mkUpd (cpath ++ [KI i]) cid o n]) ++ reorder_ups cpath cid (i + 1) r r'
  | _, _ => []
  end.
Fixpoint removed_ups_list (cpath : list key) (cid : N) (i : Z) (its : list (key * node)) : list update :=
  match its with
  | [] => []
  | (_, o) :: r => mkUpd (cpath ++ [KI i]) cid o missing_node :: removed_ups_list cpath cid (i + 1) r
  end.
Definition removed_ups_dict (cpath : list key) (cid : N) (its : list (key * node)) : list update :=
  map (fun kv => mkUpd (cpath ++ [fst kv]) cid (snd kv) missing_node) its.

Section WithQuirks.
Variable q : quirks.

Definition wtrace (st st' : state) (cp : pos) (ky : key) (rv : rvalue) (p : pres) : trace * list update :=
  match p with
  | PUpd => ([TW st' (cur_id st cp)], upd_of st st' cp ky rv)
  | _ => ([], [])
  end.
(* one write through a primitive, notified singly (accessor writes, append, insert, pop of a dict, setdefault) *)
Definition write1_tr (pr : scope -> state -> pos -> key -> rvalue -> state * pres)
           (sc : scope) (st : state) (ps : pos) (ky : key) (rv : rvalue) : trace :=
  match pr sc st ps ky rv with
  | (st', PUpd) => let '(tw, ups) := wtrace st st' ps ky rv PUpd in tw ++ ntf sc st' ups
  | _ => []
  end.
(* del l[idx] *)
Definition ldel_tr (sc : scope) (st : state) (ps : pos) (idx : nat) : trace :=
  let its := cur_items st ps in
  match nth_error its idx with
  | Some (_, old) =>
      let st1 := update_at st ps (set_items (renum (cur_path st ps) (remove_nth idx its))) in
      let st2 := add_detached st1 old in
      TW st2 (cur_id st ps)
      :: ntf sc st2 [mkUpd (cur_path st ps ++ [KI (Z.of_nat idx)]) (cur_id st ps) old missing_node]
  | None => []
  end.
(* List.extend: the writes, their updates, the state after the loop, whether the loop completed *)
Fixpoint extend_tr (sc : scope) (st : state) (ps : pos) (rvs : list rvalue) : trace * list update * state * bool :=
  match rvs with
  | [] => ([], [], st, true)
  | rv :: r =>
      let ky := KI (cur_len st ps) in
      match lprim q sc st ps ky rv with
      | (st', PErr _) => ([], [], st', false)
      | (st', p) =>
          let '(tw, us) := wtrace st st' ps ky rv p in
          let '(t, u, stf, ok) := extend_tr sc st' ps r in (tw ++ t, us ++ u, stf, ok)
      end
  end.
Definition extend_core_tr (sc : scope) (st : state) (ps : pos) (rvs : list rvalue) : trace :=
  let '(t, u, stf, ok) := extend_tr sc st ps rvs in if ok then t ++ ntf sc stf u else t.
Definition clear_list_tr (sc : scope) (st : state) (ps : pos) (tid : N) (tpth : list key) (its : list (key * node)) : trace :=
  let st1 := detach_all (update_at st ps (set_items [])) its in
  TW st1 tid :: ntf sc st1 (removed_ups_list tpth tid 0 its).
Definition reorder_tr (sc : scope) (st : state) (ps : pos) (tid : N) (tpth : list key) (its its' : list (key * node)) : trace :=
  let st1 := update_at st ps (set_items (renum tpth its')) in
  match reorder_ups tpth tid 0 its (renum tpth its') with
  | [] => []
  | ups => TW st1 tid :: ntf sc st1 ups
  end.

(* rebind *)
Definition rebind_one_tr (sc : scope) (st : state) (tp : pos) (path : list key) (rv : rvalue) : trace * list update :=
  match path with
  | [] => ([], [])
  | _ =>
      match get_at st tp with
      | Some tgt =>
          match query_path tgt (removelast path) with
          | None => ([], [])
          | Some app =>
              let cp := (fst tp, snd tp ++ app) in
              match get_at st cp with
              | Some (Node cid _ _ _ cfl _) =>
                  if treats_as_sealed sc cfl then ([], [])
                  else let '(st', p) := prim q sc st cp (last path (KI 0)) rv in wtrace st st' cp (last path (KI 0)) rv p
              | _ => ([], [])
              end
          end
      | None => ([], [])
      end
  end.
Fixpoint rebind_tr (sc : scope) (st : state) (tp : pos) (pvs : list (list key * rvalue)) : trace * list update * state * bool :=
  match pvs with
  | [] => ([], [], st, true)
  | (p, rv) :: r =>
      match rebind_one q sc st tp p rv with
      | (st', PErr _, _) => ([], [], st', false)
      | (st', _, _) =>
          let '(tw, us) := rebind_one_tr sc st tp p rv in
          let '(t, u, stf, ok) := rebind_tr sc st' tp r in (tw ++ t, us ++ u, stf, ok)
      end
  end.
Definition rebind_core_tr (sc : scope) (st : state) (tp : pos) (tk : kind) (pvs : list (list key * rvalue))
           (notify : bool) (stop : option N) : trace :=
  let ordered := match tk with KList => sort_desc pvs | _ => pvs end in
  let '(t, u, stf, ok) := rebind_tr sc st tp ordered in
  (* List._sym_rebind hands the updates back in ascending order *)
  let u' := match tk with KList => rev u | _ => u end in
  if ok && notify then t ++ (match u' with [] => [] | _ => [TN stf u' stop] end) else t.

Definition exec_trace (sc : scope) (st : state) (ps : pos) (tid : N) (tk : kind) (tpth : list key) (tfl : flags)
           (its : list (key * node)) (o : op rvalue) : trace :=
  let sl := treats_as_sealed sc tfl in
  let aw := writable_via_accessors sc tfl in
  let n := zlen its in
  match o with
  | LSet i rv =>
      if sl then [] else if negb aw then [] else
      if (i <? - n) || (i >=? n) then [] else write1_tr (lprim q) sc st ps (KI i) rv
  | LDel i =>
      if sl then [] else if negb aw then [] else
      if (i <? - n) || (i >=? n) then [] else ldel_tr sc st ps (Z.to_nat (if i <? 0 then i + n else i))
  | LAppend rv => if sl then [] else write1_tr (lprim q) sc st ps (KI n) rv
  | LInsert i rv => if sl then [] else write1_tr (lprim q) sc st ps (KI i) (RIns rv)
  | LExtend rvs | LIAdd rvs => if sl then [] else extend_core_tr sc st ps rvs
  | LPop oi =>
      let i := match oi with Some i => i | None => -1 end in
      if (i <? - n) || (i >=? n) then [] else
      if sl then [] else ldel_tr sc st ps (Z.to_nat ((i + n) mod n))
  | LRemove l =>
      match find_index (fun kv => match snd kv with Leaf x => leaf_pyeq x l | _ => false end) its with
      | None => []
      | Some idx => if sl then [] else if negb aw then [] else ldel_tr sc st ps idx
      end
  | LClear => if sl then [] else clear_list_tr sc st ps tid tpth its
  | LReverse => if sl then [] else reorder_tr sc st ps tid tpth its (rev its)
  | LSort ks rv => if sl then [] else reorder_tr sc st ps tid tpth its (map snd (stable_sort rv (zip_keys ks its)))
  | LIMul m =>
      if sl then [] else
      if m <=? 0 then clear_list_tr sc st ps tid tpth its
      else extend_core_tr sc st ps (repeat_list (Z.to_nat (m - 1)) (map (fun kv => rv_of_item (snd kv)) its))
  | LAdd rvs =>
      (* the copy is a new root without observers; its extension is traced like any other *)
      if treats_as_sealed sc default_flags then [] else
      let '(c, st1) := new_list_from q st its in
      extend_core_tr sc (add_root st1 c) (length (roots st1), []) rvs
  | LMul m =>
      (* the result list is extended m times; it is new, has no parent and no callback, so only its writes are traced *)
      if (m >=? 1) && treats_as_sealed sc default_flags then [] else
      let '(c, st1) := new_list_from q st [] in
      fst (fst (fst (extend_tr sc (add_root st1 c) (length (roots st1), [])
                               (repeat_list (Z.to_nat m) (map (fun kv => rv_of_item (snd kv)) its)))))
  | LCopy | DCopy | Clone _ | Seal _ | SetAW _ => []   (* new values / flags: nothing observable *)
  | DSet _ k rv => if sl then [] else if negb aw then [] else write1_tr (dprim q) sc st ps k rv
  | DDel _ k =>
      if sl then [] else if negb aw then [] else
      if negb (has_key k its) then [] else write1_tr (dprim q) sc st ps k (RLeaf LMissing)
  | DPop k d =>
      match assoc k its with
      | Some _ => if sl then [] else write1_tr (dprim q) sc st ps k (RLeaf LMissing)
      | None => []
      end
  | DPopItem =>
      if sl then [] else
      match rev its with
      | [] => []
      | (k, old) :: _ =>
          let st1 := add_detached (update_at st ps (set_items (removelast its))) old in
          TW st1 tid :: ntf sc st1 [mkUpd (tpth ++ [k]) tid old missing_node]
      end
  | DClear =>
      if sl then [] else
      let st1 := detach_all (update_at st ps (set_items [])) its in
      TW st1 tid :: ntf sc st1 (removed_ups_dict tpth tid its)
  | DSetDefault k rv =>
      match assoc k its with
      | Some old =>
          if is_missing old then
            if sl then [] else if negb aw then [] else write1_tr (dprim q) sc st ps k rv
          else []
      | None => if sl then [] else if negb aw then [] else write1_tr (dprim q) sc st ps k rv
      end
  | DUpdate kvs | DIOr kvs =>
      rebind_core_tr sc st ps tk (map (fun kv => ([fst kv], snd kv)) kvs) false None
  | OSet k rv =>
      match tk with
      | KObj c =>
          if negb (existsb (key_eqb k) (class_fields c)) then []
          else if sl then [] else if negb aw then [] else write1_tr (oprim q) sc st ps k rv
      | _ => []
      end
  | Rebind pvs =>
      match pvs with
      | [] => []
      | _ =>
          if (match tk with KObj _ => sl | _ => false end) then []
          else rebind_core_tr sc st ps tk pvs (notify_on sc) None
      end
  end.

Definition step_trace (st : state) (o : sop) : trace :=
  match get_at st (o_pos o) with
  | Some (Node tid tk _ tpth tfl its) =>
      if negb (kind_ok tk (o_op o)) then [] else
      match resolve_op st (o_op o) with
      | None => []
      | Some ro => exec_trace (o_scope o) st (o_pos o) tid tk tpth tfl its ro
      end
  | _ => []
  end.
End WithQuirks.

(* --- memoised derived facts ------------------------------------------------------------------------------------------ *)
(* the nested dict sym_missing(flatten=False) / sym_nondefault(flatten=False) hands back: a leaf value, a live
   symbolic value (an object field that differs from its default is reported by reference), or a nested dict *)
Inductive mv : Type := MLeaf (l : leaf) | MRef | MSub (items : list (key * mv)).
Definition mv_nonempty (v : mv) : bool := match v with MSub [] => false | _ => true end.
Record caches : Type := mkCaches { t_pure : list (N * bool); t_miss : list (N * mv); t_nond : list (N * mv) }.
Definition no_caches : caches := mkCaches [] [] [].
Fixpoint lookup {A} (i : N) (t : list (N * A)) : option A :=
  match t with [] => None | (j, v) :: r => if N.eqb i j then Some v else lookup i r end.
Definition drop {A} (ids : list N) (t : list (N * A)) : list (N * A) :=
  filter (fun e => negb (existsb (N.eqb (fst e)) ids)) t.
Definition reset (ids : list N) (c : caches) : caches :=
  mkCaches (drop ids (t_pure c)) (drop ids (t_miss c)) (drop ids (t_nond c)).

(* the test leaves: an opaque object with tag 1 is a NonDeterministic (hence PureSymbolic) placeholder, tag 2 a
   PureSymbolic one, any other tag an ordinary object *)
Definition leaf_pure (l : leaf) : bool := match l with LOpq _ t => N.eqb t 1 || N.eqb t 2 | _ => false end.
Definition leaf_nondet (l : leaf) : bool := match l with LOpq _ t => N.eqb t 1 | _ => false end.
Definition is_none_leaf (l : leaf) : bool := match l with LNone => true | _ => false end.

(* sym_puresymbolic: the cached value if any; otherwise the children in order until the first pure one (each asked
   for ITS sym_puresymbolic, which caches), then cached *)
Fixpoint q_pure (t : list (N * bool)) (n : node) : bool * list (N * bool) :=
  match n with
  | Leaf l => (leaf_pure l, t)
  | Node i _ _ _ _ its =>
      match lookup i t with
      | Some v => (v, t)
      | None =>
          let '(v, t') :=
            (fix go (l : list (key * node)) (t : list (N * bool)) : bool * list (N * bool) :=
               match l with
               | [] => (false, t)
               | (_, c) :: r => let '(b, t1) := q_pure t c in if b then (true, t1) else go r t1
               end) its t in
          (v, (i, v) :: t')
      end
  end.
(* sym_missing(flatten=False) / sym_nondefault(flatten=False), one scheme: [lp] is what a non-symbolic item contributes,
   [rc] whether the node asks its symbolic children (each for ITS memoised value) or lists them by reference *)
Section QGen.
Variable lp : kind -> key -> leaf -> list (key * mv).
Variable rc : kind -> bool.
Fixpoint q_gen (t : list (N * mv)) (n : node) : mv * list (N * mv) :=
  match n with
  | Leaf _ => (MSub [], t)
  | Node i k _ _ _ its =>
      match lookup i t with
      | Some v => (v, t)
      | None =>
          let '(l, t') :=
            (fix go (l : list (key * node)) (t : list (N * mv)) : list (key * mv) * list (N * mv) :=
               match l with
               | [] => ([], t)
               | (ky, c) :: r =>
                   match c with
                   | Leaf lf => let '(l', t1) := go r t in (lp k ky lf ++ l', t1)
                   | Node _ _ _ _ _ _ =>
                       if rc k then
                         let '(v, t1) := q_gen t c in
                         let '(l', t2) := go r t1 in
                         ((if mv_nonempty v then [(ky, v)] else []) ++ l', t2)
                       else let '(l', t1) := go r t in ((ky, MRef) :: l', t1)
                   end
               end) its t in
          (MSub l, (i, MSub l) :: t')
      end
  end.
End QGen.
(* sym_missing: only an object field can be MISSING_VALUE (its default, None, is what is missing); every symbolic child is asked *)
Definition miss_leaf (k : kind) (ky : key) (lf : leaf) : list (key * mv) :=
  match k, lf with KObj _, LMissing => [(ky, MLeaf LNone)] | _, _ => [] end.
Definition q_miss := q_gen miss_leaf (fun _ => true).
(* sym_nondefault: a Dict / List lists every leaf and asks every symbolic child; an object compares each field with its default
   (None) and reports the ones that differ by value (no recursion) *)
Definition nond_leaf (k : kind) (ky : key) (lf : leaf) : list (key * mv) :=
  match k with KObj _ => if is_none_leaf lf then [] else [(ky, MLeaf lf)] | _ => [(ky, MLeaf lf)] end.
Definition q_nond := q_gen nond_leaf (fun k => match k with KObj _ => false | _ => true end).
(* what a computation from scratch gives *)
Definition fresh_pure (n : node) : bool := fst (q_pure [] n).
Definition fresh_miss (n : node) : mv := fst (q_miss [] n).
Definition fresh_nond (n : node) : mv := fst (q_nond [] n).
(* is_deterministic is not memoised: no NonDeterministic leaf anywhere below *)
Fixpoint nondet_below (n : node) : bool :=
  match n with
  | Leaf l => leaf_nondet l
  | Node _ _ _ _ _ its => existsb (fun kv => nondet_below (snd kv)) its
  end.

(* every symbolic node below, pre-order *)
Fixpoint subnodes (n : node) : list node :=
  match n with
  | Leaf _ => []
  | Node _ _ _ _ _ its => n :: flat_map (fun kv => subnodes (snd kv)) its
  end.
Definition live_nodes (st : state) : list node :=
  flat_map (fun s => match s with Live t => subnodes t | Moved _ => [] end) (roots st).

(* resetting along a trace: every write resets the written container and everything above it; every notification
   resets the notified targets (and, where List._on_change purges MISSING_VALUE items, everything above that list) *)
Definition holds_missing (n : node) : bool :=
  match n with Node _ KList _ _ _ its => existsb (fun kv => is_missing (snd kv)) its | _ => false end.
Definition reset_of (e : tentry) : list N :=
  match e with
  | TW st cid => map nid0 (chain_of st cid)
  | TN st ups stop =>
      flat_map (fun t => nid0 (fst t) :: (if holds_missing (fst t) then map nid0 (chain_of st (nid0 (fst t))) else []))
               (notified_targets st ups stop)
  end.
Definition apply_trace (t : trace) (c : caches) : caches := fold_left (fun c e => reset (reset_of e) c) t c.

(* --- the extended step ---------------------------------------------------------------------------------------------------- *)
Inductive op2 : Type :=
| Base (o : sop)
| RebindX (sc : scope) (ps : pos) (pvs : list (list key * value)) (skip : option bool) (np : bool)
                                     (* rebind(..., skip_notification=skip, notify_parents=np) *)
| Query (ps : pos) (f : N).          (* 0: sym_puresymbolic, 1: sym_missing(), 2: sym_nondefault() *)
Record xstate : Type := mkX { x_st : state; x_c : caches }.

Section Step2.
Variable q : quirks.

(* List._on_change of the notified targets only: with notify_parents=False nothing above the rebind target *)
Definition fix_chain_from (minlen : nat) (st : state) (ps : pos) : state :=
  fold_left (fun s pre => update_at s (fst ps, pre) purge_list)
            (filter (fun pre => Nat.leb minlen (length pre)) (prefixes_desc (snd ps))) st.
Definition fix_chains_from (minlen : nat) (st : state) (targets : list N) : state :=
  fold_left (fun s i => match locate s i with Some ps => fix_chain_from minlen s ps | None => s end) targets st.
Definition rebindx_core (sc : scope) (st : state) (tp : pos) (tk : kind) (pvs : list (list key * rvalue))
           (notify np : bool) : state * outcome :=
  if np then rebind_core q sc st tp tk pvs notify else
  let ordered := match tk with KList => sort_desc pvs | _ => pvs end in
  match rebind_loop q sc st tp ordered [] with
  | (st', _, Some e) => (st', Err e)
  | (st', upd, None) => (if notify then fix_chains_from (length (snd tp)) st' upd else st', Ok RNone)
  end.
Definition stepx (st : state) (sc : scope) (ps : pos) (pvs : list (list key * value)) (skip : option bool) (np : bool)
  : state * outcome * trace :=
  match get_at st ps with
  | Some (Node tid tk _ tpth tfl its) =>
      match resolve_kvs st pvs with
      | None => (st, Err ENA, [])
      | Some rpvs =>
          let notify := match skip with Some b => negb b | None => notify_on sc end in
          match rpvs with
          | [] => (st, Err EValue, [])
          | _ =>
              if (match tk with KObj _ => treats_as_sealed sc tfl | _ => false end) then (st, Err EWrite, [])
              else
                let '(st', out) := rebindx_core sc st ps tk rpvs notify np in
                (gc (length (roots st)) (next_id st) false st', out,
                 rebind_core_tr q sc st ps tk rpvs notify (if np then None else Some tid))
          end
      end
  | _ => (st, Err ENA, [])
  end.

Definition query (c : caches) (n : node) (f : N) : caches :=
  if N.eqb f 0 then mkCaches (snd (q_pure (t_pure c) n)) (t_miss c) (t_nond c)
  else if N.eqb f 1 then mkCaches (t_pure c) (snd (q_miss (t_miss c) n)) (t_nond c)
  else mkCaches (t_pure c) (t_miss c) (snd (q_nond (t_nond c) n)).

Definition step2 (xs : xstate) (o : op2) : xstate * outcome * list event :=
  match o with
  | Base so =>
      let '(st', out) := step q (x_st xs) so in
      let tr := step_trace q (x_st xs) so in
      (mkX st' (apply_trace tr (x_c xs)), out, events_of tr)
  | RebindX sc ps pvs skip np =>
      let '(st', out, tr) := stepx (x_st xs) sc ps pvs skip np in
      (mkX st' (apply_trace tr (x_c xs)), out, events_of tr)
  | Query ps f =>
      match get_at (x_st xs) ps with
      | Some (Node i k pa pt fl its) => (mkX (x_st xs) (query (x_c xs) (Node i k pa pt fl its) f), Ok RNone, [])
      | _ => (xs, Err ENA, [])
      end
  end.
(* asking every live node for every fact (what the harness does after a step) *)
Definition observe_all (xs : xstate) : xstate :=
  mkX (x_st xs) (fold_left (fun c n => query (query (query c n 0) n 1) n 2) (live_nodes (x_st xs)) (x_c xs)).
Definition run2 (xs : xstate) (ops : list op2) : xstate := fold_left (fun xs o => fst (fst (step2 xs o))) ops xs.
End Step2.

(* --- wire format (the implementation side is harness/props/c09.py) ---------------------------------------------------------
   case  ::= (quirks (lit ...) (step ...))        step ::= (scope op observe)       observe ::= 0 | 1
   op    ::= any SymCore op | (50 (root keys) ((path value) ...) skip notify_parents) | (60 (root keys) fact)
   out   ::= (snapshot0 (stepout ...))
   stepout ::= (result snapshot (event ...) (filled ...) observed)
   event ::= (where (key ...) ((relpath old new) ...))     where ::= () | (root (key ...))   -- position after the step
   val   ::= (0 leaf) | (1 kind ((key val) ...))            -- contents only
   filled ::= (p m n cb) per live node, pre-order over the roots: which of the three caches hold a value BEFORE observing; cb: the node has an onchange_callback
   observed ::= () | ((pure deterministic missing nondefault) ...) per live node, pre-order; mv ::= (0 leaf) | (1) | (2 ((key mv) ...)) *)
Fixpoint e_val (n : node) : tr :=
  match n with
  | Leaf l => L [I 0; e_leaf0 l]
  | Node _ k _ _ _ its => L [I 1; e_kind k; L (map (fun kv => L [e_key (fst kv); e_val (snd kv)]) its)]
  end.
Fixpoint e_mv (v : mv) : tr :=
  match v with
  | MLeaf l => L [I 0; e_leaf0 l]
  | MRef => L [I 1]
  | MSub its => L [I 2; L (map (fun kv => L [e_key (fst kv); e_mv (snd kv)]) its)]
  end.
Definition e_event (st : state) (e : event) : tr :=
  L [match locate st (ev_id e) with Some p => L [enat (fst p); e_keys (snd p)] | None => L [] end;
     e_keys (ev_path e);
     L (map (fun pu => L [e_keys (fst pu); e_val (u_old (snd pu)); e_val (u_new (snd pu))]) (ev_payload e))].
Definition has {A} (i : N) (t : list (N * A)) : bool := match lookup i t with Some _ => true | None => false end.
Definition e_filled (c : caches) (n : node) : tr :=
  L [ebool (has (nid0 n) (t_pure c)); ebool (has (nid0 n) (t_miss c)); ebool (has (nid0 n) (t_nond c));
     ebool (match n with Node _ (KObj _) _ _ _ _ => false | Node _ _ _ _ fl _ => has_cb fl | Leaf _ => false end)].
(* observing one node: its four facts, and the caches afterwards *)
Definition observe_node (c : caches) (n : node) : tr * caches :=
  let '(p, tp) := q_pure (t_pure c) n in
  let '(m, tm) := q_miss (t_miss c) n in
  let '(d, tn) := q_nond (t_nond c) n in
  (L [ebool p; ebool (negb (nondet_below n)); e_mv m; e_mv d], mkCaches tp tm tn).
Fixpoint observe_nodes (c : caches) (ns : list node) : list tr * caches :=
  match ns with
  | [] => ([], c)
  | n :: r => let '(x, c1) := observe_node c n in let '(xs, c2) := observe_nodes c1 r in (x :: xs, c2)
  end.

Definition d_op2 (sc : scope) (t : tr) : option op2 :=
  match t with
  | L [I 50; L [r; ks]; pvs; sk; np] =>
      do p <- d_pos r ks; do pvs' <- dlist d_pv pvs; do sk' <- dopt dbool sk; do np' <- dbool np;
      Some (RebindX sc p pvs' sk' np')
  | L [I 60; L [r; ks]; f] => do p <- d_pos r ks; do f' <- dN f; Some (Query p f')
  | L (I tag :: L [r; ks] :: args) => do p <- d_pos r ks; do o <- d_op tag args; Some (Base (mkSop sc p o))
  | _ => None
  end.
Definition d_step2 (t : tr) : option (op2 * bool) :=
  match t with
  | L [sc; o; ob] => do sc' <- d_scope sc; do o' <- d_op2 sc' o; do ob' <- dbool ob; Some (o', ob')
  | _ => None
  end.

Fixpoint run_steps2 (q : quirks) (xs : xstate) (ops : list (op2 * bool)) : list tr :=
  match ops with
  | [] => []
  | (o, ob) :: r =>
      let '(xs1, out, evs) := step2 q xs o in
      let st1 := x_st xs1 in
      let filled := map (e_filled (x_c xs1)) (live_nodes st1) in
      let '(observed, c2) := if ob then observe_nodes (x_c xs1) (live_nodes st1) else ([], x_c xs1) in
      L [e_outcome out; e_snapshot st1; L (map (e_event st1) evs); L filled; L observed]
      :: run_steps2 q (mkX st1 c2) r
  end.

Definition run (c : tr) : tr :=
  match c with
  | L [qs; L lits; L steps] =>
      match d_quirks qs, dall (d_lit 64) lits, dall d_step2 steps with
      | Some q, Some ls, Some ops =>
          if forallb lit_valid ls then
            let st0 := init_forest ls empty_state in
            L [e_snapshot st0; L (run_steps2 q (mkX st0 no_caches) ops)]
          else ebad
      | _, _, _ => ebad
      end
  | _ => ebad
  end.

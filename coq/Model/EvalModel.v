(* EvalModel.v — the last-statement handling of coding.evaluate() (property C19: "a program that uses only granted
   constructs is executed with the result … and intermediate variables that plain execution of the same text yields").
   A program is a list of statements; what executing it DOES is a list of events.  Evaluating an expression, executing a
   non-assignment statement and storing through a complex target (attribute / subscript / unpacking) may have side effects;
   binding a name has none.  [plain] is what Python's exec does; [evaluate_events] is what evaluate() does according to the
   plan regenerated from the source (Gen/EvalShape.v).  Definitions only. *)
From Coq Require Import NArith ZArith List Bool.
Import ListNotations.
From PG Require Import Common.Tr Gen.PermTable.
Local Open Scope N_scope.

Inductive target := TName (n : N) | TComplex (t : N).
(* kind = node class index; value = the expression the statement evaluates (Expr / Assign), if any *)
Record stmt := { s_kind : N; s_value : option N; s_targets : list target; s_id : N }.

Inductive ev :=
| EvExpr (e : N)                    (* expression e is evaluated *)
| EvStmt (id : N)                   (* a statement that is neither Expr nor Assign is executed as a whole *)
| EvStoreName (n : N) (e : N)       (* name n is bound to the value of e *)
| EvStoreComplex (t : N) (e : N).   (* the value of e is stored through complex target t (target sub-expressions evaluated) *)

Definition store (e : N) (t : target) : ev :=
  match t with TName n => EvStoreName n e | TComplex c => EvStoreComplex c e end.

Definition is_expr (s : stmt) : bool := N.eqb (s_kind s) k_Expr.
Definition is_assign (s : stmt) : bool := N.eqb (s_kind s) k_Assign.

(* plain execution of one statement *)
Definition plain_stmt (s : stmt) : list ev :=
  match s_value s with
  | Some e => if is_expr s then [EvExpr e]
              else if is_assign s then EvExpr e :: map (store e) (s_targets s)
              else [EvStmt (s_id s)]
  | None => [EvStmt (s_id s)]
  end.
Definition plain (p : list stmt) : list ev := flat_map plain_stmt p.

(* the plan evaluate() follows *)
Inductive estep :=
| ExecBody                          (* exec(compile(code_block)): the statements still in code_block.body *)
| EvalLast                          (* result = eval(compile(Expression(last.value))) *)
| BindResultNames (when_complex : bool)
                                    (* globals[v] = result for RESULT_KEY and for every name target of the last assignment; when that
                                       assignment also has a non-name target the names are bound here only if when_complex *)
| ExecComplexAssign (reuse : bool)  (* when the last assignment has a non-name target: exec Assign(targets, value),
                                       value = Name(RESULT_KEY) (reuse) or the original right-hand side again (not reuse) *)
| BindResultLastGlobal.             (* globals[RESULT_KEY] = last global value *)
Record eshape := { sh_kinds : list N; sh_popped : list estep; sh_other : list estep }.

Definition result_name : N := 0.    (* the reserved name __result__; programs use names >= 1 *)

Definition is_name (t : target) : bool := match t with TName _ => true | _ => false end.
Definition has_complex (s : stmt) : bool := existsb (fun t => negb (is_name t)) (s_targets s).
Definition name_targets (s : stmt) : list N :=
  flat_map (fun t => match t with TName n => [n] | _ => [] end) (s_targets s).

Definition run_step (body : list stmt) (last : stmt) (e : N) (st : estep) : list ev :=
  match st with
  | ExecBody => plain body
  | EvalLast => [EvExpr e]
  | BindResultNames wc =>
      EvStoreName result_name e ::
      map (fun n => EvStoreName n e) (if is_assign last && (wc || negb (has_complex last)) then name_targets last else [])
  | ExecComplexAssign reuse =>
      if is_assign last && has_complex last
      then (if reuse then [] else [EvExpr e]) ++ map (store e) (s_targets last)
      else []
  | BindResultLastGlobal => []
  end.

Definition split_last (p : list stmt) : option (list stmt * stmt) :=
  match rev p with [] => None | l :: r => Some (rev r, l) end.

Definition evaluate_events (sh : eshape) (p : list stmt) : list ev :=
  match split_last p with
  | None => []
  | Some (body, last) =>
      match s_value last with
      | Some e =>
          if existsb (N.eqb (s_kind last)) (sh_kinds sh)
          then flat_map (run_step body last e) (sh_popped sh)
          else flat_map (run_step p last e) (sh_other sh)
      | None => flat_map (run_step p last 0) (sh_other sh)
      end
  end.

(* the events that can have side effects, in order *)
Definition effectful (x : ev) : bool := match x with EvStoreName _ _ => false | _ => true end.
Definition effects (l : list ev) : list ev := filter effectful l.

(* everything the program itself does: all events except the binding of the reserved name __result__ *)
Definition no_result (x : ev) : bool := match x with EvStoreName n _ => negb (N.eqb n result_name) | _ => true end.
Definition program_events (l : list ev) : list ev := filter no_result l.

(* the expression a name is finally bound to *)
Fixpoint last_store (n : N) (l : list ev) : option N :=
  match l with
  | [] => None
  | x :: r => match last_store n r with
              | Some e => Some e
              | None => match x with EvStoreName m e => if N.eqb m n then Some e else None | _ => None end
              end
  end.

(* the decidable description of a plan that does what plain execution does *)
Definition estep_eqb (a b : estep) : bool :=
  match a, b with
  | ExecBody, ExecBody | EvalLast, EvalLast | BindResultLastGlobal, BindResultLastGlobal => true
  | ExecComplexAssign x, ExecComplexAssign y | BindResultNames x, BindResultNames y => Bool.eqb x y
  | _, _ => false
  end.
Fixpoint plan_eqb (a b : list estep) : bool :=
  match a, b with [], [] => true | x :: r, y :: s => estep_eqb x y && plan_eqb r s | _, _ => false end.
Definition shape_ok (sh : eshape) : bool :=
  forallb (fun k => N.eqb k k_Expr || N.eqb k k_Assign) (sh_kinds sh)
  && plan_eqb (sh_popped sh) [ExecBody; EvalLast; BindResultNames false; ExecComplexAssign true]
  && plan_eqb (sh_other sh) [ExecBody; BindResultLastGlobal].

(* programs of the quantifier: Expr statements have a value and no targets, Assign statements have a value and >= 1 target,
   other statements carry no value here; no program name is the reserved result name *)
Definition stmt_wf (s : stmt) : bool :=
  (if is_expr s then match s_value s with Some _ => match s_targets s with [] => true | _ => false end | None => false end
   else if is_assign s then match s_value s with Some _ => negb (match s_targets s with [] => true | _ => false end) | None => false end
   else match s_value s with None => true | Some _ => false end)
  && forallb (fun t => match t with TName n => negb (N.eqb n result_name) | _ => true end) (s_targets s).
Definition prog_wf (p : list stmt) : bool := forallb stmt_wf p.

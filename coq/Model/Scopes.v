(* Scopes.v — model of the scoped-setting context managers of PyGlove (property C17).
   Per-thread stores plus one process-wide store; a context manager is an (enter, exit) pair;
   programs are well-nested trees of scopes with observations, raises and handlers.
   The thread-local scope functions come from Gen/ScopeDefs.v (regenerated from the source);
   nothing is written by hand but the specifications the generated loops are proved against.  Definitions only. *)
From Coq Require Import ZArith List Bool PeanoNat.
Import ListNotations.
From PG Require Import Common.Tr Model.ScopesBase Gen.ScopeDefs.

(* --- state: the calling thread's store and the process-wide store --------------------------- *)
Definition state := (store * store)%type.
(* process-wide keys g_dynamic_evaluate, g_ondemand_types and nglob come from Gen/ScopeDefs.v *)
Definition init_state : state := (empty_store nkeys, empty_store nglob).

(* --- the managers --------------------------------------------------------------------------- *)
Inductive cm : Type :=
| CFlag (i : nat)        (* i-th flag manager of flags.py (Gen.flag_scopes) *)
| CPerm                  (* pg.coding.permission *)
| CStrFmt | CReprFmt     (* pg.str_format / pg.repr_format *)
| CViewOpts              (* pg.view_options *)
| CCtx                   (* pg.coding.context *)
| CContextual            (* pg.contextual_override *)
| CDetour                (* pg.detour *)
| CApplyWrappers         (* pg.apply_wrappers: a detour from wrapped classes to their wrappers *)
| CTimeit                (* pg.timeit *)
| CDynEval               (* pg.hyper.dynamic_evaluate(per_thread=True) *)
| CDynEvalGlobal         (* pg.hyper.dynamic_evaluate(per_thread=False) *)
| CLoadTypes             (* pg.JSONConvertible.load_types_for_deserialization *)
(* DynamicEvaluationContext.collect() / .apply() = CDynGuard ; CDynEval[Global] ; CDynStackL/G, nested in this order *)
| CDynGuard              (* _DynamicEvaluationStack.ensure_thread_safety: per-thread and process-wide contexts must not be mixed *)
| CDynStackL             (* the thread's stack of active per-thread contexts *)
| CDynStackG.            (* the process-wide stack of active process-wide contexts *)

Definition lift_enter (f : store -> option (store * list val)) (s : state) : option (state * list val) :=
  match f (fst s) with Some (l, sv) => Some ((l, snd s), sv) | None => None end.
Definition lift_exit (f : store -> store) (s : state) : state := (f (fst s), snd s).

(* contextual.py: contextual_scope is generated (Gen.contextual_scope_enter / _exit).  The cascade rule as a
   specification: an outer override marked `cascade` wins over the new one (Proofs/ScopesRestore.v shows the
   generated loop computes exactly this). *)
Definition cascade_of (a : atom) : bool := match a with AOv _ c _ => c | _ => false end.
Definition contextual_merge (cur vars : dict) : dict :=
  fold_left (fun acc kv =>
               let v := match dict_get (fst kv) acc with
                        | Some old => if cascade_of old then old else snd kv
                        | None => snd kv
                        end in
               dict_set (fst kv) v acc) vars cur.

(* class_detour.py: _DetourContext.enter_scope / leave_scope are generated (Gen.detour_scope_enter / _exit).  The
   documented rule as a specification: a source class already detoured by an enclosing scope keeps its outer
   destination; a new destination that is itself detoured there is routed through; later pairs override earlier ones. *)
Definition detour_resolve (cur : dict) (m : Z * atom) : option (Z * atom) :=
  if dict_has (fst m) cur then None
  else match snd m with
       | AInt d => match dict_get d cur with Some t => Some (fst m, t) | None => Some m end
       | _ => Some m
       end.
Fixpoint filter_map {A B} (f : A -> option B) (l : list A) : list B :=
  match l with [] => [] | x :: r => match f x with Some y => y :: filter_map f r | None => filter_map f r end end.
Definition detour_spec (cur : dict) (maps : val) : dict :=
  match maps with VD ms => dict_update cur (filter_map (detour_resolve cur) ms) | _ => cur end.

(* managers generated over both stores *)
Definition lift2_enter (f : store -> store -> option (store * store * list val)) (s : state) : option (state * list val) :=
  match f (fst s) (snd s) with Some (l, g, sv) => Some ((l, g), sv) | None => None end.
Definition lift2_exit (f : store -> store -> store * store) (s : state) : state := f (fst s) (snd s).

(* dynamic_evaluation.py: dynamic_evaluate(evaluate_fn, yield_value=None, exit_fn=None, per_thread) is generated.
   Entering a per-thread scope while a process-wide function is installed fails (AssertionError in
   base.set_dynamic_evaluate_fn); nothing has been changed then. *)
Definition dyn_enter (per_thread : val) (fn : val) : state -> option (state * list val) :=
  lift2_enter (dynamic_evaluate_enter fn v_none v_none per_thread).
Definition dyn_exit (per_thread : val) (fn : val) (saved : list val) : state -> state :=
  lift2_exit (dynamic_evaluate_exit fn v_none v_none per_thread saved).

(* json_conversion.py: _TypeRegistry.load_types_for_deserialization (one process-wide stack), generated *)
Definition loadtypes_enter (types : val) : state -> option (state * list val) := lift2_enter (load_types_enter types).
Definition loadtypes_exit (types : val) (saved : list val) : state -> state := lift2_exit (load_types_exit types saved).

(* dynamic_evaluation.py: _DynamicEvaluationStack (hand-written; the source is pinned by fingerprint).
   ensure_thread_safety(context) raises ValueError, changing nothing, when a per-thread context is entered while a
   process-wide one is active (anywhere) or a process-wide one while a per-thread one is active in this thread. *)
Definition dynguard_enter (per_thread : val) (s : state) : option (state * list val) :=
  if truthy per_thread
  then (if truthy (tl_get g_dynstack v_none (snd s)) then None else Some (s, []))
  else (if truthy (tl_get k_dynstack v_none (fst s)) then None else Some (s, [])).
Definition stack_read (k : tlkey) (st : store) : val :=
  match st_get k st with Some (VS l) => VS l | _ => VS [] end.

Definition cm_enter (c : cm) (a : val) (s : state) : option (state * list val) :=
  match c with
  | CFlag i => match nth_error flag_scopes i with
               | Some (k, init) => lift_enter (thread_local_value_scope_enter k a init) s
               | None => Some (s, [])
               end
  | CPerm => lift_enter (permission_enter a) s
  | CStrFmt => lift_enter (thread_local_arg_scope_enter k_str_format a) s
  | CReprFmt => lift_enter (thread_local_arg_scope_enter k_repr_format a) s
  | CViewOpts => lift_enter (view_options_enter a) s
  | CCtx => lift_enter (context_enter a) s
  | CContextual => lift_enter (contextual_scope_enter a) s
  | CDetour | CApplyWrappers => lift_enter (detour_scope_enter a) s
  | CTimeit => lift_enter (timeit_enter a) s
  | CDynEval => dyn_enter v_true a s
  | CDynEvalGlobal => dyn_enter v_false a s
  | CLoadTypes => loadtypes_enter a s
  | CDynGuard => dynguard_enter a s
  | CDynStackL => match a with VD _ => Some ((tl_push k_dynstack a (fst s), snd s), []) | _ => None end   (* a context, as a dict *)
  | CDynStackG => match a with VD _ => Some ((fst s, tl_push g_dynstack a (snd s)), []) | _ => None end
  end.

Definition cm_exit (c : cm) (a : val) (sv : list val) (s : state) : state :=
  match c with
  | CFlag i => match nth_error flag_scopes i with
               | Some (k, init) => lift_exit (thread_local_value_scope_exit k a init sv) s
               | None => s
               end
  | CPerm => lift_exit (permission_exit a sv) s
  | CStrFmt => lift_exit (thread_local_arg_scope_exit k_str_format a sv) s
  | CReprFmt => lift_exit (thread_local_arg_scope_exit k_repr_format a sv) s
  | CViewOpts => lift_exit (view_options_exit a sv) s
  | CCtx => lift_exit (context_exit a sv) s
  | CContextual => lift_exit (contextual_scope_exit a sv) s
  | CDetour | CApplyWrappers => lift_exit (detour_scope_exit a sv) s
  | CTimeit => lift_exit (timeit_exit a sv) s
  | CDynEval => dyn_exit v_true a sv s
  | CDynEvalGlobal => dyn_exit v_false a sv s
  | CLoadTypes => loadtypes_exit a sv s
  | CDynGuard => s
  | CDynStackL => (tl_pop k_dynstack (fst s), snd s)
  | CDynStackG => (fst s, tl_pop g_dynstack (snd s))
  end.

(* --- the public getters ---------------------------------------------------------------------- *)
Inductive getter : Type :=
| GFlag (i : nat) | GPerm | GStrFmt | GReprFmt | GViewOpts | GCtx | GContextual | GDetour | GTimeit
| GDynEval | GLoadTypes | GDynStackL | GDynStackG.

Definition observe (g : getter) (s : state) : val :=
  let l := fst s in
  match g with
  | GFlag i => match nth_error flag_getters i with Some (k, d) => tl_get k d l | None => v_none end
  | GPerm => get_permission l
  | GStrFmt => thread_local_kwargs k_str_format l
  | GReprFmt => thread_local_kwargs k_repr_format l
  | GViewOpts => tl_peek k_view_options v_empty_dict l
  | GCtx => get_context l
  | GContextual => tl_get k_contextual v_empty_dict l
  | GDetour => current_mappings l
  | GTimeit => tl_get k_timing v_none l
  | GDynEval => get_dynamic_evaluate_fn l (snd s)
  | GLoadTypes => tl_peek g_ondemand_types v_empty_dict (snd s)
  | GDynStackL => stack_read k_dynstack l
  | GDynStackG => stack_read g_dynstack (snd s)
  end.

(* the getter that reads the setting of a manager *)
Definition getter_of (c : cm) : getter :=
  match c with
  | CFlag i => GFlag i | CPerm => GPerm | CStrFmt => GStrFmt | CReprFmt => GReprFmt | CViewOpts => GViewOpts
  | CCtx => GCtx | CContextual => GContextual | CDetour | CApplyWrappers => GDetour | CTimeit => GTimeit
  | CDynEval | CDynEvalGlobal => GDynEval | CLoadTypes => GLoadTypes
  | CDynGuard | CDynStackL => GDynStackL | CDynStackG => GDynStackG
  end.

(* managers whose store is process-wide, and getters that read it *)
Definition cm_global (c : cm) : bool := match c with CDynEvalGlobal | CLoadTypes | CDynStackG => true | _ => false end.
Definition cm_reads_global (c : cm) : bool :=
  match c with CDynEval | CDynEvalGlobal | CLoadTypes | CDynGuard | CDynStackG => true | _ => false end.
Definition getter_global (g : getter) : bool := match g with GDynEval | GLoadTypes | GDynStackG => true | _ => false end.
(* the managers the library documents as process-wide *)
Definition documented_process_wide (c : cm) : bool :=
  match c with CApplyWrappers | CDynEvalGlobal | CLoadTypes | CDynStackG => true | _ => false end.

(* --- programs ---------------------------------------------------------------------------------- *)
Inductive sprog : Type :=
| Skip
| Obs (g : getter)                          (* call a getter and record what it returns *)
| Raise                                     (* raise an exception *)
| Seq (p q : sprog)
| Catch (p : sprog)                         (* try: p  except: pass   (also pg.catch_errors) *)
| Scope (c : cm) (a : val) (body : sprog).  (* with c(a): body *)

(* big-step: final state, observations, "an exception is escaping" *)
Fixpoint exec (p : sprog) (s : state) : state * list val * bool :=
  match p with
  | Skip => (s, [], false)
  | Obs g => (s, [observe g s], false)
  | Raise => (s, [], true)
  | Seq p q =>
      let '(s1, o1, e1) := exec p s in
      if e1 then (s1, o1, true)
      else let '(s2, o2, e2) := exec q s1 in (s2, o1 ++ o2, e2)
  | Catch p => let '(s1, o1, _) := exec p s in (s1, o1, false)
  | Scope c a b =>
      match cm_enter c a s with
      | None => (s, [], true)
      | Some (s1, sv) => let '(s2, o, e) := exec b s1 in (cm_exit c a sv s2, o, e)
      end
  end.
Definition final (r : state * list val * bool) : state := fst (fst r).
Definition observations (r : state * list val * bool) : list val := snd (fst r).
Definition escapes (r : state * list val * bool) : bool := snd r.

(* --- observational equality of stores ------------------------------------------------------------
   thread_local_pop leaves an empty list behind, contextual_scope leaves an empty dict, a process-wide
   variable holding None is the same as one never assigned.  No getter and no manager can tell these
   from "key absent" (Proofs/ScopesCongruence.v).  The permission and timing keys are only ever read with
   default None, so holding None is the same as being absent.  Flag and dynamic-evaluate keys are compared
   exactly (their scopes test for the presence of the key). *)
Inductive kclass := KExact | KStack | KDict | KNone.
Definition lclass (k : tlkey) : kclass :=
  if existsb (Nat.eqb k) [k_str_format; k_repr_format; k_view_options; k_context; k_detour; k_dynstack] then KStack
  else if Nat.eqb k k_contextual then KDict
  else if existsb (Nat.eqb k) [k_permission; k_timing] then KNone
  else KExact.
Definition gclass (k : tlkey) : kclass :=
  if Nat.eqb k g_dynamic_evaluate then KNone
  else if Nat.eqb k g_ondemand_types || Nat.eqb k g_dynstack then KStack
  else KExact.
Definition nrm_at (c : kclass) (o : option val) : option val :=
  match c, o with
  | KStack, Some (VS []) => None
  | KDict, Some (VD []) => None
  | KNone, Some (VA ANone) => None
  | _, _ => o
  end.
Fixpoint nrm_from (cls : tlkey -> kclass) (k : nat) (s : store) : store :=
  match s with [] => [] | o :: r => nrm_at (cls k) o :: nrm_from cls (S k) r end.
Definition nrm (s : state) : state := (nrm_from lclass 0 (fst s), nrm_from gclass 0 (snd s)).
Definition obs_eq (s t : state) : Prop := nrm s = nrm t.

(* --- small-step machine (one thread) --------------------------------------------------------------- *)
Inductive frame : Type := KSeq (q : sprog) | KCatch | KExit (c : cm) (a : val) (sv : list val).
Inductive control : Type := Run (p : sprog) | Ret (e : bool).
Record thread : Type := mkThread { ctl : control; stk : list frame; out : list val }.
Definition start (p : sprog) : thread := mkThread (Run p) [] [].
Definition finished (t : thread) : bool :=
  match ctl t, stk t with Ret _, [] => true | _, _ => false end.

(* one step; the boolean says whether the step was a visible event (enter / exit / observation) *)
Definition step (t : thread) (s : state) : thread * state * bool :=
  match ctl t with
  | Run Skip => (mkThread (Ret false) (stk t) (out t), s, false)
  | Run (Obs g) => (mkThread (Ret false) (stk t) (out t ++ [observe g s]), s, true)
  | Run Raise => (mkThread (Ret true) (stk t) (out t), s, false)
  | Run (Seq p q) => (mkThread (Run p) (KSeq q :: stk t) (out t), s, false)
  | Run (Catch p) => (mkThread (Run p) (KCatch :: stk t) (out t), s, false)
  | Run (Scope c a b) =>
      match cm_enter c a s with
      | None => (mkThread (Ret true) (stk t) (out t), s, true)
      | Some (s1, sv) => (mkThread (Run b) (KExit c a sv :: stk t) (out t), s1, true)
      end
  | Ret e =>
      match stk t with
      | [] => (t, s, false)
      | KSeq q :: ks => (mkThread (if e then Ret true else Run q) ks (out t), s, false)
      | KCatch :: ks => (mkThread (Ret false) ks (out t), s, false)
      | KExit c a sv :: ks => (mkThread (Ret e) ks (out t), cm_exit c a sv s, true)
      end
  end.

Fixpoint psize (p : sprog) : nat :=
  match p with
  | Seq p q => S (psize p + psize q)
  | Catch p => S (psize p)
  | Scope _ _ b => S (psize b)
  | _ => 1
  end.
(* enough fuel to run p to completion: every constructor costs at most two steps *)
Definition fuel_for (p : sprog) : nat := psize p + psize p + 1.

Fixpoint run_solo (n : nat) (t : thread) (s : state) : thread * state :=
  match n with
  | O => (t, s)
  | S n' => let '(t', s', _) := step t s in run_solo n' t' s'
  end.

(* --- several threads -------------------------------------------------------------------------------- *)
Record world : Type := mkWorld { ths : list (thread * store); wglob : store }.

Fixpoint set_nth {A} (n : nat) (x : A) (l : list A) : list A :=
  match l, n with
  | [], _ => []
  | _ :: r, O => x :: r
  | y :: r, S n' => y :: set_nth n' x r
  end.

(* thread i takes one machine step *)
Definition wstep (i : nat) (w : world) : world * bool :=
  match nth_error (ths w) i with
  | None => (w, false)
  | Some (t, l) =>
      let '(t', s', ev) := step t (l, wglob w) in
      (mkWorld (set_nth i (t', fst s') (ths w)) (snd s'), ev)
  end.
Fixpoint run_steps (sched : list nat) (w : world) : world :=
  match sched with [] => w | i :: r => run_steps r (fst (wstep i w)) end.

(* thread i runs up to and including its next visible event (or to its end) *)
Fixpoint tick (fuel : nat) (i : nat) (w : world) : world :=
  match fuel with
  | O => w
  | S f => let '(w', ev) := wstep i w in if ev then w' else tick f i w'
  end.
Fixpoint run_events (fuel : nat) (sched : list nat) (w : world) : world :=
  match sched with [] => w | i :: r => run_events fuel r (tick fuel i w) end.
(* after the schedule, every thread runs to completion, in thread order *)
Fixpoint drain (fuel : nat) (i : nat) (w : world) : world :=
  match fuel with O => w | S f => drain f i (fst (wstep i w)) end.
Fixpoint drain_all (fuel : nat) (n : nat) (w : world) : world :=
  match n with O => w | S n' => drain fuel n' (drain_all fuel n' w) end.

Definition init_world (ps : list sprog) : world :=
  mkWorld (map (fun p => (start p, empty_store nkeys)) ps) (empty_store nglob).
Definition total_fuel (ps : list sprog) : nat := fold_right (fun p n => fuel_for p + n) 1 ps.
Definition run_threads (ps : list sprog) (sched : list nat) : world :=
  let f := total_fuel ps in
  drain_all f (length ps) (run_events f sched (init_world ps)).

(* --- wire format -----------------------------------------------------------------------------------
   case   ::= (0 prog)                       one fresh thread        -> (0 (obs ...) exc (loc ...) (glob ...))
            | (1 (prog ...) (tid ...))       threads + event schedule -> (1 ((obs ...) ...) (exc ...) (glob ...))
            | (2 prog)                       big-step semantics [exec] -> same shape as case 0
   prog   ::= (0) | (1 getter) | (2) | (3 p q) | (4 p) | (5 cm arg p)
   cm     ::= (0 i) | (1) .. (12)      getter ::= (0 i) | (1) .. (10)
   arg    ::= value (ScopesBase.e_val); stores are printed normalised (nrm), one optional value per key *)
Local Open Scope Z_scope.
Definition d_cm (t : tr) : option cm :=
  match t with
  | L [I 0; i] => do n <- dnat i; Some (CFlag n)
  | L [I 1] => Some CPerm | L [I 2] => Some CStrFmt | L [I 3] => Some CReprFmt | L [I 4] => Some CViewOpts
  | L [I 5] => Some CCtx | L [I 6] => Some CContextual | L [I 7] => Some CDetour | L [I 8] => Some CApplyWrappers
  | L [I 9] => Some CTimeit | L [I 10] => Some CDynEval | L [I 11] => Some CDynEvalGlobal | L [I 12] => Some CLoadTypes
  | L [I 13] => Some CDynGuard | L [I 14] => Some CDynStackL | L [I 15] => Some CDynStackG
  | _ => None
  end.
Definition d_getter (t : tr) : option getter :=
  match t with
  | L [I 0; i] => do n <- dnat i; Some (GFlag n)
  | L [I 1] => Some GPerm | L [I 2] => Some GStrFmt | L [I 3] => Some GReprFmt | L [I 4] => Some GViewOpts
  | L [I 5] => Some GCtx | L [I 6] => Some GContextual | L [I 7] => Some GDetour | L [I 8] => Some GTimeit
  | L [I 9] => Some GDynEval | L [I 10] => Some GLoadTypes | L [I 11] => Some GDynStackL | L [I 12] => Some GDynStackG
  | _ => None
  end.
Fixpoint d_prog (fuel : nat) (t : tr) : option sprog :=
  match fuel with
  | O => None
  | S f =>
    match t with
    | L [I 0] => Some Skip
    | L [I 1; g] => do g' <- d_getter g; Some (Obs g')
    | L [I 2] => Some Raise
    | L [I 3; p; q] => do p' <- d_prog f p; do q' <- d_prog f q; Some (Seq p' q')
    | L [I 4; p] => do p' <- d_prog f p; Some (Catch p')
    | L [I 5; c; a; b] => do c' <- d_cm c; do a' <- d_val a; do b' <- d_prog f b; Some (Scope c' a' b')
    | _ => None
    end
  end.
Definition prog_fuel : nat := 200.
Definition e_store (s : store) : tr := elist (eopt e_val) s.
Definition e_exc (t : thread) : tr :=
  match ctl t, stk t with Ret e, [] => ebool e | _, _ => I 2 end.

Definition run (c : tr) : tr :=
  match c with
  | L [I 0; p] =>
      match d_prog prog_fuel p with
      | Some p' =>
          let '(t, s) := run_solo (fuel_for p') (start p') init_state in
          L [I 0; elist e_val (out t); e_exc t; e_store (fst (nrm s)); e_store (snd (nrm s))]
      | None => ebad
      end
  | L [I 2; p] =>
      match d_prog prog_fuel p with
      | Some p' =>
          let '(s, o, e) := exec p' init_state in
          L [I 0; elist e_val o; ebool e; e_store (fst (nrm s)); e_store (snd (nrm s))]
      | None => ebad
      end
  | L [I 1; ps; sched] =>
      match dlist (d_prog prog_fuel) ps, dlist dnat sched with
      | Some ps', Some sc =>
          let w := run_threads ps' sc in
          L [I 1; elist (fun tl => elist e_val (out (fst tl))) (ths w);
                  elist (fun tl => e_exc (fst tl)) (ths w);
                  elist (fun tl => e_store (fst (nrm (snd tl, [])))) (ths w);
                  e_store (snd (nrm ([], wglob w)))]
      | _, _ => ebad
      end
  | _ => ebad
  end.

(* ScopesBase.v — values, stores and the thread-local primitives of
   pyglove/core/utils/thread_local.py (property C17).  Definitions only.
   Gen/ScopeDefs.v (regenerated from the source on every run) is written in terms of these. *)
From Coq Require Import ZArith List Bool PeanoNat.
Import ListNotations.
From PG Require Import Common.Tr.

(* --- Python values that occur in scoped settings ------------------------------------------ *)
(* atoms: None, True/False, a small integer (permission bits, or the identity of a function /
   class / timer object), a ContextualOverride(value, cascade, override_attrs) marker *)
Inductive atom : Type :=
| ANone
| ABool (b : bool)
| AInt (z : Z)
| AOv (z : Z) (cascade attrs : bool)
| AD (d : list (Z * atom)).      (* a dict-valued option (nested to any depth), e.g. view_options(extra_flags={...}) *)

(* a Python dict with small-integer names as keys, in insertion order *)
Definition dict := list (Z * atom).

(* a value kept in a store: an atom, a dict (kwargs / mappings), or a stack of dicts (TOP = HEAD) *)
Inductive val : Type :=
| VA (a : atom)
| VD (d : dict)
| VS (s : list dict).

Definition v_none : val := VA ANone.
Definition v_true : val := VA (ABool true).
Definition v_false : val := VA (ABool false).
Definition v_empty_dict : val := VD [].

(* Python truthiness / `is None` *)
Definition truthy (v : val) : bool :=
  match v with
  | VA ANone => false
  | VA (ABool b) => b
  | VA (AInt z) => negb (Z.eqb z 0)
  | VA (AOv _ _ _) => true
  | VA (AD d) => match d with [] => false | _ => true end
  | VD d => match d with [] => false | _ => true end
  | VS s => match s with [] => false | _ => true end
  end.
Definition is_none (v : val) : bool := match v with VA ANone => true | _ => false end.

(* --- dict operations (Python dict semantics: assignment to an existing key keeps its position) *)
Fixpoint dict_get (k : Z) (d : dict) : option atom :=
  match d with
  | [] => None
  | (k', a) :: r => if Z.eqb k k' then Some a else dict_get k r
  end.
Fixpoint dict_set (k : Z) (a : atom) (d : dict) : dict :=
  match d with
  | [] => [(k, a)]
  | (k', a') :: r => if Z.eqb k k' then (k', a) :: r else (k', a') :: dict_set k a r
  end.
Definition dict_update (d upd : dict) : dict :=
  fold_left (fun acc ka => dict_set (fst ka) (snd ka) acc) upd d.
Definition dict_has (k : Z) (d : dict) : bool :=
  match dict_get k d with Some _ => true | None => false end.

(* x.copy() / dict(x): values are immutable in the model *)
Definition py_copy (v : val) : val := v.
(* x.update(y) on dicts (rebinding x); anything else is a Python error: x is left alone *)
Definition py_update (x y : val) : val :=
  match x, y with VD a, VD b => VD (dict_update a b) | _, _ => x end.
(* utils.merge([a, b]): a deep merge into a deep copy.  A key of b whose value and the value already there are both
   dicts is merged recursively (keeping the position of the key); any other value replaces / is appended. *)
Fixpoint atom_merge (o n : atom) {struct n} : atom :=
  match o, n with
  | AD od, AD nd =>
      AD ((fix go (nd : list (Z * atom)) (acc : list (Z * atom)) {struct nd} : list (Z * atom) :=
             match nd with
             | [] => acc
             | (k, v) :: r =>
                 go r (dict_set k (match dict_get k acc with Some ov => atom_merge ov v | None => v end) acc)
             end) nd od)
  | _, _ => n
  end.
Definition dict_merge (a b : dict) : dict :=
  fold_left (fun acc kv => dict_set (fst kv) (match dict_get (fst kv) acc with
                                                | Some ov => atom_merge ov (snd kv)
                                                | None => snd kv
                                                end) acc) b a.
Definition py_merge2 (x y : val) : val :=
  match x, y with VD a, VD b => VD (dict_merge a b) | _, _ => x end.
(* d.get(k, default), d[k] = v, for k, v in d.items() — dict keys and values travel as atoms *)
Definition py_dict_get (d k default : val) : val :=
  match d, k with
  | VD l, VA (AInt z) => match dict_get z l with Some a => VA a | None => default end
  | _, _ => default
  end.
Definition py_setitem (d k v : val) : val :=
  match d, k, v with
  | VD l, VA (AInt z), VA a => VD (dict_set z a l)
  | _, _, _ => d
  end.
Definition py_for_items (d acc : val) (f : val -> val -> val -> val) : val :=
  match d with
  | VD l => fold_left (fun a kv => f a (VA (AInt (fst kv))) (VA (snd kv))) l acc
  | _ => acc
  end.
(* k in d; pairs.append((k, v)) on a sequence of pairs (kept as an association list) *)
Definition py_contains (d k : val) : bool :=
  match d, k with VD l, VA (AInt z) => dict_has z l | _, _ => false end.
Definition py_append_pair (l k v : val) : val :=
  match l, k, v with VD d, VA (AInt z), VA a => VD (d ++ [(z, a)]) | _, _, _ => l end.
(* ContextualOverride.cascade *)
Definition py_attr_cascade (v : val) : val :=
  match v with VA (AOv _ c _) => VA (ABool c) | _ => VA (ABool false) end.
(* stack[-1] *)
Definition py_last (v : val) : val :=
  match v with VS (d :: _) => VD d | _ => v_none end.

(* --- stores: a total map from keys 0..n-1 to optional values ------------------------------- *)
Definition tlkey := nat.
Definition store := list (option val).

Definition st_get (k : tlkey) (s : store) : option val := nth k s None.
Fixpoint st_set (k : tlkey) (o : option val) (s : store) : store :=
  match s, k with
  | [], _ => []
  | _ :: r, O => o :: r
  | x :: r, S k' => x :: st_set k' o r
  end.
Definition empty_store (n : nat) : store := repeat None n.

(* --- thread_local.py primitives (checked against the source text by the translator) -------- *)
(* hasattr(_thread_local_state, key) *)
Definition tl_has (k : tlkey) (s : store) : val :=
  match st_get k s with Some _ => v_true | None => v_false end.
(* getattr(_thread_local_state, key, default) *)
Definition tl_get (k : tlkey) (default : val) (s : store) : val :=
  match st_get k s with Some v => v | None => default end.
(* setattr / delattr (delattr of a missing key raises in Python; it never happens in the scopes) *)
Definition tl_set (k : tlkey) (v : val) (s : store) : store := st_set k (Some v) s.
Definition tl_del (k : tlkey) (s : store) : store := st_set k None s.
(* thread_local_peek(key, default): top of the stack, default when missing or empty *)
Definition tl_peek (k : tlkey) (default : val) (s : store) : val :=
  match st_get k s with Some (VS (d :: _)) => VD d | _ => default end.
(* thread_local_push(key, value): creates [] first when the key is missing *)
Definition tl_push (k : tlkey) (v : val) (s : store) : store :=
  match v with
  | VD d =>
      match st_get k s with
      | None => st_set k (Some (VS [d])) s
      | Some (VS l) => st_set k (Some (VS (d :: l))) s
      | Some _ => s
      end
  | _ => s
  end.
(* thread_local_pop(key[, default]): leaves the (possibly empty) list behind *)
Definition tl_pop (k : tlkey) (s : store) : store :=
  match st_get k s with
  | Some (VS (_ :: l)) => st_set k (Some (VS l)) s
  | _ => s
  end.

(* --- wire encoding of values ---------------------------------------------------------------- *)
Local Open Scope Z_scope.
Fixpoint e_atom (a : atom) : tr :=
  match a with
  | ANone => L [I 0]
  | ABool b => L [I 1; ebool b]
  | AInt z => L [I 2; I z]
  | AOv z c t => L [I 3; I z; ebool c; ebool t]
  | AD d => L [I 4; L ((fix go (l : list (Z * atom)) : list tr :=
                          match l with [] => [] | (k, v) :: r => L [I k; e_atom v] :: go r end) d)]
  end.
Fixpoint d_atom_f (fuel : nat) (t : tr) : option atom :=
  match fuel with
  | O => None
  | S f =>
    match t with
    | L [I 0] => Some ANone
    | L [I 1; b] => do b' <- dbool b; Some (ABool b')
    | L [I 2; I z] => Some (AInt z)
    | L [I 3; I z; c; a] => do c' <- dbool c; do a' <- dbool a; Some (AOv z c' a')
    | L [I 4; L es] =>
        do d <- dall (fun e => match e with L [I k; a] => do a' <- d_atom_f f a; Some (k, a') | _ => None end) es;
        Some (AD d)
    | _ => None
    end
  end.
Definition d_atom (t : tr) : option atom := d_atom_f 12 t.
Definition e_dict (d : dict) : tr := L (map (fun ka => L [I (fst ka); e_atom (snd ka)]) d).
Definition d_entry (t : tr) : option (Z * atom) :=
  match t with L [I k; a] => do a' <- d_atom a; Some (k, a') | _ => None end.
Definition d_dict (t : tr) : option dict := dlist d_entry t.
(* stacks are printed bottom first (the order of the Python list) *)
Definition e_val (v : val) : tr :=
  match v with
  | VA a => L [I 0; e_atom a]
  | VD d => L [I 1; e_dict d]
  | VS s => L [I 2; L (map e_dict (rev s))]
  end.
Definition d_val (t : tr) : option val :=
  match t with
  | L [I 0; a] => do a' <- d_atom a; Some (VA a')
  | L [I 1; d] => do d' <- d_dict d; Some (VD d')
  | L [I 2; s] => do s' <- dlist d_dict s; Some (VS (rev s'))
  | _ => None
  end.

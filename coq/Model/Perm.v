(* Perm.v — model of permission-gated code evaluation (property C19).
   Python ASTs are rose trees of node-kind indices (the indices and the table [tbl] are
   regenerated from the source into Gen/PermTable.v on every run). Definitions only. *)
From Coq Require Import NArith ZArith List Bool.
Import ListNotations.
From PG Require Import Common.Tr Gen.PermTable.
Local Open Scope N_scope.

Inductive ast : Type := Node (k : N) (kids : list ast).

Definition kind (t : ast) : N := match t with Node k _ => k end.
Definition kids (t : ast) : list ast := match t with Node _ ks => ks end.

(* a permission set: granted g f = flag f is granted *)
Definition perm := N -> bool.
Definition perm_of_bits (bits : N) : perm := fun f => N.testbit bits f.

(* _CodeValidator.visit: verify the node against every rule, then visit the children *)
Fixpoint validate (tb : N -> list N) (g : perm) (t : ast) : bool :=
  match t with
  | Node k ks => forallb g (tb k) && forallb (validate tb g) ks
  end.

(* subnode n t : n occurs in t at any depth (including t itself) *)
Inductive subnode (n : ast) : ast -> Prop :=
| sub_here : subnode n n
| sub_kid  : forall k ks c, In c ks -> subnode n c -> subnode n (Node k ks).

(* The specification table: the constructs the property names and the permission each needs. *)
Definition required_pairs : list (N * N) :=
  [ (k_Assign, f_ASSIGN); (k_AugAssign, f_ASSIGN); (k_AnnAssign, f_ASSIGN); (k_NamedExpr, f_ASSIGN);
    (k_If, f_CONDITION); (k_Match, f_CONDITION);
    (k_For, f_LOOP); (k_While, f_LOOP); (k_AsyncFor, f_LOOP);
    (k_Call, f_CALL);
    (k_Try, f_EXCEPTION); (k_TryStar, f_EXCEPTION); (k_Raise, f_EXCEPTION); (k_Assert, f_EXCEPTION);
    (k_ClassDef, f_CLASS_DEFINITION);
    (k_FunctionDef, f_FUNCTION_DEFINITION); (k_AsyncFunctionDef, f_FUNCTION_DEFINITION); (k_Lambda, f_FUNCTION_DEFINITION);
    (k_Import, f_IMPORT); (k_ImportFrom, f_IMPORT) ].

Definition covers (tb : N -> list N) : bool :=
  forallb (fun kf => existsb (N.eqb (snd kf)) (tb (fst kf))) required_pairs.

(* evaluate(): parse-and-validate first; only then hand the program to the interpreter.
   [exec] stands for Python's compile/exec/eval (a Section variable, see trusted base). *)
Section Evaluate.
  Variable outcome : Type.
  Variable exec : ast -> outcome.
  Inductive result := CodeError | Ran (o : outcome).
  (* granted = None: no permission given anywhere, nothing is validated *)
  Definition evaluate (tb : N -> list N) (granted : option perm) (t : ast) : result :=
    match granted with
    | None => Ran (exec t)
    | Some g => if validate tb g t then Ran (exec t) else CodeError
    end.
End Evaluate.

(* permission(perm) scopes: the outermost one wins (permissions.py). *)
Definition scope_enter (outer : option N) (p : N) : option N :=
  match outer with Some o => Some o | None => Some p end.
Fixpoint scope_nest (outer : option N) (ps : list N) : option N :=
  match ps with [] => outer | p :: r => scope_nest (scope_enter outer p) r end.
Definition subset_bits (a b : N) : bool := N.eqb (N.land a b) a.

(* evaluate(code, permission=arg) inside nested permission scopes: which permission is enforced
   ([eval_perm] is regenerated from execution.py) and whether the program is refused. *)
Definition evaluate_accepts (tb : N -> list N) (arg : option N) (scopes : list N) (t : ast) : bool :=
  match eval_perm arg (scope_nest None scopes) with
  | None => true
  | Some bits => validate tb (perm_of_bits bits) t
  end.

(* --- wire format -------------------------------------------------------------------------
   case   ::= (0 bits ast)            validate with permission bits            -> (0 b)
            | (1 (p1 p2 ...))         nested permission scopes, outermost first -> (1 (eff?))
            | (2 (arg?) (p1 ...) ast) evaluate with argument inside scopes       -> (2 accepted)
   ast    ::= (k kid ...)  *)
Fixpoint d_ast (fuel : nat) (t : tr) : option ast :=
  match fuel with
  | O => None
  | S f =>
    match t with
    | L (I z :: ks) =>
        if Z.ltb z 0 then None else
        do ks' <- dall (d_ast f) ks; Some (Node (Z.to_N z) ks')
    | _ => None
    end
  end.

Definition run_perm (c : tr) : tr :=
  match c with
  | L [I 0%Z; bits; a] =>
      match dN bits, d_ast 200 a with
      | Some b, Some t => L [I 0%Z; ebool (validate tbl (perm_of_bits b) t)]
      | _, _ => ebad
      end
  | L [I 1%Z; ps] =>
      match dlist dN ps with
      | Some l => L [I 1%Z; eopt eN (scope_nest None l)]
      | None => ebad
      end
  | L [I 2%Z; arg; ps; a] =>
      match dopt dN arg, dlist dN ps, d_ast 200 a with
      | Some ar, Some l, Some t => L [I 2%Z; ebool (evaluate_accepts tbl ar l t)]
      | _, _, _ => ebad
      end
  | _ => ebad
  end.

(* PyList.v -- reference semantics of Python's own [list] (definitions only).

   This file is a SPECIFICATION: it says what CPython's built-in list does, for an arbitrary element type [A]
   with an equality [eqb] (Python ==).  It is validated against the built-in type itself by the correspondence
   "PyList/PyDict vs CPython" of harness/props/c02.py (implementation driver = list), including slice.indices
   exhaustively.  Nothing here knows about PyGlove.

   Index arithmetic follows Objects/listobject.c and Objects/sliceobject.c (PySlice_Unpack,
   PySlice_AdjustIndices, list_ass_slice, list_ass_subscript).                                          *)
From Coq Require Import ZArith List Bool.
Import ListNotations.
Local Open Scope Z_scope.

(* the error classes the property talks about *)
Inductive pyerr : Type := PyIndexError | PyKeyError | PyTypeError | PyValueError.

Definition len {A} (l : list A) : Z := Z.of_nat (length l).

(* l[i] / l[i] = x / del l[i]: the position addressed by index i, None = IndexError *)
Definition norm_index (n i : Z) : option nat :=
  if (i <? - n) || (i >=? n) then None else Some (Z.to_nat (if i <? 0 then i + n else i)).

(* slice(a, b, c).indices(n); None = ValueError (slice step cannot be zero) *)
Definition slice_adjust (n step v : Z) : Z :=
  if v <? 0 then (if v + n <? 0 then (if step <? 0 then -1 else 0) else v + n)
  else if v >=? n then (if step <? 0 then n - 1 else n) else v.
Definition slice_indices (a b c : option Z) (n : Z) : option (Z * Z * Z) :=
  let step := match c with Some s => s | None => 1 end in
  if step =? 0 then None else
  let start := match a with Some v => slice_adjust n step v | None => if step <? 0 then n - 1 else 0 end in
  let stop := match b with Some v => slice_adjust n step v | None => if step <? 0 then -1 else n end in
  Some (start, stop, step).
(* len(range(start, stop, step)) *)
Definition slice_len (start stop step : Z) : Z :=
  if step <? 0 then (if stop <? start then (start - stop - 1) / (- step) + 1 else 0)
  else (if start <? stop then (stop - start - 1) / step + 1 else 0).
Fixpoint range_from (start step : Z) (count : nat) : list Z :=
  match count with O => [] | S k => start :: range_from (start + step) step k end.
(* list(range(start, stop, step)) *)
Definition slice_range (start stop step : Z) : list Z :=
  range_from start step (Z.to_nat (slice_len start stop step)).

Fixpoint replace_nth {A} (n : nat) (x : A) (l : list A) : list A :=
  match l, n with
  | [], _ => []
  | _ :: r, O => x :: r
  | y :: r, S m => y :: replace_nth m x r
  end.
Fixpoint delete_nth {A} (n : nat) (l : list A) : list A :=
  match l, n with
  | [], _ => []
  | _ :: r, O => r
  | y :: r, S m => y :: delete_nth m r
  end.
(* the elements at the given positions, in the order of the positions *)
Definition pick {A} (l : list A) (idxs : list Z) : list A :=
  flat_map (fun i => match nth_error l (Z.to_nat i) with Some x => [x] | None => [] end) idxs.
Definition zmem (i : Z) (l : list Z) : bool := existsb (Z.eqb i) l.
(* the elements whose position satisfies f *)
Fixpoint filter_pos {A} (f : Z -> bool) (i : Z) (l : list A) : list A :=
  match l with
  | [] => []
  | x :: r => if f i then x :: filter_pos f (i + 1) r else filter_pos f (i + 1) r
  end.
Fixpoint repeat_app {A} (n : nat) (l : list A) : list A :=
  match n with O => [] | S m => l ++ repeat_app m l end.
Fixpoint zip {A B} (a : list A) (b : list B) : list (A * B) :=
  match a, b with x :: a', y :: b' => (x, y) :: zip a' b' | _, _ => [] end.

(* list.insert(i, x) clamps the index *)
Definition insert_pos (n i : Z) : nat := Z.to_nat (if i <? 0 then Z.max 0 (i + n) else Z.min i n).
Definition insert {A} (l : list A) (i : Z) (x : A) : list A :=
  let p := insert_pos (len l) i in firstn p l ++ x :: skipn p l.

(* l[a:b:c] *)
Definition get_slice {A} (l : list A) (a b c : option Z) : option (list A) :=
  match slice_indices a b c (len l) with
  | None => None
  | Some (start, stop, step) => Some (pick l (slice_range start stop step))
  end.
(* l[a:b:c] = vs.  step 1: a slice with stop < start is the empty slice at start (list_ass_subscript);
   extended slices need as many values as positions *)
Definition set_slice {A} (l : list A) (a b c : option Z) (vs : list A) : list A + pyerr :=
  match slice_indices a b c (len l) with
  | None => inr PyValueError
  | Some (start, stop, step) =>
      if step =? 1 then
        inl (firstn (Z.to_nat start) l ++ vs ++ skipn (Z.to_nat (Z.max start stop)) l)
      else
        let idxs := slice_range start stop step in
        if Nat.eqb (length idxs) (length vs) then
          inl (fold_left (fun acc iv => replace_nth (Z.to_nat (fst iv)) (snd iv) acc) (zip idxs vs) l)
        else inr PyValueError
  end.
(* del l[a:b:c] *)
Definition del_slice {A} (l : list A) (a b c : option Z) : list A + pyerr :=
  match slice_indices a b c (len l) with
  | None => inr PyValueError
  | Some (start, stop, step) =>
      let idxs := slice_range start stop step in
      inl (filter_pos (fun i => negb (zmem i idxs)) 0 l)
  end.

(* l.sort(key=..., reverse=rv) where the key function yields ks[i] for the i-th element: stable in both directions *)
Fixpoint ins_sorted {A} (le : Z -> Z -> bool) (x : Z * A) (l : list (Z * A)) : list (Z * A) :=
  match l with
  | [] => [x]
  | y :: r => if le (fst x) (fst y) then x :: l else y :: ins_sorted le x r
  end.
Fixpoint zip_keys {A} (ks : list Z) (l : list A) : list (Z * A) :=
  match l with
  | [] => []
  | x :: r => match ks with [] => (0, x) :: zip_keys [] r | k :: ks' => (k, x) :: zip_keys ks' r end
  end.
Definition sort_by {A} (rv : bool) (ks : list Z) (l : list A) : list A :=
  map snd (fold_right (ins_sorted (if rv then Z.geb else Z.leb)) [] (zip_keys ks l)).

Section Eq.
  Context {A : Type}.
  Variable eqb : A -> A -> bool.
  Fixpoint find_pos (x : A) (l : list A) (i : nat) : option nat :=
    match l with [] => None | y :: r => if eqb y x then Some i else find_pos x r (S i) end.
  Definition count (x : A) (l : list A) : Z := len (filter (fun y => eqb y x) l).
  Definition contains (x : A) (l : list A) : bool := existsb (fun y => eqb y x) l.
  Fixpoint list_eq (a b : list A) : bool :=
    match a, b with
    | [], [] => true
    | x :: a', y :: b' => eqb x y && list_eq a' b'
    | _, _ => false
    end.
End Eq.

(* --- operations and one step ---------------------------------------------------------------------------- *)
Inductive lop (A : Type) : Type :=
| PLSet (i : Z) (v : A) | PLDel (i : Z) | PLAppend (v : A) | PLInsert (i : Z) (v : A) | PLExtend (vs : list A)
| PLPop (i : option Z) | PLRemove (x : A) | PLClear | PLReverse | PLSort (ks : list Z) (rv : bool)
| PLIAdd (vs : list A) | PLIMul (n : Z) | PLAdd (vs : list A) | PLMul (n : Z) | PLCopy
| PLSetSlice (a b c : option Z) (vs : list A) | PLDelSlice (a b c : option Z)
(* reads *)
| PLGet (i : Z) | PLGetSlice (a b c : option Z) | PLLen | PLContains (x : A) | PLIndex (x : A) | PLCount (x : A)
| PLEq (o : list A).
#[global] Arguments PLSet {A}. #[global] Arguments PLDel {A}. #[global] Arguments PLAppend {A}. #[global] Arguments PLInsert {A}.
#[global] Arguments PLExtend {A}. #[global] Arguments PLPop {A}. #[global] Arguments PLRemove {A}. #[global] Arguments PLClear {A}.
#[global] Arguments PLReverse {A}. #[global] Arguments PLSort {A}. #[global] Arguments PLIAdd {A}. #[global] Arguments PLIMul {A}.
#[global] Arguments PLAdd {A}. #[global] Arguments PLMul {A}. #[global] Arguments PLCopy {A}. #[global] Arguments PLSetSlice {A}.
#[global] Arguments PLDelSlice {A}. #[global] Arguments PLGet {A}. #[global] Arguments PLGetSlice {A}. #[global] Arguments PLLen {A}.
#[global] Arguments PLContains {A}. #[global] Arguments PLIndex {A}. #[global] Arguments PLCount {A}. #[global] Arguments PLEq {A}.

(* what the call evaluates to *)
Inductive lret (A : Type) : Type :=
| LrNone | LrVal (v : A) | LrList (l : list A) | LrInt (z : Z) | LrBool (b : bool).
#[global] Arguments LrNone {A}. #[global] Arguments LrVal {A}. #[global] Arguments LrList {A}. #[global] Arguments LrInt {A}. #[global] Arguments LrBool {A}.

Section Step.
  Context {A : Type}.
  Variable eqb : A -> A -> bool.
  (* the list after the call and the value of the call, or the exception class (the list is then unchanged) *)
  Definition lstep (l : list A) (o : lop A) : (list A * lret A) + pyerr :=
    let n := len l in
    match o with
    | PLSet i v => match norm_index n i with Some p => inl (replace_nth p v l, LrNone) | None => inr PyIndexError end
    | PLDel i => match norm_index n i with Some p => inl (delete_nth p l, LrNone) | None => inr PyIndexError end
    | PLAppend v => inl (l ++ [v], LrNone)
    | PLInsert i v => inl (insert l i v, LrNone)
    | PLExtend vs | PLIAdd vs => inl (l ++ vs, LrNone)
    | PLPop oi =>
        match norm_index n (match oi with Some i => i | None => -1 end) with
        | Some p => match nth_error l p with Some x => inl (delete_nth p l, LrVal x) | None => inr PyIndexError end
        | None => inr PyIndexError
        end
    | PLRemove x => match find_pos eqb x l O with Some p => inl (delete_nth p l, LrNone) | None => inr PyValueError end
    | PLClear => inl ([], LrNone)
    | PLReverse => inl (rev l, LrNone)
    | PLSort ks rv => inl (sort_by rv ks l, LrNone)
    | PLIMul m => inl (repeat_app (Z.to_nat m) l, LrNone)
    | PLAdd vs => inl (l, LrList (l ++ vs))
    | PLMul m => inl (l, LrList (repeat_app (Z.to_nat m) l))
    | PLCopy => inl (l, LrList l)
    | PLSetSlice a b c vs => match set_slice l a b c vs with inl l' => inl (l', LrNone) | inr e => inr e end
    | PLDelSlice a b c => match del_slice l a b c with inl l' => inl (l', LrNone) | inr e => inr e end
    | PLGet i => match norm_index n i with
                 | Some p => match nth_error l p with Some x => inl (l, LrVal x) | None => inr PyIndexError end
                 | None => inr PyIndexError end
    | PLGetSlice a b c => match get_slice l a b c with Some r => inl (l, LrList r) | None => inr PyValueError end
    | PLLen => inl (l, LrInt n)
    | PLContains x => inl (l, LrBool (contains eqb x l))
    | PLIndex x => match find_pos eqb x l O with Some p => inl (l, LrInt (Z.of_nat p)) | None => inr PyValueError end
    | PLCount x => inl (l, LrInt (count eqb x l))
    | PLEq o' => inl (l, LrBool (list_eq eqb l o'))
    end.
  Definition lstate (l : list A) (o : lop A) : list A :=
    match lstep l o with inl (l', _) => l' | inr _ => l end.
  Definition lrun (l : list A) (ops : list (lop A)) : list A := fold_left lstate ops l.
End Step.

(* Json.v — model of pyglove's JSON conversion (property C05): symbolic.to_json / from_json
   (base.py, json_conversion.py, Dict/List/Object.sym_jsonify) and the int-key encoding of the
   string form (to_json_str / from_json_str).  Definitions only.

   Python values are [pv], the plain objects produced by to_json are [jv].  Strings are lists of
   code points.  Floats are opaque atoms (a dyadic rational or one of the special values): the
   conversion never inspects them.  The JSON *text* layer (json.dumps / json.loads) is not in this
   file: Proofs/JsonProofs.v takes it as Section variables. *)
From Coq Require Import ZArith NArith List Bool Decimal DecimalZ.
Import ListNotations.
From PG Require Import Common.Tr.
Local Open Scope Z_scope.

Definition str := list N.

Inductive fl : Type := FFin (m e : Z) | FNan | FPInf | FNInf | FNegZero.

(* dict keys: pg.Dict accepts str and int keys; bool is a subclass of int *)
Inductive key : Type := KS (s : str) | KI (z : Z) | KB (b : bool).

Inductive pv : Type :=
| PNone
| PBool (b : bool)
| PInt (z : Z)
| PFloat (f : fl)
| PStr (s : str)
| PList (l : list pv)
| PTuple (l : list pv)
| PDict (d : list (key * pv))
| PObj (cls : str) (flds : list (str * pv)).   (* a pg.Object: serialization key, fields in schema order *)

Inductive jv : Type :=
| JNull
| JBool (b : bool)
| JInt (z : Z)
| JFloat (f : fl)
| JStr (s : str)
| JList (l : list jv)
| JDict (d : list (key * jv)).

Inductive err : Type := EValue | EType | EKey | EAssert | EUnmodelled.
Inductive result (A : Type) : Type := Ok (a : A) | Err (e : err).
Arguments Ok {A} a.
Arguments Err {A} e.

(* open findings of the implementation the model has to follow (FRAMEWORK.md, quirk flags) *)
Record quirks : Type := { q_empty_tuple : bool }.   (* from_json rejects ['__tuple__'] *)
Definition no_quirks (q : quirks) : Prop := q_empty_tuple q = false.

(* class table: serialization key -> field names (schema order) *)
Definition classtab := list (str * list str).

(* --- strings --------------------------------------------------------------------------- *)
Definition s_type : str := [95; 116; 121; 112; 101]%N.                          (* "_type" *)
Definition s_marker : str := [95; 95; 116; 117; 112; 108; 101; 95; 95]%N.       (* "__tuple__" *)
Definition s_nprefix : str := [110; 95; 58]%N.                                  (* "n_:" *)
Definition s_True : str := [84; 114; 117; 101]%N.
Definition s_False : str := [70; 97; 108; 115; 101]%N.
Definition s_typename_type : str := [116; 121; 112; 101]%N.                     (* "type" *)
Definition s_typename_function : str := [102; 117; 110; 99; 116; 105; 111; 110]%N.
Definition s_typename_method : str := [109; 101; 116; 104; 111; 100]%N.

Fixpoint str_eqb (a b : str) : bool :=
  match a, b with
  | [], [] => true
  | x :: a', y :: b' => N.eqb x y && str_eqb a' b'
  | _, _ => false
  end.

(* s.startswith(p): Some (the rest) *)
Fixpoint strip_prefix (p s : str) : option str :=
  match p with
  | [] => Some s
  | c :: p' => match s with
               | d :: s' => if N.eqb c d then strip_prefix p' s' else None
               | [] => None
               end
  end.

(* str(int): decimal digits, '-' for negatives *)
Fixpoint uint_str (u : uint) : str :=
  match u with
  | Nil => []
  | D0 r => 48%N :: uint_str r | D1 r => 49%N :: uint_str r | D2 r => 50%N :: uint_str r
  | D3 r => 51%N :: uint_str r | D4 r => 52%N :: uint_str r | D5 r => 53%N :: uint_str r
  | D6 r => 54%N :: uint_str r | D7 r => 55%N :: uint_str r | D8 r => 56%N :: uint_str r
  | D9 r => 57%N :: uint_str r
  end.
Definition int_str (z : Z) : str :=
  match Z.to_int z with
  | Pos u => uint_str u
  | Neg u => 45%N :: uint_str u
  end.

(* int(s) restricted to [+-]?[0-9]+ (Python also accepts surrounding blanks, '_' between digits and
   non-ASCII digits; those spellings are outside the generator's and the theorems' domain) *)
Fixpoint str_uint (s : str) : option uint :=
  match s with
  | [] => Some Nil
  | c :: r =>
    match str_uint r with
    | None => None
    | Some u =>
      if N.eqb c 48 then Some (D0 u) else if N.eqb c 49 then Some (D1 u) else if N.eqb c 50 then Some (D2 u)
      else if N.eqb c 51 then Some (D3 u) else if N.eqb c 52 then Some (D4 u) else if N.eqb c 53 then Some (D5 u)
      else if N.eqb c 54 then Some (D6 u) else if N.eqb c 55 then Some (D7 u) else if N.eqb c 56 then Some (D8 u)
      else if N.eqb c 57 then Some (D9 u) else None
    end
  end.
Definition parse_int (s : str) : option Z :=
  match s with
  | [] => None
  | c :: r =>
    if N.eqb c 45 then match r with [] => None | _ => option_map (fun u => Z.of_int (Neg u)) (str_uint r) end
    else if N.eqb c 43 then match r with [] => None | _ => option_map (fun u => Z.of_int (Pos u)) (str_uint r) end
    else option_map (fun u => Z.of_int (Pos u)) (str_uint s)
  end.

(* --- Python dict keys ------------------------------------------------------------------ *)
(* key equality as a Python dict sees it: True == 1 and False == 0 *)
Definition key_int (k : key) : option Z :=
  match k with KS _ => None | KI z => Some z | KB b => Some (if b then 1 else 0) end.
Definition key_eqb (a b : key) : bool :=
  match a, b with
  | KS s, KS t => str_eqb s t
  | KS _, _ | _, KS _ => false
  | _, _ => match key_int a, key_int b with Some x, Some y => Z.eqb x y | _, _ => false end
  end.

Section Assoc.
  Context {V : Type}.
  Fixpoint lookup (k : key) (d : list (key * V)) : option V :=
    match d with
    | [] => None
    | (k', v) :: r => if key_eqb k k' then Some v else lookup k r
    end.
  Definition has_key (k : key) (d : list (key * V)) : bool :=
    match lookup k d with Some _ => true | None => false end.
  (* d[k] = v : an existing key keeps its position and its key object *)
  Fixpoint dict_set (d : list (key * V)) (k : key) (v : V) : list (key * V) :=
    match d with
    | [] => [(k, v)]
    | (k', v') :: r => if key_eqb k k' then (k', v) :: r else (k', v') :: dict_set r k v
    end.
  (* a dict comprehension / dict(pairs): insert in order *)
  Definition dict_of_pairs (l : list (key * V)) : list (key * V) :=
    fold_left (fun d kv => dict_set d (fst kv) (snd kv)) l [].
  (* d.pop(k) *)
  Fixpoint dict_remove (k : key) (d : list (key * V)) : list (key * V) :=
    match d with
    | [] => []
    | (k', v) :: r => if key_eqb k k' then r else (k', v) :: dict_remove k r
    end.
  Fixpoint keys_nodup (d : list (key * V)) : bool :=
    match d with
    | [] => true
    | (k, _) :: r => negb (has_key k r) && keys_nodup r
    end.
End Assoc.

Fixpoint slookup {V : Type} (s : str) (d : list (str * V)) : option V :=
  match d with
  | [] => None
  | (s', v) :: r => if str_eqb s s' then Some v else slookup s r
  end.

(* --- to_json ---------------------------------------------------------------------------- *)
Fixpoint to_json (v : pv) : jv :=
  match v with
  | PNone => JNull
  | PBool b => JBool b
  | PInt z => JInt z
  | PFloat f => JFloat f
  | PStr s => JStr s
  | PList l => JList (map to_json l)
  | PTuple l => JList (JStr s_marker :: map to_json l)
  | PDict d => JDict (map (fun kv => (fst kv, to_json (snd kv))) d)
  | PObj c fs => JDict ((KS s_type, JStr c) :: map (fun kv => (KS (fst kv), to_json (snd kv))) fs)
  end.

(* --- from_json -------------------------------------------------------------------------- *)
Definition special_typename (s : str) : bool :=
  str_eqb s s_typename_type || str_eqb s s_typename_function || str_eqb s s_typename_method.

Fixpoint smem (s : str) (l : list str) : bool :=
  match l with [] => false | x :: r => str_eqb s x || smem s r end.

(* the keyword arguments handed to cls(kwargs), arranged in schema order *)
Fixpoint collect (fields : list str) (kvs : list (key * pv)) : option (list (str * pv)) :=
  match fields with
  | [] => Some []
  | f :: r => match lookup (KS f) kvs, collect r kvs with
              | Some v, Some fs => Some ((f, v) :: fs)
              | _, _ => None
              end
  end.
Definition is_str_key (k : key) : bool := match k with KS _ => true | _ => false end.
Definition mk_obj (c : str) (fields : list str) (kvs : list (key * pv)) : result pv :=
  if negb (forallb (fun kv => is_str_key (fst kv)) kvs) then Err EType            (* keywords must be strings *)
  else if negb (forallb (fun kv => match fst kv with KS s => smem s fields | _ => false end) kvs)
       then Err EType                                                            (* unexpected keyword argument *)
  else match collect fields kvs with
       | Some fs => Ok (PObj c fs)
       | None => Err EType                                                       (* missing required argument *)
       end.

Section MapM.
  Context {A B : Type} (f : A -> result B).
  (* [f x for x in l], the first error wins *)
  Fixpoint mapM (l : list A) : result (list B) :=
    match l with
    | [] => Ok []
    | x :: r => match f x with
                | Err e => Err e
                | Ok v => match mapM r with Err e => Err e | Ok vs => Ok (v :: vs) end
                end
    end.
End MapM.
Definition rbind {A B} (r : result A) (k : A -> result B) : result B :=
  match r with Ok a => k a | Err e => Err e end.
Fixpoint somes {A} (l : list (option A)) : list A :=
  match l with [] => [] | Some a :: r => a :: somes r | None :: r => somes r end.
Definition is_type_key (k : key) : bool := key_eqb k (KS s_type).

Section FromJson.
  Variable q : quirks.
  Variable ct : classtab.

  (* json_conversion.resolve_typenames: a pass over the whole tree before anything is built *)
  Fixpoint resolve (j : jv) : result unit :=
    match j with
    | JList l => rbind (mapM resolve l) (fun _ => Ok tt)
    | JDict d =>
        let children := rbind (mapM (fun kv => resolve (snd kv)) d) (fun _ => Ok tt) in
        match lookup (KS s_type) d with
        | None => children
        | Some (JStr c) =>
            if special_typename c then Err EUnmodelled
            else match slookup c ct with
                 | None => Err EType                 (* Cannot load class *)
                 | Some _ => children
                 end
        | Some _ => Ok tt                            (* '_type' is not a str: subtree left alone *)
        end
    | _ => Ok tt
    end.

  Fixpoint build (j : jv) : result pv :=
    match j with
    | JNull => Ok PNone
    | JBool b => Ok (PBool b)
    | JInt z => Ok (PInt z)
    | JFloat f => Ok (PFloat f)
    | JStr s => Ok (PStr s)
    | JList l =>
        let as_list := rbind (mapM build l) (fun vs => Ok (PList vs)) in
        match l with
        | JStr m :: r =>
            if str_eqb m s_marker then
              match r with
              | [] => if q_empty_tuple q then Err EValue else Ok (PTuple [])
              | _ => rbind (mapM build r) (fun vs => Ok (PTuple vs))
              end
            else as_list
        | _ => as_list
        end
    | JDict d =>
        (* the members in order; with skip, the '_type' entry has been popped *)
        let members (skip : bool) :=
          rbind (mapM (fun kv => if skip && is_type_key (fst kv) then Ok None
                                 else rbind (build (snd kv)) (fun v => Ok (Some (fst kv, v)))) d)
                (fun l => Ok (somes l)) in
        match lookup (KS s_type) d with
        | None => rbind (members false) (fun kvs => Ok (PDict kvs))
        | Some (JStr c) =>
            if special_typename c then Err EUnmodelled
            else match slookup c ct with
                 | None => Err EType
                 | Some fields => rbind (members true) (mk_obj c fields)
                 end
        | Some JNull => Err EAssert                  (* assert factory_fn is not None *)
        | Some _ => Err EType                        (* object is not callable *)
        end
    end.

  Definition from_json (j : jv) : result pv := rbind (resolve j) (fun _ => build j).
End FromJson.

(* --- the string form: int keys become 'n_:<int>' before json.dumps and back after json.loads --- *)
Definition encode_key (k : key) : key :=
  match k with
  | KS s => KS s
  | KI z => KS (s_nprefix ++ int_str z)
  | KB b => KS (s_nprefix ++ (if b then s_True else s_False))
  end.
Fixpoint encode_keys (j : jv) : jv :=
  match j with
  | JList l => JList (map encode_keys l)
  | JDict d => JDict (dict_of_pairs (map (fun kv => (encode_key (fst kv), encode_keys (snd kv))) d))
  | _ => j
  end.

Definition decode_key (k : key) : result key :=
  match k with
  | KS s => match strip_prefix s_nprefix s with
            | Some r => match parse_int r with Some z => Ok (KI z) | None => Err EValue end
            | None => Ok k
            end
  | _ => Err EUnmodelled                              (* json.loads only produces str keys *)
  end.
Fixpoint decode_keys (j : jv) : result jv :=
  match j with
  | JList l => rbind (mapM decode_keys l) (fun vs => Ok (JList vs))
  | JDict d =>
      rbind (mapM (fun kv => rbind (decode_key (fst kv)) (fun k' =>
                             rbind (decode_keys (snd kv)) (fun v => Ok (k', v)))) d)
            (fun kvs => Ok (JDict (dict_of_pairs kvs)))
  | _ => Ok j
  end.

(* what json.dumps receives / what from_json_str does with what json.loads returns *)
Definition to_sj (v : pv) : jv := encode_keys (to_json v).
Definition of_sj (q : quirks) (ct : classtab) (j : jv) : result pv :=
  rbind (decode_keys j) (from_json q ct).

(* to_json_str / from_json_str: the JSON text layer (Python's json module) is a parameter *)
Section Text.
  Variable text : Type.
  Variable dumps : jv -> text.            (* json.dumps *)
  Variable loads : text -> option jv.     (* json.loads; None: JSONDecodeError *)
  Definition to_str (v : pv) : text := dumps (to_sj v).
  Definition of_str (q : quirks) (ct : classtab) (t : text) : result pv :=
    match loads t with
    | Some j => of_sj q ct j
    | None => Err EValue
    end.
End Text.

(* --- the domain of the round-trip theorems ------------------------------------------------ *)
Definition is_marker_str (v : pv) : bool := match v with PStr s => str_eqb s s_marker | _ => false end.
Definition head_is_marker (l : list pv) : bool := match l with x :: _ => is_marker_str x | [] => false end.

(* class table: names are not the three built-in type names; fields are distinct and not '_type' *)
Fixpoint str_nodup (l : list str) : bool :=
  match l with [] => true | x :: r => negb (smem x r) && str_nodup r end.
Fixpoint ct_ok (ct : classtab) : bool :=
  match ct with
  | [] => true
  | (c, fs) :: r => negb (special_typename c) && negb (smem s_type fs) && str_nodup fs && ct_ok r
  end.

Fixpoint strs_eqb (a b : list str) : bool :=
  match a, b with
  | [], [] => true
  | x :: a', y :: b' => str_eqb x y && strs_eqb a' b'
  | _, _ => false
  end.

(* object form: excludes exactly the reserved encodings of the object form *)
Fixpoint ser_ok (ct : classtab) (v : pv) : bool :=
  match v with
  | PList l => negb (head_is_marker l) && forallb (ser_ok ct) l
  | PTuple l => forallb (ser_ok ct) l
  | PDict d => negb (has_key (KS s_type) d) && keys_nodup d && forallb (fun kv => ser_ok ct (snd kv)) d
  | PObj c fs => match slookup c ct with
                 | Some fields => strs_eqb fields (map fst fs)
                 | None => false
                 end && forallb (fun kv => ser_ok ct (snd kv)) fs
  | _ => true
  end.

(* the open finding: () *)
Fixpoint no_empty_tuple (v : pv) : bool :=
  match v with
  | PList l => forallb no_empty_tuple l
  | PTuple l => match l with [] => false | _ => forallb no_empty_tuple l end
  | PDict d => forallb (fun kv => no_empty_tuple (snd kv)) d
  | PObj _ fs => forallb (fun kv => no_empty_tuple (snd kv)) fs
  | _ => true
  end.

(* string form: additionally no str key spelled like an encoded int key, no bool keys, and no string in
   which a high surrogate is directly followed by a low surrogate (JSON text reads the two escapes back
   as one character) *)
Definition is_high (c : N) : bool := (N.leb 55296 c && N.leb c 56319)%N.
Definition is_low (c : N) : bool := (N.leb 56320 c && N.leb c 57343)%N.
Fixpoint no_surrogate_pair (s : str) : bool :=
  match s with
  | [] => true
  | c :: r => match r with
              | d :: _ => negb (is_high c && is_low d)
              | [] => true
              end && no_surrogate_pair r
  end.
Definition key_str_ok (k : key) : bool :=
  match k with
  | KS s => match strip_prefix s_nprefix s with Some _ => false | None => true end && no_surrogate_pair s
  | KI _ => true
  | KB _ => false
  end.
Fixpoint str_ok (v : pv) : bool :=
  match v with
  | PStr s => no_surrogate_pair s
  | PList l | PTuple l => forallb str_ok l
  | PDict d => forallb (fun kv => key_str_ok (fst kv) && str_ok (snd kv)) d
  | PObj c fs => no_surrogate_pair c && forallb (fun kv => key_str_ok (KS (fst kv)) && str_ok (snd kv)) fs
  | _ => true
  end.

(* what json.dumps is given by to_json_str: string keys only, distinct, and no string in which a high
   surrogate is directly followed by a low one *)
Fixpoint sj_ok (j : jv) : bool :=
  match j with
  | JStr s => no_surrogate_pair s
  | JList l => forallb sj_ok l
  | JDict d => keys_nodup d &&
               forallb (fun kv => match fst kv with KS s => no_surrogate_pair s | _ => false end && sj_ok (snd kv)) d
  | _ => true
  end.

(* --- wire format ---------------------------------------------------------------------------
   float ::= (0 m e) | (1) nan | (2) inf | (3) -inf | (4) -0.0
   key   ::= (0 str) | (1 z) | (2 b)
   pv    ::= (0) | (1 b) | (2 z) | (3 float) | (4 str) | (5 (pv ...)) | (6 (pv ...)) | (7 ((key pv) ...)) | (8 str ((str pv) ...))
   jv    ::= (0) | (1 b) | (2 z) | (3 float) | (4 str) | (5 (jv ...)) | (7 ((key jv) ...))
   result::= (0 x) | (1 errcode)
   case  ::= (qbits classtab kind payload)
     kind 0: pv -> to_json                      kind 1: pv -> from_json (to_json v)
     kind 2: pv -> to_sj                        kind 3: pv -> of_sj (to_sj v)
     kind 4: jv -> from_json                    kind 5: jv -> of_sj
     kind 6: pv -> (ser_ok, no_empty_tuple, str_ok) *)
Definition e_fl (f : fl) : tr :=
  match f with
  | FFin m e => L [I 0; I m; I e] | FNan => L [I 1] | FPInf => L [I 2] | FNInf => L [I 3] | FNegZero => L [I 4]
  end.
Definition d_fl (t : tr) : option fl :=
  match t with
  | L [I 0; I m; I e] => Some (FFin m e)
  | L [I 1] => Some FNan | L [I 2] => Some FPInf | L [I 3] => Some FNInf | L [I 4] => Some FNegZero
  | _ => None
  end.
Definition e_key (k : key) : tr :=
  match k with KS s => L [I 0; estr s] | KI z => L [I 1; I z] | KB b => L [I 2; ebool b] end.
Definition d_key (t : tr) : option key :=
  match t with
  | L [I 0; s] => option_map KS (dstr s)
  | L [I 1; I z] => Some (KI z)
  | L [I 2; b] => option_map KB (dbool b)
  | _ => None
  end.

Fixpoint e_pv (v : pv) : tr :=
  match v with
  | PNone => L [I 0]
  | PBool b => L [I 1; ebool b]
  | PInt z => L [I 2; I z]
  | PFloat f => L [I 3; e_fl f]
  | PStr s => L [I 4; estr s]
  | PList l => L [I 5; L (map e_pv l)]
  | PTuple l => L [I 6; L (map e_pv l)]
  | PDict d => L [I 7; L (map (fun kv => L [e_key (fst kv); e_pv (snd kv)]) d)]
  | PObj c fs => L [I 8; estr c; L (map (fun kv => L [estr (fst kv); e_pv (snd kv)]) fs)]
  end.
Fixpoint e_jv (v : jv) : tr :=
  match v with
  | JNull => L [I 0]
  | JBool b => L [I 1; ebool b]
  | JInt z => L [I 2; I z]
  | JFloat f => L [I 3; e_fl f]
  | JStr s => L [I 4; estr s]
  | JList l => L [I 5; L (map e_jv l)]
  | JDict d => L [I 7; L (map (fun kv => L [e_key (fst kv); e_jv (snd kv)]) d)]
  end.

Fixpoint d_pv (t : tr) : option pv :=
  match t with
  | L [I 0] => Some PNone
  | L [I 1; b] => option_map PBool (dbool b)
  | L [I 2; I z] => Some (PInt z)
  | L [I 3; f] => option_map PFloat (d_fl f)
  | L [I 4; s] => option_map PStr (dstr s)
  | L [I 5; L l] => option_map PList ((fix go (l : list tr) : option (list pv) :=
            match l with
            | [] => Some []
            | x :: r => match d_pv x, go r with Some v, Some vs => Some (v :: vs) | _, _ => None end
            end) l)
  | L [I 6; L l] => option_map PTuple ((fix go (l : list tr) : option (list pv) :=
            match l with
            | [] => Some []
            | x :: r => match d_pv x, go r with Some v, Some vs => Some (v :: vs) | _, _ => None end
            end) l)
  | L [I 7; L l] =>
      option_map PDict
        ((fix go (l : list tr) : option (list (key * pv)) :=
            match l with
            | [] => Some []
            | L [k; x] :: r => match d_key k, d_pv x, go r with
                               | Some k', Some v, Some kvs => Some ((k', v) :: kvs)
                               | _, _, _ => None
                               end
            | _ => None
            end) l)
  | L [I 8; c; L l] =>
      match dstr c,
        ((fix go (l : list tr) : option (list (str * pv)) :=
            match l with
            | [] => Some []
            | L [k; x] :: r => match dstr k, d_pv x, go r with
                               | Some k', Some v, Some kvs => Some ((k', v) :: kvs)
                               | _, _, _ => None
                               end
            | _ => None
            end) l) with
      | Some c', Some fs => Some (PObj c' fs)
      | _, _ => None
      end
  | _ => None
  end.
Fixpoint d_jv (t : tr) : option jv :=
  match t with
  | L [I 0] => Some JNull
  | L [I 1; b] => option_map JBool (dbool b)
  | L [I 2; I z] => Some (JInt z)
  | L [I 3; f] => option_map JFloat (d_fl f)
  | L [I 4; s] => option_map JStr (dstr s)
  | L [I 5; L l] => option_map JList ((fix go (l : list tr) : option (list jv) :=
            match l with
            | [] => Some []
            | x :: r => match d_jv x, go r with Some v, Some vs => Some (v :: vs) | _, _ => None end
            end) l)
  | L [I 7; L l] =>
      option_map JDict
        ((fix go (l : list tr) : option (list (key * jv)) :=
            match l with
            | [] => Some []
            | L [k; x] :: r => match d_key k, d_jv x, go r with
                               | Some k', Some v, Some kvs => Some ((k', v) :: kvs)
                               | _, _, _ => None
                               end
            | _ => None
            end) l)
  | _ => None
  end.

Definition e_err (e : err) : tr :=
  match e with EValue => I 1 | EType => I 2 | EKey => I 3 | EAssert => I 4 | EUnmodelled => I 9 end.
Definition e_result {A} (f : A -> tr) (r : result A) : tr :=
  match r with Ok a => L [I 0; f a] | Err e => L [I 1; e_err e] end.

Definition d_quirks (t : tr) : option quirks :=
  match t with I z => Some {| q_empty_tuple := Z.testbit z 0 |} | _ => None end.
Definition d_classtab (t : tr) : option classtab := dlist (dpair dstr (dlist dstr)) t.

Definition run_json (c : tr) : tr :=
  match c with
  | L [qb; ctb; I kind; payload] =>
      match d_quirks qb, d_classtab ctb with
      | Some q, Some ct =>
          match kind with
          | 0 => match d_pv payload with Some v => e_jv (to_json v) | None => ebad end
          | 1 => match d_pv payload with Some v => e_result e_pv (from_json q ct (to_json v)) | None => ebad end
          | 2 => match d_pv payload with Some v => e_jv (to_sj v) | None => ebad end
          | 3 => match d_pv payload with Some v => e_result e_pv (of_sj q ct (to_sj v)) | None => ebad end
          | 4 => match d_jv payload with Some j => e_result e_pv (from_json q ct j) | None => ebad end
          | 5 => match d_jv payload with Some j => e_result e_pv (of_sj q ct j) | None => ebad end
          | 6 => match d_pv payload with
                 | Some v => L [ebool (ser_ok ct v); ebool (no_empty_tuple v); ebool (str_ok v)]
                 | None => ebad
                 end
          | _ => ebad
          end
      | _, _ => ebad
      end
  | _ => ebad
  end.

(* HtmlDoc.v — the whole document pg.to_html_str(value, **options) returns (content_only=False): the shared <style> block in
   the head, assembled from the CSS constants regenerated from the source (Gen/HtmlStyles.v), around the tree view.
   Definitions only. *)
From Coq Require Import NArith ZArith List Bool String.
Import ListNotations.
From PG Require Import Common.Tr Gen.HtmlStyles Model.Html.
Local Open Scope N_scope.

(* the CSS each view method attaches to what it returns *)
Inductive style_id := SDetails | SSummary | SObjectKey | SSimple | SComplex | STooltip.
Definition css_of (i : style_id) : str :=
  match i with
  | SDetails => css_details | SSummary => css_summary | SObjectKey => css_object_key
  | SSimple => css_simple_value | SComplex => css_complex_value | STooltip => css_tooltip
  end.
Definition style_eqb (a b : style_id) : bool :=
  match a, b with
  | SDetails, SDetails | SSummary, SSummary | SObjectKey, SObjectKey | SSimple, SSimple | SComplex, SComplex | STooltip, STooltip => true
  | _, _ => false
  end.

(* Content.write merges the shared parts of what is written, in writing order, keeping first occurrences (a dict);
   an element's own add_style comes after its children's. *)
Fixpoint dedup_styles (seen : list style_id) (l : list style_id) : list style_id :=
  match l with
  | [] => []
  | x :: r => if existsb (style_eqb x) seen then dedup_styles seen r else x :: dedup_styles (x :: seen) r
  end.

Section Styles.
  Variable o : opts.
  Definition summary_styles (name : option key) : list style_id :=
    (match name with Some _ => if o_key_tooltip o then [STooltip] else [] | None => [] end)
    ++ (if o_summary_tooltip o then [STooltip] else []) ++ [SSummary].
  Definition key_styles : list style_id := (if o_key_tooltip o then [STooltip] else []) ++ [SObjectKey].

  Fixpoint tvs (title : option str) (name : option key) (path : list key) (incl excl : option (list key)) (v : pv) {struct v} : list style_id :=
    let content :=
      match v with
      | PLeaf _ _ _ _ _ _ => [SSimple]
      | PNode is_seq _ _ _ items =>
          let rendered :=
            map (fun kc : key * pv =>
                   (fst kc, if is_label_at o is_seq path (fst kc)
                            then key_styles ++ tvs None None (path ++ [fst kc]) None None (snd kc)
                            else tvs None (Some (fst kc)) (path ++ [fst kc]) None None (snd kc))) items in
          let order := order_at o path incl excl (map fst items) in
          let pick := flat_map (fun k => match assoc_key k rendered with Some h => h | None => [] end) in
          pick (filter (fun k => negb (is_label_at o is_seq path k)) order) ++ pick (filter (is_label_at o is_seq path) order) ++ [SComplex]
      end in
    if needs_summary_t o title name v then summary_styles name ++ content ++ [SDetails] else content.

  Definition styles_of (v : pv) : list style_id := dedup_styles [] (tvs (o_title o) (o_name o) (o_root_path o) (o_include o) (o_exclude o) v).
End Styles.

(* two values of the same shape: same keys, same kinds of leaves, strings of the same length -- every other string
   (type names, css class names, reprs, tooltips, the characters of string leaves) may differ *)
Inductive same_shape : pv -> pv -> Prop :=
| ss_leaf : forall lk tn cn raw rep fmt tn' cn' raw' rep' fmt',
    List.length raw = List.length raw' ->
    same_shape (PLeaf lk tn cn raw rep fmt) (PLeaf lk tn' cn' raw' rep' fmt')
| ss_node : forall sq tn cn fmt items tn' cn' fmt' items',
    Forall2 (fun kc kc' => fst kc = fst kc' /\ same_shape (snd kc) (snd kc')) items items' ->
    same_shape (PNode sq tn cn fmt items) (PNode sq tn' cn' fmt' items').

Definition c_nl : N := 10.
Fixpoint join_nl (l : list str) : str :=
  match l with [] => [] | [x] => x | x :: r => x ++ c_nl :: join_nl r end.

Definition s_html := Eval compute in str_of "html".
Definition s_head := Eval compute in str_of "head".
Definition s_body := Eval compute in str_of "body".

Definition head_of (o : opts) (v : pv) : hnode :=
  El s_head [] [] [Txt [c_nl]; RawEl s_style_tag (c_nl :: join_nl (map css_of (styles_of o v)) ++ [c_nl]); Txt [c_nl]].

(* Html.to_str: <html> head_section body_section </html> joined by newlines *)
Definition document (o : opts) (v : pv) : hnode :=
  El s_html [] []
    [Txt [c_nl];
     head_of o v;
     Txt [c_nl];
     El s_body [] [] [Txt [c_nl]; tree_view o v; Txt [c_nl]];
     Txt [c_nl]].

(* a document assembled from several renderings written one after the other into the same Html object (Content.write, +):
   the contents are concatenated, the shared style parts merged in writing order (first occurrence wins) *)
Definition doc_node (ids : list style_id) (kids : list hnode) : hnode :=
  El s_html [] []
    [Txt [c_nl];
     El s_head [] [] [Txt [c_nl]; RawEl s_style_tag (c_nl :: join_nl (map css_of ids) ++ [c_nl]); Txt [c_nl]];
     Txt [c_nl];
     El s_body [] [] (Txt [c_nl] :: kids ++ [Txt [c_nl]]);
     Txt [c_nl]].
Definition multi_styles (l : list (opts * pv)) : list style_id :=
  dedup_styles [] (flat_map (fun ov => tvs (fst ov) (o_title (fst ov)) (o_name (fst ov)) (o_root_path (fst ov)) (o_include (fst ov)) (o_exclude (fst ov)) (snd ov)) l).
Definition multi_document (l : list (opts * pv)) : hnode :=
  doc_node (multi_styles l) (map (fun ov => tree_view (fst ov) (snd ov)) l).

Definition document_tags : list str := [s_html; s_head; s_body; s_style_tag].

(* wire: (3 opts pv) -> (3 rendered-document); everything else as Model.Html.run *)
Definition run_doc (c : tr) : tr :=
  match c with
  | L [I 3%Z; o; v] =>
      match d_opts o, d_pv 100 v with
      | Some o', Some v' => L [I 3%Z; estr (render (document o' v'))]
      | _, _ => ebad
      end
  | L [I 11%Z; L items] =>
      match dall (fun t => match t with L [o; v] => do o' <- d_opts o; do v' <- d_pv 100 v; Some (o', v') | _ => None end) items with
      | Some l => L [I 11%Z; estr (render (multi_document l))]
      | None => ebad
      end
  | _ => run_content c
  end.

(* EvoRun.v — wire format of the Evo model and [run : tr -> tr] (property C14).

   spec, sdna : as in GenoRun.v
   item   ::= (0 id sdna fit?) | (1 gid item ...)            fit? ::= () | (z)   fitness in 64ths
   draw   ::= (0 i) | (1 i ...) | (2 f) | (3 z)              index / index list / float in 64ths / random() * 2^53
   nspec  ::= (0 k) | (1 num lg) | (2)
   where  ::= (0) | (1 k) | (2)                              where.ALL / where.Any(k) / lambda xs: xs[::2]
   nwhere ::= (c f x)                                        the node kinds the mutators' [where] accepts
   prob   ::= (num lg)
   opx    ::= (0 prim) | (1) | (2 a b) Pipe | (3 a b) Union | (4 a b) Inter | (5 a b) Concat | (6 a b) Diff | (7 a b) SymDiff
            | (8 k a) Repeat | (9 k a) Power | (10 i a) SliceI | (11 lo? hi? step a) SliceS | (12 a) Invert
            | (13 prob a) WithProb | (14 a prob b prob limit?) Choice | (15 thr a? b?) IfLen | (16 a) Each | (17 max?) Flatten | (18 max a) Until | (19 a) Plain | (20 key dflt) GlobalStateGetter | (21 key from_input) GlobalStateSetter
   prim   ::= (0 sel) | (1 mut) | (2 rec) | (3 m)
   sel    ::= (0 n repl) | (1 n w) | (2 n w) | (3 n cl) | (4 n cl) | (5 n) | (6 n)
   mut    ::= (0 nwhere) | (1 nwhere)
   rec    ::= (0 kind where w) | (1 k) | (2 (cut ...)) | (3 pk where)
   case   ::= (spec opx (item ...) (draw ...))  |  (5 (w ...) n)   Proportional._partition alone -> (1 (alloc ...)) | (0 err)
   result ::= (0 err) | (1 (out ...) leftover)      out ::= (0 id) an input object | (1 n bdna fit?) the n-th new DNA and its fitness metadata | (2 out ...) a list
   bdna   ::= (dval spec? bdna ...)  as in GenoRun.v *)
From Coq Require Import ZArith NArith List Bool Arith.
Import ListNotations.
From PG Require Import Common.Tr Model.Geno Model.GenoViews Model.Evo Model.EvoOps.
Local Open Scope Z_scope.

(* ---- decoders shared with GenoRun.v (repeated here: an extracted runner may contain one [run] only) ---- *)
Definition d_lkey (t : tr) : option ikey :=
  match t with
  | L [I 0; s] => do s' <- dstr s; Some (KName s')
  | L [I 1; i] => do i' <- dnat i; Some (KIdx i')
  | L [I 2; i; n] => do i' <- dnat i; do n' <- dnat n; Some (KCond i' n')
  | _ => None end.
Definition d_nm (t : tr) : option pname :=
  match t with
  | L [ks; nm] => do ks' <- dlist d_lkey ks; do nm' <- dopt dstr nm; Some (ks', nm')
  | _ => None end.
Definition d_lit (t : tr) : option lit :=
  match t with
  | L [I 0; s] => do s' <- dstr s; Some (LStr s')
  | L [I 1; I z] => Some (LInt z)
  | L [I 2; I f] => Some (LFlt f)
  | _ => None end.
Fixpoint d_spec (fuel : nat) (t : tr) : option dspec :=
  match fuel with O => None | S f =>
    match t with L ps => do es <- dall (d_point f) ps; Some (Space es) | _ => None end end
with d_point (fuel : nat) (t : tr) : option dpoint :=
  match fuel with O => None | S f =>
    match t with
    | L [I 0; k; L cands; dist; srt; nm; lits] =>
        do k' <- dnat k; do cs <- dall (d_spec f) cands; do di <- dbool dist; do sr <- dbool srt;
        do nm' <- d_nm nm; do ls <- dlist d_lit lits; Some (Choices k' cs di sr nm' ls)
    | L [I 1; I lo; I hi; nm] => do nm' <- d_nm nm; Some (FloatP lo hi nm')
    | L [I 2; nm] => do nm' <- d_nm nm; Some (CustomP nm')
    | _ => None
    end end.
Fixpoint d_sdna (fuel : nat) (t : tr) : option sdna :=
  match fuel with O => None | S f =>
    match t with L ps => do ds <- dall (d_pdna f) ps; Some (SSpace ds) | _ => None end end
with d_pdna (fuel : nat) (t : tr) : option pdna :=
  match fuel with O => None | S f =>
    match t with
    | L (I 0 :: cs) =>
        do cs' <- dall (fun c => match c with L [i; s] => do i' <- dnat i; do s' <- d_sdna f s; Some (i', s') | _ => None end) cs;
        Some (PChoices cs')
    | L [I 1; I x] => Some (PFloat x)
    | L [I 2; s] => do s' <- dstr s; Some (PCustom s')
    | _ => None
    end end.
Definition e_dval (v : dval) : tr :=
  match v with
  | VNone => L [I 0]
  | VInt z => L [I 1; I z]
  | VFlt f => L [I 2; I f]
  | VStr s => L [I 3; estr s]
  end.
Fixpoint e_bdna (b : bdna) : tr :=
  match b with B v sp cs => L (e_dval v :: eopt (fun a => L (map enat a)) sp :: map e_bdna cs) end.

(* ---- the recorded PRNG --------------------------------------------------------------------------- *)
Inductive draw := DI (i : nat) | DL (l : list nat) | DF (f : flt) | DR (z : Z) | DBad.
Definition d_draw (t : tr) : option draw :=
  match t with
  | L [I 0; i] => do i' <- dnat i; Some (DI i')
  | L (I 1 :: l) => do l' <- dall dnat l; Some (DL l')
  | L [I 2; I f] => Some (DF f)
  | L [I 3; I z] => Some (DR z)
  | _ => None end.
(* a call that does not find the kind of draw the code made marks the stream: every later call fails too *)
Definition rec_rng : rng (list draw) := {|
  pick := fun _ r => match r with DI i :: r' => (i, r') | _ => (O, DBad :: r) end;
  picks := fun _ _ r => match r with DL l :: r' => (l, r') | _ => ([], DBad :: r) end;
  sample := fun _ _ r => match r with DL l :: r' => (l, r') | _ => ([], DBad :: r) end;
  uniform := fun lo _ r => match r with DF f :: r' => (f, r') | _ => (lo, DBad :: r) end;
  shuffle := fun _ r => match r with DL l :: r' => (l, r') | _ => ([], DBad :: r) end;
  real := fun r => match r with DR z :: r' => (z, r') | _ => (0, DBad :: r) end;
  order := fun _ r => match r with DL l :: r' => (l, r') | _ => ([], DBad :: r) end
|}.

(* ---- operator expressions ---------------------------------------------------------------------------- *)
Definition d_nspec (t : tr) : option nspec :=
  match t with
  | L [I 0; k] => do k' <- dnat k; Some (NInt k')
  | L [I 1; a; l] => do a' <- dnat a; do l' <- dnat l; Some (NFrac a' l')
  | L [I 2] => Some NNone
  | _ => None end.
Definition d_wfn (t : tr) : option wfn := match t with I 0 => Some WConst | I 1 => Some WFit | I 2 => Some WFitRaw | _ => None end.
Definition d_where (t : tr) : option wheresel :=
  match t with L [I 0] => Some WAll | L [I 1; k] => do k' <- dnat k; Some (WAny k') | L [I 2] => Some WEvens | _ => None end.
Definition d_nwhere (t : tr) : option nwhere :=
  match t with L [c; f; x] => do c' <- dbool c; do f' <- dbool f; do x' <- dbool x;
                              Some {| w_choice := c'; w_float := f'; w_custom := x' |} | _ => None end.
Definition d_prob (t : tr) : option prob := match t with L [I n; l] => do l' <- dnat l; Some (n, l') | _ => None end.
Definition d_sel (t : tr) : option selector :=
  match t with
  | L [I 0; n; b] => do n' <- d_nspec n; do b' <- dbool b; Some (SRandom n' b')
  | L [I 1; n; w] => do n' <- d_nspec n; do w' <- d_wfn w; Some (SSample n' w')
  | L [I 2; n; w] => do n' <- d_nspec n; do w' <- d_wfn w; Some (SProport n' w')
  | L [I 3; n; b] => do n' <- d_nspec n; do b' <- dbool b; Some (STop n' b')
  | L [I 4; n; b] => do n' <- d_nspec n; do b' <- dbool b; Some (SBottom n' b')
  | L [I 5; n] => do n' <- d_nspec n; Some (SFirst n')
  | L [I 6; n] => do n' <- d_nspec n; Some (SLast n')
  | _ => None end.
Definition d_pwkind (t : tr) : option pwkind :=
  match t with I 0 => Some PWUniform | I 1 => Some PWSample | I 2 => Some PWAverage | I 3 => Some PWWeighted | _ => None end.
Definition d_permkind (t : tr) : option permkind :=
  match t with I 0 => Some KPmx | I 1 => Some KOrder | I 2 => Some KCycle | _ => None end.
Definition d_prim (t : tr) : option prim :=
  match t with
  | L [I 0; sl] => do x <- d_sel sl; Some (PSel x)
  | L [I 1; L [I 0; w]] => do w' <- d_nwhere w; Some (PMut (MUniform w'))
  | L [I 1; L [I 1; w]] => do w' <- d_nwhere w; Some (PMut (MSwap w'))
  | L [I 2; L [I 0; kd; w; wf]] => do kd' <- d_pwkind kd; do w' <- d_where w; do wf' <- d_wfn wf; Some (PRec (RPoint kd' w' wf'))
  | L [I 2; L [I 1; k]] => do k' <- dnat k; Some (PRec (RKPoint k'))
  | L [I 2; L [I 2; cuts]] => do c <- dlist dnat cuts; Some (PRec (RSegmented c))
  | L [I 2; L [I 3; pk; w]] => do pk' <- d_permkind pk; do w' <- d_where w; Some (PRec (RPerm pk' w'))
  | L [I 3; m] => do m' <- dnat m; Some (PChunk m')
  | _ => None end.
Fixpoint d_opx (fuel : nat) (t : tr) : option opx :=
  match fuel with O => None | S f =>
    let d := d_opx f in
    let bin := fun (c : opx -> opx -> opx) a b => do a' <- d a; do b' <- d b; Some (c a' b') in
    match t with
    | L [I 0; p] => do p' <- d_prim p; Some (Prim p')
    | L [I 1] => Some Ident
    | L [I 2; a; b] => bin Pipe a b
    | L [I 3; a; b] => bin Union_ a b
    | L [I 4; a; b] => bin Inter a b
    | L [I 5; a; b] => bin Concat a b
    | L [I 6; a; b] => bin Diff a b
    | L [I 7; a; b] => bin SymDiff a b
    | L [I 8; I k; a] => do a' <- d a; Some (Repeat k a')
    | L [I 9; I k; a] => do a' <- d a; Some (Power k a')
    | L [I 10; I i; a] => do a' <- d a; Some (SliceI i a')
    | L [I 11; lo; hi; st; a] => do lo' <- dopt dZ lo; do hi' <- dopt dZ hi; do st' <- dnat st; do a' <- d a; Some (SliceS lo' hi' st' a')
    | L [I 12; a] => do a' <- d a; Some (Invert a')
    | L [I 13; p; a] => do p' <- d_prob p; do a' <- d a; Some (WithProb p' a')
    | L [I 14; a; p; b; q; lim] => do a' <- d a; do p' <- d_prob p; do b' <- d b; do q' <- d_prob q; do l' <- dopt dnat lim;
                                   Some (Choice2 a' p' b' q' l')
    | L [I 15; thr; a; b] => do t' <- dnat thr; do a' <- dopt d a; do b' <- dopt d b;
                             Some (IfLen t' (match a' with Some x => x | None => Ident end) (match b' with Some x => x | None => Ident end))
    | L [I 16; a] => do a' <- d a; Some (Each a')
    | L [I 17; m] => do m' <- dopt dnat m; Some (Flatten m')
    | L [I 18; m; a] => do m' <- dnat m; do a' <- d a; Some (Until m' a')
    | L [I 19; a] => do a' <- d a; Some (Plain a')
    | L [I 20; k; b] => do k' <- dnat k; do b' <- dbool b; Some (GGet k' b')
    | L [I 21; k; b] => do k' <- dnat k; do b' <- dbool b; Some (GSet k' b')
    | _ => None
    end end.
Fixpoint d_item (fuel : nat) (t : tr) : option item :=
  match fuel with O => None | S f =>
    match t with
    | L [I 0; id; d; fit] => do id' <- dnat id; do d' <- d_sdna 60 d; do fit' <- dopt dZ fit;
                             Some (It {| iid := id'; idna := d'; ifit := fit' |})
    | L (I 1 :: g :: l) => do g' <- dnat g; do l' <- dall (d_item f) l; Some (Grp g' l')
    | _ => None
    end end.

(* ---- outcome --------------------------------------------------------------------------------------------- *)
Definition e_err (e : err) : tr :=
  I (match e with EValue => 1 | EType => 2 | EIndex => 3 | ERuntime => 4 | EKey => 5 | EZeroDiv => 6 | ENotImpl => 7 | EDraw => 8 end).
Fixpoint max_id (x : item) : nat :=
  match x with It i => iid i | Grp g l => fold_right (fun y acc => Nat.max (max_id y) acc) g l end.
(* new objects are numbered by first occurrence in the output, so that the numbering does not depend on
   the order in which the model allocates identities *)
Fixpoint new_ids (n0 : nat) (seen : list nat) (x : item) {struct x} : list nat :=
  match x with
  | It i => if (iid i <? n0)%nat || memb (iid i) seen then seen else seen ++ [iid i]
  | Grp _ l => fold_left (new_ids n0) l seen
  end.
Definition pos_of (l : list nat) (v : nat) : nat := match index_in l v with Some i => i | None => length l end.
Fixpoint e_out (s : dspec) (n0 : nat) (news : list nat) (x : item) {struct x} : tr :=
  match x with
  | It i => if (iid i <? n0)%nat then L [I 0; enat (iid i)]
            else L [I 1; enat (pos_of news (iid i)); eopt e_bdna (bind q_none s (normalize (idna i))); eopt eZ (ifit i)]
  | Grp _ l => L (I 2 :: map (e_out s n0 news) l)
  end.

Definition run (c : tr) : tr :=
  match c with
  | L [sp; ox; pop; dr] =>
      match d_spec 60 sp, d_opx 40 ox, dlist (d_item 10) pop, dlist d_draw dr with
      | Some s, Some x, Some p, Some draws =>
          let n0 := S (fold_right (fun y acc => Nat.max (max_id y) acc) O p) in
          match eval (list draw) rec_rng s x p ((draws, n0), []) with
          | Err e => L [I 0; e_err e]
          | Ok (out, ((rest, _), _)) =>
              let news := fold_left (new_ids n0) out [] in
              L [I 1; L (map (e_out s n0 news) out); enat (length rest)]
          end
      | _, _, _, _ => ebad end
  | L [I 5; ws; n] =>        (* Proportional._partition alone: (5 (w ...) n) -> (1 (alloc ...)) | (0 err) *)
      match dlist dZ ws, dnat n with
      | Some ws', Some n' => match partition ws' n' with
                             | Ok al => L [I 1; L (map eZ al)]
                             | Err e => L [I 0; e_err e] end
      | _, _ => ebad end
  | _ => ebad
  end.

(* JsonFields.v — model of JSONConvertible.to_json_dict(fields, exclude_default=True) /
   JSONConvertible.from_json (cls(kwargs)) (utils/json_conversion.py) over the keyword-argument tables of
   the value-spec, key-spec, Field and Schema classes (regenerated into Gen/JsonFields.v).  Definitions only.

   An object is seen as the values of its constructor parameters.  to_json_dict drops a field whose value equals
   the field's exclusion constant; from_json calls the constructor with the remaining keywords, so a dropped
   field comes back as the parameter's default (after the `x = x or c` normalisations of __init__). *)
From Coq Require Import NArith ZArith List Bool.
Import ListNotations.
From PG Require Import Model.Json.

Inductive const : Type := CNone | CFalse | CTrue | CMissing | CNil | CEmptyDict | CInt (z : Z).
Inductive fval : Type := VConst (c : const) | VOther (n : N).     (* any other Python value: opaque *)

Definition const_eqb (a b : const) : bool :=
  match a, b with
  | CNone, CNone | CFalse, CFalse | CTrue, CTrue | CMissing, CMissing | CNil, CNil | CEmptyDict, CEmptyDict => true
  | CInt x, CInt y => Z.eqb x y
  | _, _ => false
  end.
Definition fval_eqb (a b : fval) : bool :=
  match a, b with
  | VConst x, VConst y => const_eqb x y
  | VOther x, VOther y => N.eqb x y
  | _, _ => false
  end.

Record fdesc : Type := { fd_key : str; fd_excl : option const; fd_cond : bool }.
Record cdesc : Type := {
  cd_name : str;
  cd_params : list (str * option const);      (* __init__ parameters, None = required *)
  cd_fields : list fdesc;                     (* what to_json hands to to_json_dict *)
  cd_norms : list (str * const)               (* x = x or c *)
}.

Definition obj := str -> fval.

(* to_json_dict: [on k] says whether a conditional field is handed over at all *)
Fixpoint emit (fs : list fdesc) (on : str -> bool) (o : obj) : list (str * fval) :=
  match fs with
  | [] => []
  | f :: r =>
      let v := o (fd_key f) in
      let dropped := match fd_excl f with Some d => fval_eqb v (VConst d) | None => false end in
      if (fd_cond f && negb (on (fd_key f))) || dropped then emit r on o else (fd_key f, v) :: emit r on o
  end.

(* falsy constants: `x or c` replaces them *)
Definition falsy (v : fval) : bool :=
  match v with
  | VConst CNone | VConst CFalse | VConst CNil | VConst CEmptyDict | VConst CMissing => true
  | VConst (CInt z) => Z.eqb z 0
  | _ => false
  end.
Definition normalise (norms : list (str * const)) (k : str) (v : fval) : fval :=
  match slookup k norms with
  | Some c => if falsy v then VConst c else v
  | None => v
  end.

(* cls(kwargs): unexpected keyword -> None; missing required parameter -> None *)
Fixpoint bind (params : list (str * option const)) (norms : list (str * const)) (kw : list (str * fval))
  : option (list (str * fval)) :=
  match params with
  | [] => Some []
  | (p, d) :: r =>
      match (match slookup p kw with Some v => Some v | None => option_map VConst d end), bind r norms kw with
      | Some v, Some rest => Some ((p, normalise norms p v) :: rest)
      | _, _ => None
      end
  end.
Definition construct (c : cdesc) (kw : list (str * fval)) : option (list (str * fval)) :=
  if forallb (fun kv => match slookup (fst kv) (cd_params c) with Some _ => true | None => false end) kw
  then bind (cd_params c) (cd_norms c) kw else None.

(* --- the static check of a table ----------------------------------------------------------------------
   For every field (k, Some d) the parameter k must come back as d when the field is dropped: either its
   default is d, or its default normalises to d, or (k is on the list of values that can never be d). *)
Definition never_default : list (str * str * const) :=  (* (class, parameter, constant): the constructor never stores that constant there *)
  [ ([69;110;117;109]%N, [118;97;108;117;101;115]%N, CNone);                                      (* Enum.values: non-empty list *)
    ([76;105;115;116]%N, [101;108;101;109;101;110;116;95;118;97;108;117;101]%N, CNone);           (* List.element_value: a value spec *)
    ([84;117;112;108;101]%N, [101;108;101;109;101;110;116;95;118;97;108;117;101;115]%N, CNone);   (* Tuple.element_values *)
    ([79;98;106;101;99;116]%N, [116]%N, CNone);                                                   (* Object.t: a class *)
    ([84;121;112;101]%N, [116]%N, CNone);                                                         (* Type.t *)
    ([85;110;105;111;110]%N, [99;97;110;100;105;100;97;116;101;115]%N, CNone);                    (* Union.candidates: >= 2 specs *)
    ([70;105;101;108;100]%N, [107;101;121;95;115;112;101;99]%N, CNone);                           (* Field.key_spec *)
    ([70;105;101;108;100]%N, [118;97;108;117;101;95;115;112;101;99]%N, CNone);                    (* Field.value_spec *)
    ([83;99;104;101;109;97]%N, [102;105;101;108;100;115]%N, CNone);                               (* Schema.fields: a list, never None *)
    ([76;105;115;116;75;101;121]%N, [109;105;110;95;118;97;108;117;101]%N, CNone) ].              (* ListKey.min_value: an int *)
Fixpoint nmem (c k : str) (d : const) (l : list (str * str * const)) : bool :=
  match l with [] => false | (a, b, e) :: r => (str_eqb c a && str_eqb k b && const_eqb d e) || nmem c k d r end.
Definition conditional_ok : list (str * str) :=         (* (class, parameter): emitted only when not generated from the other fields *)
  [ ([68;105;99;116]%N, [100;101;102;97;117;108;116]%N) ].                                 (* Dict.default (use_generated_default) *)

Fixpoint pmem (c k : str) (l : list (str * str)) : bool :=
  match l with [] => false | (a, b) :: r => (str_eqb c a && str_eqb k b) || pmem c k r end.

Definition field_ok (c : cdesc) (f : fdesc) : bool :=
  match slookup (fd_key f) (cd_params c) with
  | None => false                                        (* the key is not a constructor parameter: TypeError on load *)
  | Some dflt =>
      (negb (fd_cond f) || (pmem (cd_name c) (fd_key f) conditional_ok && match dflt with Some _ => true | None => false end)) &&
      match fd_excl f with
      | None => true                                     (* always emitted *)
      | Some d =>
          match dflt with
          | Some d0 => fval_eqb (normalise (cd_norms c) (fd_key f) (VConst d0)) (VConst d) || nmem (cd_name c) (fd_key f) d never_default
          | None => nmem (cd_name c) (fd_key f) d never_default
          end
      end
  end.
Definition fkeys (c : cdesc) : list str := map fd_key (cd_fields c).
(* parameters that are not serialized at all must have a default *)
Definition hidden_ok (c : cdesc) : bool :=
  forallb (fun pd => smem (fst pd) (fkeys c) || match snd pd with Some _ => true | None => false end) (cd_params c).
Definition class_ok (c : cdesc) : bool :=
  forallb (field_ok c) (cd_fields c) && hidden_ok c && str_nodup (fkeys c) && str_nodup (map fst (cd_params c)).
Definition table_ok (t : list cdesc) : bool := forallb class_ok t.

(* what the whitelists promise about an object *)
Definition respects (c : cdesc) (o : obj) : Prop :=
  forall f d, In f (cd_fields c) -> fd_excl f = Some d -> nmem (cd_name c) (fd_key f) d never_default = true ->
              o (fd_key f) <> VConst d.
(* stored values are already normalised *)
Definition normal (c : cdesc) (o : obj) : Prop :=
  forall k, normalise (cd_norms c) k (o k) = o k.

(* a conditional field that is not handed over holds what the constructor would generate from its default *)
Definition regenerated (c : cdesc) (on : str -> bool) (o : obj) : Prop :=
  forall f, In f (cd_fields c) -> fd_cond f = true -> on (fd_key f) = false ->
            exists d0, slookup (fd_key f) (cd_params c) = Some (Some d0) /\ o (fd_key f) = normalise (cd_norms c) (fd_key f) (VConst d0).

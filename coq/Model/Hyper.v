(* Hyper.v — model of pyglove.core.hyper: object templates with search-space placeholders
   (property C13).  Definitions only.

   A template is a tree of leaves, dicts, lists, objects and placeholders (oneof / manyof / floatv /
   custom hyper).  A decoded VALUE is again such a tree (with a `where` filter the filtered-out
   placeholders stay in it), so values and templates share the type [tmpl].

   Transcribed here (object_template.py, categorical.py, numerical.py, custom.py, iter.py):
     [pts] / [dna_spec]   ObjectTemplate._parse_generators + dna_spec: the scan for placeholders.  A placeholder
                          accepted by `where` is a decision point and is not entered; a filtered-out one is
                          walked like any other pg.Object (its candidates are scanned).  An accepted choice is
                          cloned with where := the template's filter, so the same filter applies at every depth.
     [sdec] / [sdecode]   ObjectTemplate._decode + Choices._decode + Float._decode + CustomHyper._decode on
                          STRUCTURED decisions (Geno.sdna): clone of the template with every accepted placeholder
                          replaced by its decoded value.
     [cdec] / [cdecode]   the same on CONCRETE DNA trees (Geno.dna), with every check of the code, including the
                          re-rooting DNA(None, dna.children) of the child DNA of a conditional choice.
     [enc] / [sencode]    ObjectTemplate.encode (utils.merge_tree + _encode) and Choices.encode (first candidate
                          whose template encodes the value; try_encode swallows ValueError and KeyError only).
   Floats are dyadic, counted in 1/64ths ([Geno.flt]).  Errors are classes: 1 ValueError, 2 TypeError,
   3 KeyError, 4 IndexError. *)
From Coq Require Import ZArith NArith List Bool Arith.
Import ListNotations.
From PG Require Import Model.Geno.

(* ---- values ---------------------------------------------------------------------------------- *)
Inductive leaf := LfNone | LfBool (b : bool) | LfInt (z : Z) | LfFlt (f : flt) | LfStr (s : str).
(* name and hints of a hyper primitive *)
Record attrs := mkA { a_name : option str; a_hints : option Z }.

Inductive tmpl :=
| TLeaf (l : leaf)
| TDict (kvs : list (str * tmpl))                       (* pg.Dict, insertion ordered, str keys *)
| TList (ts : list tmpl)                                (* pg.List / list *)
| TObj (cls : nat) (kvs : list (str * tmpl))            (* pg.Object of class number cls, fields in schema order *)
| TOneOf (cands : list tmpl) (a : attrs)
| TManyOf (k : nat) (cands : list tmpl) (dist srt : bool) (a : attrs)
| TFloat (lo hi : flt) (a : attrs)
| TCustom (ck : nat) (a : attrs).                       (* a pg.hyper.CustomHyper subclass, number ck *)

Inductive result (A : Type) := Ok (a : A) | Err (e : nat).
Arguments Ok {A} a.
Arguments Err {A} e.
Definition E_VALUE := 1%nat.  Definition E_TYPE := 2%nat.  Definition E_KEY := 3%nat.  Definition E_INDEX := 4%nat.
(* ObjectTemplate.try_encode: except ValueError / except KeyError *)
Definition catchable (e : nat) : bool := (e =? E_VALUE) || (e =? E_KEY).

Definition is_hyper (t : tmpl) : bool :=
  match t with TOneOf _ _ | TManyOf _ _ _ _ _ | TFloat _ _ _ | TCustom _ _ => true | _ => false end.

(* ---- Python == on leaves: bool, int and float compare by numeric value ------------------------- *)
Definition leaf_num (l : leaf) : option Z :=
  match l with
  | LfBool b => Some (if b then 64 else 0)%Z
  | LfInt z => Some (z * 64)%Z
  | LfFlt f => Some f
  | _ => None end.
Definition leaf_eqb (a b : leaf) : bool :=
  match a, b with
  | LfNone, LfNone => true
  | LfStr x, LfStr y => str_eqb x y
  | _, _ => match leaf_num a, leaf_num b with Some x, Some y => Z.eqb x y | _, _ => false end
  end.
Definition ostr_eqb (a b : option str) : bool :=
  match a, b with None, None => true | Some x, Some y => str_eqb x y | _, _ => false end.
Definition oz_eqb (a b : option Z) : bool :=
  match a, b with None, None => true | Some x, Some y => Z.eqb x y | _, _ => false end.
Definition attrs_eqb (a b : attrs) : bool := ostr_eqb (a_name a) (a_name b) && oz_eqb (a_hints a) (a_hints b).

(* ---- list helpers (function argument outside the [fix], so nested recursion passes the guard) ---- *)
Definition flat_mapi {A B} (f : nat -> A -> list B) : nat -> list A -> list B :=
  fix go i l := match l with [] => [] | x :: r => f i x ++ go (S i) r end.
Definition map_res {A B} (f : A -> result B) : list A -> result (list B) :=
  fix go l := match l with
              | [] => Ok []
              | x :: r => match f x with
                          | Ok y => match go r with Ok ys => Ok (y :: ys) | Err e => Err e end
                          | Err e => Err e end
              end.
(* a traversal threading a state (the decisions still to be consumed) *)
Definition trav_list {X S} (f : X -> S -> result (X * S)) : list X -> S -> result (list X * S) :=
  fix go l s := match l with
                | [] => Ok ([], s)
                | x :: r => match f x s with
                            | Ok (v, s1) => match go r s1 with Ok (vs, s2) => Ok (v :: vs, s2) | Err e => Err e end
                            | Err e => Err e end
                end.
Definition trav_kvs {K X S} (f : X -> S -> result (X * S)) : list (K * X) -> S -> result (list (K * X) * S) :=
  fix go l s := match l with
                | [] => Ok ([], s)
                | (k, x) :: r => match f x s with
                                 | Ok (v, s1) => match go r s1 with Ok (vs, s2) => Ok ((k, v) :: vs, s2) | Err e => Err e end
                                 | Err e => Err e end
                end.
(* concatenating the outputs of a pairwise walk over two lists of equal length *)
Definition cat2 {X Y O} (f : X -> Y -> result (list O)) : list X -> list Y -> result (list O) :=
  fix go l1 l2 := match l1, l2 with
                  | [], [] => Ok []
                  | x :: r1, y :: r2 => match f x y with
                                        | Ok o => match go r1 r2 with Ok os => Ok (o ++ os) | Err e => Err e end
                                        | Err e => Err e end
                  | _, _ => Err E_VALUE
                  end.
Fixpoint lookup {X} (k : str) (l : list (str * X)) : option X :=
  match l with [] => None | (k', x) :: r => if str_eqb k k' then Some x else lookup k r end.
Definition with_key {X B} (f : X -> B) (d : B) : list (str * X) -> str -> B :=
  fix go l k := match l with [] => d | (k', x) :: r => if str_eqb k k' then f x else go r k end.
Definition has_key {X} (k : str) (l : list (str * X)) : bool := match lookup k l with Some _ => true | None => false end.

Definition s_candidates : str := [99; 97; 110; 100; 105; 100; 97; 116; 101; 115]%N.   (* "candidates" *)

(* ---- the scan: decision points of a template, in traversal order, with their locations ----------- *)
Fixpoint pts (w : tmpl -> bool) (path : list ikey) (t : tmpl) {struct t} : list dpoint :=
  match t with
  | TLeaf _ => []
  | TDict kvs => flat_map (fun kv => pts w (path ++ [KName (fst kv)]) (snd kv)) kvs
  | TObj _ kvs => flat_map (fun kv => pts w (path ++ [KName (fst kv)]) (snd kv)) kvs
  | TList ts => flat_mapi (fun i x => pts w (path ++ [KIdx i]) x) 0 ts
  | TOneOf cands a =>
      if w t then [Choices 1 (map (fun c => Space (pts w [] c)) cands) true false (path, a_name a) []]
      else flat_mapi (fun i c => pts w (path ++ [KName s_candidates; KIdx i]) c) 0 cands
  | TManyOf k cands dist srt a =>
      if w t then [Choices k (map (fun c => Space (pts w [] c)) cands) dist srt (path, a_name a) []]
      else flat_mapi (fun i c => pts w (path ++ [KName s_candidates; KIdx i]) c) 0 cands
  | TFloat lo hi a => if w t then [FloatP lo hi (path, a_name a)] else []
  | TCustom _ a => if w t then [CustomP (path, a_name a)] else []
  end.
Definition dna_spec (w : tmpl -> bool) (t : tmpl) : dspec := Space (pts w [] t).

(* ---- open findings the model stays faithful to (set by the harness from the witness replay) ------- *)
Record hquirks := { q_list_dict : bool   (* encode: a template list against an EMPTY dict value raises TypeError out of
                                            utils.merge_tree (and KeyError for a non-empty dict) instead of a mismatch *) }.
Definition no_hquirks (q : hquirks) : Prop := q_list_dict q = false.
Definition hq_none : hquirks := {| q_list_dict := false |}.

Section Custom.
  (* user code of CustomHyper subclasses: custom_decode / custom_encode of class number ck *)
  Variable cdec : nat -> str -> result tmpl.
  Variable cenc : nat -> tmpl -> result str.
  Variable w : tmpl -> bool.        (* the `where` filter; None = fun _ => true *)

  (* ================= decode on structured decisions ============================================== *)
  (* ObjectTemplate.decode of a candidate: all decisions of its sub-space are consumed *)
  Definition finish {S} (r : result (tmpl * list S)) : result tmpl :=
    match r with Ok (v, []) => Ok v | Ok (_, _ :: _) => Err E_VALUE | Err e => Err e end.

  Fixpoint sdec (t : tmpl) (ds : list pdna) {struct t} : result (tmpl * list pdna) :=
    let choice := fun (cands : list tmpl) (cs : nat * sdna) =>
      match snd cs with SSpace sub =>
        with_nth (fun cand => finish (sdec cand sub)) (Err E_VALUE) cands (fst cs) end in
    match t with
    | TLeaf _ => Ok (t, ds)
    | TDict kvs => match trav_kvs sdec kvs ds with Ok (kvs', r) => Ok (TDict kvs', r) | Err e => Err e end
    | TObj c kvs => match trav_kvs sdec kvs ds with Ok (kvs', r) => Ok (TObj c kvs', r) | Err e => Err e end
    | TList ts => match trav_list sdec ts ds with Ok (ts', r) => Ok (TList ts', r) | Err e => Err e end
    | TOneOf cands a =>
        if w t then
          match ds with
          | PChoices [cs] :: r => match choice cands cs with Ok v => Ok (v, r) | Err e => Err e end
          | _ => Err E_VALUE
          end
        else match trav_list sdec cands ds with Ok (cands', r) => Ok (TOneOf cands' a, r) | Err e => Err e end
    | TManyOf k cands dist srt a =>
        if w t then
          match ds with
          | PChoices cs :: r =>
              if (length cs =? k) && constraint_ok dist srt (map fst cs)
              then match map_res (choice cands) cs with Ok vs => Ok (TList vs, r) | Err e => Err e end
              else Err E_VALUE
          | _ => Err E_VALUE
          end
        else match trav_list sdec cands ds with Ok (cands', r) => Ok (TManyOf k cands' dist srt a, r) | Err e => Err e end
    | TFloat lo hi a =>
        if w t then
          match ds with
          | PFloat f :: r => if (lo <=? f)%Z && (f <=? hi)%Z then Ok (TLeaf (LfFlt f), r) else Err E_VALUE
          | _ => Err E_VALUE
          end
        else Ok (t, ds)
    | TCustom ck a =>
        if w t then
          match ds with
          | PCustom s :: r => match cdec ck s with Ok v => Ok (v, r) | Err e => Err e end
          | _ => Err E_VALUE
          end
        else Ok (t, ds)
    end.
  Definition sdecode (t : tmpl) (d : sdna) : result tmpl := match d with SSpace ds => finish (sdec t ds) end.

  (* ================= decode on concrete DNA ======================================================= *)
  (* Python indexing of the candidate list by a DNA value: `v >= len` is refused by the code, a negative
     v indexes from the end, below -len it is an IndexError *)
  Definition pick (v : dval) (n : nat) : result nat :=
    match v with
    | VInt z => if (Z.of_nat n <=? z)%Z then Err E_VALUE
                else if (0 <=? z)%Z then Ok (Z.to_nat z)
                else if (- Z.of_nat n <=? z)%Z then Ok (Z.to_nat (Z.of_nat n + z))
                else Err E_INDEX
    | _ => Err E_VALUE
    end.
  (* ObjectTemplate._decode: which DNA goes to which placeholder *)
  Definition slots (n : nat) (d : dna) : result (list dna) :=
    match n with
    | O => if is_none (dvalue d) && (length (dkids d) =? 0) then Ok [] else Err E_VALUE
    | 1%nat => Ok [d]
    | _ => if length (dkids d) =? n then Ok (dkids d) else Err E_VALUE
    end.

  Fixpoint cdec_ (t : tmpl) (ds : list dna) {struct t} : result (tmpl * list dna) :=
    (* one choice: the candidate template decodes DNA(None, children) *)
    let choice := fun (cands : list tmpl) (d : dna) =>
      match pick (dvalue d) (length cands) with
      | Err e => Err e
      | Ok c => with_nth (fun cand =>
                  match slots (length (pts w [] cand)) (mk VNone (dkids d)) with
                  | Ok sl => match cdec_ cand sl with Ok (v, _) => Ok v | Err e => Err e end
                  | Err e => Err e end) (Err E_INDEX) cands c
      end in
    let many := fun (k : nat) (cands : list tmpl) (dist srt : bool) (d : dna) =>
      if k =? 1 then match choice cands d with Ok v => Ok [v] | Err e => Err e end
      else if negb (length (dkids d) =? k) then Err E_VALUE
      else
        let vals := map dvalue (dkids d) in
        if dist && negb (dvals_distinct vals) then Err E_VALUE
        else match (if srt then dvals_sorted vals else Some true) with
             | None => Err E_TYPE
             | Some false => Err E_VALUE
             | Some true => map_res (choice cands) (dkids d)
             end in
    match t with
    | TLeaf _ => Ok (t, ds)
    | TDict kvs => match trav_kvs cdec_ kvs ds with Ok (kvs', r) => Ok (TDict kvs', r) | Err e => Err e end
    | TObj c kvs => match trav_kvs cdec_ kvs ds with Ok (kvs', r) => Ok (TObj c kvs', r) | Err e => Err e end
    | TList ts => match trav_list cdec_ ts ds with Ok (ts', r) => Ok (TList ts', r) | Err e => Err e end
    | TOneOf cands a =>
        if w t then
          match ds with
          | d :: r => match many 1%nat cands true false d with
                      | Ok (v :: _) => Ok (v, r) | Ok [] => Err E_INDEX | Err e => Err e end
          | [] => Err E_VALUE
          end
        else match trav_list cdec_ cands ds with Ok (cands', r) => Ok (TOneOf cands' a, r) | Err e => Err e end
    | TManyOf k cands dist srt a =>
        if w t then
          match ds with
          | d :: r => match many k cands dist srt d with Ok vs => Ok (TList vs, r) | Err e => Err e end
          | [] => Err E_VALUE
          end
        else match trav_list cdec_ cands ds with Ok (cands', r) => Ok (TManyOf k cands' dist srt a, r) | Err e => Err e end
    | TFloat lo hi a =>
        if w t then
          match ds with
          | d :: r => match dvalue d with
                      | VFlt f => if (lo <=? f)%Z && (f <=? hi)%Z then Ok (TLeaf (LfFlt f), r) else Err E_VALUE
                      | _ => Err E_VALUE end
          | [] => Err E_VALUE
          end
        else Ok (t, ds)
    | TCustom ck a =>
        if w t then
          match ds with
          | d :: r => match dvalue d with
                      | VStr s => match cdec ck s with Ok v => Ok (v, r) | Err e => Err e end
                      | _ => Err E_VALUE end
          | [] => Err E_VALUE
          end
        else Ok (t, ds)
    end.
  Definition cdecode (t : tmpl) (d : dna) : result tmpl :=
    match slots (length (pts w [] t)) d with
    | Ok sl => match cdec_ t sl with Ok (v, _) => Ok v | Err e => Err e end
    | Err e => Err e
    end.

  (* ================= encode ======================================================================== *)
  Variable q : hquirks.
  (* Choices.encode: the first candidate whose template encodes the value *)
  Definition first_match (f : tmpl -> result (list pdna)) : nat -> list tmpl -> result (nat * sdna) :=
    fix go i cands :=
      match cands with
      | [] => Err E_VALUE
      | c :: r => match f c with
                  | Ok sub => Ok (i, SSpace sub)
                  | Err e => if catchable e then go (S i) r else Err e
                  end
      end.
  (* the items of a dict, in the TEMPLATE's key order (the order of dna_spec), whatever the key order of the input: a template key
     absent from the input is "Value is missing from input"; [f t' x] encodes the input's value at the key against the template's *)
  Definition enc_fields (f : tmpl -> tmpl -> result (list pdna)) (vs : list (str * tmpl)) : list (str * tmpl) -> result (list pdna) :=
    fix go kvs := match kvs with
                  | [] => Ok []
                  | (k, t') :: r => match lookup k vs with
                                    | None => Err E_VALUE
                                    | Some x => match f t' x with
                                                | Ok o => match go r with Ok os => Ok (o ++ os) | Err e => Err e end
                                                | Err e => Err e end
                                    end
                  end.
  (* the fields of a pg.Object, in the template's order (objects of one class have the same fields in schema order) *)
  Definition keys_eqb {X Y} : list (str * X) -> list (str * Y) -> bool :=
    fix go a b := match a, b with
                  | [], [] => true
                  | (k, _) :: r, (k', _) :: r' => str_eqb k k' && go r r'
                  | _, _ => false end.
  Definition list_vs_dict (vs : list (str * tmpl)) : result (list pdna) :=
    if q_list_dict q then (match vs with [] => Err E_TYPE | _ => Err E_KEY end) else Err E_VALUE.

  (* [enc t v] = utils.merge_tree(t, v, _encode): the DNAs appended to `children`, in order *)
  Fixpoint enc (t : tmpl) (v : tmpl) {struct t} : result (list pdna) :=
    let lst := fun (ts vs : list tmpl) => if length ts =? length vs then cat2 enc ts vs else Err E_VALUE in
    match t with
    | TLeaf l => match v with TLeaf l' => if leaf_eqb l l' then Ok [] else Err E_VALUE | _ => Err E_VALUE end
    | TDict kvs =>
        match v with
        | TDict vs => match enc_fields enc vs kvs with
                      | Ok ds => if length kvs =? length vs then Ok ds else Err E_VALUE     (* an input key the template does not have (keys are unique) *)
                      | Err e => Err e end
        | _ => Err E_VALUE end
    | TObj c kvs =>
        match v with
        | TObj c' vs => if (c =? c') && keys_eqb kvs vs
                        then cat2 (fun kv xv => enc (snd kv) (snd xv)) kvs vs else Err E_VALUE
        | _ => Err E_VALUE end
    | TList ts =>
        match v with
        | TList vs => lst ts vs
        | TDict vs => list_vs_dict vs
        | _ => Err E_VALUE end
    | TOneOf cands a =>
        if w t then match first_match (fun c => enc c v) 0 cands with
                    | Ok cs => Ok [PChoices [cs]] | Err e => Err e end
        else match v with
             | TOneOf vs a' => if attrs_eqb a a' then lst cands vs else Err E_VALUE
             | _ => Err E_VALUE end
    | TManyOf k cands dist srt a =>
        if w t then
          match v with
          | TList vs =>
              if length vs =? k then
                match map_res (fun x => first_match (fun c => enc c x) 0 cands) vs with
                | Ok cs => if constraint_ok dist srt (map fst cs) then Ok [PChoices cs] else Err E_VALUE
                | Err e => Err e end
              else Err E_VALUE
          | _ => Err E_VALUE end
        else match v with
             | TManyOf k' vs dist' srt' a' =>
                 if attrs_eqb a a' && (k =? k') then
                   match lst cands vs with
                   | Ok o => if Bool.eqb dist dist' && Bool.eqb srt srt' then Ok o else Err E_VALUE
                   | Err e => Err e end
                 else Err E_VALUE
             | _ => Err E_VALUE end
    | TFloat lo hi a =>
        if w t then match v with
                    | TLeaf (LfFlt f) => if (lo <=? f)%Z && (f <=? hi)%Z then Ok [PFloat f] else Err E_VALUE
                    | _ => Err E_VALUE end
        else match v with
             | TFloat lo' hi' a' => if attrs_eqb a a' && (lo =? lo')%Z && (hi =? hi')%Z then Ok [] else Err E_VALUE
             | _ => Err E_VALUE end
    | TCustom ck a =>
        if w t then match cenc ck v with Ok s => Ok [PCustom s] | Err e => Err e end
        else match v with
             | TCustom ck' a' => if (ck =? ck') && attrs_eqb a a' then Ok [] else Err E_VALUE
             | _ => Err E_VALUE end
    end.
  Definition sencode (t v : tmpl) : result sdna := match enc t v with Ok ds => Ok (SSpace ds) | Err e => Err e end.
End Custom.

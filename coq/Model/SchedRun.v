(* SchedRun.v — the wire interface of the scheduling model: decode a case (configuration, workers, observed
   schedule), run the programs regenerated from the source (Gen/SchedProg.v), encode the final state and the
   sequence of program counters.  Definitions only. *)
From Coq Require Import ZArith List Bool Arith.
Import ListNotations.
From PG Require Import Common.Tr Model.Sched Gen.SchedProg.

Definition duop (t : tr) : option uop :=
  match t with
  | L [I 0%Z] => Some UNext
  | L [I 1%Z; I r] => Some (UAdd r)
  | L [I 2%Z] => Some UDone
  | L [I 3%Z] => Some USkip
  | L [I 4%Z] => Some USkipIf
  | L [I 5%Z] => Some UStop
  | L [I 6%Z] => Some UEnd
  | _ => None
  end.

Definition dworker (t : tr) : option (nat * bool * list uop) :=
  match t with
  | L [g; n; s] => do g' <- dnat g; do n' <- dbool n; do s' <- dlist duop s; Some (g', n', s')
  | _ => None
  end.

Definition dcfg (t : tr) : option cfg :=
  match t with
  | L [mx; evo; fb; pop; pol; stop] =>
      do mx' <- dopt dnat mx; do evo' <- dbool evo; do fb' <- dbool fb; do pop' <- dnat pop; do pol' <- dbool pol; do stop' <- dlist dnat stop;
      Some {| c_max := mx'; c_evo := evo'; c_needs_fb := fb'; c_pop := pop'; c_policy := pol'; c_stop := stop' |}
  | _ => None
  end.

Definition edna (d : dna) : tr := L [enat (d_pid d); ebool (d_init d)].
Definition etrial (x : trial) : tr :=
  L [enat (t_id x); enat (t_group x); edna (t_dna x); ebool (t_done x); ebool (t_inf x); enat (length (t_meas x)); eopt eZ (t_final x); enat (t_fed x)].
Definition estudy (st : study) : tr :=
  L [elist etrial (s_trials st); eZ (s_pend st); eZ (s_comp st); eZ (s_inf st);
     eopt enat (match s_best st with Some i => Some (t_id (trial_of st i)) | None => None end);
     elist (fun kv => L [enat (fst kv); enat (t_id (trial_of st (snd kv)))]) (s_latest st);
     ebool (s_active st)].
Definition ealgo (a : algo) : tr :=
  L [ebool (a_spec a); enat (a_np a); enat (a_nf a); elist (fun p => L [enat (fst p); enat (snd p)]) (a_fed a);
     elist edna (e_pending a); ebool (e_init a); elist edna (e_pop a); enat (e_gen a); enat (e_lockgen a); enat (ig_np a); enat (ig_nf a); enat (e_setups a);
     elist (fun p => L [enat (fst (fst p)); enat (snd (fst p)); eZ (snd p)]) (a_fedv a)].
Definition ethread (th : tstate) : tr :=
  L [ebool (match pc th with None => true | Some _ => false end); enat (r_study th); enat (length (held th))].

Definition run (t : tr) : tr :=
  match t with
  | L [c; ws; sched] =>
      match dcfg c, dlist dworker ws, dlist dnat sched with
      | Some c', Some ws', Some sched' =>
          let '(st, trace, stuck) := run_gates progs c' (init_state c' ws') sched' 0 [] in
          let g := fst st in
          L [eopt enat stuck; elist estudy (map (studies g) (seq 0 (nstudies g))); eopt enat (registry g); ealgo (alg g); elist ethread (snd st);
             elist (fun pi => L [enat (fst pi); enat (snd pi)]) trace]
      | _, _, _ => ebad
      end
  | _ => ebad
  end.

(* GenoViews.v — the exported views of a DNA (property C12).  Definitions only.  (in progress) *)
From Coq Require Import ZArith NArith List Bool Arith.
Import ListNotations.
From PG Require Import Common.Tr Model.Geno.
Local Open Scope Z_scope.
Definition run_views (fuel : nat) (op : Z) (args : list tr) : tr := ebad.

(* GenoViews.v — the exported views of a DNA (property C12).  Definitions only.

   flat numbers (to_numbers / from_numbers), nested numbers (to_numbers(flatten=False)), the compact
   JSON value (sym_jsonify(compact=True)) and the constructor's parser of nested values
   (_parse_value_and_children), the verbose JSON form, to_dict / from_dict under every key / value /
   multi-choice style, decision ids, lookup by id / name / decision point. *)
From Coq Require Import ZArith NArith List Bool Arith.
Import ListNotations.
From PG Require Import Model.Geno.

(* ---- flat numbers ------------------------------------------------------------------------------ *)
Fixpoint to_numbers (d : dna) : list dval :=
  match d with D v cs => (if is_none v then [] else [v]) ++ flat_map to_numbers cs end.

Definition map_sto {A X R} (f : A -> R -> option (X * R)) : list A -> R -> option (list X * R) :=
  fix go l r := match l with
                | [] => Some ([], r)
                | a :: l' => match f a r with
                             | Some (x, r1) => match go l' r1 with Some (xs, r2) => Some (x :: xs, r2) | None => None end
                             | None => None end
                end.
(* DNA.from_numbers._bind_decisions: read the decisions off the list, guided by the specification *)
Fixpoint parse_nums (s : dspec) (l : list dval) {struct s} : option (sdna * list dval) :=
  match s with Space es =>
    match map_sto (fun e l0 => parse_nums_p e l0) es l with
    | Some (ds, r) => Some (SSpace ds, r) | None => None end end
with parse_nums_p (p : dpoint) (l : list dval) {struct p} : option (pdna * list dval) :=
  match p with
  | Choices k cands _ _ _ _ =>
      match map_sto (fun (_ : nat) l0 =>
               match l0 with
               | [] => None
               | v :: r => match index_of v (length cands) with
                           | None => None
                           | Some c => match with_nth (fun s => parse_nums s r) None cands c with
                                       | Some (sub, r') => Some ((c, sub), r') | None => None end
                           end
               end) (seq 0 k) l with
      | Some (cs, r) => Some (PChoices cs, r) | None => None end
  | FloatP _ _ _ => match l with VFlt f :: r => Some (PFloat f, r) | _ => None end
  | CustomP _ => match l with VStr s :: r => Some (PCustom s, r) | _ => None end
  end.
Definition from_numbers (q : quirks) (s : dspec) (l : list dval) : option bdna :=
  match parse_nums s l with
  | Some (sd, []) => bind q s (normalize sd)
  | _ => None
  end.

(* ---- nested values ------------------------------------------------------------------------------ *)
Inductive nest := NV (v : dval) | NL (l : list nest) | NT (l : list nest).
(* to_numbers(flatten=False).  [chain] = how a node with a single child that is itself a tuple is
   rendered: the code as found wraps the child's items in a list (lossy); see the finding. *)
Section Nested.
  Variable lossy_chain : bool.
  Fixpoint to_nested (d : dna) : nest :=
    match d with D v cs =>
      if is_none v then NL (map to_nested cs) else
      match cs with
      | [] => NV v
      | [c] => match to_nested c with
               | NT l => if lossy_chain then NT [NV v; NL l] else NT (NV v :: l)
               | x => NT [NV v; x] end
      | _ => NT [NV v; NL (map to_nested cs)]
      end end.
End Nested.
(* DNA.sym_jsonify(compact=True, type_info=False) *)
Fixpoint to_compact (d : dna) : nest :=
  match d with D v cs =>
    match cs with
    | [] => NV v
    | _ => let nodes := map to_compact cs in
           if is_none v then NL nodes else
           match nodes with
           | [NT l] => NT (NV v :: l)
           | [single] => NT [NV v; single]
           | _ => NT [NV v; NL nodes]
           end
    end end.
(* DNA(value) for a scalar / list / tuple value: _parse_value_and_children.  None = ValueError *)
Definition opt_map_all {A B} (f : A -> option B) : list A -> option (list B) :=
  fix go l := match l with [] => Some [] | a :: r => match f a, go r with Some b, Some bs => Some (b :: bs) | _, _ => None end end.
Fixpoint parse_nest (fuel : nat) (x : nest) : option dna :=
  match fuel with O => None | S f =>
    match x with
    | NV v => Some (D v [])
    | NL l => match opt_map_all (parse_nest f) l with
              | Some [c] => Some c
              | Some cs => Some (D VNone cs)
              | None => None end
    | NT l =>
        match l with
        | NV v :: rest =>
            match v with
            | VInt _ | VFlt _ =>
                match rest with
                | [] => None                                       (* fewer than 2 items *)
                | [NL items] => match opt_map_all (parse_nest f) items with Some cs => Some (D v cs) | None => None end
                | [NV VNone] => Some (D v [])                      (* silently ignored *)
                | [NV w] => Some (D v [D w []])
                | [NT _] => Some (D v [])                          (* silently ignored *)
                | _ => match parse_nest f (NT rest) with Some c => Some (D v [c]) | None => None end
                end
            | _ => None
            end
        | _ => None
        end
    end end.
(* the verbose JSON form keeps value and children apart, children in compact form *)
Definition to_verbose (d : dna) : dval * list nest := match d with D v cs => (v, map to_compact cs) end.
Definition parse_verbose (fuel : nat) (x : dval * list nest) : option dna :=
  match opt_map_all (parse_nest fuel) (snd x) with Some cs => Some (mk (fst x) cs) | None => None end.

(* ---- decision points, ids, names ------------------------------------------------------------------ *)
Inductive pkind := PKChoice (n : nat) (lits : list lit) | PKFloat (lo hi : flt) | PKCustom.
(* one entry of DNASpec.decision_points: address, id, name, kind, and for a sub-choice of a
   multi-choice its index together with the parent's address and id *)
Record dpinfo := { i_addr : addr; i_id : did; i_name : option str; i_kind : pkind;
                   i_sub : option (nat * addr * did) }.
Definition mapi {A B} (f : nat -> A -> B) : nat -> list A -> list B :=
  fix go i l := match l with [] => [] | a :: r => f i a :: go (S i) r end.
(* DNASpec.id: parent id + location; a candidate Space adds the conditional key [=j/n] *)
Fixpoint dps (s : dspec) (a : addr) (pid : did) {struct s} : list dpinfo :=
  match s with Space es => concat (mapi (fun i e => dps_p e (a ++ [i]) pid) 0 es) end
with dps_p (p : dpoint) (a : addr) (pid : did) {struct p} : list dpinfo :=
  match p with
  | Choices k cands _ _ (loc, name) lits =>
      let n := length cands in
      let id := pid ++ loc in
      let single := fun (a' : addr) (id' : did) (sub : option (nat * addr * did)) =>
        {| i_addr := a'; i_id := id'; i_name := name; i_kind := PKChoice n lits; i_sub := sub |}
        :: concat (mapi (fun j c => dps c (a' ++ [j]) (id' ++ [KCond j n])) 0 cands) in
      if k =? 1 then single a id None
      else concat (map (fun i => single (a ++ [i]) (id ++ [KIdx i]) (Some (i, a, id))) (seq 0 k))
  | FloatP lo hi (loc, name) => [{| i_addr := a; i_id := pid ++ loc; i_name := name; i_kind := PKFloat lo hi; i_sub := None |}]
  | CustomP (loc, name) => [{| i_addr := a; i_id := pid ++ loc; i_name := name; i_kind := PKCustom; i_sub := None |}]
  end.
Definition decision_points (s : dspec) : list dpinfo := dps s [] [].

Definition addr_eqb (a b : addr) : bool := if list_eq_dec Nat.eq_dec a b then true else false.
Definition ikey_eqb (a b : ikey) : bool :=
  match a, b with
  | KName x, KName y => str_eqb x y
  | KIdx i, KIdx j => i =? j
  | KCond i n, KCond j m => (i =? j) && (n =? m)
  | _, _ => false end.
Fixpoint did_eqb (a b : did) : bool :=
  match a, b with [], [] => true | x :: a', y :: b' => ikey_eqb x y && did_eqb a' b' | _, _ => false end.
Definition info_at (infos : list dpinfo) (a : addr) : option dpinfo := find (fun i => addr_eqb (i_addr i) a) infos.

(* ---- dictionaries ------------------------------------------------------------------------------------ *)
Inductive key_type := KT_id | KT_name_or_id | KT_dna_spec.
Inductive value_type := VT_value | VT_dna | VT_choice | VT_literal | VT_choice_and_literal.
Inductive mc_key := MC_subchoice | MC_parent | MC_both.
Inductive dkey := DKId (i : did) | DKName (s : str) | DKSpec (a : addr).
(* '{i}/{n}' and '{i}/{n} ({literal})' are kept structured *)
Inductive dleaf := LfNone | LfV (v : dval) | LfDna (d : dna) | LfChoice (i n : nat) | LfChoiceLit (i n : nat) (l : lit) | LfLit (l : lit).
Inductive dvalue := DS (x : dleaf) | DL (l : list dleaf).
Definition dict := list (dkey * dvalue).
Definition dkey_eqb (a b : dkey) : bool :=
  match a, b with
  | DKId x, DKId y => did_eqb x y
  | DKName x, DKName y => str_eqb x y
  | DKSpec x, DKSpec y => addr_eqb x y
  | _, _ => false end.
Fixpoint dget (d : dict) (k : dkey) : option dvalue :=
  match d with [] => None | (k', v) :: r => if dkey_eqb k' k then Some v else dget r k end.
Fixpoint dset (d : dict) (k : dkey) (v : dvalue) : dict :=
  match d with [] => [(k, v)] | (k', v') :: r => if dkey_eqb k' k then (k', v) :: r else (k', v') :: dset r k v end.
(* to_dict._put: a second value under the same key makes a list *)
Definition dput (d : dict) (k : dkey) (x : dleaf) : dict :=
  match dget d k with
  | None => dset d k (DS x)
  | Some (DS y) => dset d k (DL [y; x])
  | Some (DL l) => dset d k (DL (l ++ [x]))
  end.

Definition key_of (kt : key_type) (id : did) (name : option str) (a : addr) : dkey :=
  match kt with
  | KT_id => DKId id
  | KT_name_or_id => match name with Some s => DKName s | None => DKId id end
  | KT_dna_spec => DKSpec a
  end.
Definition use_parent (m : mc_key) : bool := match m with MC_subchoice => false | _ => true end.
Definition use_sub (m : mc_key) : bool := match m with MC_parent => false | _ => true end.
Definition needs_subchoice_key (kt : key_type) (m : mc_key) (name : option str) : bool :=
  use_sub m && (negb (use_parent m) ||
                (match kt with KT_name_or_id => false | _ => true end || match name with None => true | Some _ => false end)).
Definition lit_eqb (a b : lit) : bool :=
  match a, b with
  | LStr x, LStr y => str_eqb x y
  | LInt x, LInt y => Z.eqb x y
  | LFlt x, LFlt y => Z.eqb x y
  | LInt x, LFlt y | LFlt y, LInt x => Z.eqb (x * 64) y      (* Python: 1 == 1.0 *)
  | _, _ => false end.
(* Choices.format_candidate *)
Definition format_candidate (vt : value_type) (n : nat) (lits : list lit) (c : nat) (node : dna) : dleaf :=
  match vt with
  | VT_value => LfV (VInt (Z.of_nat c))
  | VT_dna => LfDna node
  | VT_choice => LfChoice c n
  | VT_literal => match nth_error lits c with Some l => LfLit l | None => LfChoice c n end
  | VT_choice_and_literal => match nth_error lits c with Some l => LfChoiceLit c n l | None => LfChoice c n end
  end.

Section ToDict.
  Variable infos : list dpinfo.
  Variables (kt : key_type) (vt : value_type) (m : mc_key).
  (* to_dict._dump_node *)
  Fixpoint dump (b : bdna) (d : dict) {struct b} : dict :=
    match b with B v sp kids =>
      let d1 :=
        match sp with
        | None => d
        | Some a =>
          match info_at infos a with
          | None => d                                  (* bound to a Space or to a multi-choice: no entry *)
          | Some i =>
            let k := key_of kt (i_id i) (i_name i) a in
            match i_kind i with
            | PKChoice n lits =>
                match v with
                | VInt z =>
                    let x := format_candidate vt n lits (Z.to_nat z) (strip b) in
                    match i_sub i with
                    | Some (_, pa, pid) =>
                        let d' := if use_parent m then dput d (key_of kt pid (i_name i) pa) x else d in
                        if needs_subchoice_key kt m (i_name i) then dput d' k x else d'
                    | None => dput d k x
                    end
                | _ => d
                end
            | _ => dput d k (match vt with VT_dna => LfDna (strip b) | _ => LfV v end)
            end
          end
        end in
      fold_left (fun acc c => dump c acc) kids d1
    end.
  (* include_inactive_decisions=True: one entry per decision point, in declaration order *)
  Definition with_inactive (d : dict) : dict :=
    fold_left (fun res i =>
      let get := fun k => match dget d k with Some v => v | None => DS LfNone end in
      match i_sub i with
      | Some (idx, pa, pid) =>
          let res1 := if use_parent m && (idx =? 0)
                      then let k := key_of kt pid (i_name i) pa in dset res k (get k) else res in
          if needs_subchoice_key kt m (i_name i)
          then let k := key_of kt (i_id i) (i_name i) (i_addr i) in dset res1 k (get k) else res1
      | None => let k := key_of kt (i_id i) (i_name i) (i_addr i) in dset res k (get k)
      end) infos [].
  Definition to_dict (inactive : bool) (b : bdna) : dict :=
    let d := dump b [] in if inactive then with_inactive d else d.
End ToDict.

(* ---- lookups: DNA.__getitem__ by decision point / id / name ------------------------------------------ *)
(* DNA._decision_by_id *)
Definition decision_by_id (infos : list dpinfo) (b : bdna) : dict := to_dict infos KT_id VT_dna MC_both true b.
(* DNA.named_decisions *)
Definition named_decisions (infos : list dpinfo) (b : bdna) : list (str * dvalue) :=
  let byspec := to_dict infos KT_dna_spec VT_dna MC_parent true b in
  fold_left (fun (acc : list (str * dvalue)) (kv : dkey * dvalue) =>
    match fst kv with
    | DKSpec a =>
        (* the key is the address of a decision point or of a multi-choice parent *)
        let nm := match find (fun i => addr_eqb (i_addr i) a || match i_sub i with Some (_, pa, _) => addr_eqb pa a | None => false end) infos with
                  | Some i => i_name i | None => None end in
        match nm with
        | None => acc
        | Some s =>
            let cur := (fix get (l : list (str * dvalue)) := match l with [] => None | (s', v) :: r => if str_eqb s' s then Some v else get r end) acc in
            let dnas := match snd kv with DS x => [x] | DL l => l end in
            let nv := match cur with
                      | None | Some (DS LfNone) => snd kv
                      | Some (DL l) => DL (l ++ dnas)
                      | Some (DS x) => DL (x :: dnas)
                      end in
            (fix set (l : list (str * dvalue)) := match l with
               | [] => [(s, nv)]
               | (s', v) :: r => if str_eqb s' s then (s', nv) :: r else (s', v) :: set r end) acc
        end
    | _ => acc
    end) byspec [].

(* ---- DNA.from_dict ----------------------------------------------------------------------------------- *)
Definition leaf_is_none (x : dleaf) : bool := match x with LfNone => true | _ => false end.
Definition dv_is_none (v : dvalue) : bool := match v with DS x => leaf_is_none x | DL _ => false end.
(* from_dict._get_decision: by id, then by spec object, then by name (a list under a name is consumed
   one item at a time: the input dictionary is updated) *)
Definition get_decision (id : did) (a : addr) (name : option str) (d : dict) : option dvalue * dict :=
  let nn := fun o => match o with Some v => if dv_is_none v then None else Some v | None => None end in
  match nn (dget d (DKId id)) with
  | Some v => (Some v, d)
  | None =>
    match nn (dget d (DKSpec a)) with
    | Some v => (Some v, d)
    | None =>
      match name with
      | None => (None, d)
      | Some s =>
          match dget d (DKName s) with
          | Some (DL l) => (match l with [] => None | x :: _ => if leaf_is_none x then None else Some (DS x) end, dset d (DKName s) (DL (tl l)))
          | Some v => (nn (Some v), d)
          | None => (None, d)
          end
      end
    end
  end.
(* Choices.candidate_index / from_dict._choice_index.  None = ValueError *)
Definition index_from_literal (lits : list lit) (l : lit) : option nat :=
  (fix go (i : nat) (ls : list lit) (found : option nat) : option nat :=
     match ls with [] => found | x :: r => go (S i) r (if lit_eqb x l then Some i else found) end) O lits None.
Definition choice_index (ints_as_lits : bool) (n : nat) (lits : list lit) (x : dleaf) : option nat :=
  let in_range := fun i => if i <? n then Some i else None in
  match x with
  | LfV (VInt z) =>
      if ints_as_lits then index_from_literal lits (LInt z)
      else if (0 <=? z)%Z && (z <? Z.of_nat n)%Z then Some (Z.to_nat z) else None
  | LfV (VFlt f) => index_from_literal lits (LFlt f)
  | LfV (VStr s) | LfLit (LStr s) => index_from_literal lits (LStr s)
  | LfLit (LInt z) => if ints_as_lits then index_from_literal lits (LInt z)
                      else if (0 <=? z)%Z && (z <? Z.of_nat n)%Z then Some (Z.to_nat z) else None
  | LfLit (LFlt f) => index_from_literal lits (LFlt f)
  | LfChoice i n' => if n' =? n then in_range i else None
  | LfChoiceLit i n' l =>
      if (n' =? n) && (i <? n) then
        match nth_error lits i with
        | Some l' => if lit_eqb l l' then Some i else None       (* str(literal) must match the candidate's *)
        | None => None end
      else None
  | _ => None
  end.
Section FromDict.
  Variable ints_as_lits : bool.
  (* from_dict._make_dna; the dictionary is threaded because _get_decision updates it *)
  Fixpoint make_dna (s : dspec) (a : addr) (pid : did) (d : dict) {struct s} : option (dna * dict) :=
    match s with Space es =>
      match (fix go (i : nat) (es : list dpoint) (d : dict) : option (list dna * dict) :=
               match es with
               | [] => Some ([], d)
               | e :: r => match make_dna_p e (a ++ [i]) pid d with
                           | Some (x, d1) => match go (S i) r d1 with Some (xs, d2) => Some (x :: xs, d2) | None => None end
                           | None => None end
               end) O es d with
      | Some (cs, d') => Some (mk VNone cs, d')
      | None => None end end
  with make_dna_p (p : dpoint) (a : addr) (pid : did) (d : dict) {struct p} : option (dna * dict) :=
    match p with
    | Choices k cands _ _ (loc, name) lits =>
        let n := length cands in
        let id := pid ++ loc in
        let multi := negb (k =? 1) in
        match (fix go (idxs : list nat) (d : dict) : option (list dna * dict) :=
                 match idxs with
                 | [] => Some ([], d)
                 | i :: r =>
                     let a' := if multi then a ++ [i] else a in
                     let id' := if multi then id ++ [KIdx i] else id in
                     let (v0, d0) := get_decision id' a' name d in
                     (* decisions of a multi-choice collapsed under the parent's key *)
                     let (v1, d1) := match v0 with
                                     | Some v => (Some v, d0)
                                     | None => if multi then
                                                 match get_decision id a name d0 with
                                                 | (Some (DL l), d') => (if length l =? k then match nth_error l i with Some x => Some (DS x) | None => None end else None, d')
                                                 | (Some (DS _), d') => (None, d')      (* indexing a scalar: TypeError *)
                                                 | (None, d') => (None, d') end
                                               else (None, d0)
                                     end in
                     match v1 with
                     | Some (DS (LfDna sub)) =>
                         match go r d1 with Some (xs, d2) => Some (sub :: xs, d2) | None => None end
                     | Some (DS x) =>
                         match choice_index ints_as_lits n lits x with
                         | None => None
                         | Some c =>
                             match with_nth (fun cand => make_dna cand (a' ++ [c]) (id' ++ [KCond c n]) d1) None cands c with
                             | Some (sub, d2) =>
                                 match go r d2 with
                                 | Some (xs, d3) => Some (mk (VInt (Z.of_nat c)) [sub] :: xs, d3)
                                 | None => None end
                             | None => None end
                         end
                     | _ => None
                     end
                 end) (seq 0 k) d with
        | Some (cs, d') => Some (mk VNone cs, d')
        | None => None end
    | FloatP lo hi (loc, name) =>
        match get_decision (pid ++ loc) a name d with
        | (Some (DS x), d') =>
            let v := match x with LfDna (D v _) => Some v | LfV v => Some v | LfLit (LFlt f) => Some (VFlt f) | LfLit (LInt z) => Some (VInt z) | _ => None end in
            match v with
            | Some (VFlt f) => if (lo <=? f)%Z && (f <=? hi)%Z then Some (D (VFlt f) [], d') else None
            | Some (VInt z) => if (lo <=? z * 64)%Z && (z * 64 <=? hi)%Z then Some (D (VInt z) [], d') else None
            | _ => None end
        | _ => None end
    | CustomP (loc, name) =>
        match get_decision (pid ++ loc) a name d with
        | (Some (DS x), d') =>
            match x with
            | LfDna (D (VStr s) _) | LfV (VStr s) | LfLit (LStr s) => Some (D (VStr s) [], d')
            | _ => None end
        | _ => None end
    end.
  Definition from_dict (q : quirks) (s : dspec) (d : dict) : option bdna :=
    match make_dna s [] [] d with
    | Some (x, _) => bind q s x
    | None => None end.
End FromDict.

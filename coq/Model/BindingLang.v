(* BindingLang.v — a small imperative language (the subset of Python that
   Functor._parse_call_time_overrides is written in) and its interpreter.  The program itself is
   regenerated from /repo into Gen/BindingCallTime.v by harness/translators/binding_calltime.py.
   Definitions only. *)
From Coq Require Import NArith ZArith List Bool.
Import ListNotations.
From PG Require Import Common.Tr Model.Binding.
Local Open Scope N_scope.

(* dynamic values *)
Inductive dv : Type :=
| DNone | DMissing | DOpaque | DSpec | DSelf | DSig
| DBool (b : bool) | DInt (z : Z) | DStr (n : name)
| DList (l : list dv) | DDict (m : list (name * dv)) | DSet (l : list name)
| DArg (n : name) (d : option val).

Inductive field : Type :=
| FArgs | FHasVarargs | FVarargs | FName | FDefault
| FOverrideArgs | FIgnoreExtraArgs | FSignature | FSymAttributes | FSpecifiedArgs.

Inductive expr : Type :=
| EVar (x : N) | EConst (d : dv) | EAttr (e : expr) (f : field)
| ELen (e : expr) | ENot (e : expr) | EAnd (a b : expr) | EOr (a b : expr)
| EGt (a b : expr) | EEq (a b : expr) | ENe (a b : expr) | EIn (a b : expr)
| ESlice (e : expr) (lo hi : option expr) | EIndex (e i : expr)
| EListCopy (e : expr) | ERange (e : expr) | EItems (e : expr)
| EGetSpec (recv e : expr)
| EAny (x : N) (it cond : expr)
| EDictFilter (k v : N) (it cond : expr)
| EListMap (x : N) (it body : expr)
| EPair (a b : expr)
| ETypeCheck.

Inductive stmt : Type :=
| SAssign (x : N) (e : expr)
| SSetItem (x : N) (k v : expr)
| SDelItem (x : N) (k : expr)
| SAppend (x : N) (e : expr)
| SExtend (x : N) (e : expr)
| SPop (x d : N) (k dflt : expr)
| SIf (c : expr) (t f : list stmt)
| SFor (x : N) (it : expr) (body : list stmt)
| SFor2 (x y : N) (it : expr) (body : list stmt)
| SRaise (k : ekind)
| SAssert (e : expr)
| SReturn (e : expr).

Definition inj (v : val) : dv := match v with VInt z => DInt z | VList l => DList (map DInt l) end.
Fixpoint dints (l : list dv) : option (list Z) :=
  match l with
  | [] => Some []
  | DInt z :: r => match dints r with Some zs => Some (z :: zs) | None => None end
  | _ :: _ => None
  end.
Definition proj (d : dv) : option val :=
  match d with
  | DInt z => Some (VInt z)
  | DList l => match dints l with Some zs => Some (VList zs) | None => None end
  | _ => None
  end.
Definition truthy (d : dv) : bool :=
  match d with
  | DNone => false | DBool b => b | DInt z => negb (Z.eqb z 0)
  | DList l => negb (is_nil l) | DDict m => negb (is_nil m) | DSet l => negb (is_nil l)
  | _ => true
  end.
Definition dv_eqb (a b : dv) : bool :=
  match a, b with
  | DNone, DNone | DMissing, DMissing => true
  | DBool x, DBool y => Bool.eqb x y
  | DInt x, DInt y => Z.eqb x y
  | DStr x, DStr y => N.eqb x y
  | DList x, DList y => match dints x, dints y with Some p, Some q => zlist_eqb p q | _, _ => false end
  | _, _ => false
  end.

Definition env := kmap dv.

Section Interp.
  Variable s : sig.
  Variable st : fstate.
  Variable tc : bool.                 (* flags.is_type_check_enabled() *)

  Definition sym_attributes : list (name * dv) :=
    let named := map (fun kv => (fst kv, inj (snd kv))) (attrs st) in
    match varargs s with Some a => kset a (DList (map inj (vattr st))) named | None => named end.

  Definition attr (v : dv) (f : field) : result dv :=
    match v, f with
    | DSelf, FOverrideArgs => Ok (DBool (f_ov st))
    | DSelf, FIgnoreExtraArgs => Ok (DBool (f_ie st))
    | DSelf, FSignature => Ok DSig
    | DSelf, FSymAttributes => Ok (DDict sym_attributes)
    | DSelf, FSpecifiedArgs => Ok (DSet (map fst (spec st)))
    | DSig, FArgs => Ok (DList (map (fun p => DArg (fst p) (snd p)) (pos s)))
    | DSig, FHasVarargs => Ok (DBool (has_va s))
    | DSig, FVarargs => Ok (match varargs s with Some a => DArg a (Some (VList [])) | None => DNone end)
    | DArg n _, FName => Ok (DStr n)
    | DArg _ d, FDefault => Ok (match d with Some v => inj v | None => DMissing end)
    | _, _ => Err EOther
    end.

  Definition zlen {A} (l : list A) : Z := Z.of_nat (length l).
  Definition slice (l : list dv) (lo hi : option Z) : list dv :=
    let lo' := match lo with Some z => Z.to_nat (Z.max 0 z) | None => O end in
    let hi' := match hi with Some z => Z.to_nat (Z.max 0 z) | None => length l end in
    firstn (hi' - lo') (skipn lo' l).
  Definition as_int (d : dv) : result Z := match d with DInt z => Ok z | DBool b => Ok (if b then 1%Z else 0%Z) | _ => Err ETypeError end.

  Fixpoint eval (en : env) (e : expr) {struct e} : result dv :=
    match e with
    | EVar x => match kget x en with Some v => Ok v | None => Err EOther end
    | EConst d => Ok d
    | EAttr e1 f => match eval en e1 with Ok v => attr v f | Err k => Err k end
    | ELen e1 =>
        match eval en e1 with
        | Ok (DList l) => Ok (DInt (zlen l)) | Ok (DDict m) => Ok (DInt (zlen m)) | Ok (DSet l) => Ok (DInt (zlen l))
        | Ok _ => Err ETypeError | Err k => Err k
        end
    | ENot e1 => match eval en e1 with Ok v => Ok (DBool (negb (truthy v))) | Err k => Err k end
    | EAnd a b => match eval en a with Ok v => if truthy v then eval en b else Ok v | Err k => Err k end
    | EOr a b => match eval en a with Ok v => if truthy v then Ok v else eval en b | Err k => Err k end
    | EGt a b =>
        match eval en a, eval en b with
        | Ok x, Ok y => match as_int x, as_int y with Ok p, Ok q => Ok (DBool (Z.ltb q p)) | _, _ => Err ETypeError end
        | Err k, _ => Err k | _, Err k => Err k
        end
    | EEq a b => match eval en a, eval en b with Ok x, Ok y => Ok (DBool (dv_eqb x y)) | Err k, _ => Err k | _, Err k => Err k end
    | ENe a b => match eval en a, eval en b with Ok x, Ok y => Ok (DBool (negb (dv_eqb x y))) | Err k, _ => Err k | _, Err k => Err k end
    | EIn a b =>
        match eval en a, eval en b with
        | Ok x, Ok (DSet l) => match x with DStr n => Ok (DBool (existsb (N.eqb n) l)) | _ => Ok (DBool false) end
        | Ok x, Ok (DDict m) => match x with DStr n => Ok (DBool (kmem n m)) | _ => Ok (DBool false) end
        | Ok x, Ok (DList l) => Ok (DBool (existsb (dv_eqb x) l))
        | Ok _, Ok _ => Err ETypeError
        | Err k, _ => Err k | _, Err k => Err k
        end
    | ESlice e1 lo hi =>
        let bound (o : option expr) : result (option Z) :=
          match o with
          | None => Ok None
          | Some b => match eval en b with Ok v => match as_int v with Ok z => Ok (Some z) | Err k => Err k end | Err k => Err k end
          end in
        match eval en e1, bound lo, bound hi with
        | Ok (DList l), Ok a, Ok b => Ok (DList (slice l a b))
        | Ok _, Ok _, Ok _ => Err ETypeError
        | Err k, _, _ => Err k | _, Err k, _ => Err k | _, _, Err k => Err k
        end
    | EIndex e1 i =>
        match eval en e1, eval en i with
        | Ok (DList l), Ok (DInt z) => if Z.ltb z 0 then Err EOther else match nth_error l (Z.to_nat z) with Some v => Ok v | None => Err EOther end
        | Ok (DDict m), Ok (DStr n) => match kget n m with Some v => Ok v | None => Err EKeyError end
        | Ok _, Ok _ => Err ETypeError
        | Err k, _ => Err k | _, Err k => Err k
        end
    | EListCopy e1 => match eval en e1 with Ok (DList l) => Ok (DList l) | Ok _ => Err ETypeError | Err k => Err k end
    | ERange e1 =>
        match eval en e1 with
        | Ok v => match as_int v with Ok z => Ok (DList (map (fun i => DInt (Z.of_nat i)) (seq 0 (Z.to_nat z)))) | Err k => Err k end
        | Err k => Err k
        end
    | EItems e1 => match eval en e1 with Ok (DDict m) => Ok (DList (map (fun kv => DList [DStr (fst kv); snd kv]) m)) | Ok _ => Err EOther | Err k => Err k end
    | EGetSpec r e1 =>
        match eval en r, eval en e1 with
        | Ok DSig, Ok (DStr n) => Ok (if is_param s n || has_kw s then DSpec else DNone)
        | Ok _, Ok _ => Err EOther
        | Err k, _ => Err k | _, Err k => Err k
        end
    | EAny x it cond =>
        match eval en it with
        | Ok (DList l) =>
            (fix loop (l : list dv) : result dv :=
               match l with
               | [] => Ok (DBool false)
               | a :: r => match eval (kset x a en) cond with
                           | Ok v => if truthy v then Ok (DBool true) else loop r
                           | Err k => Err k end
               end) l
        | Ok _ => Err ETypeError | Err k => Err k
        end
    | EDictFilter k v it cond =>
        match eval en it with
        | Ok (DList l) =>
            (fix loop (l : list dv) (acc : list (name * dv)) : result dv :=
               match l with
               | [] => Ok (DDict acc)
               | DList [DStr n; w] :: r =>
                   match eval (kset v w (kset k (DStr n) en)) cond with
                   | Ok c => loop r (if truthy c then kset n w acc else acc)
                   | Err e' => Err e' end
               | _ :: _ => Err ETypeError
               end) l []
        | Ok _ => Err ETypeError | Err e' => Err e'
        end
    | EListMap x it body =>
        match eval en it with
        | Ok (DList l) =>
            match (fix loop (l : list dv) : result (list dv) :=
                     match l with
                     | [] => Ok []
                     | a :: r => match eval (kset x a en) body, loop r with
                                 | Ok v, Ok vs => Ok (v :: vs) | Err k, _ => Err k | _, Err k => Err k end
                     end) l with
            | Ok vs => Ok (DList vs)
            | Err k => Err k
            end
        | Ok _ => Err ETypeError | Err k => Err k
        end
    | EPair a b => match eval en a, eval en b with Ok x, Ok y => Ok (DList [x; y]) | Err k, _ => Err k | _, Err k => Err k end
    | ETypeCheck => Ok (DBool tc)
    end.

  Inductive outcome : Type := ONext (en : env) | ORet (d : dv) | OErr (k : ekind).

  Fixpoint exec (c : stmt) (en : env) {struct c} : outcome :=
    let block := fix block (b : list stmt) (en : env) {struct b} : outcome :=
      match b with
      | [] => ONext en
      | c1 :: r => match exec c1 en with ONext en' => block r en' | o => o end
      end in
    match c with
    | SAssign x e => match eval en e with Ok v => ONext (kset x v en) | Err k => OErr k end
    | SSetItem x k v =>
        match kget x en, eval en k, eval en v with
        | Some (DDict m), Ok (DStr n), Ok w => ONext (kset x (DDict (kset n w m)) en)
        | _, Err e', _ => OErr e' | _, _, Err e' => OErr e'
        | _, _, _ => OErr ETypeError
        end
    | SDelItem x k =>
        match kget x en, eval en k with
        | Some (DDict m), Ok (DStr n) => if kmem n m then ONext (kset x (DDict (kdel n m)) en) else OErr EKeyError
        | _, Err e' => OErr e'
        | _, _ => OErr ETypeError
        end
    | SAppend x e =>
        match kget x en, eval en e with
        | Some (DList l), Ok v => ONext (kset x (DList (l ++ [v])) en)
        | _, Err e' => OErr e' | _, _ => OErr EOther
        end
    | SExtend x e =>
        match kget x en, eval en e with
        | Some (DList l), Ok (DList l2) => ONext (kset x (DList (l ++ l2)) en)
        | Some (DList _), Ok _ => OErr ETypeError           (* object is not iterable *)
        | _, Err e' => OErr e' | _, _ => OErr EOther
        end
    | SPop x d k dflt =>
        match kget d en, eval en k, eval en dflt with
        | Some (DDict m), Ok (DStr n), Ok dv0 =>
            ONext (kset x (match kget n m with Some v => v | None => dv0 end) (kset d (DDict (kdel n m)) en))
        | _, Err e', _ => OErr e' | _, _, Err e' => OErr e'
        | _, _, _ => OErr ETypeError
        end
    | SIf cnd t f => match eval en cnd with Ok v => if truthy v then block t en else block f en | Err k => OErr k end
    | SFor x it body =>
        match eval en it with
        | Ok (DList l) =>
            (fix loop (l : list dv) (en : env) : outcome :=
               match l with
               | [] => ONext en
               | a :: r => match block body (kset x a en) with ONext en' => loop r en' | o => o end
               end) l en
        | Ok _ => OErr ETypeError | Err k => OErr k
        end
    | SFor2 x y it body =>
        match eval en it with
        | Ok (DList l) =>
            (fix loop (l : list dv) (en : env) : outcome :=
               match l with
               | [] => ONext en
               | DList [a; b] :: r => match block body (kset y b (kset x a en)) with ONext en' => loop r en' | o => o end
               | _ :: _ => OErr ETypeError
               end) l en
        | Ok _ => OErr ETypeError | Err k => OErr k
        end
    | SRaise k => OErr k
    | SAssert e => match eval en e with Ok v => if truthy v then ONext en else OErr EOther | Err k => OErr k end
    | SReturn e => match eval en e with Ok v => ORet v | Err k => OErr k end
    end.

  Fixpoint exec_block (b : list stmt) (en : env) : outcome :=
    match b with
    | [] => ONext en
    | c1 :: r => match exec c1 en with ONext en' => exec_block r en' | o => o end
    end.
End Interp.

(* names of the string constants and of the parameters of the function *)
Definition str_override_args : name := 1000.
Definition str_ignore_extra_args : name := 1001.
Definition var_self : N := 0.
Definition var_args : N := 1.
Definition var_kwargs : N := 2.

Fixpoint proj_all (l : list dv) : option (list val) :=
  match l with
  | [] => Some []
  | d :: r => match proj d, proj_all r with Some v, Some vs => Some (v :: vs) | _, _ => None end
  end.
Fixpoint proj_dict (m : list (name * dv)) : option (kmap val) :=
  match m with
  | [] => Some []
  | (k, d) :: r => match proj d, proj_dict r with Some v, Some vs => Some ((k, v) :: vs) | _, _ => None end
  end.

(* run a translated _parse_call_time_overrides(self, *args, **kwargs) -> (list_args, keyword_args) *)
Definition run_call_time (prog : list stmt) (s : sig) (st : fstate) (tc : bool) (c : call) (ovo ieo : option bool) : result call :=
  let flag (n : name) (o : option bool) (m : list (name * dv)) := match o with Some b => kset n (DBool b) m | None => m end in
  let kwargs := flag str_override_args ovo (flag str_ignore_extra_args ieo
                  (fold_left (fun m kv => kset (fst kv) (inj (snd kv)) m) (ckw c) [])) in
  let en := kset var_kwargs (DDict kwargs) (kset var_args (DList (map inj (cpos c))) (kset var_self DSelf [])) in
  match exec_block s st tc prog en with
  | ORet (DList [DList la; DDict K]) =>
      match proj_all la, proj_dict K with
      | Some la', Some K' => Ok {| cpos := la'; ckw := K' |}
      | _, _ => Err EOther
      end
  | ORet _ => Err EOther
  | ONext _ => Err EOther
  | OErr k => Err k
  end.

(* PermRun.v — the wire entry point of property C19: Perm.run for validation / scopes / evaluate-accepts (cases 0..2)
   plus case 3: the events of evaluate() on a statement list, according to the plan regenerated from execution.py.
     case 3 ::= (3 (stmt ...))     stmt ::= (kind value? (target ...) id)   kind: 0 Expr, 1 Assign, 2 any other statement
                                   target ::= (0 name) | (1 complex)
     out    ::= (3 (event ...) ((name value?) ...) (result?))   event ::= (0 e) | (1 id) | (3 t e)
   and case 4: the names evaluate(outputs_intermediate=True) reports, according to the symbol plan regenerated from execution.py.
     case 4 ::= (4 (env ...) env (ostmt ...))   env ::= ((name obj) ...)   contexts outermost first, then global_vars
                ostmt ::= (0 x src) | (1 x obj) | (2 x) | (3 src)
     out    ::= (4 (((name obj) ...))) | (4 ())      -- () = CodeError                                               *)
From Coq Require Import NArith ZArith List Bool.
Import ListNotations.
From PG Require Import Common.Tr Gen.PermTable Model.Perm Model.EvalModel Gen.EvalShape Model.EvalOut Gen.EvalOutPlan.
Local Open Scope N_scope.

Definition d_target (t : tr) : option target :=
  match t with
  | L [I 0%Z; n] => do n' <- dN n; Some (TName n')
  | L [I 1%Z; c] => do c' <- dN c; Some (TComplex c')
  | _ => None
  end.

Definition d_stmt (t : tr) : option stmt :=
  match t with
  | L [k; v; ts; i] =>
      do k' <- dN k; do v' <- dopt dN v; do ts' <- dlist d_target ts; do i' <- dN i;
      Some {| s_kind := (if N.eqb k' 0 then k_Expr else if N.eqb k' 1 then k_Assign else k_For);
              s_value := v'; s_targets := ts'; s_id := i' |}
  | _ => None
  end.

Definition e_event (x : ev) : list tr :=
  match x with
  | EvExpr e => [L [I 0%Z; eN e]]
  | EvStmt i => [L [I 1%Z; eN i]]
  | EvStoreComplex t e => [L [I 3%Z; eN t; eN e]]
  | EvStoreName _ _ => []
  end.

Definition d_env (t : tr) : option env :=
  dlist (fun kv => match kv with L [k; v] => do k' <- dN k; do v' <- dN v; Some (k', v') | _ => None end) t.

Definition d_ostmt (t : tr) : option bstmt :=
  match t with
  | L [I 0%Z; x; src] => do x' <- dN x; do s' <- dN src; Some (SAssign x' s')
  | L [I 1%Z; x; o] => do x' <- dN x; do o' <- dN o; Some (SNew x' o')
  | L [I 2%Z; x] => do x' <- dN x; Some (SDel x')
  | L [I 3%Z; src] => do s' <- dN src; Some (SExpr s')
  | _ => None
  end.

Definition names_of (p : list stmt) : list N := nodup N.eq_dec (flat_map name_targets p).

Definition run (c : tr) : tr :=
  match c with
  | L [I 3%Z; ss] =>
      match dlist d_stmt ss with
      | Some p =>
          if prog_wf p then
            let evs := evaluate_events shape p in
            L [I 3%Z; L (flat_map e_event evs);
               L (map (fun n => L [eN n; eopt eN (last_store n evs)]) (names_of p));
               eopt eN (last_store result_name evs)]
          else ebad
      | None => ebad
      end
  | L [I 4%Z; ctxs; gv; ss] =>
      match dlist d_env ctxs, d_env gv, dlist d_ostmt ss with
      | Some cs, Some g, Some p =>
          L [I 4%Z; eopt (elist (epair eN eN)) (evaluate_out out_plan cs g p)]
      | _, _, _ => ebad
      end
  | _ => Perm.run_perm c
  end.

(* Geno.v — model of pyglove.core.geno (properties C11, C12; C13–C15 build on it).  Definitions only.

   Two layers.
   * STRUCTURED decisions [sdna]/[pdna]: one constructor per spec constructor, so that induction
     on the specification works.  The specification-level notions live here: [valid], [all_valid]
     (the compositional, obviously ordered list of all valid decisions), [space_size] (the
     recurrences of Choices.space_size / Space.space_size), the odometers [first]/[next]
     (Space._next_dna, Choices._next_dna), [random_dna].
   * CONCRETE DNA [dna] = PyGlove's DNA(value, children) in the normal form its constructor
     produces ([mk]); [normalize : sdna -> dna] is how the library itself builds a DNA from the
     decisions.  What takes arbitrary DNA-shaped input is transcribed on this layer:
     [validate] (Space/Choices/Float/Custom .validate), [bind] (DNA.use_spec, recording the spec
     bound to every node), [dna_cmp] (DNA.__cmp__).
   Floats are dyadic rationals with 6 fractional bits: [flt] = Z counts 1/64ths. *)
From Coq Require Import ZArith NArith List Bool Arith.
Import ListNotations.

Definition flt := Z.
Definition str := list N.

(* ---- small list helpers (the function argument stays outside the [fix] so that nested
        recursive calls through them pass the guard checker) -------------------------------- *)
Definition with_nth {A B} (f : A -> B) (d : B) : list A -> nat -> B :=
  fix go l n := match l with [] => d | x :: r => match n with O => f x | S m => go r m end end.
Definition forallb2 {A B} (f : A -> B -> bool) : list A -> list B -> bool :=
  fix go l1 l2 := match l1, l2 with
                  | [], [] => true
                  | a :: r1, b :: r2 => f a b && go r1 r2
                  | _, _ => false end.
Definition memb (x : nat) (l : list nat) : bool := existsb (Nat.eqb x) l.
Fixpoint last_opt {A} (l : list A) : option A :=
  match l with [] => None | [x] => Some x | _ :: r => last_opt r end.
Fixpoint str_cmp (a b : str) : comparison :=
  match a, b with
  | [], [] => Eq | [], _ => Lt | _, [] => Gt
  | x :: a', y :: b' => match N.compare x y with Eq => str_cmp a' b' | c => c end
  end.
Definition str_eqb (a b : str) : bool := match str_cmp a b with Eq => true | _ => false end.

(* ---- specifications ------------------------------------------------------------------------ *)
(* keys of locations and decision ids: a.b  [2]  [=1/3] *)
Inductive ikey := KName (s : str) | KIdx (i : nat) | KCond (i n : nat).
Definition did := list ikey.
(* literal values of candidates *)
Inductive lit := LStr (s : str) | LInt (z : Z) | LFlt (f : flt).
(* location (relative to the parent) and optional name of a decision point *)
Definition pname := (list ikey * option str)%type.

Inductive dspec := Space (es : list dpoint)
with dpoint :=
  | Choices (k : nat) (cands : list dspec) (distinct sorted : bool) (nm : pname) (lits : list lit)
  | FloatP (lo hi : flt) (nm : pname)
  | CustomP (nm : pname).

Definition elements (s : dspec) : list dpoint := match s with Space es => es end.

(* ---- decisions ------------------------------------------------------------------------------ *)
Inductive sdna := SSpace (ds : list pdna)
with pdna := PChoices (cs : list (nat * sdna)) | PFloat (f : flt) | PCustom (s : str).

Inductive dval := VNone | VInt (z : Z) | VFlt (f : flt) | VStr (s : str).
Inductive dna := D (v : dval) (cs : list dna).
Definition dvalue (d : dna) : dval := match d with D v _ => v end.
Definition dkids (d : dna) : list dna := match d with D _ cs => cs end.

(* DNA.__init__ / _parse_value_and_children for a non-compositional value:
   a single child without value is replaced by its children; a node without value and with a
   single child is that child. *)
Definition mk (v : dval) (cs : list dna) : dna :=
  let cs1 := match cs with [D VNone gs] => gs | _ => cs end in
  match v, cs1 with
  | VNone, [c] => c
  | _, _ => D v cs1
  end.

(* how the library builds a DNA from decisions (first_dna/next_dna/random_dna/from_numbers all
   do exactly this): Space -> DNA(None, elements), Choices -> DNA(None, [DNA(c, [sub])...]) *)
Fixpoint normalize (d : sdna) : dna :=
  match d with SSpace ds => mk VNone (map norm_p ds) end
with norm_p (p : pdna) : dna :=
  match p with
  | PChoices cs => mk VNone (map (fun cs0 => mk (VInt (Z.of_nat (fst cs0))) [normalize (snd cs0)]) cs)
  | PFloat f => mk (VFlt f) []
  | PCustom s => mk (VStr s) []
  end.

(* ---- the constraint of a multi-choice ------------------------------------------------------- *)
(* may [c] follow the choices [prior]? *)
Definition allowed (dist srt : bool) (prior : list nat) (c : nat) : bool :=
  (negb dist || negb (memb c prior)) &&
  (negb srt || match last_opt prior with None => true | Some l => l <=? c end).
Fixpoint constraint_from (dist srt : bool) (prior l : list nat) : bool :=
  match l with [] => true | c :: r => allowed dist srt prior c && constraint_from dist srt (prior ++ [c]) r end.
Definition constraint_ok (dist srt : bool) (l : list nat) : bool := constraint_from dist srt [] l.

(* ---- validity of structured decisions (the SPECIFICATION of membership) ---------------------- *)
Fixpoint valid (s : dspec) (d : sdna) {struct s} : bool :=
  match s, d with Space es, SSpace ds => forallb2 (fun e x => valid_p e x) es ds end
with valid_p (p : dpoint) (x : pdna) {struct p} : bool :=
  match p, x with
  | Choices k cands dist srt _ _, PChoices cs =>
      (length cs =? k) && constraint_ok dist srt (map fst cs) &&
      forallb (fun cs0 => with_nth (fun s => valid s (snd cs0)) false cands (fst cs0)) cs
  | FloatP lo hi _, PFloat f => (lo <=? f)%Z && (f <=? hi)%Z
  | CustomP _, PCustom _ => true
  | _, _ => false
  end.

(* well-formed specifications (what Choices._on_bound / Float._on_bound enforce) *)
Fixpoint wf (s : dspec) : bool := match s with Space es => forallb wf_p es end
with wf_p (p : dpoint) : bool :=
  match p with
  | Choices k cands dist _ _ lits =>
      (1 <=? k) && (1 <=? length cands) && (negb dist || (k <=? length cands)) &&
      ((length lits =? 0) || (length lits =? length cands)) && forallb wf cands
  | FloatP lo hi _ => (lo <=? hi)%Z
  | CustomP _ => true
  end.

(* finite = no float / custom point anywhere (space_size <> -1) *)
Fixpoint finite (s : dspec) : bool := match s with Space es => forallb finite_p es end
with finite_p (p : dpoint) : bool :=
  match p with Choices _ cands _ _ _ _ => forallb finite cands | _ => false end.

(* ---- the order of decisions: lexicographic, first position most significant ---------------------- *)
Definition list_cmp {A} (f : A -> A -> comparison) : list A -> list A -> comparison :=
  fix go l1 l2 :=
    match l1, l2 with
    | [], [] => Eq | [], _ => Lt | _, [] => Gt
    | a :: r1, b :: r2 => match f a b with Eq => go r1 r2 | c => c end
    end.
Fixpoint scmp (a b : sdna) {struct a} : comparison :=
  match a, b with SSpace xs, SSpace ys => list_cmp (fun x y => pcmp x y) xs ys end
with pcmp (x y : pdna) {struct x} : comparison :=
  match x, y with
  | PChoices cs, PChoices ds =>
      list_cmp (fun c d => match Nat.compare (fst c) (fst d) with Eq => scmp (snd c) (snd d) | r => r end) cs ds
  | PFloat f, PFloat g => Z.compare f g
  | PCustom s, PCustom t => str_cmp s t
  | PChoices _, _ => Lt | _, PChoices _ => Gt
  | PFloat _, _ => Lt | _, PFloat _ => Gt
  end.
Definition slt (a b : sdna) : Prop := scmp a b = Lt.
(* the element that follows the first occurrence of d *)
Fixpoint succ_in {A} (eqb : A -> A -> bool) (l : list A) (d : A) : option A :=
  match l with
  | [] => None
  | x :: r => if eqb x d then match r with [] => None | y :: _ => Some y end else succ_in eqb r d
  end.
Definition sdna_eqb (a b : sdna) : bool := match scmp a b with Eq => true | _ => false end.

(* ---- all valid decisions, in order (the SPECIFICATION of the enumeration) -------------------- *)
(* lexicographic product, first component most significant *)
Definition all_prod {A} : list (list A) -> list (list A) :=
  fix go ls := match ls with [] => [[]] | l :: r => flat_map (fun x => map (cons x) (go r)) l end.
(* the m-tuples (c, sub) that may follow [prior]; [subs c] = the decisions of candidate c *)
Definition tuples (dist srt : bool) (n : nat) (subs : nat -> list sdna) : nat -> list nat -> list (list (nat * sdna)) :=
  fix go m prior :=
    match m with
    | O => [[]]
    | S m' => flat_map (fun c => if allowed dist srt prior c
                                 then flat_map (fun sub => map (cons (c, sub)) (go m' (prior ++ [c]))) (subs c)
                                 else []) (seq 0 n)
    end.
Fixpoint all_valid (s : dspec) : list sdna :=
  match s with Space es => map SSpace (all_prod (map all_valid_p es)) end
with all_valid_p (p : dpoint) : list pdna :=
  match p with
  | Choices k cands dist srt _ _ =>
      map PChoices (tuples dist srt (length cands) (fun c => with_nth (fun s => all_valid s) [] cands c) k [])
  | _ => []      (* infinite points: not enumerable; every statement about all_valid assumes [finite] *)
  end.

(* ---- space_size: Choices.space_size._space_size and Space.space_size, transcribed ------------- *)
Local Open Scope N_scope.
Definition sumN (l : list N) : N := fold_right N.add 0 l.
Definition pow_nat (x : N) (k : nat) : N := N.pow x (N.of_nat k).
(* _space_size(s, k); the order of the tests is the order of the code *)
Fixpoint csize (dist srt : bool) (s : list N) (k : nat) {struct s} : N :=
  match k with
  | O => 1
  | 1%nat => sumN s
  | _ =>
    if dist && (length s <? k)%nat then 0 else
    match s with
    | [] => 0                                  (* not reachable: candidates has min_size 1 *)
    | [x] => pow_nat x k
    | x :: s' =>
        if dist && srt then x * csize dist srt s' (k - 1) + csize dist srt s' k
        else if dist then x * N.of_nat k * csize dist srt s' (k - 1) + csize dist srt s' k
        else if srt then sumN (map (fun i => pow_nat x i * csize dist srt s' (k - i)) (seq 0 (S k)))
        else pow_nat (sumN s) k
    end
  end.
(* None = infinite (-1 in the code) *)
Definition opt_all {A} : list (option A) -> option (list A) :=
  fix go l := match l with [] => Some [] | None :: _ => None
                       | Some a :: r => match go r with Some r' => Some (a :: r') | None => None end end.
Fixpoint space_size (s : dspec) : option N :=
  match s with Space es =>
    match opt_all (map size_p es) with Some l => Some (fold_left N.mul l 1) | None => None end end
with size_p (p : dpoint) : option N :=
  match p with
  | Choices k cands dist srt _ _ =>
      match opt_all (map space_size cands) with Some l => Some (csize dist srt l k) | None => None end
  | _ => None
  end.
Local Close Scope N_scope.

(* ---- first_dna ------------------------------------------------------------------------------ *)
Fixpoint first (s : dspec) : sdna := match s with Space es => SSpace (map first_p es) end
with first_p (p : dpoint) : pdna :=
  match p with
  | Choices k cands dist _ _ _ =>
      PChoices (map (fun i => let c := if dist then i else O in
                              (c, with_nth (fun s => first s) (SSpace []) cands c)) (seq 0 k))
  | FloatP lo _ _ => PFloat lo
  | CustomP _ => PCustom []        (* the code raises NotImplementedError; never used *)
  end.

(* ---- next_dna: the two odometers ------------------------------------------------------------- *)
(* Space._next_dna: from the right, increment the first element that can be incremented and
   reset everything to its right *)
Definition odometer {A X} (nx : A -> X -> option X) (fst_ : A -> X) : list A -> list X -> option (list X) :=
  fix go es ds :=
    match es, ds with
    | e :: es', d :: ds' =>
        match go es' ds' with
        | Some r => Some (d :: r)
        | None => match nx e d with Some d' => Some (d' :: map fst_ es') | None => None end
        end
    | _, _ => None
    end.
(* next_value_for_choice(prior_choices, current_choice) *)
Definition next_value (dist : bool) (n : nat) (prior : list nat) (cur : nat) : option nat :=
  find (fun v => negb dist || negb (memb v prior)) (seq (S cur) (n - S cur)).
(* min_remaining_choices(prior_choices): [possible] is kept as an ascending list, min = head *)
Fixpoint take_min (dist : bool) (m : nat) (poss : list nat) : option (list nat) :=
  match m with
  | O => Some []
  | S m' => match poss with
            | [] => None
            | x :: r => option_map (cons x) (take_min dist m' (if dist then r else poss))
            end
  end.
Definition min_remaining (dist srt : bool) (n k : nat) (prior : list nat) : option (list nat) :=
  let lo := if srt then match last_opt prior with Some l => l | None => O end else O in
  let poss := filter (fun v => negb dist || negb (memb v prior)) (seq lo (n - lo)) in
  take_min dist (k - length prior) poss.
(* Choices._next_dna: [nxt c sub] = next decision inside candidate c, [fst_ c] = its first *)
Definition choices_next (dist srt : bool) (n k : nat) (nxt : nat -> sdna -> option sdna) (fst_ : nat -> sdna)
  : list nat -> list (nat * sdna) -> option (list (nat * sdna)) :=
  fix go prior cs :=
    match cs with
    | [] => None
    | (c, sub) :: rest =>
        match go (prior ++ [c]) rest with
        | Some r => Some ((c, sub) :: r)
        | None =>
            let new := match nxt c sub with
                       | Some sub' => Some (c, sub')
                       | None => match next_value dist n prior c with
                                 | Some c' => Some (c', fst_ c')
                                 | None => None end
                       end in
            match new with
            | Some (c', s') =>
                match min_remaining dist srt n k (prior ++ [c']) with
                | Some rem => Some ((c', s') :: map (fun v => (v, fst_ v)) rem)
                | None => None
                end
            | None => None
            end
        end
    end.
Fixpoint next (s : dspec) (d : sdna) {struct s} : option sdna :=
  match s, d with Space es, SSpace ds =>
    option_map SSpace (odometer (fun e x => next_p e x) first_p es ds) end
with next_p (p : dpoint) (x : pdna) {struct p} : option pdna :=
  match p, x with
  | Choices k cands dist srt _ _, PChoices cs =>
      option_map PChoices
        (choices_next dist srt (length cands) k
           (fun c sub => with_nth (fun s => next s sub) None cands c)
           (fun c => with_nth first (SSpace []) cands c) [] cs)
  | _, _ => None        (* Float/Custom: the code raises NotImplementedError; excluded by [finite] *)
  end.
(* iter_dna: first, then next until None; [fuel] bounds the number of DNAs returned *)
Fixpoint iter_from (s : dspec) (fuel : nat) (d : sdna) : list sdna :=
  match fuel with
  | O => []
  | S f => d :: match next s d with Some d' => iter_from s f d' | None => [] end
  end.
Definition iter (s : dspec) (fuel : nat) : list sdna := iter_from s fuel (first s).
(* Sweeping._propose: next_dna(last proposed) until None — the same sequence *)
Fixpoint sweeping (s : dspec) (fuel : nat) (last : option sdna) : list sdna :=
  match fuel with
  | O => []
  | S f => match (match last with None => Some (first s) | Some d => next s d end) with
           | Some d' => d' :: sweeping s f (Some d')
           | None => []
           end
  end.

(* ---- random_dna over an abstract PRNG --------------------------------------------------------
   The generator is a state [R] with the three methods the code calls.  What is assumed of them
   (sample returns k distinct indices below n; randint stays below n; uniform stays in range) is
   stated as hypotheses where the theorem needs them (Proofs/GenoRandom.v), not here. *)
Fixpoint insert_sorted (x : nat) (l : list nat) : list nat :=
  match l with [] => [x] | y :: r => if x <=? y then x :: l else y :: insert_sorted x r end.
Definition isort (l : list nat) : list nat := fold_right insert_sorted [] l.
Definition map_st {A X R} (f : A -> R -> X * R) : list A -> R -> list X * R :=
  fix go l r := match l with
                | [] => ([], r)
                | a :: l' => let (x, r1) := f a r in let (xs, r2) := go l' r1 in (x :: xs, r2)
                end.
Section Random.
  Variable R : Type.
  Variable sample : nat -> nat -> R -> list nat * R.     (* random.sample(range(n), k) *)
  Variable randint : nat -> R -> nat * R.                (* random.randint(0, n - 1) *)
  Variable uniform : flt -> flt -> R -> flt * R.         (* random.uniform(lo, hi) *)
  Fixpoint random_dna (s : dspec) (r : R) {struct s} : sdna * R :=
    match s with Space es =>
      let (ds, r') := map_st (fun e r0 => random_p e r0) es r in (SSpace ds, r') end
  with random_p (p : dpoint) (r : R) {struct p} : pdna * R :=
    match p with
    | Choices k cands dist srt _ _ =>
        let n := length cands in
        let (choices, r1) := if dist then sample n k r
                             else map_st (fun _ r0 => randint n r0) (seq 0 k) r in
        let choices := if srt then isort choices else choices in
        let (cs, r2) := map_st (fun c r0 =>
                          let (sub, r') := with_nth (fun s => random_dna s) (fun r' => (SSpace [], r')) cands c r0
                          in ((c, sub), r')) choices r1 in
        (PChoices cs, r2)
    | FloatP lo hi _ => let (f, r') := uniform lo hi r in (PFloat f, r')
    | CustomP _ => (PCustom [], r)      (* random_dna_fn is user code; not modelled *)
    end.
End Random.

(* ============================ CONCRETE LAYER ================================================== *)
(* open findings the model stays faithful to (set by the harness from the witness replay) *)
Record quirks := { q_float_bind_kids : bool      (* DNA.use_spec accepts children under a Float node *) }.
Definition no_quirks (q : quirks) : Prop := q_float_bind_kids q = false.
Definition q_none : quirks := {| q_float_bind_kids := false |}.

Definition is_none (v : dval) : bool := match v with VNone => true | _ => false end.
(* numeric value in 1/64ths, when the value is an int or a float *)
Definition numv (v : dval) : option Z :=
  match v with VInt z => Some (z * 64)%Z | VFlt f => Some f | _ => None end.
(* Python == on DNA values *)
Definition dval_eqb (a b : dval) : bool :=
  match a, b with
  | VNone, VNone => true
  | VStr x, VStr y => str_eqb x y
  | _, _ => match numv a, numv b with Some x, Some y => Z.eqb x y | _, _ => false end
  end.
(* len(set(values)) == len(values) *)
Fixpoint dvals_distinct (l : list dval) : bool :=
  match l with [] => true | x :: r => negb (existsb (dval_eqb x) r) && dvals_distinct r end.
(* sorted(values) == values; None for the TypeError that comparing a str / None with anything raises
   (it happens whenever there are at least two values and one of them is not a number) *)
Fixpoint nums_sorted (l : list Z) : bool :=
  match l with x :: ((y :: _) as r) => (x <=? y)%Z && nums_sorted r | _ => true end.
Definition dvals_sorted (l : list dval) : option bool :=
  match l with
  | [] | [_] => Some true
  | _ => match opt_all (map numv l) with
         | Some zs => Some (nums_sorted zs)
         | None => match opt_all (map (fun v => match v with VStr s => Some s | _ => None end) l) with
                   | Some ss => Some ((fix srt (l : list str) := match l with
                                        | x :: ((y :: _) as r) => (match str_cmp x y with Gt => false | _ => true end) && srt r
                                        | _ => true end) ss)
                   | None => None end
         end
  end.
(* an int index 0 <= z < n, as nat *)
Definition index_of (v : dval) (n : nat) : option nat :=
  match v with VInt z => if (0 <=? z)%Z && (z <? Z.of_nat n)%Z then Some (Z.to_nat z) else None | _ => None end.

(* ---- Space.validate / Choices.validate / Float.validate / CustomDecisionPoint.validate ---------- *)
Fixpoint validate (s : dspec) (d : dna) {struct s} : bool :=
  match s with Space es =>
    match es with
    | [] => is_none (dvalue d) && (length (dkids d) =? 0)
    | [e] => validate_p e d
    | _ => (length (dkids d) =? length es) && is_none (dvalue d) &&
           forallb2 (fun e c => validate_p e c) es (dkids d)
    end end
with validate_p (p : dpoint) (d : dna) {struct p} : bool :=
  match p with
  | Choices k cands dist srt _ _ =>
      let n := length cands in
      if k =? 1 then
        match index_of (dvalue d) n with
        | None => false
        | Some c =>
            with_nth (fun chosen =>
              let const := (length (elements chosen) =? 0) in
              let nokids := (length (dkids d) =? 0) in
              (if const then nokids else negb nokids) && validate chosen (mk VNone (dkids d)))
              false cands c
        end
      else
        (length (dkids d) =? k) && is_none (dvalue d) &&
        (let vals := map dvalue (dkids d) in
         (negb dist || dvals_distinct vals) &&
         (negb srt || match dvals_sorted vals with Some b => b | None => false end)) &&
        forallb (fun sub => match index_of (dvalue sub) n with
                            | None => false
                            | Some c => with_nth (fun chosen => validate chosen (mk VNone (dkids sub))) false cands c
                            end) (dkids d)
  | FloatP lo hi _ =>
      match dvalue d with
      | VFlt f => (lo <=? f)%Z && (f <=? hi)%Z && (length (dkids d) =? 0)
      | _ => false end
  | CustomP _ => match dvalue d with VStr _ => true | _ => false end
  end.

(* ---- DNA.use_spec: binding, recording which specification node each DNA node is bound to --------
   A specification node is named by its address: the root Space is []; element i of the Space at a
   is a ++ [i]; candidate j of a single choice at a is a ++ [j]; sub-choice i of a multi-choice at a
   is a ++ [i] (itself a single choice over the same candidates). *)
Definition addr := list nat.
Inductive bdna := B (v : dval) (sp : option addr) (cs : list bdna).
Fixpoint strip (b : bdna) : dna := match b with B v _ cs => D v (map strip cs) end.
Fixpoint unbound (d : dna) : bdna := match d with D v cs => B v None (map unbound cs) end.
Definition bvalue (b : bdna) : dval := match b with B v _ _ => v end.
Definition bkids (b : bdna) : list bdna := match b with B _ _ cs => cs end.
Definition bspec (b : bdna) : option addr := match b with B _ sp _ => sp end.

(* bind the i-th item of [ds] with [f i]; all must succeed; lengths must agree *)
Definition bind_all {A} (f : nat -> A -> dna -> option bdna) : nat -> list A -> list dna -> option (list bdna) :=
  fix go i es ds :=
    match es, ds with
    | [], [] => Some []
    | e :: es', d :: ds' =>
        match f i e d, go (S i) es' ds' with Some b, Some bs => Some (b :: bs) | _, _ => None end
    | _, _ => None
    end.

Section Bind.
  Variable q : quirks.
  (* [bind_kids s a kids]: the children of a node whose chosen candidate is the Space [s] at [a] *)
  Fixpoint bind_kids (s : dspec) (a : addr) (kids : list dna) {struct s} : option (list bdna) :=
    match s with Space es =>
      match es with
      | [e] =>
          let multi := match e with Choices k _ _ _ _ _ => negb (k =? 1) | _ => false end in
          if multi then option_map bkids (bind_p e (a ++ [0]) (D VNone kids))
          else match kids with
               | [kid] => option_map (fun b => [b]) (bind_p e (a ++ [0]) kid)
               | _ => None end
      | _ => bind_all (fun i e d => bind_p e (a ++ [i]) d) 0 es kids
      end end
  with bind_p (p : dpoint) (a : addr) (d : dna) {struct p} : option bdna :=
    match p with
    | Choices k cands dist srt _ _ =>
        let n := length cands in
        let single := fun (a' : addr) (d' : dna) =>
          match index_of (dvalue d') n with
          | None => None
          | Some c =>
              match with_nth (fun chosen => bind_kids chosen (a' ++ [c]) (dkids d')) None cands c with
              | Some ks => Some (B (dvalue d') (Some a') ks)
              | None => None end
          end in
        if k =? 1 then single a d
        else if negb (is_none (dvalue d)) then None
        else match bind_all (fun i (_ : nat) d' => single (a ++ [i]) d') 0 (seq 0 k) (dkids d) with
             | None => None
             | Some ks =>
                 let vals := map dvalue (dkids d) in
                 if (negb srt || match dvals_sorted vals with Some b => b | None => false end) &&
                    (negb dist || dvals_distinct vals)
                 then Some (B VNone (Some a) ks) else None
             end
    | FloatP lo hi _ =>
        match dvalue d with
        | VFlt f => if (lo <=? f)%Z && (f <=? hi)%Z && (q_float_bind_kids q || (length (dkids d) =? 0))
                    then Some (B (VFlt f) (Some a) (map unbound (dkids d))) else None
        | _ => None end
    | CustomP _ =>
        match dvalue d with VStr s => Some (B (VStr s) (Some a) (map unbound (dkids d))) | _ => None end
    end.
  (* use_spec on the root *)
  Definition bind (s : dspec) (d : dna) : option bdna :=
    match s with Space es =>
      match es with
      | [e] => bind_p e [0] d
      | _ => if is_none (dvalue d)
             then option_map (B VNone (Some [])) (bind_all (fun i e c => bind_p e [i] c) 0 es (dkids d))
             else None
      end end.
  (* every node is bound to the decision point of its own position *)
  Definition aligned (s : dspec) (b : bdna) : Prop := bind s (strip b) = Some b.
End Bind.

(* ---- DNA.__cmp__ ------------------------------------------------------------------------------ *)
Definition val_cmp (x y : dval) : comparison :=
  if dval_eqb x y then Eq else
  match x, y with
  | VNone, _ => Lt
  | _, VNone => Gt
  | VStr a, VStr b => str_cmp a b
  | _, VStr _ => Lt
  | VStr _, _ => Gt
  | _, _ => match numv x, numv y with Some a, Some b => Z.compare a b | _, _ => Eq end
  end.
(* None = ValueError (different number of children) *)
Fixpoint dna_cmp (a b : dna) {struct a} : option comparison :=
  match a, b with D va ca, D vb cb =>
    match val_cmp va vb with
    | Eq =>
        if negb (length ca =? length cb) then None else
        (fix go (ca cb : list dna) : option comparison :=
           match ca, cb with
           | x :: ca', y :: cb' => match dna_cmp x y with Some Eq => go ca' cb' | r => r end
           | _, _ => Some Eq
           end) ca cb
    | c => Some c
    end end.
Definition dna_lt (a b : dna) : Prop := dna_cmp a b = Some Lt.

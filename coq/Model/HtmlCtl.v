(* HtmlCtl.v — the HTML controls (views/html/controls: Label, Badge, Tooltip, LabelGroup, ProgressBar, TabControl) as builders of
   hnode trees, and the JavaScript side of their update paths: Html.escape(s, javascript_str=True), a JavaScript string-literal
   lexer, and the update scripts.  Definitions only.
   Data: label text, tooltip content, sub-progress names, the values shown in tab contents.  Trusted options (id, css_classes,
   styles, link, target) are carried as strings; the code writes them verbatim, the model through the attribute escape, so the
   two agree on metacharacter-free option strings (which is what the cases use). *)
From Coq Require Import NArith ZArith List Bool String.
Import ListNotations.
From PG Require Import Common.Tr Model.Html Model.HtmlDoc.
Local Open Scope N_scope.

(* ---------------------------------------------------------------------------------------------- *)
(* JavaScript strings                                                                               *)
Definition c_bsl : N := 92.  Definition c_cr : N := 13.  Definition c_lf : N := 10.  Definition c_tab : N := 9.
(* Html.escape(s, javascript_str=True): five str.replace calls; none touches what an earlier one produced, so one pass *)
Definition esc_js_char (c : N) : str :=
  if c =? c_bsl then [c_bsl; c_bsl]
  else if c =? c_quot then [c_bsl; c_quot]
  else if c =? c_cr then [c_bsl; 114]
  else if c =? c_lf then [c_bsl; 110]
  else if c =? c_tab then [c_bsl; 116]
  else [c].
Definition escape_js (s : str) : str := flat_map esc_js_char s.

(* a double-quoted JavaScript string literal: reads the body after the opening quote; returns the value and what follows the
   closing quote.  A raw line terminator or an unknown escape is an error. *)
Definition unesc_js_char (c : N) : option N :=
  if c =? c_bsl then Some c_bsl else if c =? c_quot then Some c_quot else if c =? c_apos then Some c_apos
  else if c =? 114 then Some c_cr else if c =? 110 then Some c_lf else if c =? 116 then Some c_tab else None.
Fixpoint lex_js_body (esc : bool) (acc : str) (l : str) : option (str * str) :=
  match l with
  | [] => None
  | c :: r =>
      if esc then match unesc_js_char c with Some d => lex_js_body false (acc ++ [d]) r | None => None end
      else if c =? c_bsl then lex_js_body true acc r
      else if c =? c_quot then Some (acc, r)
      else if (c =? c_cr) || (c =? c_lf) then None
      else lex_js_body false (acc ++ [c]) r
  end.
Definition lex_js_string (l : str) : option (str * str) :=
  match l with c :: r => if c =? c_quot then lex_js_body false [] r else None | [] => None end.
Definition js_literal (s : str) : str := c_quot :: escape_js s ++ [c_quot].

(* HtmlControl._update_text / _update_inner_html (after inspect.cleandoc) *)
Definition s_js_get := Eval compute in str_of "elem = document.getElementById(".
Definition s_js_text := Eval compute in str_of "elem.textContent = ".
Definition s_js_inner := Eval compute in str_of "elem.innerHTML = ".
Definition js_prefix (id : str) : str := s_js_get ++ (c_quot :: id ++ [c_quot]) ++ [41; c_semi; c_lf].
Definition update_text_script (id s : str) : str := js_prefix id ++ s_js_text ++ js_literal s ++ [c_semi].
Definition update_inner_html_script (id : str) (t : list hnode) : str := js_prefix id ++ s_js_inner ++ js_literal (render_list t) ++ [c_semi].

(* ---------------------------------------------------------------------------------------------- *)
(* controls                                                                                          *)
Record common := mkCommon { c_id : option str; c_css : list str; c_styles : list (str * str) }.
(* Html.style_str on a dict *)
Definition style_str (l : list (str * str)) : str := flat_map (fun kv => fst kv ++ [58] ++ snd kv ++ [c_semi]) l.
Definition s_id := Eval compute in str_of "id".
Definition s_href := Eval compute in str_of "href".
Definition s_target := Eval compute in str_of "target".
Definition s_onclick := Eval compute in str_of "onclick".
Definition opt_attr (name : str) (v : option str) : list (str * str) := match v with Some x => [(name, x)] | None => [] end.
(* Html.element: class, style, then the keyword properties in call order *)
Definition common_attrs (cls : list str) (c : common) : list (str * str) :=
  class_attr (cls ++ c_css c)
  ++ (match style_str (c_styles c) with [] => [] | st => [(s_style, st)] end)
  ++ opt_attr s_id (c_id c).

(* l_markup = Some kids: the text is an Html object (markup, written as it is) whose content is the rendering of kids *)
Record label := mkLabel { l_c : common; l_link : option str; l_target : option str; l_text : str; l_tip : option (common * str);
                          l_markup : option (list hnode) }.

Definition s_a := Eval compute in str_of "a".
Definition s_button := Eval compute in str_of "button".
Definition s_label := Eval compute in str_of "label".
Definition s_label_container := Eval compute in str_of "label-container".
Definition s_html_tooltip := Eval compute in str_of "tooltip".
Definition s_html_content := Eval compute in str_of "html-content".
Definition s_label_group := Eval compute in str_of "label-group".
Definition s_progress_bar := Eval compute in str_of "progress-bar".
Definition s_shade := Eval compute in str_of "shade".
Definition s_sub_progress := Eval compute in str_of "sub-progress".
Definition s_tab_control := Eval compute in str_of "tab-control".
Definition s_tab_button_group := Eval compute in str_of "tab-button-group".
Definition s_tab_content_group := Eval compute in str_of "tab-content-group".
Definition s_tab_button := Eval compute in str_of "tab-button".
Definition s_tab_content := Eval compute in str_of "tab-content".
Definition s_selected := Eval compute in str_of "selected".
Definition s_top := Eval compute in str_of "top".
Definition s_left := Eval compute in str_of "left".
Definition s_open_tab1 := Eval compute in str_of "openTab(event, '".
Definition s_open_tab2 := Eval compute in str_of "', '".
Definition s_open_tab3 := Eval compute in str_of "')".

(* Tooltip._to_html (str content) *)
Definition tooltip_el (c : common) (content : str) : hnode := El s_span [] (common_attrs [s_html_tooltip] c) [Txt content].
(* Label._to_html (str text) *)
Definition label_el (l : label) : hnode :=
  let e := El (match l_link l with Some _ => s_a | None => s_span end) []
              (common_attrs [s_label] (l_c l) ++ opt_attr s_href (l_link l) ++ opt_attr s_target (l_target l))
              (match l_markup l with Some kids => kids | None => [Txt (l_text l)] end) in
  match l_tip l with
  | None => e
  | Some (tc, content) => El s_div [] (class_attr [s_label_container]) [e; tooltip_el tc content]
  end.

Inductive tab_content := TCLabel (l : label) | TCValue (o : opts) (v : pv).
Record tab := mkTab { t_label : label; t_css : list str; t_id : option str; t_content : tab_content }.

Inductive ctl :=
| CLabel (l : label)
| CTooltip (c : common) (content : str)
| CTooltipMarkup (c : common) (kids : list hnode)        (* Tooltip whose content is an Html object: class html-content, markup as it is *)
| CGroup (c : common) (name : option label) (labels : list label)
| CProgress (subs : list (common * str)) (l : label)          (* sub-progress: its common part (styles include width) and camel_to_snake(name) *)
| CTabs (c : common) (isleft : bool) (selected : Z) (root_id bid cid : option str) (tabs : list tab).

Definition onclick_value (root tid : option str) : str :=
  s_open_tab1 ++ (match root with Some x => x | None => [78; 111; 110; 101] end) ++ s_open_tab2
  ++ (match tid with Some x => x | None => [78; 111; 110; 101] end) ++ s_open_tab3.

Fixpoint tab_nodes (f : Z -> tab -> hnode) (i : Z) (l : list tab) : list hnode :=
  match l with [] => [] | t :: r => f i t :: tab_nodes f (i + 1)%Z r end.

Definition ctl_node (c : ctl) : hnode :=
  match c with
  | CLabel l => label_el l
  | CTooltip cm content => tooltip_el cm content
  | CTooltipMarkup cm kids => El s_span [] (common_attrs [s_html_tooltip; s_html_content] cm) kids
  | CGroup cm name labels =>
      El s_div [] (common_attrs [s_label_group] cm) ((match name with Some n => [label_el n] | None => [] end) ++ map label_el labels)
  | CProgress subs l =>
      El s_div [] (class_attr [s_progress_bar])
        [El s_div [] (class_attr [s_shade]) (map (fun sc => El s_div [] (common_attrs [s_sub_progress; snd sc] (fst sc)) []) subs);
         label_el l]
  | CTabs cm isleft selected root bid cid tabs =>
      let pos := if isleft then s_left else s_top in
      let sel (i : Z) := if Z.eqb i selected then [s_selected] else [] in
      let button i t := El s_button [] (class_attr ([s_tab_button] ++ sel i ++ t_css t) ++ [(s_onclick, onclick_value root (t_id t))]) [label_el (t_label t)] in
      let content i t := El s_div [] (class_attr ([s_tab_content] ++ sel i ++ t_css t) ++ opt_attr s_id (t_id t))
                            [match t_content t with TCLabel l => label_el l | TCValue o v => tree_view o v end] in
      let bgroup := El s_div [] (class_attr ([s_tab_button_group; pos] ++ c_css cm) ++ opt_attr s_id bid) (tab_nodes button 0%Z tabs) in
      let cgroup := El s_div [] (class_attr ([s_tab_content_group; pos] ++ c_css cm) ++ opt_attr s_id cid) (tab_nodes content 0%Z tabs) in
      El s_table [] (class_attr [s_tab_control] ++ (match style_str (c_styles cm) with [] => [] | st => [(s_style, st)] end))
        (if isleft then [El s_tr [] [] [El s_td [] [] [bgroup]; El s_td [] [] [cgroup]]]
         else [El s_tr [] [] [El s_td [] [] [bgroup]]; El s_tr [] [] [El s_td [] [] [cgroup]]])
  end.

Definition label_markup (l : label) : list hnode := match l_markup l with Some k => k | None => [] end.
Definition ctl_markup (c : ctl) : list hnode :=
  match c with
  | CLabel l => label_markup l
  | CTooltip _ _ => []
  | CTooltipMarkup _ kids => kids
  | CGroup _ name labels => (match name with Some n => label_markup n | None => [] end) ++ flat_map label_markup labels
  | CProgress _ l => label_markup l
  | CTabs _ _ _ _ _ _ tabs =>
      flat_map (fun t => label_markup (t_label t) ++ match t_content t with TCLabel l => label_markup l | TCValue _ _ => [] end) tabs
  end.

Definition control_tags : list str := [s_a; s_button].
Definition control_attrs : list str := [s_id; s_href; s_target; s_onclick].

(* ---------------------------------------------------------------------------------------------- *)
(* wire: (5 ctl) -> (5 rendered);  (6 s rest) -> (6 escape_js lexed?) ; (7 id s) -> (7 script) ; (8 id (tree...)) -> (8 script)
   common ::= (id? (css ...) ((k v) ...)) ; label ::= (common link? target? text tip? (tree ...)?) ; tip ::= (common content)
   ctl ::= (0 label) | (1 common content) | (5 common (tree ...)) | (2 common label? (label ...)) | (3 ((common cname) ...) label)
         | (4 common left selected root? bid? cid? ((label (css ...) id? content) ...)) ; content ::= (0 label) | (1 opts pv)       *)
Definition d_common (t : tr) : option common :=
  match t with
  | L [i; css; st] => do i' <- dopt dstr i; do css' <- dlist dstr css; do st' <- dlist (dpair dstr dstr) st; Some (mkCommon i' css' st')
  | _ => None
  end.
Definition d_label (t : tr) : option label :=
  match t with
  | L [c; lk; tg; tx; tip; mk] =>
      do c' <- d_common c; do lk' <- dopt dstr lk; do tg' <- dopt dstr tg; do tx' <- dstr tx;
      do tip' <- dopt (dpair d_common dstr) tip; do mk' <- dopt (dlist (d_hnode 100)) mk; Some (mkLabel c' lk' tg' tx' tip' mk')
  | _ => None
  end.
Definition d_tab (t : tr) : option tab :=
  match t with
  | L [l; css; i; L [I 0%Z; cl]] => do l' <- d_label l; do css' <- dlist dstr css; do i' <- dopt dstr i; do cl' <- d_label cl; Some (mkTab l' css' i' (TCLabel cl'))
  | L [l; css; i; L [I 1%Z; o; v]] => do l' <- d_label l; do css' <- dlist dstr css; do i' <- dopt dstr i; do o' <- d_opts o; do v' <- d_pv 100 v; Some (mkTab l' css' i' (TCValue o' v'))
  | _ => None
  end.
Definition d_ctl (t : tr) : option ctl :=
  match t with
  | L [I 0%Z; l] => do l' <- d_label l; Some (CLabel l')
  | L [I 1%Z; c; s] => do c' <- d_common c; do s' <- dstr s; Some (CTooltip c' s')
  | L [I 5%Z; c; ks] => do c' <- d_common c; do ks' <- dlist (d_hnode 100) ks; Some (CTooltipMarkup c' ks')
  | L [I 2%Z; c; n; ls] => do c' <- d_common c; do n' <- dopt d_label n; do ls' <- dlist d_label ls; Some (CGroup c' n' ls')
  | L [I 3%Z; subs; l] => do subs' <- dlist (dpair d_common dstr) subs; do l' <- d_label l; Some (CProgress subs' l')
  | L [I 4%Z; c; lf; sel; root; bid; cid; tabs] =>
      do c' <- d_common c; do lf' <- dbool lf; do sel' <- dZ sel; do root' <- dopt dstr root; do bid' <- dopt dstr bid; do cid' <- dopt dstr cid;
      do tabs' <- dlist d_tab tabs; Some (CTabs c' lf' sel' root' bid' cid' tabs')
  | _ => None
  end.

Definition run (c : tr) : tr :=
  match c with
  | L [I 5%Z; t] => match d_ctl t with Some c' => L [I 5%Z; estr (render (ctl_node c'))] | None => ebad end
  | L [I 6%Z; s; rest] =>
      match dstr s, dstr rest with
      | Some s', Some r' => L [I 6%Z; estr (escape_js s'); eopt (epair estr estr) (lex_js_string (js_literal s' ++ r'))]
      | _, _ => ebad
      end
  | L [I 7%Z; i; s] =>
      match dstr i, dstr s with Some i', Some s' => L [I 7%Z; estr (update_text_script i' s')] | _, _ => ebad end
  | L [I 8%Z; i; L ts] =>
      match dstr i, dall (d_hnode 100) ts with Some i', Some ts' => L [I 8%Z; estr (update_inner_html_script i' ts')] | _, _ => ebad end
  | L [I 9%Z; s] =>
      match dstr s with Some s' => L [I 9%Z; eopt (epair estr estr) (lex_js_string s')] | None => ebad end
  | _ => run_doc c
  end.

(* BindingRun.v — the runner of property C18: Model.Binding.run, with every functor case additionally
   computed by the program regenerated from Functor._parse_call_time_overrides
   (Gen/BindingCallTime.v, interpreted by Model/BindingLang.v).  When the regenerated code and the
   hand model disagree on the arguments handed to the wrapped function the outcome is (99 ...),
   which no implementation run prints.  Definitions only. *)
From Coq Require Import NArith ZArith List Bool.
Import ListNotations.
From PG Require Import Common.Tr Model.Binding Model.BindingLang Gen.BindingCallTime.
Local Open Scope Z_scope.

Fixpoint kv_eqb (a b : list (name * val)) : bool :=
  match a, b with
  | [], [] => true
  | (k, v) :: a', (k', v') :: b' => N.eqb k k' && val_eqb v v' && kv_eqb a' b'
  | _, _ => false
  end.
Definition call_eqb (a b : call) : bool := vlist_eqb (cpos a) (cpos b) && kv_eqb (ckw a) (ckw b).
Definition ekind_eqb (a b : ekind) : bool :=
  match a, b with ETypeError, ETypeError | EKeyError, EKeyError | EOther, EOther => true | _, _ => false end.
Definition rcall_eqb (a b : result call) : bool :=
  match a, b with
  | Ok x, Ok y => call_eqb x y
  | Err x, Err y => ekind_eqb x y
  | _, _ => false
  end.

(* the regenerated code, with run-time type checking on and off, against the hand model *)
Definition gen_call_args (s : sig) (st : fstate) (tc : bool) (c : call) (ovo ieo : option bool) : result call :=
  run_call_time parse_call_time_overrides s st tc c ovo ieo.
Definition gen_agrees (s : sig) (st : fstate) (c : call) (ovo ieo : option bool) : bool :=
  rcall_eqb (gen_call_args s st true c ovo ieo) (functor_call_args s st c ovo ieo) &&
  rcall_eqb (gen_call_args s st false c ovo ieo) (functor_call_args s st c ovo ieo).

Definition check_functor_case (c : tr) : bool :=
  match c with
  | L [I 0; L [qb]; s; ctor; L [ov; ie]; lates; cl; L [ovo; ieo]; I post] =>
      match dbool qb, d_sig s, d_call ctor, dbool ov, dbool ie, dlist d_late lates, d_call cl, dopt dbool ovo, dopt dbool ieo with
      | Some qb', Some s', Some ctor', Some ov', Some ie', Some lates', Some cl', Some ovo', Some ieo' =>
          match functor_ctor s' ctor' ov' ie' with
          | Ok st =>
              match late_all_u {| q_noop_rebind := qb' |} s' st lates' with
              | Ok st1 =>
                  let st2 := if Z.eqb post 1 then clone_state st1 else if Z.eqb post 2 then json_state s' st1 else st1 in
                  gen_agrees s' st2 cl' ovo' ieo'
              | Err _ => true
              end
          | Err _ => true
          end
      | _, _, _, _, _, _, _, _, _ => true
      end
  | _ => true
  end.

Definition run (c : tr) : tr :=
  if check_functor_case c then Binding.run c else L [I 99; Binding.run c].

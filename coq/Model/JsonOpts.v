(* JsonOpts.v — the serialization options of symbolic to_json: hide_default_values and hide_frozen
   (Dict.sym_jsonify with a schema, which also serializes the members of every pg.Object), and the loading side
   that fills what was left out from the class: defaults and frozen values (Object.__init__ over the schema).
   Class tables here carry, per field, its default and whether it is frozen.  Definitions only. *)
From Coq Require Import ZArith NArith List Bool.
Import ListNotations.
From PG Require Import Common.Tr Model.Json.
Local Open Scope Z_scope.

Record fieldx : Type := { fx_name : str; fx_default : option pv; fx_frozen : bool }.
Definition classtabx := list (str * list fieldx).
Record opts : Type := { o_hide_default : bool; o_hide_frozen : bool }.

(* --- base.eq on the modelled values: Python ==, so True == 1 == 1.0, 0.0 == -0.0, nan != nan, dicts unordered --- *)
Definition num_key (v : pv) : option (Z * Z) :=
  match v with
  | PBool b => Some ((if b then 1 else 0), 0)
  | PInt z => Some (z, 0)
  | PFloat (FFin m e) => Some (m, e)
  | PFloat FNegZero => Some (0, 0)
  | _ => None
  end.
Fixpoint py_eqb (a b : pv) {struct a} : bool :=
  match num_key a, num_key b with
  | Some x, Some y => Z.eqb (fst x) (fst y) && Z.eqb (snd x) (snd y)
  | Some _, None | None, Some _ => false
  | None, None =>
      match a, b with
      | PNone, PNone => true
      | PStr s, PStr t => str_eqb s t
      | PFloat f, PFloat g => match f, g with FPInf, FPInf | FNInf, FNInf => true | _, _ => false end
      | PList l, PList m | PTuple l, PTuple m =>
          (fix go (l m : list pv) : bool :=
             match l, m with
             | [], [] => true
             | x :: l', y :: m' => py_eqb x y && go l' m'
             | _, _ => false
             end) l m
      | PDict d, PDict e =>
          Nat.eqb (length d) (length e) &&
          (fix go (d : list (key * pv)) : bool :=
             match d with
             | [] => true
             | kx :: d' => match lookup (fst kx) e with Some y => py_eqb (snd kx) y | None => false end && go d'
             end) d
      | PObj c fs, PObj c' gs =>
          str_eqb c c' &&
          (fix go (fs gs : list (str * pv)) : bool :=
             match fs, gs with
             | [], [] => true
             | nx :: fs', ny :: gs' => str_eqb (fst nx) (fst ny) && py_eqb (snd nx) (snd ny) && go fs' gs'
             | _, _ => false
             end) fs gs
      | _, _ => false
      end
  end.

Fixpoint flookup_x (n : str) (fxs : list fieldx) : option fieldx :=
  match fxs with
  | [] => None
  | fx :: r => if str_eqb n (fx_name fx) then Some fx else flookup_x n r
  end.

(* is the member left out? *)
Definition hidden (o : opts) (fx : fieldx) (x : pv) : bool :=
  (o_hide_frozen o && fx_frozen fx) ||
  (o_hide_default o && match fx_default fx with Some d => py_eqb x d | None => false end).

Section ToJson.
  Variable o : opts.
  Variable ctx : classtabx.
  Fixpoint to_json_o (v : pv) : jv :=
    match v with
    | PNone => JNull
    | PBool b => JBool b
    | PInt z => JInt z
    | PFloat f => JFloat f
    | PStr s => JStr s
    | PList l => JList (map to_json_o l)
    | PTuple l => JList (JStr s_marker :: map to_json_o l)
    | PDict d => JDict (map (fun kv => (fst kv, to_json_o (snd kv))) d)
    | PObj c fs =>
        let fxs := match slookup c ctx with Some fxs => fxs | None => [] end in
        (* the members in schema order, each against its field *)
        JDict ((KS s_type, JStr c) ::
               (fix emit (fxs : list fieldx) (fs : list (str * pv)) {struct fs} : list (key * jv) :=
                  match fs with
                  | [] => []
                  | nx :: fs' =>
                      match fxs with
                      | fx :: fxs' => (if hidden o fx (snd nx) then [] else [(KS (fst nx), to_json_o (snd nx))]) ++ emit fxs' fs'
                      | [] => (KS (fst nx), to_json_o (snd nx)) :: emit [] fs'
                      end
                  end) fxs fs)
    end.
End ToJson.

(* cls(kwargs) over the schema: what is not given comes from the default; a frozen field only accepts its value *)
Fixpoint fill (fxs : list fieldx) (kvs : list (key * pv)) : result (list (str * pv)) :=
  match fxs with
  | [] => Ok []
  | fx :: r =>
      let here :=
        match lookup (KS (fx_name fx)) kvs with
        | Some v =>
            if fx_frozen fx
            then match fx_default fx with
                 | Some d => if py_eqb v d then Ok d else Err EValue        (* Frozen field is not assignable *)
                 | None => Ok v
                 end
            else Ok v
        | None => match fx_default fx with Some d => Ok d | None => Err EType end   (* missing required argument *)
        end in
      match here, fill r kvs with
      | Ok v, Ok rest => Ok ((fx_name fx, v) :: rest)
      | Err e, _ => Err e
      | _, Err e => Err e
      end
  end.
Definition mk_obj_o (c : str) (fxs : list fieldx) (kvs : list (key * pv)) : result pv :=
  if negb (forallb (fun kv => is_str_key (fst kv)) kvs) then Err EType
  else if negb (forallb (fun kv => match fst kv with KS s => match flookup_x s fxs with Some _ => true | None => false end | _ => false end) kvs)
       then Err EType
  else match fill fxs kvs with Ok fs => Ok (PObj c fs) | Err e => Err e end.

Definition ct_of (ctx : classtabx) : classtab := map (fun cf => (fst cf, map fx_name (snd cf))) ctx.

Section FromJson.
  Variable q : quirks.
  Variable ctx : classtabx.
  Fixpoint build_o (j : jv) : result pv :=
    match j with
    | JNull => Ok PNone
    | JBool b => Ok (PBool b)
    | JInt z => Ok (PInt z)
    | JFloat f => Ok (PFloat f)
    | JStr s => Ok (PStr s)
    | JList l =>
        let as_list := rbind (mapM build_o l) (fun vs => Ok (PList vs)) in
        match l with
        | JStr m :: r =>
            if str_eqb m s_marker then
              match r with
              | [] => if q_empty_tuple q then Err EValue else Ok (PTuple [])
              | _ => rbind (mapM build_o r) (fun vs => Ok (PTuple vs))
              end
            else as_list
        | _ => as_list
        end
    | JDict d =>
        let members (skip : bool) :=
          rbind (mapM (fun kv => if skip && is_type_key (fst kv) then Ok None
                                 else rbind (build_o (snd kv)) (fun v => Ok (Some (fst kv, v)))) d)
                (fun l => Ok (somes l)) in
        match lookup (KS s_type) d with
        | None => rbind (members false) (fun kvs => Ok (PDict kvs))
        | Some (JStr c) =>
            if special_typename c then Err EUnmodelled
            else match slookup c ctx with
                 | None => Err EType
                 | Some fxs => rbind (members true) (mk_obj_o c fxs)
                 end
        | Some JNull => Err EAssert
        | Some _ => Err EType
        end
    end.
  Definition from_json_o (j : jv) : result pv := rbind (resolve (ct_of ctx) j) (fun _ => build_o j).
End FromJson.

(* --- the domain ------------------------------------------------------------------------------------------- *)
Fixpoint fx_names_ok (fxs : list fieldx) : bool :=
  match fxs with
  | [] => true
  | fx :: r => negb (str_eqb (fx_name fx) s_type) && match flookup_x (fx_name fx) r with Some _ => false | None => true end && fx_names_ok r
  end.
Fixpoint ctx_ok (ctx : classtabx) : bool :=
  match ctx with
  | [] => true
  | (c, fxs) :: r => negb (special_typename c) && fx_names_ok fxs && ctx_ok r
  end.

(* a member that is left out must be exactly what the class puts back; a frozen member holds its frozen value *)
Definition member_fine (o : opts) (fx : fieldx) (x : pv) : Prop :=
  (hidden o fx x = true -> fx_default fx = Some x) /\
  (fx_frozen fx = true -> fx_default fx = Some x /\ py_eqb x x = true).
Section Okx.
  Variable o : opts.
  Variable ctx : classtabx.
  Fixpoint okx (v : pv) : Prop :=
    match v with
    | PList l => head_is_marker l = false /\
                 (fix go (l : list pv) : Prop := match l with [] => True | x :: r => okx x /\ go r end) l
    | PTuple l => (fix go (l : list pv) : Prop := match l with [] => True | x :: r => okx x /\ go r end) l
    | PDict d => has_key (KS s_type) d = false /\ keys_nodup d = true /\
                 (fix go (d : list (key * pv)) : Prop := match d with [] => True | kv :: r => okx (snd kv) /\ go r end) d
    | PObj c fs =>
        match slookup c ctx with
        | None => False
        | Some fxs =>
            (fix go (fxs : list fieldx) (fs : list (str * pv)) {struct fs} : Prop :=
               match fxs, fs with
               | [], [] => True
               | fx :: fxs', nx :: fs' => fx_name fx = fst nx /\ okx (snd nx) /\ member_fine o fx (snd nx) /\ go fxs' fs'
               | _, _ => False
               end) fxs fs
        end
    | _ => True
    end.
End Okx.

(* --- wire format: (qbits ctx optbits kind pv)   optbits: hide_default_values=1 hide_frozen=2
   ctx ::= ((name ((fname (default?) frozen) ...)) ...)    kind 0: to_json_o   kind 1: from_json_o (to_json_o v) ------ *)
Definition d_fieldx (t : tr) : option fieldx :=
  match t with
  | L [n; d; f] => match dstr n, dopt d_pv d, dbool f with
                   | Some n', Some d', Some f' => Some {| fx_name := n'; fx_default := d'; fx_frozen := f' |}
                   | _, _, _ => None
                   end
  | _ => None
  end.
Definition d_classtabx (t : tr) : option classtabx := dlist (dpair dstr (dlist d_fieldx)) t.
Definition d_opts (t : tr) : option opts :=
  match t with I z => Some {| o_hide_default := Z.testbit z 0; o_hide_frozen := Z.testbit z 1 |} | _ => None end.
Definition run_opts (c : tr) : tr :=
  match c with
  | L [qb; cx; ob; I kind; payload] =>
      match d_quirks qb, d_classtabx cx, d_opts ob, d_pv payload with
      | Some q, Some ctx, Some o, Some v =>
          match kind with
          | 0 => e_jv (to_json_o o ctx v)
          | 1 => e_result e_pv (from_json_o q ctx (to_json_o o ctx v))
          | _ => ebad
          end
      | _, _, _, _ => ebad
      end
  | _ => ebad
  end.

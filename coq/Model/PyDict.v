(* PyDict.v -- reference semantics of Python's own [dict] (definitions only).

   A SPECIFICATION like PyList.v: an insertion-ordered association list with distinct keys, for an arbitrary
   key type [K] with a decidable equality [keqb] (hash/eq of the key) and value type [V] with Python == [veqb].
   Validated against the built-in dict by the correspondence "PyList/PyDict vs CPython" of harness/props/c02.py. *)
From Coq Require Import ZArith List Bool.
Import ListNotations.
From PG Require Import Model.PyList.
Local Open Scope Z_scope.

Section Dict.
  Context {K V : Type}.
  Variable keqb : K -> K -> bool.
  Variable veqb : V -> V -> bool.
  Definition dict : Type := list (K * V).

  Fixpoint dget (k : K) (d : dict) : option V :=
    match d with [] => None | (k', v) :: r => if keqb k k' then Some v else dget k r end.
  (* d[k] = v: an existing key keeps its place (and its key object), a new key goes to the end *)
  Fixpoint dset (k : K) (v : V) (d : dict) : dict :=
    match d with
    | [] => [(k, v)]
    | (k', v') :: r => if keqb k k' then (k', v) :: r else (k', v') :: dset k v r
    end.
  Fixpoint ddel (k : K) (d : dict) : dict :=
    match d with [] => [] | (k', v') :: r => if keqb k k' then r else (k', v') :: ddel k r end.
  Definition dhas (k : K) (d : dict) : bool := match dget k d with Some _ => true | None => false end.
  (* d.update(kvs): one assignment after the other *)
  Definition dupdate (d : dict) (kvs : list (K * V)) : dict := fold_left (fun acc kv => dset (fst kv) (snd kv) acc) kvs d.
  (* d == e: same key set, equal values, the order does not matter *)
  Definition dict_eq (d e : dict) : bool :=
    Nat.eqb (length d) (length e) &&
    forallb (fun kv => match dget (fst kv) e with Some v' => veqb (snd kv) v' | None => false end) d.

  Inductive dop : Type :=
  | PDSet (k : K) (v : V) | PDDel (k : K) | PDPop (k : K) (dflt : option V) | PDPopItem | PDClear
  | PDSetDefault (k : K) (v : V) | PDUpdate (kvs : list (K * V)) | PDIOr (kvs : list (K * V))
  | PDOr (kvs : list (K * V)) | PDROr (kvs : list (K * V)) | PDCopy
  (* reads *)
  | PDGet (k : K) | PDGetD (k : K) (dflt : V) | PDContains (k : K) | PDLen | PDKeys | PDItems | PDEq (o : list (K * V)).

  Inductive dret : Type :=
  | DrNone | DrVal (v : V) | DrKV (k : K) (v : V) | DrDict (d : dict) | DrKeys (ks : list K) | DrInt (z : Z) | DrBool (b : bool).

  Definition dstep (d : dict) (o : dop) : (dict * dret) + pyerr :=
    match o with
    | PDSet k v => inl (dset k v d, DrNone)
    | PDDel k => if dhas k d then inl (ddel k d, DrNone) else inr PyKeyError
    | PDPop k dflt =>
        match dget k d with
        | Some v => inl (ddel k d, DrVal v)
        | None => match dflt with Some v => inl (d, DrVal v) | None => inr PyKeyError end
        end
    | PDPopItem =>
        match rev d with
        | [] => inr PyKeyError
        | (k, v) :: _ => inl (removelast d, DrKV k v)
        end
    | PDClear => inl ([], DrNone)
    | PDSetDefault k v =>
        match dget k d with
        | Some v' => inl (d, DrVal v')
        | None => inl (dset k v d, DrVal v)
        end
    | PDUpdate kvs | PDIOr kvs => inl (dupdate d kvs, DrNone)
    | PDOr kvs => inl (d, DrDict (dupdate d kvs))
    | PDROr kvs => inl (d, DrDict (dupdate kvs d))
    | PDCopy => inl (d, DrDict d)
    | PDGet k => match dget k d with Some v => inl (d, DrVal v) | None => inr PyKeyError end
    | PDGetD k dflt => inl (d, DrVal (match dget k d with Some v => v | None => dflt end))
    | PDContains k => inl (d, DrBool (dhas k d))
    | PDLen => inl (d, DrInt (len d))
    | PDKeys => inl (d, DrKeys (map fst d))
    | PDItems => inl (d, DrDict d)
    | PDEq o' => inl (d, DrBool (dict_eq d o'))
    end.
  Definition dstate (d : dict) (o : dop) : dict := match dstep d o with inl (d', _) => d' | inr _ => d end.
  Definition drun (d : dict) (ops : list dop) : dict := fold_left dstate ops d.
End Dict.
#[global] Arguments dop : clear implicits.
#[global] Arguments dret : clear implicits.

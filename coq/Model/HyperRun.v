(* HyperRun.v — wire format of the Hyper model and [run : tr -> tr] (property C13).  Definitions only.

   leaf   ::= (0) | (1 b) | (2 z) | (3 f64) | (4 (cp ...))            None / bool / int / float in 64ths / str
   attrs  ::= (name? hints?)          name? ::= () | ((cp ...))        hints? ::= () | (z)
   tmpl   ::= (0 leaf) | (1 (key tmpl) ...) | (2 tmpl ...) | (3 cls (key tmpl) ...)
            | (4 attrs tmpl ...)                 oneof
            | (5 k dist srt attrs tmpl ...)      manyof
            | (6 lo hi attrs) | (7 ck attrs)     floatv / custom hyper of class ck
   where  ::= (0) | (1 oneof manyof float custom) | (2 n) | (3 (cp ...)) | (4 z) | (5 where) | (6 where where)
              all / by kind / choices with n candidates / name == s / hints == z / not / or
   quirks ::= (b)
   res(x) ::= (0 x) | (1 errclass)
   spec, sdna, dna: as in GenoRun.v

   case ::= (0 where tmpl)              -> (spec)                                    dna_spec (literal values not modelled: always ())
          | (1 quirks where tmpl sdna)  -> (valid res(value) res(value) res(dna)?)   decode of a structured decision, decode of its
                                                                                    concrete form, encode of the decoded value
          | (2 where tmpl dna)          -> (res(value))                              decode of an arbitrary DNA tree
          | (3 quirks where tmpl value) -> (res(dna))                                encode of an arbitrary value
          | (4 where tmpl limit)        -> (size? (res(value) ...))                  pg.iter: decode of every DNA of the sweep *)
From Coq Require Import ZArith NArith List Bool Arith.
Import ListNotations.
From PG Require Import Common.Tr Model.Geno Model.GenoRun Model.Hyper.
Local Open Scope Z_scope.

(* ---- the pool of `where` predicates --------------------------------------------------------------- *)
Inductive wdesc := WAll | WKind (o m f c : bool) | WNCands (n : nat) | WName (s : str) | WHints (z : Z)
                 | WNot (d : wdesc) | WOr (a b : wdesc).
Definition attrs_of (t : tmpl) : option attrs :=
  match t with TOneOf _ a | TManyOf _ _ _ _ a | TFloat _ _ a | TCustom _ a => Some a | _ => None end.
Fixpoint weval (d : wdesc) (t : tmpl) : bool :=
  match d with
  | WAll => true
  | WKind o m f c => match t with TOneOf _ _ => o | TManyOf _ _ _ _ _ => m | TFloat _ _ _ => f | TCustom _ _ => c | _ => false end
  | WNCands n => match t with TOneOf cands _ | TManyOf _ cands _ _ _ => (length cands =? n)%nat | _ => false end
  | WName s => match attrs_of t with Some a => ostr_eqb (a_name a) (Some s) | None => false end
  | WHints z => match attrs_of t with Some a => oz_eqb (a_hints a) (Some z) | None => false end
  | WNot d' => negb (weval d' t)
  | WOr a b => weval a t || weval b t
  end.

(* ---- the CustomHyper subclasses of the harness ------------------------------------------------------
   0 CodePoints: custom_decode = [ord(c) for c in dna.value]; custom_encode accepts a list of ints (not bools) in range
   1 Word:       custom_decode = dna.value;                   custom_encode accepts a str *)
Definition std_cdec (ck : nat) (s : str) : result tmpl :=
  match ck with
  | O => if forallb (fun c => (c <? 1114112)%N) s          (* every Python str satisfies this *)
         then Ok (TList (map (fun c => TLeaf (LfInt (Z.of_N c))) s)) else Err E_VALUE
  | 1%nat => Ok (TLeaf (LfStr s))
  | _ => Err E_VALUE
  end.
Definition std_cenc (ck : nat) (v : tmpl) : result str :=
  match ck with
  | O => match v with
         | TList ls => map_res (fun x => match x with
                                         | TLeaf (LfInt z) => if (0 <=? z) && (z <? 1114112) then Ok (Z.to_N z) else Err E_VALUE
                                         | _ => Err E_VALUE end) ls
         | _ => Err E_VALUE end
  | 1%nat => match v with TLeaf (LfStr s) => Ok s | _ => Err E_VALUE end
  | _ => Err E_VALUE
  end.

(* ---- encoders --------------------------------------------------------------------------------------- *)
Definition e_leaf (l : leaf) : tr :=
  match l with
  | LfNone => L [I 0] | LfBool b => L [I 1; ebool b] | LfInt z => L [I 2; I z] | LfFlt f => L [I 3; I f] | LfStr s => L [I 4; estr s] end.
Definition e_attrs (a : attrs) : tr := L [eopt estr (a_name a); eopt eZ (a_hints a)].
Fixpoint e_tmpl (t : tmpl) : tr :=
  match t with
  | TLeaf l => L [I 0; e_leaf l]
  | TDict kvs => L (I 1 :: map (fun kv => L [estr (fst kv); e_tmpl (snd kv)]) kvs)
  | TList ts => L (I 2 :: map e_tmpl ts)
  | TObj c kvs => L (I 3 :: enat c :: map (fun kv => L [estr (fst kv); e_tmpl (snd kv)]) kvs)
  | TOneOf cands a => L (I 4 :: e_attrs a :: map e_tmpl cands)
  | TManyOf k cands dist srt a => L (I 5 :: enat k :: ebool dist :: ebool srt :: e_attrs a :: map e_tmpl cands)
  | TFloat lo hi a => L [I 6; I lo; I hi; e_attrs a]
  | TCustom ck a => L [I 7; enat ck; e_attrs a]
  end.
Definition e_nm (nm : pname) : tr := L [L (map e_ikey (fst nm)); eopt estr (snd nm)].
Fixpoint e_spec (s : dspec) : tr := match s with Space es => L (map e_point es) end
with e_point (p : dpoint) : tr :=
  match p with
  | Choices k cands dist srt nm lits =>
      L [I 0; enat k; L (map e_spec cands); ebool dist; ebool srt; e_nm nm; L (map e_lit lits)]
  | FloatP lo hi nm => L [I 1; I lo; I hi; e_nm nm]
  | CustomP nm => L [I 2; e_nm nm]
  end.
Definition e_res {A} (f : A -> tr) (r : result A) : tr :=
  match r with Ok a => L [I 0; f a] | Err e => L [I 1; enat e] end.

(* ---- decoders ---------------------------------------------------------------------------------------- *)
Definition d_leaf (t : tr) : option leaf :=
  match t with
  | L [I 0] => Some LfNone
  | L [I 1; b] => do b' <- dbool b; Some (LfBool b')
  | L [I 2; I z] => Some (LfInt z)
  | L [I 3; I f] => Some (LfFlt f)
  | L [I 4; s] => do s' <- dstr s; Some (LfStr s')
  | _ => None end.
Definition d_attrs (t : tr) : option attrs :=
  match t with L [n; h] => do n' <- dopt dstr n; do h' <- dopt dZ h; Some (mkA n' h') | _ => None end.
Fixpoint d_tmpl (fuel : nat) (t : tr) : option tmpl :=
  match fuel with O => None | S f =>
    let kv := fun x => match x with L [k; v] => do k' <- dstr k; do v' <- d_tmpl f v; Some (k', v') | _ => None end in
    match t with
    | L [I 0; l] => do l' <- d_leaf l; Some (TLeaf l')
    | L (I 1 :: kvs) => do kvs' <- dall kv kvs; Some (TDict kvs')
    | L (I 2 :: ts) => do ts' <- dall (d_tmpl f) ts; Some (TList ts')
    | L (I 3 :: c :: kvs) => do c' <- dnat c; do kvs' <- dall kv kvs; Some (TObj c' kvs')
    | L (I 4 :: a :: cs) => do a' <- d_attrs a; do cs' <- dall (d_tmpl f) cs; Some (TOneOf cs' a')
    | L (I 5 :: k :: di :: sr :: a :: cs) =>
        do k' <- dnat k; do di' <- dbool di; do sr' <- dbool sr; do a' <- d_attrs a; do cs' <- dall (d_tmpl f) cs;
        Some (TManyOf k' cs' di' sr' a')
    | L [I 6; I lo; I hi; a] => do a' <- d_attrs a; Some (TFloat lo hi a')
    | L [I 7; ck; a] => do ck' <- dnat ck; do a' <- d_attrs a; Some (TCustom ck' a')
    | _ => None
    end end.
Fixpoint d_where (fuel : nat) (t : tr) : option wdesc :=
  match fuel with O => None | S f =>
    match t with
    | L [I 0] => Some WAll
    | L [I 1; o; m; fl; c] => do o' <- dbool o; do m' <- dbool m; do f' <- dbool fl; do c' <- dbool c; Some (WKind o' m' f' c')
    | L [I 2; n] => do n' <- dnat n; Some (WNCands n')
    | L [I 3; s] => do s' <- dstr s; Some (WName s')
    | L [I 4; I z] => Some (WHints z)
    | L [I 5; d] => do d' <- d_where f d; Some (WNot d')
    | L [I 6; a; b] => do a' <- d_where f a; do b' <- d_where f b; Some (WOr a' b')
    | _ => None
    end end.
Definition d_hquirks (t : tr) : option hquirks :=
  match t with L [b] => do b' <- dbool b; Some {| q_list_dict := b' |} | _ => None end.

Definition HFUEL := 60%nat.
Definition e_sd (d : sdna) : tr := e_dna (normalize d).

Definition run (c : tr) : tr :=
  match c with
  | L [I 0; wd; t] =>
      match d_where HFUEL wd, d_tmpl HFUEL t with
      | Some wd', Some t' => L [e_spec (dna_spec (weval wd') t')]
      | _, _ => ebad end
  | L [I 1; q; wd; t; d] =>
      match d_hquirks q, d_where HFUEL wd, d_tmpl HFUEL t, d_sdna HFUEL d with
      | Some q', Some wd', Some t', Some d' =>
          let w := weval wd' in
          let r := sdecode std_cdec w t' d' in
          L [ebool (valid (dna_spec w t') d');
             e_res e_tmpl r;
             e_res e_tmpl (cdecode std_cdec w t' (normalize d'));
             match r with Ok v => L [e_res e_sd (sencode std_cenc w q' t' v)] | Err _ => L [] end]
      | _, _, _, _ => ebad end
  | L [I 2; wd; t; d] =>
      match d_where HFUEL wd, d_tmpl HFUEL t, d_dna HFUEL d with
      | Some wd', Some t', Some d' => L [e_res e_tmpl (cdecode std_cdec (weval wd') t' d')]
      | _, _, _ => ebad end
  | L [I 3; q; wd; t; v] =>
      match d_hquirks q, d_where HFUEL wd, d_tmpl HFUEL t, d_tmpl HFUEL v with
      | Some q', Some wd', Some t', Some v' => L [e_res e_sd (sencode std_cenc (weval wd') q' t' v')]
      | _, _, _, _ => ebad end
  | L [I 4; wd; t; lim] =>
      match d_where HFUEL wd, d_tmpl HFUEL t, dnat lim with
      | Some wd', Some t', Some n =>
          let w := weval wd' in
          let s := dna_spec w t' in
          L [eopt eN (space_size s); L (map (fun d => e_res e_tmpl (sdecode std_cdec w t' d)) (iter s n))]
      | _, _, _ => ebad end
  | _ => ebad
  end.

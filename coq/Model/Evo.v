(* Evo.v — model of pyglove.ext.evolution DNA operators (property C14).  Definitions only.

   The operators work on the STRUCTURED decisions of Geno.v ([sdna]); the concrete DNA the library
   returns is [normalize] of them and its per-node specs are [bind] of that (C12).  The correspondence
   check prints, for every child, the library's own tree with the spec address bound to every node and
   compares it with [bind s (normalize child)]: a child whose nodes are bound to the wrong decision
   points disagrees with the model.

   The PRNG is an abstract state [R] with the methods of random.Random the package calls (record [rng]).
   What is assumed of them is the record [rng_ok] in Proofs/EvoBase.v; the runnable instance replays
   the draws recorded from the real generator (EvoRun.v).  Two further "methods" are not PRNG calls but
   are external to the model in the same way: [order n] is the iteration order of a Python set of n
   distinct DNAs (list(set(children))), recorded by the harness as a permutation of the children sorted
   by [scmp]. *)
From Coq Require Import ZArith NArith List Bool Arith.
Import ListNotations.
From PG Require Import Model.Geno Model.GenoViews.

(* ---- results ---------------------------------------------------------------------------------- *)
Inductive err := EValue | EType | EIndex | ERuntime | EKey | EZeroDiv | ENotImpl | EDraw.
Inductive res (A : Type) := Ok (a : A) | Err (e : err).
Arguments Ok {A} a. Arguments Err {A} e.
Definition rbind {A B} (x : res A) (f : A -> res B) : res B := match x with Ok a => f a | Err e => Err e end.
Notation "'dor' x <- e ; k" := (rbind e (fun x => k)) (at level 200, x pattern, e at level 100, k at level 200).

(* ---- the PRNG --------------------------------------------------------------------------------- *)
Record rng (R : Type) := {
  pick : nat -> R -> nat * R;                  (* choice(seq of length n) / randint(0, n-1): an index *)
  picks : list Z -> nat -> R -> list nat * R;  (* choices(seq, weights=ws, k): k indices *)
  sample : nat -> nat -> R -> list nat * R;    (* sample(range(n), k) *)
  uniform : flt -> flt -> R -> flt * R;        (* uniform(lo, hi) *)
  shuffle : nat -> R -> list nat * R;          (* shuffle(list of length n): the resulting order, as old indices *)
  real : R -> Z * R;                           (* random() as a multiple of 2^-53 *)
  order : nat -> R -> list nat * R             (* iteration order of a set of n DNAs *)
}.
Arguments pick {R}. Arguments picks {R}. Arguments sample {R}. Arguments uniform {R}.
Arguments shuffle {R}. Arguments real {R}. Arguments order {R}.

(* ---- list helpers ------------------------------------------------------------------------------ *)
Definition foldi {A St} (f : nat -> A -> St -> res St) : nat -> list A -> St -> res St :=
  fix go i l s := match l with [] => Ok s | a :: l' => match f i a s with Ok s' => go (S i) l' s' | Err e => Err e end end.
Fixpoint set_nth {A} (l : list A) (n : nat) (x : A) : list A :=
  match l, n with [], _ => [] | _ :: r, O => x :: r | y :: r, S m => y :: set_nth r m x end.
Definition nth_or {A} (d : A) (l : list A) (n : nat) : A := nth n l d.
Fixpoint ins_by {A} (le : A -> A -> bool) (x : A) (l : list A) : list A :=
  match l with [] => [x] | y :: r => if le x y then x :: l else y :: ins_by le x r end.
(* a stable sort: equal elements keep their order (Python sorted) — insertion from the right, ties go first *)
Definition sort_by {A} (le : A -> A -> bool) (l : list A) : list A := fold_right (ins_by le) [] l.
Definition sumZ (l : list Z) : Z := fold_right Z.add 0%Z l.
Fixpoint opt_list {A} (l : list (option A)) : option (list A) :=
  match l with [] => Some [] | Some a :: r => option_map (cons a) (opt_list r) | None :: _ => None end.
Definition all_none {A} (l : list (option A)) : bool := forallb (fun o => match o with None => true | Some _ => false end) l.
Fixpoint somes {A} (l : list (option A)) : list A :=
  match l with [] => [] | Some a :: r => a :: somes r | None :: r => somes r end.
Fixpoint nodupb (l : list nat) : bool := match l with [] => true | x :: r => negb (memb x r) && nodupb r end.

(* does a (freshly generated) decision contain a custom decision: random_dna reached a CustomDecisionPoint, whose
   random_dna_fn is user code (none is given: NotImplementedError) *)
Fixpoint scust (d : sdna) : bool := match d with SSpace ds => existsb pcust ds end
with pcust (x : pdna) : bool :=
  match x with PChoices cs => existsb (fun c => scust (snd c)) cs | PFloat _ => false | PCustom _ => true end.

Section Ops.
  Variable R : Type.
  Variable G : rng R.

  Definition rand_dna (s : dspec) (r : R) : sdna * R := random_dna R (sample G) (pick G) (uniform G) s r.
  Definition rand_p (p : dpoint) (r : R) : pdna * R := random_p R (sample G) (pick G) (uniform G) p r.

  (* ================================ mutators.Uniform ============================================ *)
  (* which nodes the [where] callable accepts, by the kind of decision point the node is bound to *)
  Record nwhere := { w_choice : bool; w_float : bool; w_custom : bool }.
  Variable wh : nwhere.

  (* Outcome of looking for the m-th mutable node (pre-order of the DNA tree, as pg.query visits it) *)
  Inductive mres (X : Type) := Skip (m : nat) | Done (x : X) (r : R) | Fail (e : err).
  Arguments Skip {X} m. Arguments Done {X} x r. Arguments Fail {X} e.
  Definition mmap {X Y} (f : X -> Y) (x : mres X) : mres Y :=
    match x with Skip m => Skip m | Done x r => Done (f x) r | Fail e => Fail e end.
  (* try [a]; when the node is not there go on with [b] on the remaining index *)
  Definition mor {X} (a : mres X) (b : nat -> mres X) : mres X := match a with Skip m => b m | x => x end.
  Definition mut_list {A X} (f : A -> X -> nat -> mres X) : list A -> list X -> nat -> mres (list X) :=
    fix go es ds m := match es, ds with
                      | e :: es', x :: ds' =>
                          match f e x m with
                          | Done x' r => Done (x' :: ds') r
                          | Fail e => Fail e
                          | Skip m' => mmap (cons x) (go es' ds' m')
                          end
                      | _, _ => Skip m end.
  (* the node itself: is it the m-th? *)
  Definition here {X} (on : bool) (m : nat) (act : unit -> mres X) (rest : nat -> mres X) : mres X :=
    if on then match m with O => act tt | S m' => rest m' end else rest m.

  (* descending into the sub-space chosen by sub-choice j; [rec] is the walk over a candidate space *)
  Definition sub_into (rec : dspec -> sdna -> nat -> mres sdna) (cands : list dspec) (cs : list (nat * sdna)) (j m' : nat)
    : mres (list (nat * sdna)) :=
    match nth_error cs j with
    | Some (c, sub) => mmap (fun sub' => set_nth cs j (c, sub')) (with_nth (fun s => rec s sub m') (Skip m') cands c)
    | None => Skip m' end.
  (* the sub-choice nodes in order, each followed by the nodes below it *)
  Definition subs_walk (onnode : bool) (act : nat -> mres (list (nat * sdna))) (into : nat -> nat -> mres (list (nat * sdna)))
    : list nat -> nat -> mres (list (nat * sdna)) :=
    fix go js m' := match js with
                    | [] => Skip m'
                    | j :: js' => here onnode m' (fun _ => act j) (fun m'' => mor (into j m'') (go js'))
                    end.

  (* re-drawing sub-choice j of a multi-choice (mutators.py:83-121) *)
  Definition redraw_sub (n : nat) (cands : list dspec) (dist srt : bool) (cs : list (nat * sdna)) (j : nat) (r : R)
    : list (nat * sdna) * R * bool :=       (* the flag: the new sub-tree could not be generated (it has a custom decision point) *)
    let sub_of := fun v r0 => with_nth (fun s => rand_dna s) (fun r' => (SSpace [], r')) cands v r0 in
    let fin := fun (cs' : list (nat * sdna)) => if srt then sort_by (fun a b => fst a <=? fst b) cs' else cs' in
    if dist then
      let avail := filter (fun v => negb (memb v (map fst cs))) (seq 0 n) in
      match avail with
      | [] => (cs, r, false)                            (* no other candidate: the clone is returned as is *)
      | _ => let (i, r1) := pick G (length avail) r in
             let v := nth i avail O in
             let (sub, r2) := sub_of v r1 in
             (fin (set_nth cs j (v, sub)), r2, scust sub)
      end
    else
      let (v, r1) := pick G n r in
      let (sub, r2) := sub_of v r1 in
      (fin (set_nth cs j (v, sub)), r2, scust sub).

  Fixpoint mut_space (s : dspec) (top : bool) (d : sdna) (m : nat) (r : R) {struct s} : mres sdna :=
    match s, d with Space es, SSpace ds =>
      let fold := (length es =? 1) && negb top in
      mmap SSpace (mut_list (fun e x m' => mut_point e fold x m' r) es ds m) end
  with mut_point (p : dpoint) (fold : bool) (x : pdna) (m : nat) (r : R) {struct p} : mres pdna :=
    match p, x with
    | Choices k cands dist srt _ _, PChoices cs =>
        let n := length cands in
        let whole := fun (_ : unit) => let (x', r') := rand_p p r in if pcust x' then Fail ENotImpl else Done x' r' in
        let into := sub_into (fun s sub m' => mut_space s false sub m' r) cands cs in
        if k =? 1 then
          here (w_choice wh) m whole (fun m' => mmap PChoices (into O m'))
        else
          here (w_choice wh && negb fold) m whole (fun m0 =>
            mmap PChoices
              (subs_walk (w_choice wh) (fun j => match redraw_sub n cands dist srt cs j r with
                                                 | (cs', r', false) => Done cs' r' | (_, _, true) => Fail ENotImpl end) into (seq 0 k) m0))
    | FloatP lo hi _, PFloat _ =>
        here (w_float wh) m (fun _ => let (f, r') := uniform G lo hi r in Done (PFloat f) r') Skip
    | CustomP _, PCustom _ =>
        here (w_custom wh) m (fun _ => Fail ENotImpl) Skip     (* random_dna_fn is user code; none is given *)
    | _, _ => Skip m
    end.

  (* the number of mutable nodes *)
  Fixpoint cnt_space (s : dspec) (top : bool) (d : sdna) {struct s} : nat :=
    match s, d with Space es, SSpace ds =>
      let fold := (length es =? 1) && negb top in
      (fix go (es : list dpoint) (ds : list pdna) : nat :=
         match es, ds with e :: es', x :: ds' => cnt_point e fold x + go es' ds' | _, _ => O end) es ds end
  with cnt_point (p : dpoint) (fold : bool) (x : pdna) {struct p} : nat :=
    let b2n := fun b : bool => if b then 1 else 0 in
    match p, x with
    | Choices k cands _ _ _ _, PChoices cs =>
        let into := fun (cs0 : nat * sdna) => with_nth (fun s => cnt_space s false (snd cs0)) O cands (fst cs0) in
        let at_ := fun j => match nth_error cs j with Some c => into c | None => O end in
        if k =? 1 then b2n (w_choice wh) + at_ O
        else b2n (w_choice wh && negb fold) +
             fold_right (fun j acc => b2n (w_choice wh) + at_ j + acc) O (seq 0 k)
    | FloatP _ _ _, PFloat _ => b2n (w_float wh)
    | CustomP _, PCustom _ => b2n (w_custom wh)
    | _, _ => O
    end.

  (* Uniform.mutate *)
  Definition mutate_uniform (s : dspec) (d : sdna) (r : R) : res (sdna * R) :=
    let n := cnt_space s true d in
    if n =? 0 then Err ERuntime                           (* 'Immutable DNA' *)
    else let (m, r1) := pick G n r in
         match mut_space s true d m r1 with
         | Done d' r2 => Ok (d', r2)
         | Fail e => Err e
         | Skip _ => Err EDraw                             (* the drawn index is not below n *)
         end.

  (* ================================ mutators.Swap ================================================ *)
  (* the nodes whose children are the sub-choices of a multi-choice and which are bound to it (a
     multi-choice that is the only element of a candidate has no node of its own): [sorted] of each *)
  Fixpoint swp_space (s : dspec) (top : bool) (d : sdna) {struct s} : list bool :=
    match s, d with Space es, SSpace ds =>
      let fold := (length es =? 1) && negb top in
      (fix go (es : list dpoint) (ds : list pdna) : list bool :=
         match es, ds with e :: es', x :: ds' => swp_point e fold x ++ go es' ds' | _, _ => [] end) es ds end
  with swp_point (p : dpoint) (fold : bool) (x : pdna) {struct p} : list bool :=
    match p, x with
    | Choices k cands _ srt _ _, PChoices cs =>
        let into := fun (cs0 : nat * sdna) => with_nth (fun s => swp_space s false (snd cs0)) [] cands (fst cs0) in
        (if negb (k =? 1) && w_choice wh && negb fold then [srt] else []) ++ flat_map into (firstn k cs)
    | _, _ => []
    end.
  Definition swap2 {A} (l : list A) (i j : nat) : list A :=
    match nth_error l i, nth_error l j with
    | Some a, Some b => set_nth (set_nth l i b) j a
    | _, _ => l end.
  (* apply [f] to the children of the m-th such node *)
  Fixpoint swa_space (f : list (nat * sdna) -> list (nat * sdna)) (s : dspec) (top : bool) (d : sdna) (m : nat) (r : R) {struct s} : mres sdna :=
    match s, d with Space es, SSpace ds =>
      let fold := (length es =? 1) && negb top in
      mmap SSpace (mut_list (fun e x m' => swa_point f e fold x m' r) es ds m) end
  with swa_point (f : list (nat * sdna) -> list (nat * sdna)) (p : dpoint) (fold : bool) (x : pdna) (m : nat) (r : R) {struct p} : mres pdna :=
    match p, x with
    | Choices k cands _ srt _ _, PChoices cs =>
        let into := sub_into (fun s sub m' => swa_space f s false sub m' r) cands cs in
        (* the node was chosen because its multi-choice is not sorted (mutate_swap): the test is repeated here *)
        here (negb (k =? 1) && w_choice wh && negb fold) m (fun _ => Done (PChoices (if srt then cs else f cs)) r)
          (fun m0 => mmap PChoices (subs_walk false (fun _ => Skip m0) into (seq 0 k) m0))
    | _, _ => Skip m
    end.
  (* the multi-choice of that node: its number of sub-choices *)
  Fixpoint swk_space (s : dspec) (top : bool) (d : sdna) {struct s} : list nat :=
    match s, d with Space es, SSpace ds =>
      let fold := (length es =? 1) && negb top in
      (fix go (es : list dpoint) (ds : list pdna) : list nat :=
         match es, ds with e :: es', x :: ds' => swk_point e fold x ++ go es' ds' | _, _ => [] end) es ds end
  with swk_point (p : dpoint) (fold : bool) (x : pdna) {struct p} : list nat :=
    match p, x with
    | Choices k cands _ _ _ _, PChoices cs =>
        let into := fun (cs0 : nat * sdna) => with_nth (fun s => swk_space s false (snd cs0)) [] cands (fst cs0) in
        (if negb (k =? 1) && w_choice wh && negb fold then [k] else []) ++ flat_map into (firstn k cs)
    | _, _ => []
    end.
  (* Swap.mutate: shuffle the candidate nodes, take the first whose multi-choice is not sorted, swap two
     of its children drawn with sample(range(k), 2) *)
  Definition mutate_swap (s : dspec) (d : sdna) (r : R) : res (sdna * R) :=
    let flags := swp_space s true d in
    let ks := swk_space s true d in
    let (perm, r1) := shuffle G (length flags) r in
    match find (fun i => negb (nth i flags true)) perm with
    | None => Ok (d, r1)
    | Some i =>
        let (ij, r2) := sample G (nth i ks O) 2 r1 in
        match ij with
        | [a; b] =>
            match swa_space (fun cs => swap2 cs a b) s true d i r2 with
            | Done d' r3 => Ok (d', r3)
            | Fail e => Err e
            | Skip _ => Err EDraw end
        | _ => Err EDraw end
    end.

  (* ================================ point-wise recombinators ===================================== *)
  Inductive pwkind := PWUniform | PWSample | PWAverage | PWWeighted.
  Inductive wheresel := WAll | WAny (k : nat) | WEvens.     (* where.ALL / where.Any(k) / a function: lambda xs: xs[::2] *)
  Fixpoint evens {A} (l : list A) : list A := match l with x :: _ :: r => x :: evens r | _ => l end.
  Definition numeric (kd : pwkind) : bool := match kd with PWAverage | PWWeighted => true | _ => false end.
  Definition aeqb (a b : addr) : bool := forallb2 Nat.eqb a b.
  Definition amem (a : addr) (l : list addr) : bool := existsb (aeqb a) l.

  (* PointWise.applicable_decision_points / Numeric.applicable_decision_points, as spec addresses, in the
     order of DNASpec.decision_points (a multi-choice is listed once, at its first sub-choice) *)
  Fixpoint app_space (fl : bool) (s : dspec) (a : addr) {struct s} : list addr :=
    match s with Space es => concat (mapi (fun i e => app_point fl e (a ++ [i])) 0 es) end
  with app_point (fl : bool) (p : dpoint) (a : addr) {struct p} : list addr :=
    match p with
    | Choices k cands _ _ _ _ =>
        let inner := fun a' => concat (mapi (fun j c => app_space fl c (a' ++ [j])) 0 cands) in
        (if fl then [] else [a]) ++ (if k =? 1 then inner a else flat_map (fun i => inner (a ++ [i])) (seq 0 k))
    | FloatP _ _ _ => [a]
    | CustomP _ => if fl then [] else [a]
    end.
  (* where.ALL / where.Any(k) *)
  Definition where_sel {A} (w : wheresel) (pts : list A) (r : R) : res (list A * R) :=
    match w with
    | WAll => Ok (pts, r)
    | WEvens => Ok (evens pts, r)
    | WAny k => if length pts <=? k then Ok (pts, r)
                else let (idx, r1) := sample G (length pts) k r in
                     match opt_list (map (nth_error pts) (sort_by Nat.leb idx)) with
                     | Some l => Ok (l, r1) | None => Err EDraw end
    end.

  Section PointWise.
    Variable kd : pwkind.
    Variable ws : list Z.                   (* the weight of every parent, in 64ths (Sample, WeightedAverage) *)
    Variable tgt : addr -> bool.            (* is the decision point at this address targeted *)

    Definition adjusted {X} (vals : list (option X)) : list Z :=
      match kd with
      | PWUniform => map (fun o => match o with Some _ => 64%Z | None => 0%Z end) vals
      | _ => map (fun ow => match fst ow with Some _ => snd ow | None => 0%Z end) (combine vals ws)
      end.
    Fixpoint live_idx {X} (i : nat) (vals : list (option X)) : list nat :=
      match vals with [] => [] | Some _ :: v => i :: live_idx (S i) v | None :: v => live_idx (S i) v end.
    (* random.choices(all decisions, adjusted weights, k=1)[0] *)
    Definition choose_weighted {X} (vals : list (option X)) (r : R) : res (X * R) :=
      let w := adjusted vals in
      if (sumZ w <=? 0)%Z then Err EValue else
      let (l, r1) := picks G w 1 r in
      match l with
      | [p] => match nth_error vals p with Some (Some x) => Ok (x, r1) | _ => Err EDraw end
      | _ => Err EDraw end.
    (* Uniform.merge: random.choice(the decisions that are not None); Sample.merge: random.choices(all, adjusted weights) *)
    Definition choose_parent {X} (vals : list (option X)) (r : R) : res (X * R) :=
      match kd with
      | PWUniform =>
          let lv := live_idx 0 vals in
          let (i, r1) := pick G (length lv) r in
          match nth_error lv i with
          | Some p => match nth_error vals p with Some (Some x) => Ok (x, r1) | _ => Err EDraw end
          | None => Err EDraw end
      | _ => choose_weighted vals r
      end.
    (* _merge_multi_choice: position by position, at most 8 rejected draws in total, else one parent's whole decision *)
    Fixpoint merge_multi (fuel : nat) (k : nat) (dist srt : bool) (vals : list (option (list nat)))
                         (index attempts : nat) (results : list nat) (r : R) : res (list nat * R) :=
      match fuel with
      | O => Err EDraw
      | S fu =>
          if index =? k then Ok (results, r)
          else if 8 <=? attempts then choose_weighted vals r
          else
            let w := adjusted vals in
            if (sumZ w <=? 0)%Z then Err EValue else
            let (l, r1) := picks G w 1 r in
            match l with
            | [p] =>
                match nth_error vals p with
                | Some (Some dl) =>
                    let d := nth index dl O in
                    if (negb dist || negb (memb d results)) &&
                       (negb srt || match last_opt results with None => true | Some x => x <=? d end)
                    then merge_multi fu k dist srt vals (S index) attempts (results ++ [d]) r1
                    else merge_multi fu k dist srt vals index (S attempts) results r1
                | _ => Err EDraw end
            | _ => Err EDraw end
      end.
    Definition merge_choice (k : nat) (dist srt : bool) (vals : list (option (list nat))) (r : R) : res (list nat * R) :=
      if k =? 1 then choose_parent vals r
      else
        (* Uniform passes weight 1 for every parent, Sample the adjusted weights; both are adjusted again *)
        merge_multi (k + 10) k dist srt vals 0 0 [] r.
    (* Average / WeightedAverage keep the mean within the range of the decision point (recombinators._clip) *)
    Definition clip (lo hi v : flt) : flt := Z.min (Z.max v lo) hi.
    Definition merge_float (lo hi : flt) (vals : list (option flt)) (r : R) : res (flt * R) :=
      match kd with
      | PWAverage => let l := somes vals in Ok (clip lo hi (sumZ l / Z.of_nat (length l))%Z, r)
      | PWWeighted =>
          let num := sumZ (map (fun ow => match fst ow with Some d => (snd ow * d)%Z | None => 0%Z end) (combine vals ws)) in
          let den := sumZ (map (fun ow => match fst ow with Some _ => snd ow | None => 0%Z end) (combine vals ws)) in
          if (den =? 0)%Z then Err EZeroDiv else Ok (clip lo hi (num / den)%Z, r)
      | _ => choose_parent vals r
      end.
    Definition zip_app {X} (acc : list (option (list X))) (outs : list (option X)) : list (option (list X)) :=
      map (fun ao => match ao with (Some l, Some y) => Some (l ++ [y]) | _ => None end) (combine acc outs).

    (* ---- the sub-spaces of a choice: per sub-choice position j and candidate c ------------------------ *)
    (* which parents end up with candidate c at position j *)
    Definition wants_of (newv : list (option (list nat))) (j c n : nat) : list bool :=
      map (fun v => match v with Some l => nth j l n =? c | None => false end) newv.
    (* ... and among them those that had chosen it themselves: they contribute their sub-decisions *)
    Definition lives_of (old : list (option (list (nat * sdna)))) (wants : list bool) (j c : nat) : list (option sdna) :=
      map (fun ow => match ow with
                     | (Some cs, true) => match nth_error cs j with
                                          | Some (c0, sub) => if c0 =? c then Some sub else None
                                          | None => None end
                     | _ => None end) (combine old wants).
    Definition pick_outs (wants : list bool) (cur outs : list (option sdna)) : list (option sdna) :=
      map (fun x => match x with (true, _, o) => o | (false, cu0, _) => cu0 end) (combine (combine wants cur) outs).
    (* [rec c cand lives r]: the recombination inside candidate c *)
    Definition pw_cands (rec : nat -> dspec -> list (option sdna) -> R -> res (list (option sdna) * R))
                        (cands : list dspec) (old : list (option (list (nat * sdna)))) (newv : list (option (list nat)))
                        (j n : nat) (r : R) : res (list (option sdna) * R) :=
      foldi (fun c cand (st2 : list (option sdna) * R) =>
               let wants := wants_of newv j c n in
               if negb (existsb (fun b => b) wants) then Ok st2 else
               dor o1 <- rec c cand (lives_of old wants j c) (snd st2);
               Ok (pick_outs wants (fst st2) (fst o1), snd o1))
            0 cands (map (fun _ => None) newv, r).
    Definition pw_subs (rec : nat -> nat -> dspec -> list (option sdna) -> R -> res (list (option sdna) * R))
                       (k : nat) (cands : list dspec) (old : list (option (list (nat * sdna)))) (newv : list (option (list nat)))
                       (r : R) : res (list (option (list sdna)) * R) :=
      foldi (fun j (_ : nat) (st : list (option (list sdna)) * R) =>
               dor cu <- pw_cands (rec j) cands old newv j (length cands) (snd st);
               Ok (zip_app (fst st) (fst cu), snd cu))
            0 (seq 0 k) (map (fun _ => Some []) newv, r).
    Definition pw_assemble (newv : list (option (list nat))) (subs : list (option (list sdna))) : list (option pdna) :=
      map (fun x => match x with (Some l, Some sl) => Some (PChoices (combine l sl)) | _ => None end) (combine newv subs).

    (* parents: [Some d] = the parent is active here with decision d, [None] = it is not (its enclosing
       choice was replaced or it never chose this branch).  result: [None] = no decision is available for
       this parent (from_dict will raise).  [forced]: an enclosing choice was replaced in some parent, so the
       points below it are recombined whether or not the [where] filter selected them. *)
    Fixpoint pw_space (s : dspec) (a : addr) (forced : bool) (ps : list (option sdna)) (r : R) {struct s} : res (list (option sdna) * R) :=
      match s with Space es =>
        dor st <- foldi (fun i e (st : list (option (list pdna)) * R) =>
                    let col := map (fun o => match o with Some (SSpace ds) => nth_error ds i | None => None end) ps in
                    dor o1 <- pw_point e (a ++ [i]) forced col (snd st);
                    Ok (zip_app (fst st) (fst o1), snd o1)) 0 es (map (fun _ => Some []) ps, r);
        Ok (map (option_map SSpace) (fst st), snd st) end
    with pw_point (p : dpoint) (a : addr) (forced : bool) (col : list (option pdna)) (r : R) {struct p} : res (list (option pdna) * R) :=
      match p with
      | Choices k cands dist srt _ _ =>
          let n := length cands in
          let old := map (fun o => match o with Some (PChoices cs) => Some cs | _ => None end) col in
          let oldv := map (option_map (map fst)) old in
          let merged := (tgt a || forced) && negb (numeric kd) && negb (all_none old) in
          dor nv <- (if merged
                     then dor dc <- merge_choice k dist srt oldv r; Ok (map (fun _ => Some (fst dc)) old, snd dc)
                     else Ok (oldv, r));
          let newv := fst nv in
          (* some parent's decision at position j was replaced (or it had none) *)
          let changed := fun (j : nat) =>
            merged && existsb (fun ov => match ov with
                                         | (Some o, Some v) => negb (nth j o n =? nth j v n)
                                         | _ => true end) (combine oldv newv) in
          dor sb <- pw_subs (fun j c cand lives r0 =>
                               pw_space cand (a ++ (if k =? 1 then [] else [j]) ++ [c]) (forced || changed j) lives r0)
                            k cands old newv (snd nv);
          Ok (pw_assemble newv (fst sb), snd sb)
      | FloatP lo hi _ =>
          let vals := map (fun o => match o with Some (PFloat f) => Some f | _ => None end) col in
          if (tgt a || forced) && negb (all_none vals)
          then dor fr <- merge_float lo hi vals r; Ok (map (fun _ => Some (PFloat (fst fr))) col, snd fr)
          else Ok (map (option_map PFloat) vals, r)
      | CustomP _ =>
          let vals := map (fun o => match o with Some (PCustom t) => Some t | _ => None end) col in
          if (tgt a || forced) && negb (numeric kd) && negb (all_none vals)
          then dor fr <- choose_parent vals r; Ok (map (fun _ => Some (PCustom (fst fr))) col, snd fr)
          else Ok (map (option_map PCustom) vals, r)
      end.
  End PointWise.

  (* list(set(children)): distinct children; the order is external ([order]), relative to the [scmp]-sorted list *)
  Fixpoint dedup (l : list sdna) : list sdna :=
    match l with [] => [] | x :: r => x :: filter (fun y => negb (sdna_eqb x y)) (dedup r) end.
  Definition sle (a b : sdna) : bool := match scmp a b with Gt => false | _ => true end.
  Definition set_order (cs : list sdna) (r : R) : res (list sdna * R) :=
    let u := sort_by sle (dedup cs) in
    let (perm, r') := order G (length u) r in
    if negb (length perm =? length u) || negb (nodupb perm) then Err EDraw else
    match opt_list (map (nth_error u) perm) with Some l => Ok (l, r') | None => Err EDraw end.

  Definition pointwise (kd : pwkind) (w : wheresel) (ws : list Z) (s : dspec) (ps : list sdna) (r : R) : res (list sdna * R) :=
    match ps with
    | [] => Ok ([], r)
    | _ =>
        dor tr <- where_sel w (app_space (numeric kd) s []) r;
        dor o <- pw_space kd ws (fun a => amem a (fst tr)) s [] false (map Some ps) (snd tr);
        match opt_list (fst o) with
        | None => Err EValue                    (* from_dict: "Value for ... is not found in the dictionary" *)
        | Some cs => set_order cs (snd o)
        end
    end.

  (* ================================ segment-wise recombinators ==================================== *)
  (* the independent top-level positions: a decision point, or one sub-choice of an unconstrained multi-choice *)
  Definition splits (e : dpoint) : bool :=
    match e with Choices k _ dist srt _ _ => negb (k =? 1) && negb (dist || srt) | _ => false end.
  Fixpoint nunits (es : list dpoint) : nat :=
    match es with
    | [] => 0
    | e :: r => (if splits e then match e with Choices k _ _ _ _ _ => k | _ => 1 end else 1) + nunits r
    end.
  (* for i, cp in enumerate(cuts + [len]): positions[start:cp] belong to segment i; odd segments come from the other parent *)
  Fixpoint seg_go (ends : list nat) (i start : nat) (par : list bool) : list bool :=
    match ends with
    | [] => par
    | cp :: r => seg_go r (S i) cp (mapi (fun u b => if (start <=? u) && (u <? cp) then Nat.odd i else b) 0 par)
    end.
  (* the child that starts with x's segment ([flip] = false) or y's; [off] = position of the first unit of es *)
  Fixpoint seg_mix (par : list bool) (flip : bool) (es : list dpoint) (dx dy : list pdna) (off : nat) : list pdna :=
    match es, dx, dy with
    | e :: es', x :: dx', y :: dy' =>
        let take := fun i => xorb (nth (off + i) par false) flip in
        match x, y with
        | PChoices cx, PChoices cy =>
            if splits e
            then PChoices (mapi (fun i c => if take i then snd c else fst c) 0 (combine cx cy))
                 :: seg_mix par flip es' dx' dy' (off + length cx)
            else (if take 0 then y else x) :: seg_mix par flip es' dx' dy' (off + 1)
        | _, _ => (if take 0 then y else x) :: seg_mix par flip es' dx' dy' (off + 1)
        end
    | _, _, _ => []
    end.
  Definition segment (cuts : list nat) (s : dspec) (x y : sdna) : list sdna :=
    match s, x, y with Space es, SSpace dx, SSpace dy =>
      let n := nunits es in
      let par := seg_go (cuts ++ [n]) 0 0 (repeat false n) in
      [SSpace (seg_mix par false es dx dy 0); SSpace (seg_mix par true es dx dy 0)]
    end.
  Definition kpoint_cuts (k n : nat) (r : R) : list nat * R :=
    if k + 1 <? n then let (idx, r1) := sample G (n - 1) k r in (sort_by Nat.leb (map S idx), r1)
    else (seq 1 (n - 1), r).
  Definition kpoint (k : nat) (s : dspec) (x y : sdna) (r : R) : list sdna * R :=
    let (cuts, r1) := kpoint_cuts k (nunits (elements s)) r in (segment cuts s x y, r1).

  (* ================================ permutation recombinators ===================================== *)
  Inductive ppath := PEnd (i : nat) | PStep (i j : nat) (rest : ppath).
  Definition all_same (l : list nat) : option nat :=
    match l with [] => None | c :: r => if forallb (Nat.eqb c) r then Some c else None end.
  (* Permutation.recombine.possible_permutation_points: the parents' trees are walked together while the node values agree *)
  Fixpoint pp_space (s : dspec) (ps : list sdna) {struct s} : list ppath :=
    match s with Space es =>
      concat (mapi (fun i e => pp_point e i (map (fun d => match d with SSpace ds => nth_error ds i end) ps)) 0 es) end
  with pp_point (p : dpoint) (i : nat) (col : list (option pdna)) {struct p} : list ppath :=
    match p with
    | Choices k cands dist srt _ _ =>
        let css := map (fun o => match o with Some (PChoices cs) => cs | _ => [] end) col in
        let into := fun (j : nat) =>
          match all_same (map (fun cs => match nth_error cs j with Some c => fst c | None => length cands end) css) with
          | Some c => map (PStep i j)
                          (with_nth (fun cand => pp_space cand (map (fun cs => match nth_error cs j with Some c0 => snd c0 | None => SSpace [] end) css))
                                    [] cands c)
          | None => [] end in
        if k =? 1 then into O
        else (if (length cands =? k) && dist && negb srt then [PEnd i] else []) ++ flat_map into (seq 0 k)
    | _ => []
    end.
  Fixpoint get_at (pa : ppath) (d : sdna) : option (list (nat * sdna)) :=
    match d with SSpace ds =>
      match pa with
      | PEnd i => match nth_error ds i with Some (PChoices cs) => Some cs | _ => None end
      | PStep i j rest => match nth_error ds i with
                          | Some (PChoices cs) => match nth_error cs j with Some (_, sub) => get_at rest sub | None => None end
                          | _ => None end
      end end.
  (* replacing the decisions of the multi-choice that is element i of the root space *)
  Definition set_end (s : dspec) (i : nat) (new : list (nat * sdna)) (d : sdna) : option sdna :=
    match s, d with Space es, SSpace ds =>
      match nth_error es i, nth_error ds i with
      | Some (Choices _ _ dist srt _ _), Some (PChoices _) =>
          (* a permutation point is distinct and not sorted (pp_point): the test is repeated here *)
          if dist && negb srt then Some (SSpace (set_nth ds i (PChoices new))) else Some d
      | _, _ => None end
    end.
  Definition index_in (l : list nat) (v : nat) : option nat :=
    (fix go (i : nat) (l : list nat) := match l with [] => None | x :: r => if x =? v then Some i else go (S i) r end) O l.
  Definition slice {A} (l : list A) (a b : nat) : list A := firstn (b - a) (skipn a l).

  (* PartiallyMapped.partially_mapped_crossover, child i *)
  Definition pmx_child (mine other : list nat) (st en : nat) : res (list nat) :=
    let size := length mine in
    let mid := slice other st en in
    let fix_pos := fun (assigned : list nat) (v0 : nat) =>
      (fix chase (fuel : nat) (v : nat) : option nat :=
         match fuel with
         | O => None
         | S f => if memb v assigned then
                    match index_in other v with Some q => chase f (nth q mine O) | None => None end
                  else Some v end) (S size) v0 in
    let step := fun (st0 : res (list nat * list (nat * nat))) (j : nat) =>
      match st0 with
      | Err e => Err e
      | Ok (assigned, out) =>
          match fix_pos assigned (nth j mine O) with
          | Some v => Ok (v :: assigned, out ++ [(j, v)])
          | None => Err EKey end
      end in
    match fold_left step (seq 0 st ++ seq en (size - en)) (Ok (mid, [])) with
    | Err e => Err e
    | Ok (_, out) =>
        Ok (map (fun j => if (st <=? j) && (j <? en) then nth j other O
                          else match find (fun jv => fst jv =? j) out with Some jv => snd jv | None => O end) (seq 0 size))
    end.
  (* Order.order_crossover, child i *)
  Definition ox_child (mine other : list nat) (st en : nat) : res (list nat) :=
    let size := length mine in
    let mid := slice other st en in
    let step := fun (st0 : res (nat * list (nat * nat))) (j : nat) =>
      match st0 with
      | Err e => Err e
      | Ok (pos, out) =>
          match (fix skip (fuel : nat) (q : nat) : option nat :=
                   match fuel with
                   | O => None
                   | S f => if memb (nth q mine O) mid then skip f ((q + 1) mod size) else Some q end) (S size) pos with
          | Some q => Ok ((q + 1) mod size, out ++ [(j, nth q mine O)])
          | None => Err EIndex end
      end in
    match fold_left step (seq en (size - en) ++ seq 0 st) (Ok (en mod size, [])) with
    | Err e => Err e
    | Ok (_, out) =>
        Ok (map (fun j => if (st <=? j) && (j <? en) then nth j other O
                          else match find (fun jv => fst jv =? j) out with Some jv => snd jv | None => O end) (seq 0 size))
    end.
  Definition cut_pair (size : nat) (r : R) : res (nat * nat * R) :=
    let (l, r1) := sample G size 2 r in
    match l with [a; b] => Ok (Nat.min a b, Nat.max a b, r1) | _ => Err EDraw end.
  (* Cycle.cycle_crossover *)
  Definition cyc_state := (list (option nat) * list (option nat))%type.
  Definition cyc_get (st : cyc_state) (cid idx : nat) : option nat :=
    match nth_error (if cid =? 0 then fst st else snd st) idx with Some o => o | None => Some O end.
  Definition cyc_set (st : cyc_state) (cid idx x : nat) : cyc_state :=
    if cid =? 0 then (set_nth (fst st) idx (Some x), snd st) else (fst st, set_nth (snd st) idx (Some x)).
  Fixpoint cyc_pick (fuel : nat) (pa pb : list nat) (cid pid idx : nat) (st : cyc_state) : cyc_state :=
    match fuel with
    | O => st
    | S f =>
        match cyc_get st cid idx with
        | Some _ => st
        | None =>
            let mine := if pid =? 0 then pa else pb in
            let oth := if pid =? 0 then pb else pa in
            let x := nth idx mine O in let y := nth idx oth O in
            let st1 := cyc_set st cid idx x in
            let st2 := match index_in mine y with Some q => cyc_pick f pa pb cid pid q st1 | None => st1 end in
            cyc_pick f pa pb (1 - cid) (1 - pid) idx st2
        end
    end.
  Definition cycle_children (pa pb : list nat) (r : R) : res (list (list nat) * R) :=
    let size := length pa in
    dor st <- foldi (fun i (_ : nat) (st : cyc_state * R) =>
                match cyc_get (fst st) 0 i with
                | Some _ => Ok st
                | None => let (cid, r1) := pick G 2 (snd st) in
                          Ok (cyc_pick (2 * size + 2) pa pb cid 0 i (fst st), r1)
                end) 0 (seq 0 size) ((map (fun _ => None) pa, map (fun _ => None) pa), r);
    match opt_list (fst (fst st)), opt_list (snd (fst st)) with
    | Some c0, Some c1 => Ok ([c0; c1], snd st)
    | _, _ => Err EType end.

  Inductive permkind := KPmx | KOrder | KCycle.
  Definition permutate (pk : permkind) (pa pb : list nat) (r : R) : res (list (list nat) * R) :=
    match pk with
    | KCycle => cycle_children pa pb r
    | _ =>
        dor (se, r1) <- cut_pair (length pa) r;
        let (st, en) := se in
        let f := match pk with KPmx => pmx_child | _ => ox_child end in
        dor c0 <- f pa pb st en; dor c1 <- f pb pa st en; Ok ([c0; c1], r1)
    end.
  (* None = no permutation point was selected: the parents themselves are returned *)
  Definition permutation (pk : permkind) (w : wheresel) (s : dspec) (x y : sdna) (r : R) : res (option (list sdna) * R) :=
    dor pr <- where_sel w (pp_space s [x; y]) r;
    match fst pr with
    | [] => Ok (None, snd pr)
    | pts =>
        dor o <- foldi (fun (_ : nat) pa (st : list sdna * R) =>
                   match get_at pa x, get_at pa y with
                   | Some cx, Some cy =>
                       dor pp <- permutate pk (map fst cx) (map fst cy) (snd st);
                       (* every value of a proposal is looked up in the parent's own decisions (KeyError when missing);
                          from_dict then validates the child (ValueError when the proposal repeats a value) *)
                       let kids := fun (d : sdna) (cs : list (nat * sdna)) =>
                         map (fun prop => match opt_list (map (fun v => find (fun c => fst c =? v) cs) prop) with
                                          | Some new =>
                                              if nodupb prop && (length prop =? length cs) then
                                                (* from_dict takes the DNA stored under an enclosing choice as a whole: a point that
                                                   is not an element of the root space is shadowed and the child is a copy of the parent *)
                                                match pa with
                                                | PEnd i => match set_end s i new d with Some c => Ok c | None => Err EKey end
                                                | PStep _ _ _ => Ok d end
                                              else Err EValue
                                          | None => Err EKey end) (fst pp) in
                       dor l <- fold_right (fun (x : res sdna) acc => dor c <- x; dor t <- acc; Ok (c :: t)) (Ok []) (kids x cx ++ kids y cy);
                       Ok (fst st ++ l, snd pp)
                   | _, _ => Err EKey end) 0 pts ([], snd pr);
        dor so <- set_order (fst o) (snd o); Ok (Some (fst so), snd so)
    end.
End Ops.
Arguments Skip {R X} m.
Arguments Done {R X} x r.
Arguments Fail {R X} e.

(* EvalOut.v — model of the symbol handling of evaluate() (property C19, clause "intermediate variables"):
   how the injected symbols are assembled (nested pg.coding.context scopes, then global_vars), what a straight-line
   program of name bindings does to them, and which names evaluate(outputs_intermediate=True) reports.
   Environments are Python dicts: association lists in insertion order, keys = name indices, values = object identities.
   The four decisions the code takes are a *plan* regenerated from execution.py (Gen/EvalOutPlan.v).  Definitions only. *)
From Coq Require Import NArith List Bool.
Import ListNotations.
Local Open Scope N_scope.

Definition env := list (N * N).

Definition BUILTINS : N := 0.       (* the key '__builtins__' that exec() adds *)
Definition RESULT : N := 1.         (* the key '__result__' *)
Definition BUILTINS_OBJ : N := 0.   (* identity of the builtins dict *)

Fixpoint lookup (k : N) (e : env) : option N :=
  match e with
  | [] => None
  | (k', v) :: r => if N.eqb k k' then Some v else lookup k r
  end.

(* d[k] = v : an existing key keeps its position, a new one goes last *)
Fixpoint set (k v : N) (e : env) : env :=
  match e with
  | [] => [(k, v)]
  | (k', v') :: r => if N.eqb k k' then (k, v) :: r else (k', v') :: set k v r
  end.

(* del d[k] *)
Definition del (k : N) (e : env) : env := filter (fun kv => negb (N.eqb k (fst kv))) e.

(* d.update(other) *)
Definition update (d other : env) : env := fold_left (fun acc kv => set (fst kv) (snd kv) acc) other d.

Definition keys (e : env) : list N := map fst e.
Definition wf (e : env) : Prop := NoDup (keys e).

Record oplan := {
  gv_over_ctx : bool;        (* ctx = dict(get_context()); ctx.update(global_vars)  — global_vars win over context symbols *)
  inner_over_outer : bool;   (* context(): ctx = get_context(); ctx.update(kwargs)   — an inner context wins over an outer one *)
  skip_builtins : bool;      (* the report loop skips '__builtins__' *)
  changed_only : bool        (* a name is reported iff it is new or bound to another object than the injected one *)
}.

Definition plan_ok (p : oplan) : bool := gv_over_ctx p && inner_over_outer p && skip_builtins p && changed_only p.

(* symbols visible to the program: nested contexts (outermost first), then global_vars *)
Definition context_symbols (p : oplan) (ctxs : list env) : env :=
  fold_left (fun acc c => if inner_over_outer p then update acc c else update c acc) ctxs [].
Definition symbols (p : oplan) (ctxs : list env) (gv : env) : env :=
  let c := context_symbols p ctxs in if gv_over_ctx p then update c gv else update gv c.

(* straight-line programs over names *)
Inductive bstmt :=
| SAssign (x src : N)    (* x = src        : x is bound to the object src is bound to *)
| SNew (x o : N)         (* x = NEW(o)     : x is bound to a new object of identity o *)
| SDel (x : N)           (* del x *)
| SExpr (src : N).       (* src            : an expression statement *)

(* the value of the right-hand side / expression, None = NameError *)
Definition rhs (s : bstmt) (g : env) : option N :=
  match s with
  | SAssign _ src => lookup src g
  | SNew _ o => Some o
  | SExpr src => lookup src g
  | SDel _ => None
  end.

Definition step (g : env) (s : bstmt) : option env :=
  match s with
  | SAssign x src => match lookup src g with Some v => Some (set x v g) | None => None end
  | SNew x o => Some (set x o g)
  | SDel x => match lookup x g with Some _ => Some (del x g) | None => None end
  | SExpr src => match lookup src g with Some _ => Some g | None => None end
  end.

Fixpoint exec (g : env) (p : list bstmt) : option env :=
  match p with
  | [] => Some g
  | s :: r => match step g s with Some g' => exec g' r | None => None end
  end.

(* exec() adds '__builtins__' to the globals it is given *)
Definition add_builtins (g : env) : env :=
  match lookup BUILTINS g with Some _ => g | None => set BUILTINS BUILTINS_OBJ g end.

(* plain execution of the program text on the same symbols *)
Definition plain_env (g0 : env) (p : list bstmt) : option env := exec (add_builtins g0) p.

Definition last_value (g : env) : N := match rev g with [] => BUILTINS_OBJ | (_, v) :: _ => v end.

Definition is_popped (s : bstmt) : bool := match s with SDel _ => false | _ => true end.

(* evaluate(): everything but a trailing expression / assignment is executed; the trailing one is evaluated, bound to
   '__result__' and then to its target *)
Definition final_env (g0 : env) (p : list bstmt) : option env :=
  match rev p with
  | [] => Some g0
  | s :: rbody =>
      if is_popped s then
        match exec (add_builtins g0) (rev rbody) with
        | None => None
        | Some g1 =>
            match rhs s g1 with
            | None => None
            | Some v =>
                let g2 := set RESULT v g1 in
                Some (match s with SAssign x _ | SNew x _ => set x v g2 | _ => g2 end)
            end
        end
      else
        match exec (add_builtins g0) p with
        | None => None
        | Some g1 => Some (set RESULT (last_value g1) g1)
        end
  end.

Definition reported (pl : oplan) (orig : env) (kv : N * N) : bool :=
  negb (skip_builtins pl && N.eqb (fst kv) BUILTINS)
  && (negb (changed_only pl)
      || match lookup (fst kv) orig with Some o => negb (N.eqb o (snd kv)) | None => true end).

Definition report (pl : oplan) (orig final : env) : env := filter (reported pl orig) final.

(* evaluate(code, global_vars=gv, outputs_intermediate=True) inside the contexts ctxs; None = CodeError *)
Definition evaluate_out (pl : oplan) (ctxs : list env) (gv : env) (p : list bstmt) : option env :=
  let g0 := symbols pl ctxs gv in
  match p with
  | [] => Some []
  | _ => match final_env g0 p with Some g => Some (report pl g0 g) | None => None end
  end.

(* GenoRun.v — wire format of the Geno model and [run : tr -> tr] (C11 and C12 share it).

   spec   ::= (point ...)                                   a Space
   point  ::= (0 k (spec ...) dist srt nm (lit ...)) | (1 lo hi nm) | (2 nm)
   nm     ::= ((lkey ...) name?)      lkey ::= (0 (cp ...)) | (1 i) | (2 i n)      name? ::= () | ((cp ...))
   lit    ::= (0 (cp ...)) | (1 z) | (2 f)
   dval   ::= (0) | (1 z) | (2 f) | (3 (cp ...))             None / int / float in 64ths / str
   dna    ::= (dval dna ...)
   sdna   ::= (pdna ...)        pdna ::= (0 (c sdna) ...) | (1 f) | (2 (cp ...))
   quirks ::= (b)

   case ::= (0 spec limit)            -> (size? (dna ...) (dna ...))      space_size, iter (normalized), sweeping
          | (1 quirks spec dna)       -> (validate bind)                   verdicts on arbitrary DNA-shaped input
          | (2 spec sdna)             -> (dna?)                            next_dna of a valid DNA
          | (3 spec (draw ...))       -> (dna leftover)                    random_dna replaying recorded draws
          | (4 dna dna)               -> (cmp?)                            DNA.__cmp__: (-1|0|1) or () for ValueError
          | (5 spec)                  -> (dna)                             first_dna
          | (6 spec sdna)             -> (valid dna)                       valid + normalize (the harness' own spec enumeration is checked with it)
          | (7 spec limit)            -> ((dna ...))                       all_valid, normalized
          | 10..19                                                          C12 views: see GenoViews.v
   draw ::= (0 i ...) sample result | (1 i) randint result | (2 f) uniform result *)
From Coq Require Import ZArith NArith List Bool Arith.
Import ListNotations.
From PG Require Import Common.Tr Model.Geno Model.GenoViews.
Local Open Scope Z_scope.

(* ---- encoders -------------------------------------------------------------------------------- *)
Definition e_dval (v : dval) : tr :=
  match v with
  | VNone => L [I 0]
  | VInt z => L [I 1; I z]
  | VFlt f => L [I 2; I f]
  | VStr s => L [I 3; estr s]
  end.
Fixpoint e_dna (d : dna) : tr := match d with D v cs => L (e_dval v :: map e_dna cs) end.
Definition e_cmp (c : comparison) : tr := I (match c with Lt => -1 | Eq => 0 | Gt => 1 end).

(* ---- decoders -------------------------------------------------------------------------------- *)
Definition d_lkey (t : tr) : option ikey :=
  match t with
  | L [I 0; s] => do s' <- dstr s; Some (KName s')
  | L [I 1; i] => do i' <- dnat i; Some (KIdx i')
  | L [I 2; i; n] => do i' <- dnat i; do n' <- dnat n; Some (KCond i' n')
  | _ => None end.
Definition d_nm (t : tr) : option pname :=
  match t with
  | L [ks; nm] => do ks' <- dlist d_lkey ks; do nm' <- dopt dstr nm; Some (ks', nm')
  | _ => None end.
Definition d_lit (t : tr) : option lit :=
  match t with
  | L [I 0; s] => do s' <- dstr s; Some (LStr s')
  | L [I 1; I z] => Some (LInt z)
  | L [I 2; I f] => Some (LFlt f)
  | _ => None end.
Fixpoint d_spec (fuel : nat) (t : tr) : option dspec :=
  match fuel with O => None | S f =>
    match t with L ps => do es <- dall (d_point f) ps; Some (Space es) | _ => None end end
with d_point (fuel : nat) (t : tr) : option dpoint :=
  match fuel with O => None | S f =>
    match t with
    | L [I 0; k; L cands; dist; srt; nm; lits] =>
        do k' <- dnat k; do cs <- dall (d_spec f) cands; do di <- dbool dist; do sr <- dbool srt;
        do nm' <- d_nm nm; do ls <- dlist d_lit lits; Some (Choices k' cs di sr nm' ls)
    | L [I 1; I lo; I hi; nm] => do nm' <- d_nm nm; Some (FloatP lo hi nm')
    | L [I 2; nm] => do nm' <- d_nm nm; Some (CustomP nm')
    | _ => None
    end end.
Definition d_dval (t : tr) : option dval :=
  match t with
  | L [I 0] => Some VNone
  | L [I 1; I z] => Some (VInt z)
  | L [I 2; I f] => Some (VFlt f)
  | L [I 3; s] => do s' <- dstr s; Some (VStr s')
  | _ => None end.
Fixpoint d_dna (fuel : nat) (t : tr) : option dna :=
  match fuel with O => None | S f =>
    match t with L (v :: kids) => do v' <- d_dval v; do ks <- dall (d_dna f) kids; Some (D v' ks) | _ => None end end.
Fixpoint d_sdna (fuel : nat) (t : tr) : option sdna :=
  match fuel with O => None | S f =>
    match t with L ps => do ds <- dall (d_pdna f) ps; Some (SSpace ds) | _ => None end end
with d_pdna (fuel : nat) (t : tr) : option pdna :=
  match fuel with O => None | S f =>
    match t with
    | L (I 0 :: cs) =>
        do cs' <- dall (fun c => match c with L [i; s] => do i' <- dnat i; do s' <- d_sdna f s; Some (i', s') | _ => None end) cs;
        Some (PChoices cs')
    | L [I 1; I x] => Some (PFloat x)
    | L [I 2; s] => do s' <- dstr s; Some (PCustom s')
    | _ => None
    end end.
Definition d_quirks (t : tr) : option quirks :=
  match t with L [b] => do b' <- dbool b; Some {| q_float_bind_kids := b' |} | _ => None end.

(* ---- the recorded PRNG: the state is the list of draws still to be replayed -------------------- *)
Inductive draw := DSample (l : list nat) | DRandint (i : nat) | DUniform (f : flt).
Definition d_draw (t : tr) : option draw :=
  match t with
  | L (I 0 :: l) => do l' <- dall dnat l; Some (DSample l')
  | L [I 1; i] => do i' <- dnat i; Some (DRandint i')
  | L [I 2; I f] => Some (DUniform f)
  | _ => None end.
Definition rec_sample (n k : nat) (r : list draw) : list nat * list draw :=
  match r with DSample l :: r' => (l, r') | _ => ([], r) end.
Definition rec_randint (n : nat) (r : list draw) : nat * list draw :=
  match r with DRandint i :: r' => (i, r') | _ => (O, r) end.
Definition rec_uniform (lo hi : flt) (r : list draw) : flt * list draw :=
  match r with DUniform f :: r' => (f, r') | _ => (lo, r) end.

Definition FUEL := 60%nat.

Definition run (c : tr) : tr :=
  match c with
  | L [I 0; s; lim] =>
      match d_spec FUEL s, dnat lim with
      | Some sp, Some n =>
          L [eopt eN (space_size sp);
             L (map (fun d => e_dna (normalize d)) (iter sp n));
             L (map (fun d => e_dna (normalize d)) (sweeping sp n None))]
      | _, _ => ebad end
  | L [I 1; q; s; d] =>
      match d_quirks q, d_spec FUEL s, d_dna FUEL d with
      | Some q', Some sp, Some dn =>
          L [ebool (validate sp dn); ebool (match bind q' sp dn with Some _ => true | None => false end)]
      | _, _, _ => ebad end
  | L [I 2; s; d] =>
      match d_spec FUEL s, d_sdna FUEL d with
      | Some sp, Some sd => L [eopt (fun x => e_dna (normalize x)) (next sp sd)]
      | _, _ => ebad end
  | L [I 3; s; dr] =>
      match d_spec FUEL s, dlist d_draw dr with
      | Some sp, Some draws =>
          let (d, rest) := random_dna (list draw) rec_sample rec_randint rec_uniform sp draws in
          L [e_dna (normalize d); enat (length rest)]
      | _, _ => ebad end
  | L [I 4; a; b] =>
      match d_dna FUEL a, d_dna FUEL b with
      | Some x, Some y => L [eopt e_cmp (dna_cmp x y)]
      | _, _ => ebad end
  | L [I 5; s] =>
      match d_spec FUEL s with Some sp => L [e_dna (normalize (first sp))] | None => ebad end
  | L [I 6; s; d] =>
      match d_spec FUEL s, d_sdna FUEL d with
      | Some sp, Some sd => L [ebool (valid sp sd); e_dna (normalize sd)]
      | _, _ => ebad end
  | L [I 7; s; lim] =>
      match d_spec FUEL s, dnat lim with
      | Some sp, Some n => L [L (map (fun d => e_dna (normalize d)) (firstn n (all_valid sp)))]
      | _, _ => ebad end
  | L (I op :: args) => if 10 <=? op then run_views FUEL op args else ebad
  | _ => ebad
  end.

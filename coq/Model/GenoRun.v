(* GenoRun.v — wire format of the Geno model and [run : tr -> tr] (C11 and C12 share it).

   spec   ::= (point ...)                                   a Space
   point  ::= (0 k (spec ...) dist srt nm (lit ...)) | (1 lo hi nm) | (2 nm)
   nm     ::= ((lkey ...) name?)      lkey ::= (0 (cp ...)) | (1 i) | (2 i n)      name? ::= () | ((cp ...))
   lit    ::= (0 (cp ...)) | (1 z) | (2 f)
   dval   ::= (0) | (1 z) | (2 f) | (3 (cp ...))             None / int / float in 64ths / str
   dna    ::= (dval dna ...)
   sdna   ::= (pdna ...)        pdna ::= (0 (c sdna) ...) | (1 f) | (2 (cp ...))
   quirks ::= (b)

   case ::= (0 spec limit)            -> (size? (dna ...) (dna ...))      space_size, iter (normalized), sweeping
          | (1 quirks spec dna)       -> (validate bind)                   verdicts on arbitrary DNA-shaped input
          | (2 spec sdna)             -> (dna?)                            next_dna of a valid DNA
          | (3 spec (draw ...))       -> (dna leftover)                    random_dna replaying recorded draws
          | (4 dna dna)               -> (cmp?)                            DNA.__cmp__: (-1|0|1) or () for ValueError
          | (5 spec)                  -> (dna)                             first_dna
          | (6 spec sdna)             -> (valid dna)                       valid + normalize (the harness' own spec enumeration is checked with it)
          | (7 spec limit)            -> ((dna ...))                       all_valid, normalized
          | 10..19                                                          C12 views: see GenoViews.v
   draw ::= (0 i ...) sample result | (1 i) randint result | (2 f) uniform result *)
From Coq Require Import ZArith NArith List Bool Arith.
Import ListNotations.
From PG Require Import Common.Tr Model.Geno Model.GenoViews.
Local Open Scope Z_scope.

(* ---- encoders -------------------------------------------------------------------------------- *)
Definition e_dval (v : dval) : tr :=
  match v with
  | VNone => L [I 0]
  | VInt z => L [I 1; I z]
  | VFlt f => L [I 2; I f]
  | VStr s => L [I 3; estr s]
  end.
Fixpoint e_dna (d : dna) : tr := match d with D v cs => L (e_dval v :: map e_dna cs) end.
Definition e_cmp (c : comparison) : tr := I (match c with Lt => -1 | Eq => 0 | Gt => 1 end).

(* ---- decoders -------------------------------------------------------------------------------- *)
Definition d_lkey (t : tr) : option ikey :=
  match t with
  | L [I 0; s] => do s' <- dstr s; Some (KName s')
  | L [I 1; i] => do i' <- dnat i; Some (KIdx i')
  | L [I 2; i; n] => do i' <- dnat i; do n' <- dnat n; Some (KCond i' n')
  | _ => None end.
Definition d_nm (t : tr) : option pname :=
  match t with
  | L [ks; nm] => do ks' <- dlist d_lkey ks; do nm' <- dopt dstr nm; Some (ks', nm')
  | _ => None end.
Definition d_lit (t : tr) : option lit :=
  match t with
  | L [I 0; s] => do s' <- dstr s; Some (LStr s')
  | L [I 1; I z] => Some (LInt z)
  | L [I 2; I f] => Some (LFlt f)
  | _ => None end.
Fixpoint d_spec (fuel : nat) (t : tr) : option dspec :=
  match fuel with O => None | S f =>
    match t with L ps => do es <- dall (d_point f) ps; Some (Space es) | _ => None end end
with d_point (fuel : nat) (t : tr) : option dpoint :=
  match fuel with O => None | S f =>
    match t with
    | L [I 0; k; L cands; dist; srt; nm; lits] =>
        do k' <- dnat k; do cs <- dall (d_spec f) cands; do di <- dbool dist; do sr <- dbool srt;
        do nm' <- d_nm nm; do ls <- dlist d_lit lits; Some (Choices k' cs di sr nm' ls)
    | L [I 1; I lo; I hi; nm] => do nm' <- d_nm nm; Some (FloatP lo hi nm')
    | L [I 2; nm] => do nm' <- d_nm nm; Some (CustomP nm')
    | _ => None
    end end.
Definition d_dval (t : tr) : option dval :=
  match t with
  | L [I 0] => Some VNone
  | L [I 1; I z] => Some (VInt z)
  | L [I 2; I f] => Some (VFlt f)
  | L [I 3; s] => do s' <- dstr s; Some (VStr s')
  | _ => None end.
Fixpoint d_dna (fuel : nat) (t : tr) : option dna :=
  match fuel with O => None | S f =>
    match t with L (v :: kids) => do v' <- d_dval v; do ks <- dall (d_dna f) kids; Some (D v' ks) | _ => None end end.
Fixpoint d_sdna (fuel : nat) (t : tr) : option sdna :=
  match fuel with O => None | S f =>
    match t with L ps => do ds <- dall (d_pdna f) ps; Some (SSpace ds) | _ => None end end
with d_pdna (fuel : nat) (t : tr) : option pdna :=
  match fuel with O => None | S f =>
    match t with
    | L (I 0 :: cs) =>
        do cs' <- dall (fun c => match c with L [i; s] => do i' <- dnat i; do s' <- d_sdna f s; Some (i', s') | _ => None end) cs;
        Some (PChoices cs')
    | L [I 1; I x] => Some (PFloat x)
    | L [I 2; s] => do s' <- dstr s; Some (PCustom s')
    | _ => None
    end end.
Definition d_quirks (t : tr) : option quirks :=
  match t with L [b] => do b' <- dbool b; Some {| q_float_bind_kids := b' |} | _ => None end.

(* ---- the recorded PRNG: the state is the list of draws still to be replayed -------------------- *)
Inductive draw := DSample (l : list nat) | DRandint (i : nat) | DUniform (f : flt).
Definition d_draw (t : tr) : option draw :=
  match t with
  | L (I 0 :: l) => do l' <- dall dnat l; Some (DSample l')
  | L [I 1; i] => do i' <- dnat i; Some (DRandint i')
  | L [I 2; I f] => Some (DUniform f)
  | _ => None end.
Definition rec_sample (n k : nat) (r : list draw) : list nat * list draw :=
  match r with DSample l :: r' => (l, r') | _ => ([], r) end.
Definition rec_randint (n : nat) (r : list draw) : nat * list draw :=
  match r with DRandint i :: r' => (i, r') | _ => (O, r) end.
Definition rec_uniform (lo hi : flt) (r : list draw) : flt * list draw :=
  match r with DUniform f :: r' => (f, r') | _ => (lo, r) end.

(* ---- C12: encoders / decoders of the views ------------------------------------------------------
   nest   ::= (0 dval) | (1 nest ...) | (2 nest ...)                       scalar / list / tuple
   dkey   ::= (0 lkey ...) | (1 (cp ...)) | (2 i ...)                       id / name / spec address
   dleaf  ::= (0) | (1 dval) | (2 dna) | (3 i n) | (4 i n lit) | (5 lit)
   dvalue ::= (0 dleaf) | (1 dleaf ...)         dict ::= ((dkey dvalue) ...)
   bdna   ::= (dval spec? bdna ...)             spec? ::= () | ((i ...))
   case ::= (10 lossy spec sdna)                 -> (numbers nested compact (value compact...))
          | (11 quirks spec (dval ...))          -> (bdna?)          from_numbers
          | (12 nest)                            -> (dna?)           DNA(nested value)
          | (13 quirks spec sdna kt vt mc inact) -> (dict?)          to_dict of the bound DNA
          | (14 quirks spec dict ints_as_lits)   -> (bdna?)          from_dict
          | (15 quirks spec sdna)                -> (dict ((name dvalue) ...))   _decision_by_id, named_decisions
          | (16 quirks spec dna)                 -> (bdna?)          use_spec, with the spec bound to every node
          | (17 spec)                            -> ((addr id name? sub?) ...)   decision_points with their ids
          | (18 dval (nest ...))                 -> (dna?)           verbose JSON form *)
Fixpoint e_nest (x : nest) : tr :=
  match x with NV v => L [I 0; e_dval v] | NL l => L (I 1 :: map e_nest l) | NT l => L (I 2 :: map e_nest l) end.
Fixpoint d_nest (fuel : nat) (t : tr) : option nest :=
  match fuel with O => None | S f =>
    match t with
    | L [I 0; v] => do v' <- d_dval v; Some (NV v')
    | L (I 1 :: l) => do l' <- dall (d_nest f) l; Some (NL l')
    | L (I 2 :: l) => do l' <- dall (d_nest f) l; Some (NT l')
    | _ => None end end.
Definition e_ikey (k : ikey) : tr :=
  match k with KName s => L [I 0; estr s] | KIdx i => L [I 1; enat i] | KCond i n => L [I 2; enat i; enat n] end.
Definition e_lit (l : lit) : tr := match l with LStr s => L [I 0; estr s] | LInt z => L [I 1; I z] | LFlt f => L [I 2; I f] end.
Definition e_dkey (k : dkey) : tr :=
  match k with DKId i => L (I 0 :: map e_ikey i) | DKName s => L [I 1; estr s] | DKSpec a => L (I 2 :: map enat a) end.
Definition d_dkey (t : tr) : option dkey :=
  match t with
  | L (I 0 :: l) => do l' <- dall d_lkey l; Some (DKId l')
  | L [I 1; s] => do s' <- dstr s; Some (DKName s')
  | L (I 2 :: l) => do l' <- dall dnat l; Some (DKSpec l')
  | _ => None end.
Definition e_dleaf (x : dleaf) : tr :=
  match x with
  | LfNone => L [I 0] | LfV v => L [I 1; e_dval v] | LfDna d => L [I 2; e_dna d]
  | LfChoice i n => L [I 3; enat i; enat n] | LfChoiceLit i n l => L [I 4; enat i; enat n; e_lit l] | LfLit l => L [I 5; e_lit l] end.
Definition d_dleaf (t : tr) : option dleaf :=
  match t with
  | L [I 0] => Some LfNone
  | L [I 1; v] => do v' <- d_dval v; Some (LfV v')
  | L [I 2; d] => do d' <- d_dna 60 d; Some (LfDna d')
  | L [I 3; i; n] => do i' <- dnat i; do n' <- dnat n; Some (LfChoice i' n')
  | L [I 4; i; n; l] => do i' <- dnat i; do n' <- dnat n; do l' <- d_lit l; Some (LfChoiceLit i' n' l')
  | L [I 5; l] => do l' <- d_lit l; Some (LfLit l')
  | _ => None end.
Definition e_dvalue (v : dvalue) : tr := match v with DS x => L [I 0; e_dleaf x] | DL l => L (I 1 :: map e_dleaf l) end.
Definition d_dvalue (t : tr) : option dvalue :=
  match t with
  | L [I 0; x] => do x' <- d_dleaf x; Some (DS x')
  | L (I 1 :: l) => do l' <- dall d_dleaf l; Some (DL l')
  | _ => None end.
Definition e_dict (d : dict) : tr := L (map (fun kv => L [e_dkey (fst kv); e_dvalue (snd kv)]) d).
Definition d_dict (t : tr) : option dict := dlist (dpair d_dkey d_dvalue) t.
Fixpoint e_bdna (b : bdna) : tr :=
  match b with B v sp cs => L (e_dval v :: eopt (fun a => L (map enat a)) sp :: map e_bdna cs) end.
Definition d_kt (t : tr) : option key_type :=
  match t with I 0 => Some KT_id | I 1 => Some KT_name_or_id | I 2 => Some KT_dna_spec | _ => None end.
Definition d_vt (t : tr) : option value_type :=
  match t with I 0 => Some VT_value | I 1 => Some VT_dna | I 2 => Some VT_choice | I 3 => Some VT_literal | I 4 => Some VT_choice_and_literal | _ => None end.
Definition d_mc (t : tr) : option mc_key :=
  match t with I 0 => Some MC_subchoice | I 1 => Some MC_parent | I 2 => Some MC_both | _ => None end.
Definition e_info (i : dpinfo) : tr :=
  L [L (map enat (i_addr i)); L (map e_ikey (i_id i)); eopt estr (i_name i);
     eopt (fun x => enat (fst (fst x))) (i_sub i)].

Definition run_views (op : Z) (args : list tr) : tr :=
  match op, args with
  | 10, [lossy; s; d] =>
      match dbool lossy, d_spec 60 s, d_sdna 60 d with
      | Some lo, Some sp, Some sd =>
          let x := normalize sd in
          L [L (map e_dval (to_numbers x)); e_nest (to_nested lo x); e_nest (to_compact x);
             L (e_dval (fst (to_verbose x)) :: map e_nest (snd (to_verbose x)))]
      | _, _, _ => ebad end
  | 11, [q; s; l] =>
      match d_quirks q, d_spec 60 s, dlist d_dval l with
      | Some q', Some sp, Some l' => L [eopt e_bdna (from_numbers q' sp l')]
      | _, _, _ => ebad end
  | 12, [x] => match d_nest 60 x with Some x' => L [eopt e_dna (parse_nest 60 x')] | None => ebad end
  | 13, [q; s; d; kt; vt; mc; ina] =>
      match d_quirks q, d_spec 60 s, d_sdna 60 d with
      | Some q', Some sp, Some sd =>
          match d_kt kt, d_vt vt, d_mc mc, dbool ina with
          | Some kt', Some vt', Some mc', Some ina' =>
              L [eopt (fun b => e_dict (to_dict (decision_points sp) kt' vt' mc' ina' b)) (bind q' sp (normalize sd))]
          | _, _, _, _ => ebad end
      | _, _, _ => ebad end
  | 14, [q; s; d; il] =>
      match d_quirks q, d_spec 60 s, d_dict d, dbool il with
      | Some q', Some sp, Some d', Some il' => L [eopt e_bdna (from_dict il' q' sp d')]
      | _, _, _, _ => ebad end
  | 15, [q; s; d] =>
      match d_quirks q, d_spec 60 s, d_sdna 60 d with
      | Some q', Some sp, Some sd =>
          match bind q' sp (normalize sd) with
          | Some b => L [e_dict (decision_by_id (decision_points sp) b);
                         L (map (fun kv => L [estr (fst kv); e_dvalue (snd kv)]) (named_decisions (decision_points sp) b))]
          | None => L [] end
      | _, _, _ => ebad end
  | 16, [q; s; d] =>
      match d_quirks q, d_spec 60 s, d_dna 60 d with
      | Some q', Some sp, Some dn => L [eopt e_bdna (bind q' sp dn)]
      | _, _, _ => ebad end
  | 17, [s] => match d_spec 60 s with Some sp => L [L (map e_info (decision_points sp))] | None => ebad end
  | 18, [v; l] =>
      match d_dval v, dlist (d_nest 60) l with
      | Some v', Some l' => L [eopt e_dna (parse_verbose 60 (v', l'))]
      | _, _ => ebad end
  | _, _ => ebad
  end.

Definition FUEL := 60%nat.

Definition run (c : tr) : tr :=
  match c with
  | L [I 0; s; lim] =>
      match d_spec FUEL s, dnat lim with
      | Some sp, Some n =>
          L [eopt eN (space_size sp);
             L (map (fun d => e_dna (normalize d)) (iter sp n));
             L (map (fun d => e_dna (normalize d)) (sweeping sp n None))]
      | _, _ => ebad end
  | L [I 1; q; s; d] =>
      match d_quirks q, d_spec FUEL s, d_dna FUEL d with
      | Some q', Some sp, Some dn =>
          L [ebool (validate sp dn); ebool (match bind q' sp dn with Some _ => true | None => false end)]
      | _, _, _ => ebad end
  | L [I 2; s; d] =>
      match d_spec FUEL s, d_sdna FUEL d with
      | Some sp, Some sd => L [eopt (fun x => e_dna (normalize x)) (next sp sd)]
      | _, _ => ebad end
  | L [I 3; s; dr] =>
      match d_spec FUEL s, dlist d_draw dr with
      | Some sp, Some draws =>
          let (d, rest) := random_dna (list draw) rec_sample rec_randint rec_uniform sp draws in
          L [e_dna (normalize d); enat (length rest)]
      | _, _ => ebad end
  | L [I 4; a; b] =>
      match d_dna FUEL a, d_dna FUEL b with
      | Some x, Some y => L [eopt e_cmp (dna_cmp x y)]
      | _, _ => ebad end
  | L [I 5; s] =>
      match d_spec FUEL s with Some sp => L [e_dna (normalize (first sp))] | None => ebad end
  | L [I 6; s; d] =>
      match d_spec FUEL s, d_sdna FUEL d with
      | Some sp, Some sd => L [ebool (valid sp sd); e_dna (normalize sd)]
      | _, _ => ebad end
  | L [I 7; s; lim] =>
      match d_spec FUEL s, dnat lim with
      | Some sp, Some n => L [L (map (fun d => e_dna (normalize d)) (firstn n (all_valid sp)))]
      | _, _ => ebad end
  | L (I op :: args) => if 10 <=? op then run_views op args else ebad
  | _ => ebad
  end.

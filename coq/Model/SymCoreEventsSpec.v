(* SymCoreEventsSpec.v -- what the freshness theorems are stated with (definitions only): the contents of a node, the derived facts
   as plain structural functions of the contents, validity of the memoised tables. *)
From Coq Require Import ZArith NArith List Bool.
Import ListNotations.
From PG Require Import Model.SymCoreDefs Model.SymCoreOps Model.SymCoreEvents.

(* what a node holds, with the identities of the symbolic nodes below it but without stored paths, parent links and flags *)
Inductive ct : Type := CL (l : leaf) | CN (i : N) (k : kind) (its : list (key * ct)).
Fixpoint cont (n : node) : ct :=
  match n with
  | Leaf l => CL l
  | Node i k _ _ _ its => CN i k (map (fun kv => (fst kv, cont (snd kv))) its)
  end.

(* the facts, computed from the current contents without any memo *)
Fixpoint val_pure (n : node) : bool :=
  match n with
  | Leaf l => leaf_pure l
  | Node _ _ _ _ _ its => existsb (fun kv => val_pure (snd kv)) its
  end.
Section ValGen.
Variable lp : kind -> key -> leaf -> list (key * mv).
Variable rc : kind -> bool.
Fixpoint val_gen (n : node) : mv :=
  match n with
  | Leaf _ => MSub []
  | Node _ k _ _ _ its =>
      MSub (flat_map (fun kv =>
                        match snd kv with
                        | Leaf lf => lp k (fst kv) lf
                        | Node _ _ _ _ _ _ =>
                            if rc k then (if mv_nonempty (val_gen (snd kv)) then [(fst kv, val_gen (snd kv))] else [])
                            else [(fst kv, MRef)]
                        end) its)
  end.
End ValGen.
Definition val_miss : node -> mv := val_gen miss_leaf (fun _ => true).
Definition val_nond : node -> mv := val_gen nond_leaf (fun k => match k with KObj _ => false | _ => true end).

(* a memo table is valid for a node when the value it holds for that node, if any, is the value of the current contents *)
Definition ok_tbl {A} (val : node -> A) (t : list (N * A)) (n : node) : Prop :=
  forall v, lookup (nid0 n) t = Some v -> v = val n.
Definition valid (c : caches) (n : node) : Prop :=
  ok_tbl val_pure (t_pure c) n /\ ok_tbl val_miss (t_miss c) n /\ ok_tbl val_nond (t_nond c) n.
Definition dom_below {A} (b : N) (t : list (N * A)) : Prop := forall i v, lookup i t = Some v -> (i < b)%N.
(* the invariant: every memoised fact of every live node is the fact of its current contents *)
Definition Fresh (xs : xstate) : Prop :=
  (forall n, In n (live_nodes (x_st xs)) -> valid (x_c xs) n) /\
  dom_below (next_id (x_st xs)) (t_pure (x_c xs)) /\ dom_below (next_id (x_st xs)) (t_miss (x_c xs)) /\
  dom_below (next_id (x_st xs)) (t_nond (x_c xs)).
(* what a node reports when asked *)
Definition report_pure (c : caches) (n : node) : bool := fst (q_pure (t_pure c) n).
Definition report_miss (c : caches) (n : node) : mv := fst (q_miss (t_miss c) n).
Definition report_nond (c : caches) (n : node) : mv := fst (q_nond (t_nond c) n).
Definition report_partial (c : caches) (n : node) : bool := mv_nonempty (report_miss c n).
Definition report_deterministic (n : node) : bool := negb (nondet_below n).     (* not memoised *)

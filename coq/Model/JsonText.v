(* JsonText.v — model of the JSON text layer that to_json_str / from_json_str delegate to: json.dumps with the
   default settings (ensure_ascii, separators ", " and ": ") and json.loads (strict).  Definitions only.
   Finite floats are printed / read by parameters (Python's float repr / float()): everything else is concrete. *)
From Coq Require Import ZArith NArith List Bool.
Import ListNotations.
From PG Require Import Common.Tr Model.Json.
Local Open Scope N_scope.

(* --- strings: py_encode_basestring_ascii ---------------------------------------------------------------- *)
Definition hex_digit (n : N) : N := if n <? 10 then 48 + n else 87 + n.
Definition hex4 (c : N) : str :=
  [hex_digit (c / 4096); hex_digit ((c / 256) mod 16); hex_digit ((c / 16) mod 16); hex_digit (c mod 16)].
Definition uesc (c : N) : str := 92 :: 117 :: hex4 c.
Definition esc_char (c : N) : str :=
  if c =? 34 then [92; 34] else if c =? 92 then [92; 92] else if c =? 10 then [92; 110] else if c =? 13 then [92; 114]
  else if c =? 9 then [92; 116] else if c =? 8 then [92; 98] else if c =? 12 then [92; 102]
  else if (32 <=? c) && (c <=? 126) then [c]
  else if c <? 65536 then uesc c
  else uesc (55296 + (c - 65536) / 1024) ++ uesc (56320 + (c - 65536) mod 1024).
Definition esc_str (s : str) : str := concat (map esc_char s).
Definition dump_str (s : str) : str := 34 :: esc_str s ++ [34].

Definition t_null : str := [110; 117; 108; 108].
Definition t_true : str := [116; 114; 117; 101].
Definition t_false : str := [102; 97; 108; 115; 101].
Definition t_nan : str := [78; 97; 78].
Definition t_inf : str := [73; 110; 102; 105; 110; 105; 116; 121].
Definition t_ninf : str := 45 :: t_inf.

Definition dump_items (l : list str) : str :=
  match l with
  | [] => []
  | x :: r => x ++ concat (map (fun y => 44 :: 32 :: y) r)
  end.
(* json.dumps turns non-str keys into str: int -> str(int), True -> 'true' *)
Definition dump_key (k : key) : str :=
  match k with
  | KS s => dump_str s
  | KI z => dump_str (int_str z)
  | KB b => dump_str (if b then t_true else t_false)
  end.

(* --- the domain of the text layer: Python strings hold code points below 0x110000 ------------------------------ *)
Definition valid_cp (c : N) : bool := c <? 1114112.
Fixpoint cps_ok (j : jv) : bool :=
  match j with
  | JStr s => forallb valid_cp s
  | JList l => forallb cps_ok l
  | JDict d => forallb (fun kv => match fst kv with KS s => forallb valid_cp s | _ => true end && cps_ok (snd kv)) d
  | _ => true
  end.

Fixpoint pv_cps_ok (v : pv) : bool :=
  match v with
  | PStr s => forallb valid_cp s
  | PList l | PTuple l => forallb pv_cps_ok l
  | PDict d => forallb (fun kv => match fst kv with KS s => forallb valid_cp s | _ => true end && pv_cps_ok (snd kv)) d
  | PObj c fs => forallb valid_cp c && forallb (fun kv => forallb valid_cp (fst kv) && pv_cps_ok (snd kv)) fs
  | _ => true
  end.
(* no finite float inside (NaN and the infinities are printed literally) *)
Definition fl_free (f : fl) : bool := match f with FFin _ _ | FNegZero => false | _ => true end.
Fixpoint pv_nofloat (v : pv) : bool :=
  match v with
  | PFloat f => fl_free f
  | PList l | PTuple l => forallb pv_nofloat l
  | PDict d => forallb (fun kv => pv_nofloat (snd kv)) d
  | PObj _ fs => forallb (fun kv => pv_nofloat (snd kv)) fs
  | _ => true
  end.
Fixpoint jv_nofloat (j : jv) : bool :=
  match j with
  | JFloat f => fl_free f
  | JList l => forallb jv_nofloat l
  | JDict d => forallb (fun kv => jv_nofloat (snd kv)) d
  | _ => true
  end.

Section Text.
  Variable float_repr : Z -> Z -> str.           (* repr of the finite float m / 2^e *)
  Variable float_repr_negzero : str.             (* "-0.0" *)
  Variable parse_float_tok : str -> option fl.   (* float(token) for a token with a fraction or an exponent *)

  Definition dump_float (f : fl) : str :=
    match f with
    | FFin m e => float_repr m e
    | FNan => t_nan | FPInf => t_inf | FNInf => t_ninf
    | FNegZero => float_repr_negzero
    end.

  Fixpoint dumps (j : jv) : str :=
    match j with
    | JNull => t_null
    | JBool b => if b then t_true else t_false
    | JInt z => int_str z
    | JFloat f => dump_float f
    | JStr s => dump_str s
    | JList l => 91 :: dump_items (map dumps l) ++ [93]
    | JDict d => 123 :: dump_items (map (fun kv => dump_key (fst kv) ++ 58 :: 32 :: dumps (snd kv)) d) ++ [125]
    end.

  (* --- json.loads ------------------------------------------------------------------------------------------ *)
  Definition is_ws (c : N) : bool := (c =? 32) || (c =? 9) || (c =? 10) || (c =? 13).
  Fixpoint skip_ws (s : str) : str :=
    match s with
    | c :: r => if is_ws c then skip_ws r else s
    | [] => []
    end.
  Definition hex_val (c : N) : option N :=
    if (48 <=? c) && (c <=? 57) then Some (c - 48)
    else if (97 <=? c) && (c <=? 102) then Some (c - 87)
    else if (65 <=? c) && (c <=? 70) then Some (c - 55)
    else None.
  Definition parse_hex4 (s : str) : option (N * str) :=
    match s with
    | a :: b :: c :: d :: r =>
        match hex_val a, hex_val b, hex_val c, hex_val d with
        | Some x, Some y, Some z, Some w => Some (((x * 16 + y) * 16 + z) * 16 + w, r)
        | _, _, _, _ => None
        end
    | _ => None
    end.
  Definition peek_low (s : str) : option (N * str) :=
    match s with
    | a :: b :: r =>
        if (a =? 92) && (b =? 117) then
          match parse_hex4 r with
          | Some (v, r') => if is_low v then Some (v, r') else None
          | None => None
          end
        else None
    | _ => None
    end.
  Definition simple_escape (e : N) : option N :=
    if e =? 34 then Some 34 else if e =? 92 then Some 92 else if e =? 47 then Some 47 else if e =? 98 then Some 8
    else if e =? 102 then Some 12 else if e =? 110 then Some 10 else if e =? 114 then Some 13 else if e =? 116 then Some 9
    else None.
  Definition cons_res (c : N) (r : option (str * str)) : option (str * str) :=
    match r with Some (x, rest) => Some (c :: x, rest) | None => None end.
  (* the characters of a string literal after the opening quote *)
  Fixpoint parse_chars (fuel : nat) (s : str) : option (str * str) :=
    match fuel with
    | O => None
    | S f =>
      match s with
      | [] => None
      | c :: r =>
          if c =? 34 then Some ([], r)
          else if c =? 92 then
            match r with
            | [] => None
            | e :: r1 =>
                if e =? 117 then
                  match parse_hex4 r1 with
                  | None => None
                  | Some (v, r2) =>
                      if is_high v then
                        match peek_low r2 with
                        | Some (lo, r3) => cons_res (65536 + (v - 55296) * 1024 + (lo - 56320)) (parse_chars f r3)
                        | None => cons_res v (parse_chars f r2)
                        end
                      else cons_res v (parse_chars f r2)
                  end
                else match simple_escape e with
                     | Some d => cons_res d (parse_chars f r1)
                     | None => None
                     end
            end
          else if c <? 32 then None                       (* strict: raw control character *)
          else cons_res c (parse_chars f r)
      end
    end.
  Definition parse_string (r : str) : option (str * str) := parse_chars (S (length r)) r.

  (* numbers: the maximal run of number characters; digits only -> int, otherwise float(token) *)
  Definition is_digit (c : N) : bool := (48 <=? c) && (c <=? 57).
  Definition num_char (c : N) : bool := is_digit c || (c =? 43) || (c =? 45) || (c =? 46) || (c =? 69) || (c =? 101).
  Fixpoint span_num (s : str) : str * str :=
    match s with
    | c :: r => if num_char c then let (t, rest) := span_num r in (c :: t, rest) else ([], s)
    | [] => ([], [])
    end.
  Definition digits_ok (d : str) : bool :=          (* 0 | [1-9][0-9]* *)
    match d with
    | [] => false
    | c :: r => forallb is_digit d && (negb (c =? 48) || match r with [] => true | _ => false end)
    end.
  Definition int_token (t : str) : bool :=
    match t with
    | c :: d => if c =? 45 then digits_ok d else digits_ok t
    | [] => false
    end.
  Definition parse_number (t : str) : option jv :=
    if int_token t then option_map JInt (parse_int t) else option_map JFloat (parse_float_tok t).

  Definition parse_atom (s : str) : option (jv * str) :=
    match strip_prefix t_null s with Some r => Some (JNull, r) | None =>
    match strip_prefix t_true s with Some r => Some (JBool true, r) | None =>
    match strip_prefix t_false s with Some r => Some (JBool false, r) | None =>
    match strip_prefix t_nan s with Some r => Some (JFloat FNan, r) | None =>
    match strip_prefix t_inf s with Some r => Some (JFloat FPInf, r) | None =>
    match strip_prefix t_ninf s with Some r => Some (JFloat FNInf, r) | None =>
      let (t, rest) := span_num s in
      match t with
      | [] => None
      | _ => match parse_number t with Some j => Some (j, rest) | None => None end
      end
    end end end end end end.

  Fixpoint parse_value (fuel : nat) (s : str) : option (jv * str) :=
    match fuel with
    | O => None
    | S f =>
      match skip_ws s with
      | [] => None
      | c :: r =>
          if c =? 34 then match parse_string r with Some (x, r') => Some (JStr x, r') | None => None end
          else if c =? 91 then
            match skip_ws r with
            | c2 :: r2 => if c2 =? 93 then Some (JList [], r2)
                          else match parse_elems f r with Some (l, r') => Some (JList l, r') | None => None end
            | [] => None
            end
          else if c =? 123 then
            match skip_ws r with
            | c2 :: r2 => if c2 =? 125 then Some (JDict [], r2)
                          else match parse_members f r with Some (d, r') => Some (JDict (dict_of_pairs d), r') | None => None end
            | [] => None
            end
          else parse_atom (c :: r)
      end
    end
  with parse_elems (fuel : nat) (s : str) : option (list jv * str) :=
    match fuel with
    | O => None
    | S f =>
      match parse_value f s with
      | None => None
      | Some (v, r) =>
          match skip_ws r with
          | c :: r' => if c =? 44 then match parse_elems f r' with Some (l, r'') => Some (v :: l, r'') | None => None end
                       else if c =? 93 then Some ([v], r') else None
          | [] => None
          end
      end
    end
  with parse_members (fuel : nat) (s : str) : option (list (key * jv) * str) :=
    match fuel with
    | O => None
    | S f =>
      match skip_ws s with
      | c :: r =>
          if c =? 34 then
            match parse_string r with
            | None => None
            | Some (k, r1) =>
                match skip_ws r1 with
                | c2 :: r2 =>
                    if c2 =? 58 then
                      match parse_value f r2 with
                      | None => None
                      | Some (v, r3) =>
                          match skip_ws r3 with
                          | c3 :: r4 =>
                              if c3 =? 44 then match parse_members f r4 with Some (d, r5) => Some ((KS k, v) :: d, r5) | None => None end
                              else if c3 =? 125 then Some ([(KS k, v)], r4) else None
                          | [] => None
                          end
                      end
                    else None
                | [] => None
                end
            end
          else None
      | [] => None
      end
    end.

  (* json.loads: one value, nothing but whitespace after it *)
  Definition loads (s : str) : option jv :=
    match parse_value (S (length s)) s with
    | Some (j, r) => match skip_ws r with [] => Some j | _ => None end
    | None => None
    end.
End Text.

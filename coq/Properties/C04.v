(* Property C04 — value-spec algebra is sound: idempotent apply, compatibility / extension narrow.
   Only statements and [exact]; proofs are in Proofs/Typing*.v.  Model: Model/Typing.v.

   Reading of the property used here (see design/C04.md): "a value of a spec" is a value the spec
   returns unchanged ([conforms s v := apply false s v = Ok v]; by idempotence these are exactly
   the values apply returns), without MISSING_VALUE inside ([total]).  The literal reading over
   every *input* a spec accepts is refuted below (a sender completes or replaces its input from
   its own default / frozen value). *)
From PG Require Import Common.Tactics Model.Typing Proofs.TypingBasics Proofs.TypingApply
                       Proofs.TypingCompat Proofs.TypingExtend Proofs.TypingDict Proofs.TypingApplyDict
                       Proofs.TypingCompatDict Proofs.TypingUnion Proofs.TypingUnionCompat Proofs.TypingTheorems
                       Proofs.TypingExtendFrozen Proofs.TypingUnionExtend Proofs.TypingExtendDict
                       Proofs.TypingPyEq Proofs.TypingExtendFrozenBase Proofs.TypingUnionChild.
Local Open Scope Z_scope.

(* Applying a spec to a value it accepts yields a value it accepts again and maps to itself:
   every spec class — Bool/Int/Float/Str/Enum/Object/Any, List, Tuple (fixed and variable), Dict
   (schema-less, const keys, StrKey() field; keys distinct as in any Python dict) and Union — with
   any ranges, sizes, flags (noneable, default, frozen), nesting, allow_partial or not, provided
   the candidates of every Union are not frozen, not Unions themselves and have a value type
   ([union_plain], decidable; a spec without Union satisfies it).  Without that proviso the
   statement is false (next theorem). *)
Theorem C04_apply_idempotent_partial : forall s, union_plain s = true -> keys_ok s = true ->
  forall p v v', apply p s v = Ok v' -> apply p s v' = Ok v'.
Proof. exact apply_idempotent_plain. Qed.
Print Assumptions C04_apply_idempotent_partial.

(* Union.apply is not idempotent in general (open finding): the accepting candidate's frozen value
   is dispatched to another candidate the second time. *)
Theorem C04_apply_idempotent_union_refuted :
  exists s v v', apply false s v = Ok v' /\ apply false s v' = Err ValueErr.
Proof. exact union_idempotence_refuted. Qed.
Print Assumptions C04_apply_idempotent_union_refuted.

(* A spec's own default is acceptable to it: the constructors store what apply (allow_partial)
   returns for the given default, then set the frozen flag.  Same fragment. *)
Theorem C04_default_acceptable_partial : forall s d d' fz,
  union_plain s = true -> keys_ok s = true ->
  apply true (unfreeze s) d = Ok d' ->
  apply true (with_mods s (Mods (noneable (mods_of s)) (Some d') fz)) d' = Ok d'.
Proof. exact default_acceptable_plain. Qed.
Print Assumptions C04_default_acceptable_partial.

(* If a declares itself compatible with b, every value of b is accepted by a.  With every quirk
   flag off (the repaired behaviour), for every receiver a without Union inside (all other classes
   incl. Dict schemas); the sender b is arbitrary (its schemas have distinct keys). *)
Theorem C04_compat_sound_partial : forall q a b,
  no_quirks q -> no_union a = true -> wf a -> wf b -> keys_ok b = true ->
  compat q a b = true ->
  forall v, total v = true -> conforms b v -> accepts a v.
Proof. intros q a b NQ NU. exact (compat_sound q NQ a NU b). Qed.
Print Assumptions C04_compat_sound_partial.

(* What the current code does (flag on): each open finding refutes the statement. *)
Theorem C04_compat_list_min_size_refuted :
  exists a b v, compat (Quirks true false false false false) a b = true /\ wf a /\ wf b /\
                total v = true /\ conforms b v /\ apply false a v = Err ValueErr.
Proof. exact list_min_refuted. Qed.
Print Assumptions C04_compat_list_min_size_refuted.

Theorem C04_compat_frozen_receiver_refuted :
  exists a b v, compat (Quirks false true false false false) a b = true /\ wf a /\ wf b /\
                total v = true /\ conforms b v /\ apply false a v = Err ValueErr.
Proof. exact frozen_receiver_refuted. Qed.
Print Assumptions C04_compat_frozen_receiver_refuted.

Theorem C04_compat_enum_frozen_shortcut_refuted :
  exists a b v, compat (Quirks false false true false false) a b = true /\ wf a /\ wf b /\
                total v = true /\ conforms b v /\ apply false a v = Err TypeErr.
Proof. exact enum_shortcut_refuted. Qed.
Print Assumptions C04_compat_enum_frozen_shortcut_refuted.

Theorem C04_compat_enum_subset_refuted :
  exists a b v, compat (Quirks false false false true false) a b = true /\ wf a /\ wf b /\
                total v = true /\ conforms b v /\ apply false a v = Err TypeErr.
Proof. exact enum_subset_refuted. Qed.
Print Assumptions C04_compat_enum_subset_refuted.

(* A Union receiver is unsound whatever the flags (open finding without a flag). *)
Theorem C04_compat_union_receiver_refuted :
  exists a b v, compat noq a b = true /\ wf a /\ wf b /\
                total v = true /\ conforms b v /\ apply false a v = Err ValueErr.
Proof. exact union_receiver_refuted. Qed.
Print Assumptions C04_compat_union_receiver_refuted.

(* The literal reading over inputs fails by design. *)
Theorem C04_compat_inputs_refuted :
  exists a b v, compat noq a b = true /\ wf a /\ wf b /\ accepts b v /\ apply false a v = Err ValueErr.
Proof. exact literal_reading_refuted. Qed.
Print Assumptions C04_compat_inputs_refuted.

(* If c successfully extends base b, every value of the extended spec is accepted by b and b is
   compatible with it.  Proved for a child without frozen / Union / Dict-schema parts and a base
   without Union / Dict schema ([good], [base_ok]): Bool/Int/Float/Str/Enum/Object/Any/Dict() and
   List/Tuple (all four fixed/variable cases, incl. sizes that meet) over them, any ranges, sizes,
   Enum candidates, noneable flags, defaults and nesting.  Missing: frozen children, Dict schemas
   (see the shared-field corollary below), Union. *)
Theorem C04_extend_narrows_partial : forall q c b c',
  no_quirks q -> good c -> base_ok b -> wf b ->
  extend q c b = Ok c' ->
  (forall v, total v = true -> conforms c' v -> accepts b v) /\ compat q b c' = true.
Proof. exact extend_narrows_seq. Qed.
Print Assumptions C04_extend_narrows_partial.

Theorem C04_extend_enum_base_refuted :
  exists c b c', extend (Quirks false false false false true) c b = Ok c' /\
                 compat (Quirks false false false false true) b c' = false.
Proof. exact enum_base_refuted. Qed.
Print Assumptions C04_extend_enum_base_refuted.

Theorem C04_extend_union_base_refuted :
  exists c b c' v, extend noq c b = Ok c' /\ conforms c' v /\ total v = true /\ apply false b v = Err ValueErr.
Proof. exact union_base_refuted. Qed.
Print Assumptions C04_extend_union_base_refuted.

(* Schema inheritance (Schema.extend): for a field the two schemas share, the merged schema keeps
   the child's field extended over the base's, the base field is compatible with it, and every
   value of the extended field is accepted by the base field.  (Field specs in the fragment of
   C04_extend_narrows_partial.) *)
Theorem C04_schema_extend_shared_fields_partial : forall q bfs fs fs',
  no_quirks q -> keys_distinct fs = true ->
  fields_extend (extend_in q) bfs fs = Ok fs' ->
  forall k sc sb, In (k, sc) fs -> field_of k bfs = Some sb ->
  good sc -> base_ok sb -> wf sb ->
  exists sc', field_of k (merged_schema bfs fs') = Some sc' /\
              extend_in q sc sb = Ok sc' /\ compat q sb sc' = true /\
              (forall v, total v = true -> conforms sc' v -> accepts sb v).
Proof. exact schema_extend_shared_fields. Qed.
Print Assumptions C04_schema_extend_shared_fields_partial.

(* The hypothesis [wf] of the theorems above is decidable; the harness evaluates [wfb], [keys_ok],
   [sizes_ok] and [enums_ok] (model run) on every spec the constructors build and on every spec an extension
   returns, so the theorems apply to the states the library actually produces. *)
Theorem C04_wf_decidable : forall s, wfb s = true -> wf s.
Proof. exact wfb_wf. Qed.
Print Assumptions C04_wf_decidable.

(* The same with frozen children: the child c, or any part of it, may be frozen (its frozen value
   is re-validated against the narrowed spec; a frozen child on an Enum base becomes a frozen Enum
   over the base's candidates); the base is not frozen ([basef]).  Child without Union / Dict
   schema, base without Union / Dict schema. *)
Theorem C04_extend_narrows_frozen_partial : forall q c b c',
  no_quirks q -> goodf c -> basef b -> wf b ->
  extend q c b = Ok c' ->
  (forall v, total v = true -> conforms c' v -> accepts b v) /\ compat q b c' = true.
Proof. exact extend_narrows_frozen. Qed.
Print Assumptions C04_extend_narrows_frozen_partial.

(* The code as it is today (any quirk flags, in particular all of them on): compat is sound for a
   receiver that steers clear of the open findings — [avoids q a]: no frozen part if the frozen
   receiver is ignored, no List with a positive min_size if min_size is ignored, no Enum if an
   Enum rule is loose — and has no Union inside. *)
Theorem C04_compat_sound_current_code_partial : forall q a b,
  no_union a = true -> avoids q a = true ->
  wf a -> wf b -> keys_ok b = true -> sizes_ok b = true ->
  compat q a b = true ->
  forall v, total v = true -> conforms b v -> accepts a v.
Proof. intros q a b NU AV. exact (compat_sound_avoiding q a NU AV b). Qed.
Print Assumptions C04_compat_sound_current_code_partial.

(* Union receivers: compat is sound — for any quirk flags, under [avoids] — for every receiver
   whose Unions have a safe dispatch ([union_safe], decidable: unfrozen Bool/Int/Float/Str/List/
   Tuple/Dict/Object candidates with pairwise unrelated value types), against any sender whose own
   Unions dispatch plainly.  This contains C04_compat_sound_current_code_partial (a spec without
   Union is union_safe) and, with all flags off, C04_compat_sound_partial.  Union([Int(5..5),
   Bool()]) (related types) and Unions with Any / Enum / frozen candidates stay outside: they are
   refuted by C04_compat_union_receiver_refuted. *)
Theorem C04_compat_sound_union_partial : forall q a b,
  union_safe a = true -> avoids q a = true ->
  wf a -> wf b -> keys_ok b = true -> sizes_ok b = true -> union_plain b = true ->
  compat q a b = true ->
  forall v, total v = true -> conforms b v -> accepts a v.
Proof. intros q a b US AV. exact (compat_sound_union q a US AV b). Qed.
Print Assumptions C04_compat_sound_union_partial.

(* Extending a Union base with a safe dispatch: the child (frozen or not, no Union / Dict schema
   inside) extends the candidate Union.get_candidate selects; the Union base is compatible with
   the result and accepts every value of it.  (The Union is noneable when a candidate is, as its
   constructor ensures.)  Without [union_safe] this is refuted by C04_extend_union_base_refuted. *)
Theorem C04_extend_union_base_partial : forall q c cs mb c',
  no_quirks q -> goodf c ->
  union_safe (SUnion cs mb) = true -> frozen mb = false ->
  Forall basef cs -> wf (SUnion cs mb) -> keys_ok (SUnion cs mb) = true -> sizes_ok (SUnion cs mb) = true ->
  (forall x, In x cs -> noneable (mods_of x) = true -> noneable mb = true) ->
  extend q c (SUnion cs mb) = Ok c' ->
  compat q (SUnion cs mb) c' = true /\
  (forall v, total v = true -> conforms c' v -> accepts (SUnion cs mb) v).
Proof. exact extend_union_base. Qed.
Print Assumptions C04_extend_union_base_partial.

(* compat is reflexive on specs without Union (a base field a child schema does not override is
   inherited as it is, and the base field must be compatible with it). *)
Theorem C04_compat_reflexive : forall q s,
  no_union s = true -> sizes_ok s = true -> enums_ok s = true -> keys_ok s = true -> compat q s s = true.
Proof. exact compat_refl. Qed.
Print Assumptions C04_compat_reflexive.

(* Schema inheritance for Dict specs (Dict._extend / Schema.extend, merged key order as the code
   builds it: the base's keys in the base's order, overridden fields extended over the base's):
   when the child declares no new key, the base Dict is compatible with the extended Dict and
   accepts every value of it.  Field specs: the fragment of the extension theorems (frozen and
   Enum fields allowed; no Union / nested Dict schema inside a field); const keys and a StrKey()
   field alike.  (A child that adds keys is covered field by field by
   C04_schema_extend_shared_fields_partial.) *)
Theorem C04_extend_dict_schema_partial : forall q fs m bfs mb c',
  no_quirks q -> frozen m = false -> frozen mb = false ->
  keys_distinct fs = true -> keys_distinct bfs = true ->
  Forall (fun kf => goodf (snd kf)) fs ->
  Forall (fun kf => basef (snd kf) /\ wf (snd kf)) bfs ->
  (forall kf, In kf fs -> field_of (fst kf) bfs <> None) ->
  extend q (SDict (Some fs) m) (SDict (Some bfs) mb) = Ok c' ->
  compat q (SDict (Some bfs) mb) c' = true /\
  (forall v, total v = true -> conforms c' v -> accepts (SDict (Some bfs) mb) v).
Proof. exact extend_dict_schema. Qed.
Print Assumptions C04_extend_dict_schema_partial.

(* Schema.is_compatible is sound (the schema-level clause): if the receiving schema declares itself
   compatible with the sending one — same keys, compatible field specs — the receiving Dict accepts
   every value of the sending Dict.  Any quirk flags under [avoids]; nested Dicts, StrKey() fields,
   Unions with safe dispatch inside the fields. *)
Theorem C04_schema_compat_sound_partial : forall q fs m ofs mb,
  union_safe (SDict (Some fs) m) = true -> avoids q (SDict (Some fs) m) = true ->
  wf (SDict (Some fs) m) -> wf (SDict (Some ofs) mb) ->
  keys_ok (SDict (Some ofs) mb) = true -> sizes_ok (SDict (Some ofs) mb) = true ->
  union_plain (SDict (Some ofs) mb) = true ->
  frozen_ok q m mb = true -> none_ok m mb = true ->
  schema_compat (compat q) fs ofs = true ->
  forall v, total v = true -> conforms (SDict (Some ofs) mb) v -> accepts (SDict (Some fs) m) v.
Proof. exact schema_compat_sound. Qed.
Print Assumptions C04_schema_compat_sound_partial.

(* A frozen base: the child must itself be frozen to an == value (else the extension is refused);
   the result stays frozen to a value == the base's, the base is compatible with it and accepts
   it.  (Python's == on the modelled values is symmetric and transitive, and apply returns a value
   == to a total input.)  Base not an Enum; no Union / Dict schema. *)
Theorem C04_extend_frozen_base_partial : forall q c b c',
  no_quirks q -> goodf c -> basef (unfreeze b) -> is_enum b = false ->
  frozen (mods_of c) = true -> frozen (mods_of b) = true ->
  total (dflt (mods_of c)) = true ->
  extend q c b = Ok c' ->
  compat q b c' = true /\ (forall v, total v = true -> conforms c' v -> accepts b v).
Proof. exact extend_frozen_base. Qed.
Print Assumptions C04_extend_frozen_base_partial.

(* A Union child extending a Union base with a safe dispatch: every candidate of the child (simple,
   unfrozen) extends the base candidate of its class; the base Union is compatible with the
   extended Union and accepts every value of it. *)
Theorem C04_extend_union_child_partial : forall q cs m bcs mb c',
  no_quirks q -> frozen m = false -> frozen mb = false ->
  forallb cand_simple cs = true -> Forall goodf cs ->
  union_safe (SUnion bcs mb) = true -> Forall basef bcs ->
  wf (SUnion bcs mb) -> keys_ok (SUnion bcs mb) = true -> sizes_ok (SUnion bcs mb) = true ->
  (forall x, In x bcs -> noneable (mods_of x) = true -> noneable mb = true) ->
  extend q (SUnion cs m) (SUnion bcs mb) = Ok c' ->
  compat q (SUnion bcs mb) c' = true /\
  (forall v, total v = true -> conforms c' v -> accepts (SUnion bcs mb) v).
Proof. exact extend_union_child. Qed.
Print Assumptions C04_extend_union_child_partial.

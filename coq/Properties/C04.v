(* Property C04 — value-spec algebra is sound.  Only statements and [exact]; proofs in Proofs/Typing*.v. *)
From PG Require Import Common.Tactics Model.Typing Proofs.TypingBasics.

Theorem C04_str_eqb_refl : forall s, str_eqb s s = true.
Proof. exact str_eqb_refl. Qed.
Print Assumptions C04_str_eqb_refl.

(* Property C05 — serialization and persistence round trip.  Statements only; proofs in Proofs/. *)
From PG Require Import Common.Tactics Model.Json Model.MemFS Model.MemSeq Proofs.JsonProofs Proofs.JsonStrProofs
  Proofs.MemFSPaths Proofs.MemFSTree Proofs.MemFSProofs Proofs.MemFSPure Proofs.MemSeqProofs
  Model.JsonFields Gen.JsonFields Proofs.JsonFieldsProofs Proofs.JsonFieldsInstance Model.JsonText Proofs.JsonTextProofs Model.JsonOpts Proofs.JsonOptsProofs.

(* Object form: pg.from_json (pg.to_json v) is v, for every value outside the reserved encodings. *)
Theorem C05_json_roundtrip : forall q ct v, no_quirks q -> ct_ok ct = true -> ser_ok ct v = true ->
  from_json q ct (to_json v) = Ok v.
Proof. exact json_roundtrip_full. Qed.
Print Assumptions C05_json_roundtrip.

(* With the open finding (the empty tuple) present in the implementation: every value without (). *)
Theorem C05_json_roundtrip_partial : forall q ct v, ct_ok ct = true -> ser_ok ct v = true -> no_empty_tuple v = true ->
  from_json q ct (to_json v) = Ok v.
Proof. exact json_roundtrip_avoiding. Qed.
Print Assumptions C05_json_roundtrip_partial.

Theorem C05_empty_tuple_refuted : forall q ct, q_empty_tuple q = true -> from_json q ct (to_json (PTuple [])) = Err EValue.
Proof. exact empty_tuple_rejected. Qed.
Print Assumptions C05_empty_tuple_refuted.

(* String form: pg.from_json_str (pg.to_json_str v) is v; json.dumps / json.loads are parameters. *)
Theorem C05_str_roundtrip : forall (text : Type) (dumps : jv -> text) (loads : text -> option jv),
  (forall j, sj_ok j = true -> loads (dumps j) = Some j) ->
  forall q ct v, no_quirks q -> ct_ok ct = true -> ser_ok ct v = true -> str_ok v = true ->
  of_str text loads q ct (to_str text dumps v) = Ok v.
Proof. exact str_roundtrip_full. Qed.
Print Assumptions C05_str_roundtrip.

Theorem C05_str_roundtrip_partial : forall (text : Type) (dumps : jv -> text) (loads : text -> option jv),
  (forall j, sj_ok j = true -> loads (dumps j) = Some j) ->
  forall q ct v, ct_ok ct = true -> ser_ok ct v = true -> str_ok v = true -> no_empty_tuple v = true ->
  of_str text loads q ct (to_str text dumps v) = Ok v.
Proof. exact str_roundtrip_avoiding. Qed.
Print Assumptions C05_str_roundtrip_partial.

(* The int-key encoding alone (the tree handed to json.dumps, decoded again): no assumption on json. *)
Theorem C05_int_key_encoding_roundtrip : forall q ct v, no_quirks q -> ct_ok ct = true -> ser_ok ct v = true -> str_ok v = true ->
  of_sj q ct (to_sj v) = Ok v.
Proof. exact sj_roundtrip_full. Qed.
Print Assumptions C05_int_key_encoding_roundtrip.

Theorem C05_to_json_injective : forall ct v w, ct_ok ct = true -> ser_ok ct v = true -> ser_ok ct w = true ->
  to_json v = to_json w -> v = w.
Proof. exact to_json_injective. Qed.
Print Assumptions C05_to_json_injective.

(* Each exclusion of the domain is a reserved encoding: outside it the round trip yields something else. *)
Theorem C05_marker_list_refuted :
  ser_ok ex_ct (PList [PStr s_marker; PInt 1]) = false /\
  from_json q_none ex_ct (to_json (PList [PStr s_marker; PInt 1])) = Ok (PTuple [PInt 1]).
Proof. exact marker_list_refuted. Qed.
Print Assumptions C05_marker_list_refuted.

Theorem C05_type_key_refuted :
  ser_ok ex_ct (PDict [(KS s_type, PStr [120%N])]) = false /\
  from_json q_none ex_ct (to_json (PDict [(KS s_type, PStr [120%N])])) = Err EType.
Proof. exact type_key_refuted. Qed.
Print Assumptions C05_type_key_refuted.

Theorem C05_int_prefix_key_refuted :
  str_ok (PDict [(KS (s_nprefix ++ [49%N]), PNone)]) = false /\
  of_sj q_none ex_ct (to_sj (PDict [(KS (s_nprefix ++ [49%N]), PNone)])) = Ok (PDict [(KI 1, PNone)]).
Proof. exact int_prefix_key_refuted. Qed.
Print Assumptions C05_int_prefix_key_refuted.

Theorem C05_bool_key_refuted :
  str_ok (PDict [(KB true, PNone)]) = false /\
  of_sj q_none ex_ct (to_sj (PDict [(KB true, PNone)])) = Err EValue /\
  from_json q_none ex_ct (to_json (PDict [(KB true, PNone)])) = Ok (PDict [(KB true, PNone)]).
Proof. exact bool_key_refuted. Qed.
Print Assumptions C05_bool_key_refuted.

(* ---- the in-memory file system ------------------------------------------------------------------- *)

(* _parent_and_name agrees with _locate on every path routed to /mem/: the components of a path are
   those of path[:rpos] followed by the file name (the repaired _internal_path; with str.lstrip this
   is false for '/mem/m.json'). *)
Theorem C05_memfs_parent_and_name : forall p h t, routed p = true -> rsplit p = Some (h, t) ->
  components p = components h ++ name_part t.
Proof. exact components_rsplit. Qed.
Print Assumptions C05_memfs_parent_and_name.

Theorem C05_memfs_lookalike_paths :
  components p_mjson = [[109; 46; 106; 115; 111; 110]%N] /\
  components p_em = [[101%N]; [109%N]] /\
  components p_memx = [[109; 101; 109]%N; [120%N]].
Proof. exact lookalike_components. Qed.
Print Assumptions C05_memfs_lookalike_paths.

(* Refinement: after any history of save / write / append / rm / mkdirs / exists / listdir / isdir /
   line-sequence operations over any path strings, the text found at every component path is the one
   the last-writer map computes from the operations that reported success. *)
Theorem C05_memfs_refines_map : forall h root, wf_node root = true ->
  forall cs, file_at (run_fs root h) cs = afold (file_at root) (trace_of root h) cs.
Proof. exact memfs_refines_trace. Qed.
Print Assumptions C05_memfs_refines_map.

Theorem C05_memfs_read_your_writes : forall h root p, wf_node root = true ->
  (forall c, afold (file_at root) (trace_of root h) (components p) = Some c -> read_file (run_fs root h) p = FOk c) /\
  (afold (file_at root) (trace_of root h) (components p) = None -> exists e, read_file (run_fs root h) p = FErr e).
Proof. exact read_your_writes_trace. Qed.
Print Assumptions C05_memfs_read_your_writes.

(* The last successful save to a path is what is read there, whatever was done to other paths since. *)
Theorem C05_memfs_last_save_wins : forall root h p t1 p' c t2, wf_node root = true ->
  trace_of root h = t1 ++ (OSave p' c, RUnit) :: t2 ->
  components p' = components p -> slashed p' = false ->
  (forall x, In x t2 -> ~ touches (fst x) (components p)) ->
  read_file (run_fs root h) p = FOk c.
Proof. exact last_save_wins. Qed.
Print Assumptions C05_memfs_last_save_wins.

Theorem C05_memfs_removed_stays_removed : forall root h p t1 p' t2, wf_node root = true ->
  trace_of root h = t1 ++ (ORm p', RUnit) :: t2 ->
  rm_target p' = components p ->
  (forall x, In x t2 -> ~ touches (fst x) (components p)) ->
  exists e, read_file (run_fs root h) p = FErr e.
Proof. exact removed_stays_removed. Qed.
Print Assumptions C05_memfs_removed_stays_removed.

(* The pure form (DESIGN.md): over any family of paths none of which runs through another one, for every
   history of save / rm / read / exists / listdir / isdir from the empty file system, every save succeeds and
   reading a path gives the last text saved at a path with the same components: a function of the history alone. *)
Theorem C05_memfs_read_your_writes_pure : forall F, family_ok F -> forall h, Forall (family_op F) h ->
  (forall o out, In (o, out) (trace_of empty_fs h) -> is_save o = true -> out = RUnit) /\
  forall p, match last_saved h (components p) with
            | Some c => read_file (run_fs empty_fs h) p = FOk c
            | None => exists e, read_file (run_fs empty_fs h) p = FErr e
            end.
Proof. exact read_your_writes_pure. Qed.
Print Assumptions C05_memfs_read_your_writes_pure.

(* pg.load returns the last value saved (string form of C05_str_roundtrip written to the file). *)
Theorem C05_memfs_load_last_saved : forall (dumps : jv -> str) (loads : str -> option jv),
  (forall j, sj_ok j = true -> loads (dumps j) = Some j) ->
  forall q ct root h p t1 p' v t2,
  (q_empty_tuple q = false \/ no_empty_tuple v = true) -> ct_ok ct = true -> ser_ok ct v = true -> str_ok v = true ->
  wf_node root = true ->
  trace_of root h = t1 ++ (pg_save_op pv (to_str str dumps) p' v, RUnit) :: t2 ->
  components p' = components p -> slashed p' = false ->
  (forall x, In x t2 -> ~ touches (fst x) (components p)) ->
  pg_load pv (of_str str loads q ct) (run_fs root h) p = FOk (Ok v).
Proof. exact load_last_saved_json. Qed.
Print Assumptions C05_memfs_load_last_saved.

(* Line sequences on /mem/: the records read are the records written since the last truncating open. *)
Theorem C05_lineseq_append_read : forall root h p rs, wf_node root = true ->
  file_at root (components p) = None ->
  track (components p) (trace_of root h) = TRecords rs -> forallb no_nl rs = true ->
  seq_read (run_fs root h) p = FOk rs.
Proof. exact lineseq_append_read. Qed.
Print Assumptions C05_lineseq_append_read.

Theorem C05_lineseq_newline_record_refuted :
  let h := [OSeqWrite p_em w_mode [[97; 10; 98]%N]] in
  seq_read (run_fs empty_fs h) p_em = FOk [[97%N]; [98%N]].
Proof. exact newline_record_refuted. Qed.
Print Assumptions C05_lineseq_newline_record_refuted.

(* ---- in-memory record sequences --------------------------------------------------------------------- *)
(* After any history of open / add / iterate / len / close over any handles and paths, a new reader of
   path p sees exactly the records the heap-free specification appended to p: those added through
   handles opened since the last truncating ('w') open of p, in order. *)
Theorem C05_seq_append_read : forall h p, records_at (fst (srun s_empty h)) p = appended h p.
Proof. exact seq_append_read. Qed.
Print Assumptions C05_seq_append_read.

(* ---- value specs, key specs, Field and Schema: to_json_dict(exclude_default=True) against cls(kwargs) ------ *)
(* For any class whose keyword table passes the static check, dropping the fields that hold their exclusion
   constant and constructing the class again from the remaining keywords gives every serialized parameter its
   value back. *)
Theorem C05_spec_fields_roundtrip : forall c on o,
  class_ok c = true -> respects c o -> normal c o -> regenerated c on o ->
  exists kws, construct c (emit (cd_fields c) on o) = Some kws /\
              forall f, In f (cd_fields c) -> slookup (fd_key f) kws = Some (o (fd_key f)).
Proof. exact fields_roundtrip. Qed.
Print Assumptions C05_spec_fields_roundtrip.

(* The tables regenerated from the current value_specs.py / class_schema.py / key_specs.py pass the check. *)
Theorem C05_spec_tables_ok : table_ok classes = true.
Proof. exact generated_tables_ok. Qed.
Print Assumptions C05_spec_tables_ok.

Theorem C05_spec_generated_roundtrip : forall c on o, In c classes ->
  respects c o -> normal c o -> regenerated c on o ->
  exists kws, construct c (emit (cd_fields c) on o) = Some kws /\
              forall f, In f (cd_fields c) -> slookup (fd_key f) kws = Some (o (fd_key f)).
Proof. exact generated_fields_roundtrip. Qed.
Print Assumptions C05_spec_generated_roundtrip.

(* The two defects of this family found on the unchanged tree, as tables: rejected by the check, and not loadable. *)
Theorem C05_enum_without_default_refuted :
  class_ok enum_before_fix = false /\
  construct enum_before_fix (emit (cd_fields enum_before_fix) (fun _ => true)
                               (fun k => if str_eqb k s_default then VConst CMissing else if str_eqb k s_frozen then VConst CFalse else VOther 1)) = None.
Proof. exact enum_without_default_refuted. Qed.
Print Assumptions C05_enum_without_default_refuted.

Theorem C05_schema_without_fields_refuted :
  class_ok schema_before_fix = false /\
  construct schema_before_fix (emit (cd_fields schema_before_fix) (fun _ => true) (fun _ => VConst CNil)) = None.
Proof. exact schema_without_fields_refuted. Qed.
Print Assumptions C05_schema_without_fields_refuted.

(* ---- the JSON text layer made concrete: json.dumps (ensure_ascii, ", " / ": ") and json.loads (strict) ---- *)
(* json.loads (json.dumps j) = j for every tree with string keys, distinct, without adjacent surrogate pairs and
   with valid code points; about finite floats only this is assumed: their repr is a number token that is not an
   int token and that float() reads back (floats_ok quantifies over the floats that occur in j). *)
Theorem C05_text_loads_dumps : forall float_repr float_repr_negzero parse_float_tok j,
  sj_ok j = true -> cps_ok j = true -> floats_ok float_repr float_repr_negzero parse_float_tok j ->
  loads parse_float_tok (dumps float_repr float_repr_negzero j) = Some j.
Proof. exact loads_dumps. Qed.
Print Assumptions C05_text_loads_dumps.

(* C05_str_roundtrip with its Section hypothesis discharged: the text layer is the model above. *)
Theorem C05_str_roundtrip_text : forall fr fnz pf q ct v,
  ct_ok ct = true -> ser_ok ct v = true -> str_ok v = true -> pv_cps_ok v = true ->
  (q_empty_tuple q = false \/ no_empty_tuple v = true) ->
  floats_ok fr fnz pf (to_sj v) ->
  of_str str (loads pf) q ct (to_str str (dumps fr fnz) v) = Ok v.
Proof. exact text_roundtrip. Qed.
Print Assumptions C05_str_roundtrip_text.

(* For values without finite floats nothing at all is assumed about the text layer. *)
Theorem C05_str_roundtrip_text_nofloat : forall fr fnz pf q ct v,
  ct_ok ct = true -> ser_ok ct v = true -> str_ok v = true -> pv_cps_ok v = true -> pv_nofloat v = true ->
  (q_empty_tuple q = false \/ no_empty_tuple v = true) ->
  of_str str (loads pf) q ct (to_str str (dumps fr fnz) v) = Ok v.
Proof. exact text_roundtrip_nofloat. Qed.
Print Assumptions C05_str_roundtrip_text_nofloat.

(* ---- serialization options: hide_default_values / hide_frozen ------------------------------------------------ *)
(* Whatever combination of the two options is used, a member that is left out is put back by the class on loading:
   from_json (to_json v, options) = v for every value whose left-out members are exactly the class's defaults
   (okx: a member Python-equal to its default is that default; frozen members hold their frozen value). *)
Theorem C05_options_roundtrip : forall q o ctx v, ctx_ok ctx = true -> okx o ctx v ->
  (q_empty_tuple q = false \/ no_empty_tuple v = true) ->
  from_json_o q ctx (to_json_o o ctx v) = Ok v.
Proof. exact options_roundtrip. Qed.
Print Assumptions C05_options_roundtrip.

(* base.eq is Python ==: True stored in a field whose default is 1 is left out and comes back as 1. *)
Theorem C05_options_bool_for_int_refuted :
  let v := PObj s_I [([120%N], PBool true); ([121%N], PStr [97%N])] in
  from_json_o q_none ex_ctx (to_json_o o_all ex_ctx v) = Ok (fI (PInt 1)) /\ v <> fI (PInt 1).
Proof. exact bool_for_int_default_refuted. Qed.
Print Assumptions C05_options_bool_for_int_refuted.

(* Property C05 — serialization and persistence round trip.  Statements only; proofs in Proofs/. *)
From PG Require Import Common.Tactics Model.Json Model.MemFS Model.MemSeq.

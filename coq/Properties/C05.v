(* Property C05 — serialization and persistence round trip.  Statements only; proofs in Proofs/. *)
From PG Require Import Common.Tactics Model.Json Model.MemFS Model.MemSeq Proofs.JsonProofs Proofs.JsonStrProofs.

(* Object form: pg.from_json (pg.to_json v) is v, for every value outside the reserved encodings. *)
Theorem C05_json_roundtrip : forall q ct v, no_quirks q -> ct_ok ct = true -> ser_ok ct v = true ->
  from_json q ct (to_json v) = Ok v.
Proof. exact json_roundtrip_full. Qed.
Print Assumptions C05_json_roundtrip.

(* With the open finding (the empty tuple) present in the implementation: every value without (). *)
Theorem C05_json_roundtrip_partial : forall q ct v, ct_ok ct = true -> ser_ok ct v = true -> no_empty_tuple v = true ->
  from_json q ct (to_json v) = Ok v.
Proof. exact json_roundtrip_avoiding. Qed.
Print Assumptions C05_json_roundtrip_partial.

Theorem C05_empty_tuple_refuted : forall q ct, q_empty_tuple q = true -> from_json q ct (to_json (PTuple [])) = Err EValue.
Proof. exact empty_tuple_rejected. Qed.
Print Assumptions C05_empty_tuple_refuted.

(* String form: pg.from_json_str (pg.to_json_str v) is v; json.dumps / json.loads are parameters. *)
Theorem C05_str_roundtrip : forall (text : Type) (dumps : jv -> text) (loads : text -> option jv),
  (forall j, sj_ok j = true -> loads (dumps j) = Some j) ->
  forall q ct v, no_quirks q -> ct_ok ct = true -> ser_ok ct v = true -> str_ok v = true ->
  of_str text loads q ct (to_str text dumps v) = Ok v.
Proof. exact str_roundtrip_full. Qed.
Print Assumptions C05_str_roundtrip.

Theorem C05_str_roundtrip_partial : forall (text : Type) (dumps : jv -> text) (loads : text -> option jv),
  (forall j, sj_ok j = true -> loads (dumps j) = Some j) ->
  forall q ct v, ct_ok ct = true -> ser_ok ct v = true -> str_ok v = true -> no_empty_tuple v = true ->
  of_str text loads q ct (to_str text dumps v) = Ok v.
Proof. exact str_roundtrip_avoiding. Qed.
Print Assumptions C05_str_roundtrip_partial.

(* The int-key encoding alone (the tree handed to json.dumps, decoded again): no assumption on json. *)
Theorem C05_int_key_encoding_roundtrip : forall q ct v, no_quirks q -> ct_ok ct = true -> ser_ok ct v = true -> str_ok v = true ->
  of_sj q ct (to_sj v) = Ok v.
Proof. exact sj_roundtrip_full. Qed.
Print Assumptions C05_int_key_encoding_roundtrip.

Theorem C05_to_json_injective : forall ct v w, ct_ok ct = true -> ser_ok ct v = true -> ser_ok ct w = true ->
  to_json v = to_json w -> v = w.
Proof. exact to_json_injective. Qed.
Print Assumptions C05_to_json_injective.

(* Each exclusion of the domain is a reserved encoding: outside it the round trip yields something else. *)
Theorem C05_marker_list_refuted :
  ser_ok ex_ct (PList [PStr s_marker; PInt 1]) = false /\
  from_json q_none ex_ct (to_json (PList [PStr s_marker; PInt 1])) = Ok (PTuple [PInt 1]).
Proof. exact marker_list_refuted. Qed.
Print Assumptions C05_marker_list_refuted.

Theorem C05_type_key_refuted :
  ser_ok ex_ct (PDict [(KS s_type, PStr [120%N])]) = false /\
  from_json q_none ex_ct (to_json (PDict [(KS s_type, PStr [120%N])])) = Err EType.
Proof. exact type_key_refuted. Qed.
Print Assumptions C05_type_key_refuted.

Theorem C05_int_prefix_key_refuted :
  str_ok (PDict [(KS (s_nprefix ++ [49%N]), PNone)]) = false /\
  of_sj q_none ex_ct (to_sj (PDict [(KS (s_nprefix ++ [49%N]), PNone)])) = Ok (PDict [(KI 1, PNone)]).
Proof. exact int_prefix_key_refuted. Qed.
Print Assumptions C05_int_prefix_key_refuted.

Theorem C05_bool_key_refuted :
  str_ok (PDict [(KB true, PNone)]) = false /\
  of_sj q_none ex_ct (to_sj (PDict [(KB true, PNone)])) = Err EValue /\
  from_json q_none ex_ct (to_json (PDict [(KB true, PNone)])) = Ok (PDict [(KB true, PNone)]).
Proof. exact bool_key_refuted. Qed.
Print Assumptions C05_bool_key_refuted.

(* Property C06 — symbolic equality, hashing and ordering obey their algebraic laws.
   Only statements and [exact]; proofs live in Proofs/Compare*.v.
   Domain: [cmp_ok tbl f v] = values of the property's quantifier (None, MISSING, bool, int, finite float, str,
   list / pg.List, tuples whose items are primitives of the one comparable family [f], dict / pg.Dict with unique
   str or int keys in any insertion order, objects of any classes whose __qualname__ is not a rank string (different classes sharing a
   __qualname__ included: the class uid orders them), and all nestings).  [tbl] is the type-order table regenerated from the current base.py. *)
From PG Require Import Common.Tactics Gen.TypeOrder Model.Compare
  Gen.CompareDispatch Proofs.CompareOrder Proofs.CompareLink Proofs.CompareLaws Proofs.CompareHash Proofs.CompareDispatch
  Proofs.CompareInstance.
From Coq Require Import Sorting.Sorted Sorting.Permutation.

Theorem C06_table_ok : ranks_ok tbl = true.
Proof. exact generated_table_ok. Qed.
Print Assumptions C06_table_ok.

(* The model's eq / lt are the interpretation of the branch order regenerated from base.eq / base.lt: the first branch
   of the source order whose guard holds for the operands' kinds, and that branch's action. *)
Theorem C06_eq_dispatch : forall n a b,
  eq_f (S n) a b = eaction (eq_first eq_branches (kind_of a) (kind_of b)) n a b.
Proof. exact (eq_dispatch eq_branches lt_branches generated_dispatch_ok). Qed.
Print Assumptions C06_eq_dispatch.

Theorem C06_lt_dispatch : forall n a b,
  lt_f tbl (S n) a b =
    if negb (same_type a b) && negb (str_eqb (rank tbl a) (rank tbl b))
    then Ok (is_lt (str_cmp (rank tbl a) (rank tbl b)))
    else laction tbl (lt_first lt_branches (kind_of a)) n a b.
Proof. exact (lt_dispatch tbl eq_branches lt_branches generated_dispatch_ok). Qed.
Print Assumptions C06_lt_dispatch.

Theorem C06_eq_refl : forall f a, cmp_ok tbl f a = true -> eq a a = true.
Proof. exact (eq_refl_law tbl generated_table_ok). Qed.
Print Assumptions C06_eq_refl.

Theorem C06_eq_sym : forall f a b, cmp_ok tbl f a = true -> cmp_ok tbl f b = true -> eq a b = eq b a.
Proof. exact (eq_sym_law tbl generated_table_ok). Qed.
Print Assumptions C06_eq_sym.

Theorem C06_eq_trans : forall f a b c, cmp_ok tbl f a = true -> cmp_ok tbl f b = true -> cmp_ok tbl f c = true ->
  eq a b = true -> eq b c = true -> eq a c = true.
Proof. exact (eq_trans_law tbl generated_table_ok). Qed.
Print Assumptions C06_eq_trans.

Theorem C06_ne_is_negation : forall a b, ne a b = negb (eq a b).
Proof. exact ne_law. Qed.
Print Assumptions C06_ne_is_negation.

(* equal values have equal hash pre-images (whenever pg.hash is defined on both: plain list / dict are unhashable) *)
Theorem C06_eq_hash : forall f a b ha hb, cmp_ok tbl f a = true -> cmp_ok tbl f b = true ->
  eq a b = true -> hpre tbl a = Ok ha -> hpre tbl b = Ok hb -> ha = hb.
Proof. intros f a b ha hb. exact (eq_hash_law tbl f a b ha hb). Qed.
Print Assumptions C06_eq_hash.

(* the "same pre-image" bit compared with hash(a) == hash(b) in the correspondence is Leibniz equality *)
Theorem C06_hash_bit_is_equality : forall x y, hterm_eqb x y = true <-> x = y.
Proof. exact hterm_eqb_eq. Qed.
Print Assumptions C06_hash_bit_is_equality.

Theorem C06_hash_defined : forall v, hashable v = true -> exists h, hpre tbl v = Ok h.
Proof. exact (hash_total_law tbl). Qed.
Print Assumptions C06_hash_defined.

Theorem C06_lt_total_never_raises : forall f a b, cmp_ok tbl f a = true -> cmp_ok tbl f b = true ->
  exists r, lt tbl a b = Ok r.
Proof. exact (lt_total_law tbl generated_table_ok). Qed.
Print Assumptions C06_lt_total_never_raises.

Theorem C06_trichotomy : forall f a b, cmp_ok tbl f a = true -> cmp_ok tbl f b = true ->
  exists x z, lt tbl a b = Ok x /\ lt tbl b a = Ok z /\ exactly_one x (eq a b) z.
Proof. exact (trichotomy_law tbl generated_table_ok). Qed.
Print Assumptions C06_trichotomy.

Theorem C06_lt_trans : forall f a b c, cmp_ok tbl f a = true -> cmp_ok tbl f b = true -> cmp_ok tbl f c = true ->
  lt tbl a b = Ok true -> lt tbl b c = Ok true -> lt tbl a c = Ok true.
Proof. exact (lt_trans_law tbl generated_table_ok). Qed.
Print Assumptions C06_lt_trans.

Theorem C06_lt_irrefl : forall f a, cmp_ok tbl f a = true -> lt tbl a a = Ok false.
Proof. exact (lt_irrefl_law tbl generated_table_ok). Qed.
Print Assumptions C06_lt_irrefl.

Theorem C06_gt_is_flip : forall a b, gt tbl a b = lt tbl b a.
Proof. exact (gt_law tbl). Qed.
Print Assumptions C06_gt_is_flip.

(* consistent with equality: equal values are interchangeable on either side of lt *)
Theorem C06_lt_respects_eq : forall f a b c, cmp_ok tbl f a = true -> cmp_ok tbl f b = true -> cmp_ok tbl f c = true ->
  eq a b = true -> lt tbl a c = lt tbl b c /\ lt tbl c a = lt tbl c b.
Proof.
  intros f a b c Ha Hb Hc E. split.
  - exact (lt_eq_compat_l tbl generated_table_ok f a b c Ha Hb Hc E).
  - exact (lt_eq_compat_r tbl generated_table_ok f a b c Ha Hb Hc E).
Qed.
Print Assumptions C06_lt_respects_eq.

(* sorted(values, key=cmp_to_key(lt-based three-way comparison)) never raises and returns a permutation in which
   no element is less than an earlier one; the nat component is the original position *)
Theorem C06_sort_never_raises : forall f (l : list (nat * pv)),
  Forall (fun x => cmp_ok tbl f (snd x) = true) l ->
  exists l', sort_by tbl l = Ok l' /\ Permutation l l' /\
             StronglySorted (fun x y => lt tbl (snd y) (snd x) = Ok false) l'.
Proof. intros f l. exact (sort_law tbl generated_table_ok f nat l). Qed.
Print Assumptions C06_sort_never_raises.

(* ... and it is THE stable sort: any permutation of the input (values paired with their positions) in which every item comes
   [before] the later ones - less, or equal and earlier in the input - is the list the model's insertion sort returns.  (This is
   what licenses comparing the model with CPython's timsort.) *)
Theorem C06_sort_is_the_stable_sort : forall f (vals : list pv) l2,
  Forall (fun v => cmp_ok tbl f v = true) vals ->
  Permutation (combine (seq 0 (length vals)) vals) l2 -> StronglySorted (before tbl) l2 ->
  sort_by tbl (combine (seq 0 (length vals)) vals) = Ok l2.
Proof. intros f. exact (stable_sort_law tbl generated_table_ok f). Qed.
Print Assumptions C06_sort_is_the_stable_sort.

(* classes with use_symbolic_comparison: == and != are sym_eq, i.e. pg.eq / pg.ne
(also hash() is sym_hash; [same]: a and b are one Python object, in which case Object.sym_eq answers by identity) *)
Theorem C06_object_operators : forall f same a b, (exists n u e, a = PObj n u e) -> (same = true -> a = b) ->
  cmp_ok tbl f a = true ->
  op_eq true same a b = eq a b /\ op_ne true same a b = ne a b /\ op_hash tbl true a = Some (hpre tbl a).
Proof. intros f. exact (op_eq_law tbl generated_table_ok f). Qed.
Print Assumptions C06_object_operators.

(* base.eq's `left is right` shortcut is invisible on the domain *)
Theorem C06_identity_shortcut : forall f same a b, (same = true -> a = b) -> cmp_ok tbl f a = true ->
  eq_top same a b = eq a b.
Proof. intros f. exact (eq_top_law tbl generated_table_ok f). Qed.
Print Assumptions C06_identity_shortcut.


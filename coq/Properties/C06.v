(* Property C06 — symbolic equality, hashing and ordering obey their algebraic laws. *)
From PG Require Import Common.Tactics Gen.TypeOrder Model.Compare Proofs.CompareInstance.

Theorem C06_table_ok : ranks_ok tbl = true.
Proof. exact generated_table_ok. Qed.
Print Assumptions C06_table_ok.

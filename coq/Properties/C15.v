(* Property C15 — search algorithms recover their state from history at every crash point. *)
From PG Require Import Common.Tactics Model.Recover.

Theorem C15_sweeping_counts_partial : forall h, sw_np (sw_recover (mkSw 0 0 None) h) = length h.
Proof.
  intros h. unfold sw_recover.
  assert (forall s, sw_np (fold_left sw_replay h s) = sw_np s + length h) as H.
  { induction h; intros; simpl; [lia|]. rewrite IHh. simpl. lia. }
  rewrite H. reflexivity.
Qed.
Print Assumptions C15_sweeping_counts_partial.

(* Property C15 — search algorithms recover their state from history at every crash point.
   Only statements and [exact]; proofs live in Proofs/Recover*.v.

   run_events g rw evs  : the uninterrupted run of generator g over an event schedule
                          (0 = propose, 1 = feed back the oldest in-flight proposal, 2 = abandon it for ever);
                          every prefix of a schedule is a schedule, so "for all evs" is "at every crash point".
   r_hist               : the persisted history at that point — every proposed DNA with the metadata the
                          generators put on it, and its reward (None while in flight).
   recovered g h        : a fresh instance after setup, then recover(h).
   pview (obs g s)      : num_proposals, num_feedbacks, population with fitness and ids, de-duplication
                          cache, and the same of a wrapped feedback-driven generator. *)
From PG Require Import Common.Tactics Model.Recover Proofs.RecoverBase Proofs.RecoverEvo Proofs.RecoverDedup Proofs.RecoverMain Proofs.RecoverParts Proofs.RecoverFresh Proofs.RecoverGeno.
From PG Require Model.Geno.

(* Every configuration the syntax can name — Sweeping, seeded Random, Evolution with any initialiser /
   reproduction table / update selector (None, Last n, Top n, newest generation, recorded table), Deduping over
   any of these with any hash, auto-reward, max_duplicates, max_proposal_attempts — at every crash point of
   every schedule with in-flight and abandoned proposals. *)
Theorem C15_recover_observable : forall (m : Z) (a : alg) (rw : Z -> Z) (evs : list Z),
  recoverable a = true ->
  let g := denote m a in
  let r := run_events g rw evs in
  r_ok g r = true ->
  pview (obs g (recovered g (r_hist g r))) = pview (obs g (r_st g r)).
Proof. exact recover_observable. Qed.
Print Assumptions C15_recover_observable.

(* The (N, k, w) reading of the property: run length n, the last w rewards missing, crash after k events. *)
Theorem C15_crash_points : forall (m : Z) (a : alg) (rw : Z -> Z) (n w k : nat),
  recoverable a = true ->
  let g := denote m a in
  let r := run_events g rw (firstn k (lag_events n w)) in
  r_ok g r = true ->
  pview (obs g (recovered g (r_hist g r))) = pview (obs g (r_st g r)).
Proof. exact recover_crash_points. Qed.
Print Assumptions C15_crash_points.

Theorem C15_recover_counts : forall (m : Z) (a : alg) (rw : Z -> Z) (evs : list Z),
  recoverable a = true ->
  let g := denote m a in
  let r := run_events g rw evs in
  r_ok g r = true ->
  match obs g (recovered g (r_hist g r)), obs g (r_st g r) with
  | Obs np nf _ _ _ _, Obs np' nf' _ _ _ _ => np = np' /\ nf = nf'
  end.
Proof. exact recover_counts. Qed.
Print Assumptions C15_recover_counts.

(* The same from a history in which some or all rewarded DNAs are stored as they were PROPOSED — without the
   feedback sequence number and fitness that feedback() later wrote on them (a backend that stores the DNA at
   proposal time and the reward when it arrives; or a reward that reached the history while the process died
   before feedback() was called: then r is the run in which that feedback was delivered).  [hrk_b h hm] is the
   decidable form of "hm is h with such replacements"; the model evaluates it on every generated case. *)
Theorem C15_recover_from_stored_proposals : forall (m : Z) (a : alg) (rw : Z -> Z) (evs : list Z) (hm : list hentry),
  recoverable a = true ->
  let g := denote m a in
  let r := run_events g rw evs in
  r_ok g r = true ->
  hrk_b (r_hist g r) hm = true ->
  pview (obs g (recovered g hm)) = pview (obs g (r_st g r)).
Proof. exact recover_from_stored_proposals_b. Qed.
Print Assumptions C15_recover_from_stored_proposals.

(* ... and that hypothesis always holds for the two histories the property is about (no per-case check needed):
   every generator proposes DNAs without a feedback sequence number (fresh_prop) and feedback returns the DNA
   itself or the DNA with sequence number and fitness set (fb_form).
   (1) the history of a backend that stores each DNA when it is proposed and the reward when it arrives
       ([run0_events], the function the model's [sim] uses); *)
Theorem C15_recover_from_proposal_time_history : forall (m : Z) (a : alg) (rw : Z -> Z) (evs : list Z),
  recoverable a = true ->
  let g := denote m a in
  let r := run_events g rw evs in
  let h0 := snd (run0_events g rw evs) in
  r_ok g r = true ->
  pview (obs g (recovered g h0)) = pview (obs g (r_st g r)).
Proof. exact recover_from_proposal_time_history. Qed.
Print Assumptions C15_recover_from_proposal_time_history.

(* (2) the reward of the oldest in-flight proposal reached the history but the process died before feedback():
       recovery reaches the state of the run in which that feedback was delivered. *)
Theorem C15_recover_with_undelivered_reward : forall (m : Z) (a : alg) (rw : Z -> Z) (evs : list Z) (d : dna) (ro : option Z),
  recoverable a = true ->
  let g := denote m a in
  let r := run_events g rw evs in
  r_ok g r = true ->
  nth_error (r_hist g r) (r_ptr g r) = Some (d, ro) ->
  pview (obs g (recovered g (set_nth (r_ptr g r) (d, Some (reward_for rw d)) (r_hist g r))))
  = pview (obs g (r_st g (step g rw r 1))).
Proof. exact recover_with_undelivered_reward. Qed.
Print Assumptions C15_recover_with_undelivered_reward.

(* recover() called twice, with two consecutive parts of the history ("could be called multiple times if there
   are multiple source of history"), reaches the same observable state. *)
Theorem C15_recover_in_parts : forall (m : Z) (a : alg) (rw : Z -> Z) (evs : list Z) (h1 h2 : list hentry),
  recoverable a = true ->
  let g := denote m a in
  let r := run_events g rw evs in
  r_ok g r = true ->
  h1 ++ h2 = r_hist g r ->
  pview (obs g (recover g (recover g (init g) h1) h2)) = pview (obs g (r_st g r)).
Proof. exact recover_in_parts_run. Qed.
Print Assumptions C15_recover_in_parts.

(* Sweeping, seeded Random and Deduping over them continue, after recovery, with exactly the proposals of
   the uninterrupted run (any number n of further proposals, including the StopIteration that ends them). *)
Theorem C15_continuation : forall (m : Z) (a : alg) (rw : Z -> Z) (evs : list Z) (n : nat),
  continuable a = true ->
  let g := denote m a in
  let r := run_events g rw evs in
  r_ok g r = true ->
  continue_from g n (recovered g (r_hist g r)) = continue_from g n (r_st g r).
Proof. exact recover_continuation. Qed.
Print Assumptions C15_continuation.

(* By name: Sweeping, Random(seed), regularized evolution (Last n), hill climb (Top 1), NEAT's newest-generation
   update — alone and under Deduping with any parameters. *)
Theorem C15_shipped_algorithms : forall (m : Z) (a : alg) (rw : Z -> Z) (evs : list Z), shipped a ->
  (let g := denote m a in let r := run_events g rw evs in
   r_ok g r = true -> pview (obs g (recovered g (r_hist g r))) = pview (obs g (r_st g r))) /\
  (forall hm auto maxdup maxatt,
   let g := denote m (ADedup a hm auto maxdup maxatt) in let r := run_events g rw evs in
   r_ok g r = true -> pview (obs g (recovered g (r_hist g r))) = pview (obs g (r_st g r))).
Proof. exact shipped_recover. Qed.
Print Assumptions C15_shipped_algorithms.

(* The abstract space of this model (DNAs as indices, Sweeping counts up) is the enumeration of a real DNASpec:
   for every finite well-formed spec s of Model/Geno.v (C11), after c proposals, the further proposals of the
   index model — decoded through all_valid s — are exactly what Sweeping._propose yields over s (next_dna of
   the last proposed DNA; first_dna at the start).  With C15_continuation: a recovered Sweeping continues with
   exactly those DNAs. *)
Theorem C15_sweeping_over_spec : forall (s : Geno.dspec), Geno.finite s = true -> Geno.wf s = true ->
  forall (f c np nf : nat), c <= length (Geno.all_valid s) ->
  map (nth_error (Geno.all_valid s))
      (proposals (continue_from (Sweeping (Z.of_nat (length (Geno.all_valid s)))) f (mkSw np nf (last_idx c))))
  = map Some (Geno.sweeping s f (last_dna s c)).
Proof. exact sweeping_over_spec. Qed.
Print Assumptions C15_sweeping_over_spec.

(* The Deduping wrapper preserves recoverability of ANY generator it wraps (not only those of the syntax). *)
Theorem C15_dedup_wrapper : forall (g : gen) (m : Z) (hm auto maxdup maxatt : nat),
  obs_rec g anyfed HRw -> meta_pres g -> obs_rec (Deduping g m hm auto maxdup maxatt) keyfed HRk.
Proof. exact dedup_preserves_recoverability. Qed.
Print Assumptions C15_dedup_wrapper.

(* Every Evolution: ANY population initialiser, ANY reproduction operator and ANY population_update operator over
   ANY global state recover counters and population, provided the update depends only on a part [vis] of the
   global state that reproduction does not change. *)
Theorem C15_evolution_any_operators :
  forall (gi : gen) (size : option nat) (G : Type) (g0 : G)
         (repro : list dna -> G -> Z -> nat -> list Z * G) (updf : list dna -> G -> nat -> list dna * G)
         (gobs : G -> list Z) (V : Type) (vis : G -> V) (rw : Z -> Z) (evs : list Z),
  (forall pop g1 g2 step, vis g1 = vis g2 ->
     fst (updf pop g1 step) = fst (updf pop g2 step) /\ vis (snd (updf pop g1 step)) = vis (snd (updf pop g2 step))) ->
  (forall pop g ngen np, vis (snd (repro pop g ngen np)) = vis g) ->
  let g := Evolution gi size G g0 repro updf gobs in
  let r := run_events g rw evs in
  r_ok g r = true ->
  pview (obs g (recovered g (r_hist g r))) = pview (obs g (r_st g r)).
Proof. exact evolution_any_operators. Qed.
Print Assumptions C15_evolution_any_operators.

(* NSGA2 with its shipped operators modelled (nsga2_updf: elites + waiting individuals >> nondominated sort >>
   crowding-distance sort per front >> First(n) saved as elites, cursor reset, population emptied; nsga2_repro:
   next_elite moves the cursor, the mutated child is arbitrary): counters and population are recovered by
   C15_recover_observable (update kind UNsga2), and so are the elites. *)
Theorem C15_nsga2_elites : forall (m : Z) (i : alg) (sz : option nat) (n : nat) (t : list (list Z)) (rw : Z -> Z) (evs : list Z),
  let g := denote m (AEvo i sz (UNsga2 n) t) in
  let r := run_events g rw evs in
  r_ok g r = true ->
  fst (ev_g _ _ (recovered g (r_hist g r))) = fst (ev_g _ _ (r_st g r)).
Proof. exact nsga2_elites_recovered. Qed.
Print Assumptions C15_nsga2_elites.

(* NEAT: the update keeps the newest generation and then speciates; the population it returns does not depend on
   the species. For ANY speciation function over ANY state, any reproduction, any initialiser. *)
Theorem C15_neat_any_speciation :
  forall (gi : gen) (size : option nat) (G : Type) (g0 : G) (repro : list dna -> G -> Z -> nat -> list Z * G)
         (speciate : list dna -> G -> nat -> G) (gobs : G -> list Z) (rw : Z -> Z) (evs : list Z),
  let g := Evolution gi size G g0 repro (fun pop st step => (apply_upd UTopGen pop step, speciate pop st step)) gobs in
  let r := run_events g rw evs in
  r_ok g r = true ->
  pview (obs g (recovered g (r_hist g r))) = pview (obs g (r_st g r)).
Proof. exact neat_any_speciation. Qed.
Print Assumptions C15_neat_any_speciation.

(* The one excluded shape, refuted (open finding C15/nested-deduping/shared-metadata-slots): a Deduping applied
   directly to a Deduping.  Both keep 'dedup_key' and 'dedup_skipped' in the same metadata slots of the DNA. *)
Theorem C15_nested_deduping_refuted :
  let g := denote 6 ex_nested in
  let r := run_events g (fun _ => 1%Z) [0; 0; 1; 0]%Z in
  recoverable ex_nested = false /\ r_ok g r = true /\
  pview (obs g (recovered g (r_hist g r))) <> pview (obs g (r_st g r)).
Proof. exact nested_deduping_not_recovered. Qed.
Print Assumptions C15_nested_deduping_refuted.

(* Not recovered (and not claimed by the property): num_generations while the initial population is still
   being proposed — 0 in the uninterrupted run, 1 after recover. *)
Theorem C15_extra_state_refuted :
  let g := denote 4 ex_phase in
  let r := run_events g ex_rw [0; 1]%Z in
  r_ok g r = true /\ obs g (recovered g (r_hist g r)) <> obs g (r_st g r).
Proof. exact extra_state_not_recovered. Qed.
Print Assumptions C15_extra_state_refuted.

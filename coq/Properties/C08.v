(* Property C08 — write protection: sealed or accessor-protected values cannot be changed.
   Only statements and [exact]; proofs live in Proofs/SymCoreC08.v. *)
From PG Require Import Common.Tactics Model.SymCoreDefs Model.SymCoreOps Model.SymCoreSpec Proofs.SymCoreBase Proofs.SymCoreC08.
From PG Require Import Model.SymCoreC02 Proofs.SymCoreExtWF.
From Coq Require Import NArith.

(* Every operation of the enumerated [mutating] set (rebind and its aliases apart, see below) attempted on a target
   that is treated as sealed -- by its own flag or by the innermost as_sealed scope -- leaves the WHOLE state exactly
   as it was; and whenever the operation has something to do ([applicable]) the outcome is WritePermissionError. *)
Theorem C08_sealed_refuses : forall q st o tid tk pa pt fl its,
  get_at st (o_pos o) = Some (Node tid tk pa pt fl its) ->
  treats_as_sealed (o_scope o) fl = true -> mutating (o_op o) = true -> rebind_like (o_op o) = false ->
  fst (step q st o) = st /\
  (kind_ok tk (o_op o) = true -> resolvable st (o_op o) -> applicable tk its (o_op o) = true ->
   step q st o = (st, Err EWrite)).
Proof. exact sealed_refuses. Qed.
Print Assumptions C08_sealed_refuses.

(* rebind (and Dict.update / |=): the owner of every written key is checked; a key whose owner is treated as sealed is
   refused and nothing is written for it *)
Theorem C08_rebind_sealed_owner_refuses : forall q sc st tp path rv tgt app cid ck cpa cpt cfl cits,
  path <> [] -> get_at st tp = Some tgt -> query_path tgt (removelast path) = Some app ->
  get_at st (fst tp, snd tp ++ app) = Some (Node cid ck cpa cpt cfl cits) ->
  treats_as_sealed sc cfl = true ->
  rebind_one q sc st tp path rv = (st, PErr EWrite, None).
Proof. exact rebind_sealed_owner_refuses. Qed.
Print Assumptions C08_rebind_sealed_owner_refuses.

(* a sealed pg.Object refuses rebind as a whole *)
Theorem C08_sealed_object_refuses_rebind : forall q st o tid c pa pt fl its pvs,
  get_at st (o_pos o) = Some (Node tid (KObj c) pa pt fl its) ->
  treats_as_sealed (o_scope o) fl = true -> o_op o = Rebind pvs -> pvs <> [] -> resolvable st (o_op o) ->
  step q st o = (st, Err EWrite).
Proof. exact sealed_object_refuses_rebind. Qed.
Print Assumptions C08_sealed_object_refuses_rebind.

(* inside `with pg.as_sealed(True)` no mutating operation whatsoever (rebind included) changes anything *)
Theorem C08_as_sealed_scope_freezes : forall q st o,
  sealed_scope (o_scope o) = Some true -> mutating (o_op o) = true -> fst (step q st o) = st.
Proof. exact as_sealed_scope_freezes. Qed.
Print Assumptions C08_as_sealed_scope_freezes.

(* assignment / deletion through accessors is refused in the same way when accessors are not writable ... *)
Theorem C08_accessor_refuses : forall q st o tid tk pa pt fl its,
  get_at st (o_pos o) = Some (Node tid tk pa pt fl its) ->
  writable_via_accessors (o_scope o) fl = false -> accessor_op (o_op o) = true ->
  kind_ok tk (o_op o) = true -> resolvable st (o_op o) -> applicable tk its (o_op o) = true ->
  step q st o = (st, Err EWrite).
Proof. exact accessor_refuses. Qed.
Print Assumptions C08_accessor_refuses.

(* ... while rebind keeps working: its outcome depends neither on the accessor_writable flag of the target nor on the
   allow_writable_accessors scope (same sealed / notification / partial scopes, same sealed flag => same step) *)
Theorem C08_rebind_unaffected_by_accessor_flag : forall q sc sc' st ps tid tk tpth tfl tfl' its pvs,
  same_but_accessors sc sc' -> f_sealed tfl' = f_sealed tfl ->
  exec q sc' st ps tid tk tpth tfl' its (Rebind pvs) = exec q sc st ps tid tk tpth tfl its (Rebind pvs).
Proof. exact rebind_ignores_accessors. Qed.
Print Assumptions C08_rebind_unaffected_by_accessor_flag.

(* seal(b) sets the flag of every symbolic node below ... *)
Theorem C08_seal_is_deep : forall b n, every (sealed_is b) (seal_rec b n).
Proof. exact seal_rec_deep. Qed.
Print Assumptions C08_seal_is_deep.
(* (the step `x.seal(b)`: the node at the position is replaced by its deeply (un)sealed version, nothing else changes) *)
Theorem C08_seal_step : forall q st sc ps b tgt,
  get_at st ps = Some tgt -> is_node tgt = true ->
  fst (step q st (mkSop sc ps (Seal b))) = update_at st ps (seal_rec b) /\
  get_at (fst (step q st (mkSop sc ps (Seal b)))) ps = Some (seal_rec b tgt) /\
  every (sealed_is b) (seal_rec b tgt).
Proof. exact seal_step. Qed.
Print Assumptions C08_seal_step.
(* ... changes nothing else ... *)
Theorem C08_seal_only_flag : forall b n, unsealed_view (seal_rec b n) = unsealed_view n.
Proof. exact seal_rec_only_flag. Qed.
Print Assumptions C08_seal_only_flag.
(* ... and unsealing after sealing is the same as unsealing *)
Theorem C08_unseal_after_seal : forall n, seal_rec false (seal_rec true n) = seal_rec false n.
Proof. exact unseal_seal. Qed.
Print Assumptions C08_unseal_after_seal.

(* scoped overrides: the innermost enclosing override decides; None hands the decision back to the object's flag *)
Theorem C08_scope_precedence : forall sc o fl,
  treats_as_sealed (push_sealed o sc) fl = match o with Some b => b | None => f_sealed fl end /\
  writable_via_accessors (push_aw o sc) fl = match o with Some b => b | None => f_aw fl end.
Proof. intros; split; [apply innermost_sealed_wins | apply innermost_aw_wins]. Qed.
Print Assumptions C08_scope_precedence.

(* Slice assignment l[a:b:c] = vs and slice deletion del l[a:b:c] (C02 extension of the model, [step_x]) are writes through
   accessors: on a list that is treated as sealed, or whose accessors are not writable, they are refused with
   WritePermissionError and the whole state is exactly as it was -- whatever the slice and the values. *)
Theorem C08_slice_write_refused : forall q st sc ps x tid pa pt fl its,
  get_at st ps = Some (Node tid KList pa pt fl its) -> slice_write x = true ->
  treats_as_sealed sc fl = true \/ writable_via_accessors sc fl = false ->
  (exists rx, resolve_xop st x = Some rx) ->
  step_x q st sc ps x = (st, Err EWrite).
Proof. exact slice_write_refused. Qed.
Print Assumptions C08_slice_write_refused.

(* Property C07 — clone fidelity and independence.  Only statements and [exact]; proofs live in Proofs/SymCoreC07.v,
   Proofs/SymCoreClone.v. *)
From PG Require Import Common.Tactics Model.SymCoreDefs Model.SymCoreOps Model.SymCoreSpec
     Proofs.SymCoreBase Proofs.SymCoreWF Proofs.SymCoreClone Proofs.SymCoreWFOps Proofs.SymCoreIds Proofs.SymCoreFrame Proofs.SymCoreC07.
From PG Require Import Model.SymCoreC02 Proofs.SymCoreExtWF.
From Coq Require Import NArith.

(* What a clone step does: the copy [clone_at ...] of the node found at the position is appended as a new root; every
   existing slot stays exactly as it was (cloning never modifies the original, nor anything else). *)
Theorem C07_clone_step : forall q st o m tid tk pa pt fl its,
  o_op o = Clone m -> get_at st (o_pos o) = Some (Node tid tk pa pt fl its) ->
  let r := clone_at (q_copy_drops_missing q) (N.eqb m 1 || N.eqb m 3) None [] (Node tid tk pa pt fl its) (next_id st, []) in
  roots (fst (step q st o)) = roots st ++ [Live (fst r)] /\
  next_id (fst (step q st o)) = fst (snd r) /\
  snd (step q st o) = Ok (RPos (length (roots st), [])).
Proof. exact clone_step. Qed.
Print Assumptions C07_clone_step.

Theorem C07_original_untouched : forall q st o m,
  o_op o = Clone m ->
  roots (fst (step q st o)) = roots st \/ exists c, roots (fst (step q st o)) = roots st ++ [Live c].
Proof. exact clone_appends. Qed.
Print Assumptions C07_original_untouched.

(* The copy is the same value: same keys, same leaves, same classes (deep or shallow; under any parent / path) ... *)
Theorem C07_clone_equal : forall q deep n pa p cs ep0 epth0,
  no_quirks q -> wf_node ep0 epth0 n ->
  erase (fst (clone_at (q_copy_drops_missing q) deep pa p n cs)) = erase n.
Proof. intros. eapply clone_erase; eauto. left; auto. Qed.
Print Assumptions C07_clone_equal.
(* (The model keeps a flag for trees in which a list that holds MISSING_VALUE loses it in the copy -- repaired in /repo fd6d2c7;
   the harness sets it only when it can replay that defect.  Proofs/SymCoreC07.v: clone_erase covers that case for every value that
   holds no MISSING_VALUE, clone_equal_refuted is the counterexample with the flag on.) *)

(* ... with the same flags (sealed, accessor-writable, partial) on every corresponding node ... *)
Theorem C07_clone_flags : forall q deep n pa p cs ep0 epth0,
  wf_node ep0 epth0 n -> copy_exact (q_copy_drops_missing q) n ->
  kflags (fst (clone_at (q_copy_drops_missing q) deep pa p n cs)) = kflags n.
Proof. intros. eapply clone_flags; eauto. Qed.
Print Assumptions C07_clone_flags.

(* ... it is a well-formed tree of its own ... *)
Theorem C07_clone_wf : forall dm deep n cs ep0 epth0,
  wf_node ep0 epth0 n -> wf_node None [] (fst (clone_at dm deep None [] n cs)).
Proof. intros. eapply clone_at_wf; eauto. Qed.
Print Assumptions C07_clone_wf.

(* ... made of fresh, pairwise distinct node ids: it shares no symbolic node with anything that exists ... *)
Theorem C07_clone_fresh : forall dm deep n pa p cs,
  (fst cs <= fst (snd (clone_at dm deep pa p n cs)))%N /\
  in_range (fst cs) (fst (snd (clone_at dm deep pa p n cs))) (ids (fst (clone_at dm deep pa p n cs))) /\
  NoDup (ids (fst (clone_at dm deep pa p n cs))).
Proof. exact clone_at_ids. Qed.
Print Assumptions C07_clone_fresh.

(* ... and a shallow copy shares exactly the non-symbolic leaf objects: the same identities at the same places. *)
Theorem C07_shallow_shares_leaves : forall dm n pa p cs ep0 epth0,
  wf_node ep0 epth0 n -> copy_exact dm n -> oview (fst (clone_at dm false pa p n cs)) = oview n.
Proof. exact shallow_shares_leaves. Qed.
Print Assumptions C07_shallow_shares_leaves.

(* copy.copy / copy.deepcopy / Dict.copy coincide with clone() / clone(deep=True) / clone() *)
Theorem C07_copy_is_clone : forall q st sc ps,
  step q st (mkSop sc ps (Clone 2)) = step q st (mkSop sc ps (Clone 0)) /\
  step q st (mkSop sc ps (Clone 3)) = step q st (mkSop sc ps (Clone 1)).
Proof. exact copy_is_clone. Qed.
Print Assumptions C07_copy_is_clone.
Theorem C07_dict_copy_is_clone : forall q st sc ps tid pa pt fl its,
  get_at st ps = Some (Node tid KDict pa pt fl its) ->
  step q st (mkSop sc ps DCopy) = step q st (mkSop sc ps (Clone 0)).
Proof. exact dict_copy_is_clone. Qed.
Print Assumptions C07_dict_copy_is_clone.

(* Independence.  The frame property of a step: an operation addressed inside one root and handed values from some other
   roots ([touched o]) leaves every OTHER tree the user holds exactly as it was.  With C07_clone_fresh (the copy is a new
   root of fresh ids) no mutation of the original is observable through the copy and vice versa ... *)
Theorem C07_independence : forall q st o r t,
  WF st -> ~ In r (touched o) -> nth_error (roots st) r = Some (Live t) ->
  nth_error (roots (fst (step q st o))) r = Some (Live t).
Proof. exact frame_WF. Qed.
Print Assumptions C07_independence.
(* ... for any later history of operations that do not address it. *)
Theorem C07_independence_history : forall q ops st r t,
  WF st -> Forall (fun o => ~ In r (touched o)) ops -> nth_error (roots st) r = Some (Live t) ->
  nth_error (roots (run_ops q st ops)) r = Some (Live t).
Proof. exact frame_history_WF. Qed.
Print Assumptions C07_independence_history.

(* The same over the whole list / dict surface: slice assignment, slice deletion, d | m and m | d of the C02 extension of the
   model ([step2], [touched2]: the root addressed plus the roots values are handed from). *)
Theorem C07_independence_full_surface : forall q st o r t,
  WF st -> ~ In r (touched2 o) -> nth_error (roots st) r = Some (Live t) ->
  nth_error (roots (fst (step2 q st o))) r = Some (Live t).
Proof. exact frame2_WF. Qed.
Print Assumptions C07_independence_full_surface.
Theorem C07_independence_history_full_surface : forall q ops st r t,
  WF st -> Forall (fun o => ~ In r (touched2 o)) ops -> nth_error (roots st) r = Some (Live t) ->
  nth_error (roots (run_ops2 q st ops)) r = Some (Live t).
Proof. exact frame2_history. Qed.
Print Assumptions C07_independence_history_full_surface.

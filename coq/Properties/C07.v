(* Property C07 — clone fidelity and independence.  Only statements and [exact]; proofs live in Proofs/SymCoreC07.v. *)
From PG Require Import Common.Tactics Model.SymCoreDefs Model.SymCoreOps Model.SymCoreSpec Proofs.SymCoreBase Proofs.SymCoreC07.
From Coq Require Import NArith.

(* Cloning never modifies what exists: the step appends the copy as a new root and leaves every slot as it was. *)
Theorem C07_original_untouched : forall q st o m,
  o_op o = Clone m ->
  roots (fst (step q st o)) = roots st \/ exists c, roots (fst (step q st o)) = roots st ++ [Live c].
Proof. exact clone_appends. Qed.
Print Assumptions C07_original_untouched.

(* C03 — schema invariant: a typed symbolic value always satisfies its declared schema.
   Statements over Model/SymCoreTyped.v; proofs in Proofs/SymCoreTyped*.v.  See design/C03.md. *)
From Coq Require Import ZArith NArith List Bool.
Import ListNotations.
From PG Require Import Model.SymCoreDefs Model.SymCoreOps Model.SymCoreTyped.
From PG Require Import Proofs.SymCoreTypedBase Proofs.SymCoreTypedConf Proofs.SymCoreTypedLit Proofs.SymCoreTypedPrims
                       Proofs.SymCoreTypedOps Proofs.SymCoreTypedTheorems Proofs.SymCoreTypedBridge.
From PG Require Import Model.Typing.
Local Open Scope Z_scope.

(* The invariant, for every history of the modelled operations (successful AND refused calls: a step is a call with its
   outcome), every scope stack, every forest constructed from the case (constructions that are refused leave no value):
   every node that carries a schema satisfies [Conforms] (Proofs/SymCoreTypedConf.v; spelled out by the two theorems
   below).  [_partial]: the schemas of the table are union-free, their frozen values and Enum candidates atomic
   ([good_env]: this keeps clear of the two open findings that live inside the vocabulary of the model), and the flag of
   the Union finding is off.  P records whether the history may use an allow_partial(True) scope. *)
Theorem C03_schema_invariant_partial : forall q ev P rs ops,
  good_env ev -> history_ok P ops ->
  Conforms ev P (run_ops2 q false ev (fst (init_roots false ev empty_state rs)) ops).
Proof. exact schema_invariant. Qed.
Print Assumptions C03_schema_invariant_partial.

(* one step, from any conforming forest *)
Theorem C03_schema_invariant_step_partial : forall q ev P st o,
  good_env ev -> scope_ok P (o2_scope o) -> Conforms ev P st -> Conforms ev P (fst (step2 q false ev st o)).
Proof. exact schema_invariant_step. Qed.
Print Assumptions C03_schema_invariant_step_partial.

(* What Conforms says about a list that carries a List spec: sizes within the declared bounds, every leaf item accepted by
   the element spec and mapped to itself, every dict / list item routed by the element spec to a Dict / List spec (or Any)
   and carrying exactly that spec ([carries]; a field that routes it to Any binds nothing, and the item answers for itself with
   whatever spec it carries), MISSING_VALUE only when the value was made partial. *)
Theorem C03_conforms_list : forall ev P st ps i pa pt fl its e mn mx m,
  Conforms ev P st -> get_at st ps = Some (Node i KList pa pt fl its) -> spec_at ev (f_spec fl) = Some (SList e mn mx m) ->
  mn <= count_present its /\ count_present its <= zlen its /\ (forall mm, mx = Some mm -> zlen its <= mm) /\
  (forall k l, In (k, Leaf l) its -> exists p', apply p' e (leaf_pv l) = Ok (leaf_pv l)) /\
  (forall k j kd pa' pt' fl' its', In (k, Node j kd pa' pt' fl' its') its ->
     match kd with
     | KDict => route true e = true /\ carries ev fl' (bound_for true e)
     | KList => route false e = true /\ carries ev fl' (bound_for false e)
     | KObj c => exists p', apply p' e (obj_pv c) = Ok (obj_pv c)
     end) /\
  (good e = true -> part P fl = false -> forall k, ~ In (k, Leaf LMissing) its).
Proof. exact conforms_list. Qed.
Print Assumptions C03_conforms_list.

(* ... and about a dict / an object that carries a schema: only declared keys, every declared key present, every leaf member
   accepted by its field and mapped to itself, a frozen field equal to its frozen value, a required field MISSING_VALUE
   only when the value was made partial. *)
Theorem C03_conforms_dict : forall ev P st ps i kd pa pt fl its fs m,
  Conforms ev P st -> get_at st ps = Some (Node i kd pa pt fl its) -> kd <> KList ->
  spec_at ev (f_spec fl) = Some (SDict (Some fs) m) ->
  (forall k c, In (k, c) its -> exists f, dict_field fs k = Some f) /\
  (forall s, has_const s fs = true -> SymCoreDefs.has_key (KS s) its = true) /\
  (forall k l f, In (k, Leaf l) its -> dict_field fs k = Some f ->
     (exists p', apply p' f (leaf_pv l) = Ok (leaf_pv l)) /\ (frozen (mods_of f) = true -> leaf_pv l = dflt (mods_of f))) /\
  (forall k f, In (k, Leaf LMissing) its -> dict_field fs k = Some f -> good f = true -> part P fl = true).
Proof. exact conforms_dict. Qed.
Print Assumptions C03_conforms_dict.

(* The property as it is worded.  [Conforms] is local (each node answers for its immediate members); this is the step to whole
   values: after any history without an allow_partial(True) scope, for every dict / list / object n of the forest that carries a
   schema sp ([bound_to]) and was not made partial, nor anything below it ([total_node]), the Python value of n — nested dicts and
   lists, an object below standing for its class; for an object n itself, its attribute dict ([value_of]) — is accepted by sp
   and mapped to itself by Typing.apply with allow_partial = False.  [closed_env]: the table holds the Dict / List specs that
   the fields of its entries bind their members to (the harness builds every table that way); [keyed]: dict nodes have
   pairwise distinct keys (they are Python dicts).  Partial for the same reasons as the invariant ([good_env]). *)
Theorem C03_schema_holds_after_history_partial : forall q ev rs ops ps n sp,
  good_env ev -> closed_env ev -> history_ok false ops ->
  get_at (run_ops2 q false ev (fst (init_roots false ev empty_state rs)) ops) ps = Some n ->
  total_node n -> keyed n -> bound_to ev n sp ->
  apply false sp (value_of n) = Ok (value_of n).
Proof. exact schema_holds_after_history. Qed.
Print Assumptions C03_schema_holds_after_history_partial.

(* ... from any conforming forest *)
Theorem C03_conforming_value_reapplies_partial : forall ev, good_env ev -> closed_env ev -> forall st ps n sp,
  Conforms ev false st -> get_at st ps = Some n -> total_node n -> keyed n -> bound_to ev n sp ->
  apply false sp (value_of n) = Ok (value_of n).
Proof. exact conforming_value_reapplies. Qed.
Print Assumptions C03_conforming_value_reapplies_partial.

(* A write that is rejected (with any error: type / value / key errors of the schema, and also permission and index
   errors) is not stored: a refused operation that is not a batch, on a target that checks its members against a schema,
   leaves the whole forest exactly as it was (any quirk flags). *)
Theorem C03_rejected_not_stored : forall q nf ev st o st' e,
  step2 q nf ev st o = (st', SymCoreOps.Err e) -> batch_op (o2_op o) = false ->
  (forall n, get_at st (o2_pos o) = Some n -> checks_members ev n = true) ->
  st' = st.
Proof. exact step2_rejected_unchanged. Qed.
Print Assumptions C03_rejected_not_stored.

(* "A batch may have applied its earlier, valid elements": when a rebind / update batch is refused at some element, the
   state is the one its elements before the refused one produce, and the refused element itself changes nothing. *)
Theorem C03_rejected_batch_prefix : forall q nf ev sc pvs st tp upd st' upd' e,
  trebind_loop q nf ev sc st tp pvs upd = (st', upd', Some e) ->
  exists pre p x post,
    pvs = pre ++ (p, x) :: post /\
    trebind_loop q nf ev sc st tp pre upd = (st', upd', None) /\
    exists c, trebind_one q nf ev sc st' tp p x = (st', PErr e, c).
Proof. exact trebind_loop_prefix. Qed.
Print Assumptions C03_rejected_batch_prefix.

Theorem C03_rejected_extend_prefix : forall q nf ev sc xs st ps upd st' upd' e,
  textend_loop q nf ev sc st ps xs upd = (st', upd', Some e) ->
  exists pre x post u,
    xs = pre ++ x :: post /\
    textend_loop q nf ev sc st ps pre upd = (st', u, None) /\
    tprim q nf ev sc st' ps (KI (cur_len st' ps)) x = (st', PErr e).
Proof. exact textend_loop_prefix. Qed.
Print Assumptions C03_rejected_extend_prefix.

(* Open finding, inside the model: a dict held by a frozen field is written to in depth (d.a.b = 2 with a frozen to
   {b: 1}); afterwards the field's spec no longer maps the member to itself.  (The schema is outside [good_env].) *)
Theorem C03_frozen_container_refuted :
  gstate frozen_ev (fst (init_roots false frozen_ev empty_state frozen_roots)) = true /\
  gstate frozen_ev (run_ops2 q0 false frozen_ev (fst (init_roots false frozen_ev empty_state frozen_roots)) frozen_ops) = false /\
  forallb good (e_tab frozen_ev) = false.
Proof. exact frozen_deep_witness. Qed.
Print Assumptions C03_frozen_container_refuted.

(* Open finding (C04 seen through a typed container): with the flag on — the code as it is — the value a Union hands out
   is stored although the Union does not map it to itself; with the flag off the model refuses to store it. *)
Theorem C03_union_result_refuted :
  gstate union_ev (run_ops2 q0 true union_ev (fst (init_roots true union_ev empty_state union_roots)) union_ops) = false /\
  gstate union_ev (run_ops2 q0 false union_ev (fst (init_roots false union_ev empty_state union_roots)) union_ops) = true.
Proof. exact union_witness. Qed.
Print Assumptions C03_union_result_refuted.

(* C03 — schema invariant: a typed symbolic value always satisfies its declared schema.
   Statements over Model/SymCoreTyped.v; proofs in Proofs/SymCoreTyped*.v.  See design/C03.md. *)
From Coq Require Import ZArith NArith List Bool.
Import ListNotations.
From PG Require Import Model.SymCoreDefs Model.SymCoreOps Model.SymCoreTyped Proofs.SymCoreTypedBase.
From PG Require Model.Typing.

(* A write that is rejected (with any error: type / value / key errors of the schema, and also permission and index
   errors) is not stored: a refused operation that is not a batch, on a target that checks its members against a schema,
   leaves the whole forest exactly as it was. *)
Theorem C03_rejected_not_stored : forall q nf ev st o st' e,
  step2 q nf ev st o = (st', Err e) -> batch_op (o2_op o) = false ->
  (forall n, get_at st (o2_pos o) = Some n -> checks_members ev n = true) ->
  st' = st.
Proof. exact step2_rejected_unchanged. Qed.
Print Assumptions C03_rejected_not_stored.

(* "A batch may have applied its earlier, valid elements": when a rebind / update batch is refused at some element, the
   state is the one its elements before the refused one produce, and the refused element itself changes nothing. *)
Theorem C03_rejected_batch_prefix : forall q nf ev sc pvs st tp upd st' upd' e,
  trebind_loop q nf ev sc st tp pvs upd = (st', upd', Some e) ->
  exists pre p x post,
    pvs = pre ++ (p, x) :: post /\
    trebind_loop q nf ev sc st tp pre upd = (st', upd', None) /\
    exists c, trebind_one q nf ev sc st' tp p x = (st', PErr e, c).
Proof. exact trebind_loop_prefix. Qed.
Print Assumptions C03_rejected_batch_prefix.

Theorem C03_rejected_extend_prefix : forall q nf ev sc xs st ps upd st' upd' e,
  textend_loop q nf ev sc st ps xs upd = (st', upd', Some e) ->
  exists pre x post u,
    xs = pre ++ x :: post /\
    textend_loop q nf ev sc st ps pre upd = (st', u, None) /\
    tprim q nf ev sc st' ps (KI (cur_len st' ps)) x = (st', PErr e).
Proof. exact textend_loop_prefix. Qed.
Print Assumptions C03_rejected_extend_prefix.
